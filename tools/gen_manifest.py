#!/usr/bin/env python3
"""Assemble /verif/MANIFEST.json from harness/manifest/*.json fragments (developer tool)."""
import json, glob, os, subprocess
base = os.path.join(os.path.dirname(os.path.abspath(__file__)), "..")
props = [json.loads(l)["id"] for l in open(os.path.join(base, "properties.jsonl"))]
checks = []
ready = open(os.path.join(base, "harness", "manifest", "READY")).read().split()      # slices whose checks are integrated and green
for p in sorted(glob.glob(os.path.join(base, "harness", "manifest", "C*.json"))):
    c = json.load(open(p))
    if c["property_id"] in ready:
        checks.append(c)
claimed = {c["property_id"] for c in checks}
na_file = os.path.join(base, "harness", "manifest", "not_applicable.json")
na = json.load(open(na_file)) if os.path.exists(na_file) else {}
hooks = subprocess.run(["git", "-C", "/repo", "log", "--format=%h %s"], capture_output=True, text=True).stdout.splitlines()
hook_commits = [l.split()[0] for l in hooks if l.split(" ", 1)[1].startswith("verif hook")]
m = {
 "version": 1,
 "setup_cmd": "true",
 "hooks": {"guard": "NANOLANG_VERIF",
           "enable": "checks copy /repo's working tree to a scratch directory and build it with CFLAGS containing -DNANOLANG_VERIF (harness/lib/common.py VARIANTS); hooks stay inert unless a NANOLANG_VERIF_* environment variable names a trace sink",
           "baseline_off_cmd": "/verif/tools/baseline.sh",
           "source_commits": hook_commits, "add_only": True},
 "engines": [{"name": "tlc", "path": "/opt/veriftools/tla/tla2tools.jar", "serves_properties": sorted(claimed),
              "kind_free_text": "TLC model checker on the TLA+ specification suite in /verif/spec; replay probes and trace validation bind it to the code"}],
 "checks": checks,
 "not_applicable": [{"property_id": p, "reason": na.get(p, "check not built yet in this round (see DESIGN.md section 6 for the design)")}
                    for p in props if p not in claimed],
 "notes": "Entry point ./check <Cnn> --tier quick|thorough; design in DESIGN.md; known findings in known_findings.json and known_findings.d/.",
}
json.dump(m, open(os.path.join(base, "MANIFEST.json"), "w"), indent=1)
print("claimed", sorted(claimed), "not applicable", [p for p in props if p not in claimed])
