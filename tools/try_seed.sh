#!/bin/bash
# try_seed.sh <seed dir containing patch.diff [run_demo.sh]> <Cnn> [tier]
# Applies the patch to a scratch copy of /repo, checks that it builds and passes the pinned suite, runs the demo on the
# patched and the unpatched tree, runs ./check <Cnn> against the patched copy (VERIF_REPO) and reports.
set -u
D=$(readlink -f "$1"); P=$2; TIER=${3:-quick}
S=/var/tmp/seedtry.$$; rm -rf $S; mkdir -p $S
trap 'rm -rf $S' EXIT
rsync -a --exclude .git --exclude /obj --exclude /bin --exclude /build /repo/ $S/mut/
( cd $S/mut && patch -p1 -s < "$D/patch.diff" ) || { echo "RESULT patch-does-not-apply"; exit 3; }
base=$(/verif/tools/baseline.sh $S/mut 2>&1 | tail -1)
echo "baseline(with patch): $base"
echo "$base" | grep -q "62 passed, 0 failed" || { echo "RESULT baseline-fails"; exit 3; }
if [ -x "$D/run_demo.sh" ]; then
  ( cd $S/mut && mkdir -p bin && make -f Makefile.gnu -j8 nano_virt nano_vm nano_cop nano_vmd bin/nanoc_c >/dev/null 2>&1 )
  rsync -a --exclude .git --exclude /obj --exclude /bin --exclude /build /repo/ $S/orig/
  ( cd $S/orig && mkdir -p bin && make -f Makefile.gnu -j8 nano_virt nano_vm nano_cop nano_vmd bin/nanoc_c >/dev/null 2>&1 )
  ( cd "$D" && timeout 300 ./run_demo.sh $S/mut >/dev/null 2>&1 ); dm=$?
  ( cd "$D" && timeout 300 ./run_demo.sh $S/orig >/dev/null 2>&1 ); do_=$?
  echo "demo: with patch exit=$dm, without exit=$do_"
fi
cd /verif
out=$(VERIF_REPO=$S/mut timeout 3000 ./check $P --tier $TIER 2>&1); rc=$?
echo "$out" | grep "^VIOLATION\|violation:" | head -5
echo "check $P exit=$rc violations=$(echo "$out" | grep -c '^VIOLATION')"
[ $rc -eq 1 ] && echo "RESULT detected" || echo "RESULT missed(rc=$rc)"
