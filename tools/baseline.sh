#!/bin/bash
# Run the repository's pinned baseline (61 codegen tests) on a scratch copy of /repo's working tree,
# guard OFF (repo's own CFLAGS incl. -Werror).  usage: baseline.sh [repo]
set -e
REPO=${1:-${VERIF_REPO:-/repo}}
S=${VERIF_SCRATCH:-/var/tmp}/nlbase.$$
trap 'rm -rf "$S"' EXIT
mkdir -p "$S" && rsync -a --exclude .git --exclude /obj --exclude /bin --exclude /build "$REPO"/ "$S"/src/
cd "$S/src" && mkdir -p bin && TMPDIR="$S" timeout 900 make -f Makefile.gnu -j16 test-nanovirt 2>&1 | tail -5
