#!/bin/bash
# run every claimed check (quick tier by default) and print one summary line each
cd "$(dirname "$0")/.."
for c in $(cat harness/manifest/READY); do
  s=$(date +%s)
  out=$(timeout 3600 ./check $c --tier ${1:-quick} 2>&1); rc=$?
  echo "$c rc=$rc $(( $(date +%s) - s ))s viol=$(echo "$out" | grep -c '^VIOLATION') known=$(echo "$out" | grep -c '^KNOWN-FINDING')"
  [ $rc -ne 0 ] && echo "$out" | grep "VIOLATION\|nfrastructure\|Error" | head -5
done
