#!/usr/bin/env python3
"""mark_fixed.py <finding-id> <commit>: set status "fixed: <commit>" on a known-findings entry (developer tool, never run by checks)."""
import sys, json, glob, os
fid, commit = sys.argv[1], sys.argv[2]
base = os.path.join(os.path.dirname(os.path.abspath(__file__)), "..")
for p in [os.path.join(base, "known_findings.json")] + sorted(glob.glob(os.path.join(base, "known_findings.d", "*.json"))):
    d = json.load(open(p)); hit = False
    for f in d.get("findings", []):
        if f["id"] == fid:
            f["status"] = "fixed: " + commit; hit = True
    if hit:
        json.dump(d, open(p, "w"), indent=1); print("updated", p)
