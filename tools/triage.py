#!/usr/bin/env python3
"""triage.py <prop> <program id> [native|vm]: reduce a corpus program while the two backends (or one backend and the
prescription) still disagree; prints the reduced source and the observations.  Developer tool."""
import sys, os, json, importlib
sys.path.insert(0, os.path.join(os.path.dirname(os.path.abspath(__file__)), "..", "harness"))
from lib.common import *
from lib.nano_ast import *
from lib.reduce import reduce_prog
from lib.run_prog import Engines
from lib.sem_common import *
prop, pid = sys.argv[1], sys.argv[2]
mode = sys.argv[3] if len(sys.argv) > 3 else "diff"
mod = importlib.import_module("props." + prop.lower())
ctx = Ctx("T" + prop[1:], os.environ.get("VERIF_TIER", "quick")); ctx.seed = int(os.environ.get("VERIF_SEED", "1"))
p = mod.corpus(ctx)[pid]
eng = Engines(ctx)
cnt = [0]
def pred(q):
    cnt[0] += 1
    d = eng.write("r%d" % cnt[0], pretty(q))
    v = eng.vm(d, timeout=5)
    if vm_class(v): return False
    n = eng.native(d, timeout=5)
    if not n["exe"]: return False
    if mode == "diff":
        return observe(n["run"]) != observe(v)
    base, _ = prescribe(ctx, [job("x", q)], workers=1)
    if base["x"]["status"] != "ok": return False
    return not matches(observe(n["run"] if mode == "native" else v), expected(base["x"]))
q = reduce_prog(p, pred)
print(pretty(q, default_shadows=False)); print("tries", cnt[0])
d = eng.write("final", pretty(q)); v = eng.vm(d); n = eng.native(d)
print("native", observe(n["run"]), n["run"]["err"][-300:]); print("vm", observe(v), v["err"][-300:])
base, _ = prescribe(ctx, [job("x", q)], workers=1); print("prescribed", expected(base["x"]))
