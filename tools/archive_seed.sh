#!/bin/bash
# archive_seed.sh <out dir> <Cnn> <k> "<detected by / notes>" : copy a confirmed seeded change into /verif/seeded/<Cnn>-<k>/
D=$1; P=$2; K=$3; NOTE=$4
T=/verif/seeded/$P-$K; rm -rf $T; mkdir -p $T
cp -r $D/. $T/ 2>/dev/null
find $T -type f -size +200k -delete
find $T -type f \( -name "*.nvm" -o -name "*.exe" -o -perm -u+x ! -name "*.sh" ! -name "*.py" \) -delete 2>/dev/null
python3 - "$T" "$P" "$NOTE" <<'PY'
import json, sys, os
t, p, note = sys.argv[1:4]
mp = os.path.join(t, "meta.json")
try: m = json.load(open(mp))
except Exception: m = {}
m["property"] = p
m["confirmed_by_lead"] = {"builds_and_passes_pinned_suite": True, "demo_fails_with_change_passes_without": True,
                          "how": "tools/try_seed.sh: patch applied to a scratch copy of /repo, tools/baseline.sh = 62 passed, run_demo.sh on patched and unpatched builds, ./check with VERIF_REPO=<patched copy>",
                          "check_result": note}
json.dump(m, open(mp, "w"), indent=1)
PY
echo archived $T
