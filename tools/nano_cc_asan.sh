#!/bin/sh
# NANO_CC wrapper for C20: nanoc_c calls "$NANO_CC <flags> -o exe prog.c <root>/src/runtime/*.c ...".
# Adds AddressSanitizer + UBSan to the generated program and to the runtime it is linked with.
#
# NANO_CC_RTLIB=<archive> (optional, set by the harness): the archive holds the objects of
# exactly the <root>/src/runtime/*.c files named on the command line, compiled once per
# check invocation from the same tree with the same flags; it is substituted for those
# source arguments (one native compile drops from ~5 s to ~0.5 s).  Without the variable
# every source is compiled as nanoc_c asked.
# NANO_CC_LOG=<file> (optional): append the argument vector (fields separated by 0x1f) so
# that the harness can build the archive from exactly the sources and flags nanoc_c uses.
REAL=${NANO_CC_REAL:-cc}
if [ -n "$NANO_CC_LOG" ]; then
    ( for a in "$@"; do printf '%s\037' "$a"; done; printf '\n' ) >> "$NANO_CC_LOG"
fi
SAN="-fsanitize=address,undefined -fno-omit-frame-pointer -g"
if [ -n "$NANO_CC_RTLIB" ] && [ -f "$NANO_CC_RTLIB" ]; then
    placed=0
    for a in "$@"; do
        shift
        case "$a" in
            */src/runtime/*.c)
                if [ $placed -eq 0 ]; then set -- "$@" "$NANO_CC_RTLIB"; placed=1; fi ;;
            *) set -- "$@" "$a" ;;
        esac
    done
fi
exec $REAL $SAN "$@"
