#!/bin/sh
# Binding self-test for C17/C18: apply one realistic regression to a scratch copy of the tree under test
# (never to /repo), show it compiles and passes the pinned suite, and run the check against it.
# usage: vmd_selftest.sh <base tree with H4 applied> <mutation id> <C17|C18> [tier]
set -e
BASE=$1; M=$2; PROP=$3; TIER=${4:-quick}
MUT=/var/tmp/vmd-mut.$M
rm -rf $MUT; mkdir -p $MUT
rsync -a --exclude .git --exclude /obj --exclude /bin $BASE/ $MUT/
cd $MUT
S=src/nanovm/vmd_server.c
case $M in
  static_vm)     sed -i 's/^        VmState vm;$/        static VmState vm;/' $S ;;
  static_errbuf) sed -i 's/^            char errbuf\[512\];$/            static char errbuf[512];/' $S ;;
  output_null)   sed -i 's/^        vm.output = sock_out;  .*$/        (void)sock_out;/' $S ;;
  no_flush)      sed -i 's/^        if (sock_out) fflush(sock_out);$/        ;/' $S ;;
  exit_always0)  sed -i 's/^            exit_code = 1;$/            exit_code = 0;/' $S ;;
  sigpipe)       sed -i 's/^    sigaction(SIGPIPE, &sa, NULL);$/    (void)sa;/' $S ;;
  no_lencheck)   sed -i 's/^    if (hdr->payload_len > VMD_MAX_PAYLOAD)$/    if (0)/' src/nanovm/vmd_protocol.c
                 sed -i 's/hdr.payload_len == 0 || hdr.payload_len > VMD_MAX_PAYLOAD/hdr.payload_len == 0/' $S ;;
  no_decrement)  sed -i 's/^    g_active_clients--;$/    ;/' $S ;;
  no_version)    sed -i 's/^    if (hdr->version != VMD_PROTO_VERSION)$/    if (0)/' src/nanovm/vmd_protocol.c ;;
  unknown_silent) sed -i 's/^        vmd_msg_send_error(fd, "Unknown message type");$/        for (;;) pause();/' $S ;;
  shared_cookie) sed -i 's/^    SocketCookie \*sc = malloc(sizeof(SocketCookie));$/    static SocketCookie shared_sc; SocketCookie *sc = \&shared_sc;/; s/^    free(cookie);$/    (void)cookie;/' $S ;;
  *) echo "unknown mutation $M"; exit 2 ;;
esac
if diff -rq $BASE/src $MUT/src > /dev/null; then echo "MUTATION DID NOT APPLY"; exit 2; fi
diff -r $BASE/src $MUT/src | grep '^[<>]' | head -8
make -f Makefile.gnu -j8 test-nanovirt > suite.log 2>&1 || true
echo "pinned suite: $(grep -o '[0-9]* passed' suite.log | tail -1)"
cd /verif
VERIF_REPO=$MUT VERIF_JOBS=${VERIF_JOBS:-8} timeout 3000 ./check $PROP --tier $TIER 2>&1 | grep -v '^\[verif\] \(copied\|built\|tlc\)' | cut -c1-400 | grep 'VIOLATION\|KNOWN\|violation:\|done\|infrastructure' | head -12
echo "check exit: $?"
rm -rf $MUT
