#!/usr/bin/env python3
"""Regenerate DESIGN.md section 13 (findings) from known_findings.json + known_findings.d/*.json (developer tool)."""
import json, glob, os, re
base = os.path.join(os.path.dirname(os.path.abspath(__file__)), "..")
fs = json.load(open(os.path.join(base, "known_findings.json")))["findings"]
for p in sorted(glob.glob(os.path.join(base, "known_findings.d", "*.json"))):
    fs += json.load(open(p))["findings"]
def row(f):
    props = ", ".join(f.get("properties", [f.get("property", "?")]))
    summ = f.get("summary", "").replace("|", "\\|").replace("\n", " ")
    return "| %s | %s | %s | %s |" % (f["id"], props, f.get("status", "known"), summ[:420])
known = [f for f in fs if f.get("status", "known") == "known"]
fixed = [f for f in fs if f.get("status", "").startswith("fixed")]
text = """## 13. Findings: fixed in /repo and known

Generated from `known_findings.json` and `known_findings.d/*.json` (`tools/design_sections.py`). A *fixed* entry names the
`fix:` commit in /repo and suppresses nothing; a *known* entry is a genuine defect of the unchanged tree that is recorded
rather than repaired (the repair is not small/safe, or is a semantic decision of the maintainers); the checks print one
`KNOWN-FINDING:` line per entry they hit and still report any *other* break of the same property.

### 13.1 Known (recorded, not repaired): %d

| id | properties | status | what fails |
|---|---|---|---|
%s

### 13.2 Fixed by `fix:` commits in /repo: %d

| id | properties | status (commit) | what failed |
|---|---|---|---|
%s
""" % (len(known), "\n".join(row(f) for f in known), len(fixed), "\n".join(row(f) for f in fixed))
p = os.path.join(base, "DESIGN.md")
s = open(p).read()
m = re.search(r"\n## 13\. Findings: fixed in /repo and known.*?(?=\n## Appendix|\Z)", s, re.S)
if m:
    s = s[:m.start()] + "\n" + text + s[m.end():]
else:
    i = s.index("## Appendix")
    s = s[:i] + text + "\n---------------------------------------------------------------------------\n\n" + s[i:]
open(p, "w").write(s)
print(len(known), "known,", len(fixed), "fixed")
