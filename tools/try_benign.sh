#!/bin/bash
# try_benign.sh <dir containing patch.diff> <Cnn> [<Cnn> ...]
# Applies a behaviour-preserving patch to a scratch copy of /repo and runs the given checks against it (VERIF_REPO).
# Any VIOLATION or infrastructure failure here is a false alarm of the machinery.
set -u
D=$(readlink -f "$1"); shift
S=/var/tmp/benigntry.$$; rm -rf $S; mkdir -p $S
trap 'rm -rf $S' EXIT
rsync -a --exclude .git --exclude /obj --exclude /bin --exclude /build /repo/ $S/mut/
( cd $S/mut && patch -p1 -s < "$D/patch.diff" ) || { echo "RESULT patch-does-not-apply"; exit 3; }
cd /verif
for P in "$@"; do
  out=$(VERIF_REPO=$S/mut timeout 3000 ./check $P 2>&1); rc=$?
  echo "check $P exit=$rc violations=$(echo "$out" | grep -c '^VIOLATION')"
  [ $rc -ne 0 ] && echo "$out" | grep "violation:\|nfrastructure\|Error" | cut -c1-300 | head -6
done
