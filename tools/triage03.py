#!/usr/bin/env python3
"""triage03.py <program id>: reduce a C03 program while the compile-time evaluator's transcript differs from NanoSem's prescription."""
import sys, os, json
sys.path.insert(0, os.path.join(os.path.dirname(os.path.abspath(__file__)), "..", "harness"))
from lib.common import *
from lib.nano_ast import *
from lib.reduce import reduce_prog
from lib.run_prog import Engines
from lib.sem_common import *
from lib.shadow_common import *
import props.c03 as c03
pid = sys.argv[1]
ctx = Ctx("T03", os.environ.get("VERIF_TIER", "quick")); ctx.seed = int(os.environ.get("VERIF_SEED", "1"))
built, _ = c03.build(ctx, 40 if ctx.tier == "quick" else 400, "C03")
p = built[pid]["true"]
eng = Engines(ctx); cnt = [0]
def differs(q):
    cnt[0] += 1
    d = eng.write("r%d" % cnt[0], pretty(q, default_shadows=False))
    r = eng.shadow_only(d)
    text = (r["out"] + r["err"]).decode(errors="replace")
    ev, tests = parse_transcript(text)
    if not any(e["e"] == "tc_ok" for e in ev): return False, None, None
    w = prescribe(ctx, [job("x", q, what="shadow")], workers=1)[0]["x"]["shadows"]
    if any(x["status"] != "ok" for x in w): return False, None, None
    if len(w) != len(tests): return True, tests, w
    return any(t["out"] != render_out(x["out"]) or (t["verdict"] == "FAILED") != (x["fails"] > 0) for t, x in zip(tests, w)), tests, w
def reduce_shadows(q):
    # also try dropping shadow blocks / shadow statements
    import copy
    q = copy.deepcopy(q)
    i = 0
    while i < len(q["shadows"]):
        r = copy.deepcopy(q); del r["shadows"][i]
        if differs(r)[0]: q = r
        else: i += 1
    for sh in range(len(q["shadows"])):
        j = len(q["shadows"][sh]["b"]) - 1
        while j >= 0:
            r = copy.deepcopy(q); del r["shadows"][sh]["b"][j]
            if differs(r)[0]: q = r
            j -= 1
    return q
q = reduce_shadows(p)
q = reduce_prog(q, lambda x: differs(x)[0], max_rounds=3)
q = reduce_shadows(q)
print(pretty(q, default_shadows=False)); print("tries", cnt[0])
ok, tests, w = differs(q)
print("interp:", [(t["name"], t["out"], t["verdict"]) for t in tests]); print("prescribed:", [(x["fn"], render_out(x["out"]), x["fails"]) for x in w])
