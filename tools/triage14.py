#!/usr/bin/env python3
"""triage14.py <program id>: reduce a C14 corpus program while the VM still crashes / logs a badfree."""
import sys, os, json
sys.path.insert(0, os.path.join(os.path.dirname(os.path.abspath(__file__)), "..", "harness"))
from lib.common import *
from lib.nano_ast import *
from lib.reduce import reduce_prog
from lib.run_prog import Engines
import props.c14 as c14
pid = sys.argv[1]
ctx = Ctx("T14", os.environ.get("VERIF_TIER", "quick")); ctx.seed = int(os.environ.get("VERIF_SEED", "1"))
p = c14.corpus(ctx)[pid][0]
eng = Engines(ctx); cnt = [0]
def pred(q):
    cnt[0] += 1
    d = eng.write("r%d" % cnt[0], pretty(q)); tf = os.path.join(d, "t.ndjson")
    r = eng.vm(d, timeout=10, extra_env={"NANOLANG_VERIF_TRACE_VM": tf, "NANOLANG_VERIF_FUEL": "20000"})
    bad = os.path.exists(tf) and "badfree" in open(tf, errors="replace").read()
    return bool(r["sig"]) or bad
q = reduce_prog(p, pred)
print(pretty(q, default_shadows=False)); print("tries", cnt[0])
d = eng.write("final", pretty(q)); r = eng.vm(d, timeout=10); print(r["rc"], r["sig"], r["out"][-200:], r["err"][-200:])
