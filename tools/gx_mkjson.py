import json
F = []
def add(id, props, summary, match, witness, **kw):
    d = dict(id=id, component="GX", properties=["GX"] + props, status="known", summary=summary, match=match, witness=witness)
    d.update(kw); F.append(d)

add("F-gx-native-array-literal-non-scalar", ["C04"],
    "A non-empty array literal whose elements are enum values, structs, union values, arrays or tuples is accepted by the type checker and works on the NanoVM, "
    "but the C transpiler (transpiler_iterative_v3_twopass.c, AST_ARRAY_LITERAL, branch `fallback to old behavior`) emits a C compound literal `(T[]){...}` where a "
    "DynArray* is expected: C compilation fails (`expected '{' before '[' token` for struct / enum / union elements, `initialization of 'DynArray *' from incompatible "
    "pointer type 'DynArray **'` for nested arrays, `array of voids` for tuples).  The same arrays built with array_push work.",
    {"engines": ["native"], "prop": "C04", "shape": "array_literal_of_non_scalars", "kind_regex": r"^cc-failed: (expected _ before _ token|initialization of _ from incompatible pointer type|declaration of type name as array of voids|passing argument _ of _ from incompatible pointer type)"},
    "families_gx.py native_array_literal_enum / _struct / _nested")
add("F-gx-native-tuple-type-positions", ["C04"],
    "A tuple type is accepted by the type checker as the type of a function parameter, a struct field, a top-level let or an array element (the NanoVM runs such programs), "
    "but the C transpiler only knows tuples as locals and results: type_to_c(TYPE_TUPLE) is `void`, so the generated C has `void pr;` fields / globals, "
    "`unknown type name` parameters and int-typed arrays of tuples: C compilation fails.",
    {"engines": ["native"], "prop": "C04", "shape": "tuple_type_outside_locals", "kind_regex": r"^cc-failed: (variable or field _ declared void|unknown type name|incompatible type for argument|declaration of type name as array of voids|request for member)"},
    "families_gx.py native_tuple_param / _field / _global")
add("F-gx-native-tuple-composite-elements", ["C04"],
    "A tuple type with an element that is a struct or another tuple - `(Point, int)`, `((int, string), int)` - is accepted and works on the NanoVM and in the evaluator; the transpiler's tuple typedef "
    "gives such an element the C type `void*` / `void`: C compilation fails (`incompatible types when initializing type 'void *' using type 'nl_Point'`, `variable or field '_0' declared void`).",
    {"engines": ["native"], "prop": "C04", "shape": "tuple_with_composite_element", "kind_regex": r"^cc-failed: (incompatible types when initializing|variable or field _ declared void|declaration does not declare anything|request for member)"},
    "families_gx.py native_tuple_of_struct / native_tuple_in_tuple")
add("F-gx-native-global-initialised-by-call", ["C04"],
    "`let G: int = (f 5)` at top level (works on the NanoVM and in the evaluator): the transpiler emits the globals and their run-time initialiser nl_init_toplevel() before the forward "
    "declarations of the program's functions, so the initialiser calls an undeclared function: C compilation fails (`implicit declaration of function 'nl_f'`, then `conflicting types`).",
    {"engines": ["native"], "prop": "C04", "shape": "global_initialised_by_call", "kind_regex": r"^cc-failed: implicit declaration of function"},
    "families_gx.py native_global_initialised_by_call", fix="hooks/fix-gx-native-global-init-call-order.patch")
add("F-gx-native-global-struct", ["C04"],
    "A top-level `let` of a struct type is accepted and works on the NanoVM and in the evaluator; generate_toplevel_globals (transpiler.c) emits the declaration with "
    "type_to_c(TYPE_STRUCT) = `struct` and no struct name (`static struct gp;`): C compilation fails (`useless storage class specifier in empty declaration`, then `'gp' undeclared`).",
    {"engines": ["native"], "prop": "C04", "shape": "global_of_struct_type", "kind_regex": r"^cc-failed: useless storage class specifier"},
    "families_gx.py native_global_struct", fix="hooks/fix-gx-native-global-struct.patch")
add("F-gx-map-changes-element-type", ["C04", "C03"],
    "docs/STDLIB.md: map(arr: array<T>, f: fn(T) -> U) -> array<U>.  With U different from T (array<string> -> array<int> with str_length, array<int> -> array<string>) "
    "the NanoVM is right; the transpiler types the result array after the source array (C compilation fails: makes integer from pointer / pointer from integer) and the "
    "evaluator refuses (`Transform function must return same type as array elements`, result void).",
    {"engines": ["native", "interp"], "shape": "map_changes_element_type", "kind_regex": r"^cc-failed: initialization of .* makes (integer from pointer|pointer from integer)|transcript-differs.*Transform function must return same type"},
    "families_gx.py map_changes_type")
add("F-gx-vm-enum-to-string-empty", ["C01", "C02"],
    "(int_to_string Color.Blue) - also cast_string / to_string of an enum value - is \"2\" natively and in the evaluator (SPECIFICATION 3.4.2: enum constants are integers) "
    "and the empty string on the NanoVM: OP_CAST_STRING (vm.c) has no case for TAG_ENUM (nor TAG_U8) and answers \"\" for every tag it does not list.",
    {"engines": ["vm", "nano_vm"], "prop": "C02", "shape": "to_string_and_enum_values", "kind_regex": r"^run-differs: output"},
    "families_gx.py vm_enum_to_string", fix="hooks/fix-gx-vm-cast-string-enum.patch")
add("F-gx-native-compare-two-enum-types", ["C04"],
    "A comparison of values of two different enum types, `(>= Color.Blue Lvl.Mid)` (accepted: enum constants are integers, 3.4.2; true on the NanoVM and in the evaluator), is emitted as a "
    "comparison of two C enum types: C compilation fails under -Werror=enum-compare (`comparison between 'enum nl_Color' and 'enum nl_Lvl'`).",
    {"engines": ["native"], "prop": "C04", "shape": "comparison_of_two_enum_types", "kind_regex": r"^cc-failed: comparison between _ and _"},
    "families_gx.py native_compare_two_enums")
add("F-gx-native-array-of-enums", ["C04"],
    "array<Color> (an array whose element type is an enum) is accepted and works on the NanoVM; natively neither the literal (see F-gx-native-array-literal-non-scalar) nor array_push works: "
    "the transpiler treats the enum element as a struct (`dyn_array_push_struct(a, &(nl_Color_Blue), ...)`): C compilation fails (`lvalue required as unary '&' operand`).",
    {"engines": ["native"], "prop": "C04", "shape": "array_of_enum_type", "kind_regex": r"^cc-failed: (lvalue required as unary _ operand|expected _ before _ token)"},
    "families_gx.py native_array_of_enums_push")
add("F-gx-native-fn-typed-let-in-match-arm", ["C04"],
    "`let f: fn(int) -> int = sq` inside a match arm: the pass that collects function types for C typedefs does not visit match arms, the declaration uses a typedef name that was never emitted "
    "(`unknown type name 'FnType_0'`): C compilation fails.  The same let outside a match arm compiles.",
    {"engines": ["native"], "prop": "C04", "shape": "function_typed_let_in_match_arm", "kind_regex": r"^cc-failed: unknown type name"},
    "families_gx.py native_fn_let_in_match_arm", fix="hooks/fix-gx-native-fn-let-in-match-arm.patch")
add("F7-typechecker-leaky-scope-gx", ["C04"],
    "alias of F7-typechecker-leaky-scope (known_findings.json) for generated programs: a name bound again in an inner scope (let / for / match binder) with another type keeps the inner type after the "
    "block in the type checker's symbol table; the transpiler then emits C for the wrong type (request for member in something not a structure, incompatible types ...)",
    {"engines": ["native"], "prop": "C04", "shape": "name_bound_with_two_types", "kind_regex": r"^cc-failed: (request for member _ in something not a structure or union|incompatible types|invalid operands|assignment to|passing argument _ of _ makes|initialization of)"},
    "known_findings.json F7-typechecker-leaky-scope")
add("F-gx-interp-string-from-container-freed", ["C03", "C04"],
    "Evaluator: `let s: string = r.tag` (or `= tp.1`) binds the very char* stored in the struct / tuple; when the function returns eval_call frees every string local of the frame, "
    "so the container keeps a dangling pointer: the next read of the field is a heap-use-after-free, a second call with the same value a double free (glibc aborts the compiler: "
    "`malloc_consolidate(): unaligned fastbin chunk detected`, `free(): double free`), or wrong text is printed.  Compiled code is right.",
    {"engines": ["interp", "iasan"], "shape": "string_let_from_field_or_tuple", "kind_regex": r"signal-(6|11)|AddressSanitizer: (heap-use-after-free|attempting double-free)|transcript-differs( \(fault-not-reported\))?$"},
    "families_gx.py interp_string_from_field_twice", fix="hooks/fix-gx-interp-let-string-copy.patch")
add("F-gx-interp-union-result-string-freed", ["C03", "C04"],
    "Evaluator: a function that returns a union value holding a string that lives in its own frame (a string parameter or local: `return Res.Ok { v: 1, tag: s }`): eval_call deep-copies "
    "string fields of a returned struct but not of a returned union, then frees the frame's strings; the caller's value keeps a dangling pointer (heap-use-after-free when the field is read "
    "in a match arm).  Compiled code is right.",
    {"engines": ["interp", "iasan"], "shape": "function_returns_union_with_string_field", "kind_regex": r"signal-(6|11)|AddressSanitizer: (heap-use-after-free|attempting double-free)|transcript-differs( \(fault-not-reported\))?$"},
    "families_gx.py interp_union_result_with_string", fix="hooks/fix-gx-interp-union-result-copy.patch")
add("F-gx-interp-string-self-assignment", ["C03", "C04"],
    "Evaluator: `set s s` for a string variable (local or global): env_set_var releases the old value and then stores the new one, which is the same pointer: the variable is left dangling "
    "(heap-use-after-free at the next read; glibc aborts the compiler with `free(): invalid pointer` / `double free` at the end of the frame).  Compiled code is right.",
    {"engines": ["interp", "iasan"], "shape": "string_self_assignment", "kind_regex": r"signal-(6|11)|AddressSanitizer: (heap-use-after-free|attempting free|attempting double-free)|transcript-differs( \(fault-not-reported\))?$"},
    "families_gx.py interp_string_self_assignment", fix="hooks/fix-gx-interp-set-same-string.patch")
add("F-gx-interp-array-set-dynamic-refused", ["C03"],
    "Evaluator: builtin_array_set accepts only static arrays (VAL_ARRAY); on a dynamic array (VAL_DYN_ARRAY: made by array_push on `[]`, filter, map ...) it prints "
    "`array_set() requires an array as first argument` and changes nothing, so `let mut a: array<int> = []  set a (array_push a 5)  (array_set a 0 50)  (at a 0)` is 5 in a shadow test and 50 compiled.",
    {"engines": ["interp"], "prop": "C03", "shape": "array_set_and_array_push", "kind_regex": r"transcript-differs.*array_set\(\) requires an array as first argument"},
    "families_gx.py interp_array_set_dynamic", fix="hooks/fix-gx-interp-array-set-dynamic.patch")
add("F-gx-interp-for-in-array-not-implemented", ["C03", "C06"],
    "Evaluator: `for x in <array>` is not implemented (eval.c prints `for loop requires range expression` and skips the loop); compiled code (NanoVM, and native since 2f1cb94) iterates.  "
    "This is the evaluator's share of F18 (whose native part is fixed): the same deviation switch describes it.",
    {"engine": "interp", "by": "transcript equals NanoSem with switch NATIVE_FOR_IN_ARRAY_SKIPPED"},
    "families.py for_in_array_var (C03 corpus); families_gx.py interp_for_in_array", switches=["NATIVE_FOR_IN_ARRAY_SKIPPED"], status="fixed: 6eddea4")
add("F-gx-interp-arrays-of-non-scalars", ["C03", "C04"],
    "Evaluator: arrays whose elements are not int / float / bool / string are not implemented consistently (F60 is the array<array<int>> literal case): a literal of structs, union values or tuples prints "
    "`Unsupported array element type` once per element and leaves the elements uninitialised (a later `at` crashes the compiler with SIGSEGV), array_push of an array into an array answers "
    "`Type mismatch in array_push`, and every later use prints another error and yields void.  Compiled code (NanoVM; native where it builds) has such arrays.",
    {"engines": ["interp", "iasan"], "shape": "array_type_with_non_scalar_elements", "kind_regex": r"signal-11|SEGV|null pointer|Unsupported array element type|Type mismatch in array_push|at\(\) requires an array|array_length\(\) requires an array"},
    "families_gx.py interp_struct_array_literal_at")
add("F-gx-native-str-length-unsigned", ["C01", "C02", "C04"],
    "The transpiler emits str_length as a bare C strlen() (builtins_registry.c: c_name \"strlen\"), a size_t: arithmetic on it is unsigned, `(- (str_length s) 19)` wraps for a short s, so "
    "`(> 128 (- (str_length \"abc\") 19))` is false natively (true on the NanoVM, in the evaluator and by the 64-bit signed arithmetic of the specification); where the C compiler sees the "
    "signedness clash the program does not build at all (-Werror=sign-compare / type-limits: the listed F36-native-cc-strlen-in-comparison is the same root).",
    {"engines": ["native"], "shape": "strlen_under_operator", "kind_regex": r"^run-differs: output|^cc-failed: comparison of (integer expressions of different signedness|unsigned expression)"},
    "families_gx.py native_str_length_unsigned", status="fixed: 1ffb873")
add("F-gx-interp-substring-start-out-of-bounds", ["C03", "C04"],
    "docs/STDLIB.md str_substring: `I return an empty string if start is out of bounds` (native and NanoVM do).  The evaluator prints `str_substring start index out of bounds` and answers the void value; "
    "placed in an array literal of strings the void value is strdup'ed as NULL: the compiler dies with SIGSEGV.  (NanoSem still calls the case unspecified:substring; notes/GX-spec-substring.diff has the "
    "correction and the switch INTERP_SUBSTRING_OOB_VOID.)",
    {"engines": ["interp", "iasan"], "shape": "substring_start_past_end", "kind_regex": r"signal-11|SEGV|null pointer|transcript-differs.*str_substring start index out of bounds"},
    "families_gx.py interp_substring_past_end_in_array", fix="hooks/fix-gx-interp-substring-oob-empty.patch")
# listed elsewhere under program-id matches: the same defects met through generated programs (shape instead of program id)


json.dump({"findings": F}, open("/verif/known_findings.d/GX.json", "w"), indent=1)
print(len(F))
