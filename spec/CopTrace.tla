---- MODULE CopTrace ----
\* Trace validation for the co-process lifecycle (C15, C16): the events recorded by hook H5
\* (hooks/h5-cop-lifecycle.patch, src/nanovm/vm_ffi.c) are replayed through the VM actions of CopProtocol.
\* Every logged step must be a step of the specification; the co-process and the operating system are not
\* observed, their actions are taken silently as needed; the end of the run observed by the harness
\* ("end": exit status or signal, number of stdout lines) must be the terminal state of the model, and at a
\* normal exit every launched co-process must have been reaped (a `reaped` event precedes the end).
\* Many executions are concatenated: {"e":"Reset", calls, argsize, step, kind} starts a new one.
\* Nothing of the protocol is re-stated here: each trace action is  IsEvent /\ bind fields /\ CopProtocol action.
EXTENDS CopProtocol, IOUtils

CONSTANT ExactLen      \* TRUE: request/reply lengths in the log must equal the model's (runs of the C16 program)
VARIABLE i             \* next event
Tr == ndJsonDeserialize(IOEnv.TRACE)
tvars == <<allvars, i>>

Is(name) == i <= Len(Tr) /\ Tr[i].e = name
Ev   == Tr[i]
Adv  == i' = i + 1
Same == UNCHANGED <<v, buf>>

TInit == /\ i = 1 /\ TLCSet(1, 1)
         /\ vm = [pc |-> "gone", call |-> 1, pid |-> 0, inOpen |-> FALSE, outOpen |-> FALSE, need |-> 0, code |-> 0, nxt |-> "-", argsize |-> 0, k |-> 1]
         /\ cop = NoCop /\ toCop = <<>> /\ fromCop = <<>>
         /\ fault = [step |-> "none", kind |-> "none", done |-> FALSE]
         /\ io = [pend |-> <<>>, flushed |-> <<>>, err |-> FALSE]
         /\ proc = [res |-> [k |-> "exit", code |-> 0], launched |-> 0, reaped |-> 0, garbled |-> FALSE]
         /\ v = VVoid /\ buf = <<>>

TrReset == /\ Is("Reset") /\ Adv /\ (IF i = 1 THEN TRUE ELSE Tr[i - 1].e = "end")
           /\ vm' = [pc |-> "start", call |-> 1, pid |-> 0, inOpen |-> FALSE, outOpen |-> FALSE, need |-> 0, code |-> 0, nxt |-> "-",
                     argsize |-> Ev.argsize, k |-> Ev.calls]
           /\ cop' = NoCop /\ toCop' = <<>> /\ fromCop' = <<>>
           /\ fault' = [step |-> Ev.step, kind |-> Ev.kind, done |-> FALSE]
           /\ io' = [pend |-> <<>>, flushed |-> <<>>, err |-> FALSE]
           /\ proc' = [res |-> [k |-> "running", code |-> 0], launched |-> 0, reaped |-> 0, garbled |-> FALSE]
           /\ Same

\* ---- observed VM steps
TrCall     == Is("call") /\ Adv /\ At("ensure") /\ vm.call = Ev.k /\ UNCHANGED allvars
TrSigpipe  == Is("sigpipe") /\ Adv /\ At("launch") /\ ((Ev.disp = "default") <=> SigpipeDefault) /\ UNCHANGED allvars
TrLaunch   == Is("launch") /\ Adv /\ Launch /\ Same
TrInitSent == Is("init_sent") /\ Adv /\ SendInit /\ vm'.pc = (IF Ev.ok THEN "awaitready" ELSE "startfail") /\ Same
TrReady    == Is("ready") /\ Adv /\ AwaitReady /\ vm'.pc = "ser" /\ Same
TrFail     == /\ Is("fail") /\ Adv
              /\ CASE Ev.why = "ready"     -> AwaitReady /\ vm'.pc = "startfail" /\ Same
                   [] Ev.why = "serialize" -> SerReq /\ vm'.pc = "fail" /\ Same
                   [] Ev.why = "send"      -> SendReq /\ vm'.pc = "stopfail" /\ Same
                   [] Ev.why = "hdr"       -> RecvHdr /\ vm'.pc = "stopfail" /\ Same
                   [] Ev.why = "payload"   -> Len(fromCop) < vm.need /\ RecvPayload /\ vm'.pc = "fail" /\ Same
                   [] Ev.why = "decode"    -> Len(fromCop) >= vm.need /\ RecvPayload /\ vm'.pc = "fail" /\ Same
                   [] Ev.why = "type"      -> At("fail") /\ UNCHANGED allvars            \* follows the "hdr" event that carried the type
                   [] OTHER -> FALSE
Dies       == proc'.res.k = "sig"
\* logged on entry of vm_ffi_cop_stop: the SHUTDOWN write that follows may kill the VM (SIGPIPE)
TrStop     == Is("stop") /\ Adv /\ vm.pid = 1 /\ (StartFail \/ StopFail \/ ExitStop) /\ (vm'.pc = "stopwait" \/ Dies) /\ Same
TrReaped   == /\ Is("reaped") /\ Adv
              /\ IF Ev.how = "ensure" THEN vm.pid = 1 /\ cop.st = "zombie" /\ Ensure /\ Same
                 ELSE ((Ev.how = "term") <=> (cop.st = "run")) /\ StopWait /\ Same
TrFallback == Is("fallback") /\ Adv /\ Fallback /\ Same
TrReq      == /\ Is("req") /\ Adv /\ vm.pc = "req_p" /\ Ev.k = vm.call /\ (ExactLen => Ev.len = 6 + vm.argsize)
              /\ SendReq /\ vm'.pc = "recvhdr" /\ Same
TrHdr      == /\ Is("hdr") /\ Adv /\ At("recvhdr") /\ Len(fromCop) >= 8
              /\ LET h == Parse(SubSeq(fromCop, 1, 8)) IN HdrOk(h) /\ h.ty = Ev.type /\ (ExactLen => h.len = W32(Ev.len))
              /\ RecvHdr /\ Same
TrPayloadOk == /\ Is("payload_ok") /\ Adv
               /\ IF vm.pc = "recvpay" THEN RecvPayload /\ vm'.pc = "callok" /\ Same
                  ELSE At("callok") /\ UNCHANGED allvars                               \* empty payload: RecvHdr went straight on
\* the end of the run as the harness saw it
TrEnd      == /\ Is("end") /\ Adv /\ Terminal
              /\ proc.res.k = Ev.res /\ (Ev.code >= 0 => proc.res.code = Ev.code)    \* code -1: the program failed for a reason outside the protocol
              /\ (Ev.nout >= 0 => Len(io.flushed) = Ev.nout)
              /\ (Ev.res = "exit" => cop.st \in {"none", "reaped"} /\ proc.reaped = proc.launched)
              /\ UNCHANGED allvars

\* ---- unobserved steps
Silent == /\ UNCHANGED i
          /\ \/ (Print0 \/ Fail \/ CallOk \/ Exit) /\ Same
             \/ Ensure /\ ~(vm.pid = 1 /\ cop.st = "zombie") /\ Same
             \/ SendInit /\ vm'.pc = "init_p" /\ Same
             \/ SerReq /\ vm'.pc = "req_h" /\ Same
             \/ SendReq /\ vm'.pc = "req_p" /\ Same
             \/ vm.pid = 0 /\ ExitStop /\ Same
             \/ (SendInit \/ SendReq \/ RecvPayload) /\ Dies /\ Same     \* killed by a signal in a write or in the decoder: nothing logged
             \/ CopNext /\ Same

TNext == TrReset \/ TrCall \/ TrSigpipe \/ TrLaunch \/ TrInitSent \/ TrReady \/ TrFail \/ TrStop \/ TrReaped \/ TrFallback
         \/ TrReq \/ TrHdr \/ TrPayloadOk \/ TrEnd \/ Silent
\* acceptance: some behaviour of the specification consumes the whole log
NotAccepted == i <= Len(Tr)
\* diagnostics on rejection: the largest number of events any behaviour consumed (single worker)
Reached == TLCSet(1, IF i > TLCGet(1) THEN i ELSE TLCGet(1))
Report  == PrintT("@@J " \o ToJson([k |-> "reached", i |-> TLCGet(1), n |-> Len(Tr)]))
====
