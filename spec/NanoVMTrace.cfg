INIT Init
NEXT Next
INVARIANT Summary
POSTCONDITION Post
