INIT Init
NEXT Next
INVARIANT ExactOnJobs
CONSTANTS
  MaxIter = 2
