\* the model with deviation switches (what the unchanged code does): outcomes are only collected
INIT PInit
NEXT PNext
INVARIANTS EmitOutcome
