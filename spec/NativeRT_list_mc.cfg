\* C20 / NativeRT.tla -- quick: exhaustive model check of List_int/List_string, <= 5 steps (6 in the thorough tier)
\* The constants InitialCapacity and Growth are NOT in this file: harness/props/c20.py extracts them
\* from src/runtime/{dyn_array,list_int,list_string}.c and appends them (for a manual run add
\*   CONSTANTS InitialCapacity = 8  Growth = 2).
SPECIFICATION Spec
VIEW View
CONSTANTS
  Family = "list"
  Kinds = {"list_int"}
  Prefills = {0, 7}
  InitCaps = {0, 100, 103}
  Vals = {1, 2}
  MaxLen = 5
  MaxObj = 1
  EmitMode = "none"
  StopAtDev = TRUE
  AllowAbort = TRUE
  AllowDev = TRUE
INVARIANTS TypeOK LenLeCap
PROPERTIES SeqLawProp CapLawProp
