------------------------------ MODULE FrontEnd ------------------------------
\* C09 -- the front end is total: every input ends in acceptance or a diagnostic.
\*
\* Three parts, selected by Mode:
\*
\*  "cursor"  The termination argument of the hand-written recursive-descent parser (src/parser.c) as a
\*            cursor machine.  The parser is a stack of *loops* (program items, block statements,
\*            prefix-operation arguments, call arguments, literal fields ...).  Each loop iteration parses
\*            one element starting at the cursor; the element may consume tokens, may enter a nested
\*            loop, or may fail without consuming anything, in which case the loop's recovery policy
\*            applies: skip a token (Advance), abandon the loop (GiveUp) -- or, deviation
\*            PREFIX_ARGS_NO_PROGRESS (finding F11), nothing at all.  Property:  every iteration
\*            advances the cursor or leaves its loop (action property Progress) and therefore the
\*            machine terminates on every token string (liveness Terminates, variant <<Len - pos, depth>>).
\*            The loop table below is transcribed from parser.c; hook H6 records the real iterations and
\*            FrontEndTrace.tla checks them against the same discipline.
\*  "enum"    Every token-class string up to MaxLen over the 14 classes that matter for recovery; the
\*            harness places each in 7 syntactic contexts (table Contexts, emitted with the strings).
\*  "derive"  A grammar of the core language as derivation actions (a leftmost pushdown derivation that
\*            produces concrete tokens) followed by mutation actions Drop Dup Swap Insert Truncate Nest
\*            BadByte UntermString UntermComment.  Run with -simulate; every behaviour ends in Finish,
\*            which emits the token list.  Unmutated derivations are valid, well-typed programs and must
\*            be *accepted* by the real front end: this binds the grammar model to the real parser.
EXTENDS Integers, Sequences, FiniteSets, TLC, Json

CONSTANTS Mode,        \* "cursor" | "enum" | "derive"
          MaxLen,      \* cursor/enum: maximal token string length
          Alphabet,    \* cursor: token classes used for the strings (subset of Classes)
          Dev,         \* deviation switches: subset of {"PREFIX_ARGS_NO_PROGRESS"}
          Fuel,        \* derive: expansion budget of one derivation
          MaxMuts      \* derive: mutations applied to one derivation (0..MaxMuts)

Classes == <<"(", ")", "{", "}", "id", "num", "op", "else", "fn", "shadow", "let", "assert", ",", "EOF">>
ClassSet == {Classes[i] : i \in 1..Len(Classes)}
ASSUME Cardinality(ClassSet) = 14
\* how the harness spells a class, and the seven contexts a string is placed in ("@" is the hole; a class
\* string containing EOF is cut there together with the rest of the context)
Conc == [lp |-> "(", rp |-> ")", lb |-> "{", rb |-> "}", id |-> "a", num |-> "1", op |-> "+", else |-> "else",
         fn |-> "fn", shadow |-> "shadow", let |-> "let", assert |-> "assert", comma |-> ","]
Contexts == [top      |-> "fn f(a: int) -> int { return a }\n@\nfn main() -> int { return (f 1) }\n",
             fnbody   |-> "fn f(a: int) -> int {\n@\nreturn a }\nfn main() -> int { return (f 1) }\n",
             shadow   |-> "fn f(a: int) -> int { return a }\nshadow f {\n@\n}\nfn main() -> int { return (f 1) }\n",
             callargs |-> "fn f(a: int) -> int { return (f\n@\n) }\nfn main() -> int { return (f 1) }\n",
             arraylit |-> "fn f(a: int) -> int { let v: array<int> = [\n@\n]\nreturn a }\nfn main() -> int { return (f 1) }\n",
             unsafeblk |-> "fn f(a: int) -> int { unsafe {\n@\n}\nreturn a }\nfn main() -> int { return (f 1) }\n",
             structlit |-> "struct P { a: int }\nfn f(a: int) -> int { let p: P = P { a:\n@\n}\nreturn a }\nfn main() -> int { return (f 1) }\n"]

VARIABLES toks,     \* the token string (classes in cursor/enum mode, concrete tokens in derive mode)
          pos,      \* cursor (1-based index of the next token; Len+1 = EOF)
          stack,    \* cursor: innermost loop last: [kind, it (cursor at the start of the iteration), open (element in progress)]
          errs,     \* diagnostics so far
          st,       \* "run" | "done"                       (cursor);  "derive" | "mutate" | "done" (derive)
          deriv,    \* derive: pending symbols, leftmost first
          muts,     \* derive: mutations applied so far
          aux       \* derive: [fuel, fresh, target]
vars == <<toks, pos, stack, errs, st, deriv, muts, aux>>

----------------------------------------------------------------------------
\* Part 1: the cursor machine
Tok(p) == IF p <= Len(toks) THEN toks[p] ELSE "EOF"
\* loop table: closer, what a failed element that consumed nothing leads to, from src/parser.c
\*   program          parse_program:   closer EOF, advance()                         (:4237, :4446, :4454)
\*   block            parse_block:     closer }, advance() unless the next token is } (:2520, :2554)
\*   prefix_op_args   parse_prefix_op: closer ), *no reaction at all*                 (:1079)   <- F11
\*   call_args        parse_primary:   closer ), error and return NULL                (:1976, :1983)
LoopKinds == {"program", "block", "prefix_op_args", "call_args"}
Closer(k) == CASE k = "program" -> "EOF" [] k = "block" -> "}" [] OTHER -> ")"
Policy(k) == CASE k = "program" -> "advance"
               [] k = "block" -> "advance"
               [] k = "prefix_op_args" -> IF "PREFIX_ARGS_NO_PROGRESS" \in Dev THEN "none" ELSE "giveup"
               [] k = "call_args" -> "giveup"
Top == stack[Len(stack)]
Pop == SubSeq(stack, 1, Len(stack) - 1)
Frame(k, p) == [kind |-> k, it |-> p, open |-> FALSE]
SetTop(f) == [stack EXCEPT ![Len(stack)] = f]
InExpr == Top.kind \in {"prefix_op_args", "call_args"}

\* tokens that cannot start an element of the current loop
CannotStart == IF InExpr THEN Tok(pos) \notin {"id", "num", "("} ELSE Tok(pos) \in {")", "else", ",", "op"}
IsPrefixOpener == Tok(pos) = "(" /\ Tok(pos + 1) = "op"
IsCallOpener   == Tok(pos) = "(" /\ Tok(pos + 1) = "id" /\ Tok(pos + 2) # ")"
\* An iteration starts: remember the cursor.
Iterate == /\ st = "run" /\ Len(stack) > 0 /\ ~Top.open
           /\ Tok(pos) # Closer(Top.kind) /\ Tok(pos) # "EOF"
           /\ stack' = SetTop([Top EXCEPT !.it = pos, !.open = TRUE])
           /\ UNCHANGED <<toks, pos, errs, st, deriv, muts, aux>>
\* The loop condition fails: the closer (consumed, except EOF) or the end of the input (an error unless
\* the loop is the program loop).  The element in progress of the enclosing loop goes on.
ExitLoop == /\ st = "run" /\ Len(stack) > 0 /\ ~Top.open
            /\ (Tok(pos) = Closer(Top.kind) \/ Tok(pos) = "EOF")
            /\ pos' = IF Tok(pos) = "EOF" THEN pos ELSE pos + 1
            /\ errs' = IF Tok(pos) = "EOF" /\ Top.kind # "program" THEN errs + 1 ELSE errs
            /\ stack' = Pop
            /\ st' = IF Len(stack) = 1 THEN "done" ELSE "run"
            /\ UNCHANGED <<toks, deriv, muts, aux>>
\* The element consumes tokens without entering a loop: one token for an atom; statements and item
\* headers (fn id ..., let id ..., shadow id) consume a nondeterministic non-empty run of tokens that does
\* not cross a closer of the current loop.  The iteration ends with progress.
Advance(n) == /\ st = "run" /\ Len(stack) > 0 /\ Top.open /\ ~CannotStart
              /\ n >= 1 /\ pos + n - 1 <= Len(toks)
              /\ IF InExpr THEN n = 1 /\ Tok(pos) \in {"id", "num"}
                 ELSE /\ Tok(pos) # "{"
                      /\ \A q \in pos..(pos + n - 1) : Tok(q) \notin {Closer(Top.kind), "EOF"}
              /\ pos' = pos + n
              /\ stack' = SetTop([Top EXCEPT !.open = FALSE])
              /\ UNCHANGED <<toks, errs, st, deriv, muts, aux>>
\* The element opens a nested loop; the opener is consumed, so the enclosing iteration has progressed.
EnterLoop(k) == /\ st = "run" /\ Len(stack) > 0 /\ Top.open
                /\ \/ k = "prefix_op_args" /\ InExpr /\ IsPrefixOpener /\ pos' = pos + 2
                   \/ k = "call_args" /\ InExpr /\ IsCallOpener /\ pos' = pos + 2
                   \/ k \in {"prefix_op_args", "call_args"} /\ ~InExpr /\ pos' = pos + 2      \* a statement reaches an expression
                      /\ (IF k = "prefix_op_args" THEN IsPrefixOpener ELSE IsCallOpener)
                   \/ k = "block" /\ ~InExpr /\ Tok(pos) = "{" /\ pos' = pos + 1
                \* the enclosing element is over when the nested loop returns
                /\ stack' = Append(SetTop([Top EXCEPT !.open = FALSE]), Frame(k, pos'))
                /\ UNCHANGED <<toks, errs, st, deriv, muts, aux>>
\* The element fails without consuming a token (the token cannot start an element).  Recovery:
Recover == /\ st = "run" /\ Len(stack) > 0 /\ Top.open /\ CannotStart
           /\ errs' = errs + 1
           /\ CASE Policy(Top.kind) = "advance" ->          \* skip the offending token
                     pos' = pos + 1 /\ stack' = SetTop([Top EXCEPT !.open = FALSE]) /\ st' = st
                [] Policy(Top.kind) = "giveup" ->           \* abandon the loop: the caller sees a failed element
                     pos' = pos /\ stack' = Pop /\ st' = IF Len(stack) = 1 THEN "done" ELSE "run"
                [] OTHER ->                                  \* PREFIX_ARGS_NO_PROGRESS: the iteration ends where it began
                     pos' = pos /\ stack' = SetTop([Top EXCEPT !.open = FALSE]) /\ st' = st
           /\ UNCHANGED <<toks, deriv, muts, aux>>
\* A parenthesised operand that is neither a prefix operation nor a call: "(" is consumed (grouping,
\* tuple); modelled as one consumed token.
Group == /\ st = "run" /\ Len(stack) > 0 /\ Top.open /\ InExpr
         /\ Tok(pos) = "(" /\ ~IsPrefixOpener /\ ~IsCallOpener
         /\ pos' = pos + 1 /\ stack' = SetTop([Top EXCEPT !.open = FALSE])
         /\ UNCHANGED <<toks, errs, st, deriv, muts, aux>>

CursorNext == Iterate \/ ExitLoop \/ Recover \/ Group
              \/ (\E n \in 1..(MaxLen + 1) : Advance(n)) \/ (\E k \in LoopKinds : EnterLoop(k))

\* --- properties of the cursor machine
IterEnds == Len(stack) > 0 /\ Top.open /\ (Len(stack') < Len(stack) \/ ~stack'[Len(stack)].open)
\* every iteration advances the cursor or leaves its loop (EnterLoop also consumes the opener)
Progress == [][(Mode = "cursor" /\ IterEnds) => (pos' > Top.it \/ Len(stack') < Len(stack))]_vars
Terminates == (Mode = "cursor") => <>(st = "done")
\* the variant: lexicographic <<tokens left, open element, depth>> decreases on every step
Measure(p, s) == <<Len(toks) + 1 - p, Len(s), IF Len(s) > 0 /\ s[Len(s)].open THEN 0 ELSE 1>>
Less(m1, m2) == \/ m1[1] < m2[1]
                \/ m1[1] = m2[1] /\ m1[2] < m2[2]
                \/ m1[1] = m2[1] /\ m1[2] = m2[2] /\ m1[3] < m2[3]
Variant == [][Mode = "cursor" => Less(Measure(pos', stack'), Measure(pos, stack))]_vars
CursorTypeOK == Mode = "cursor" => /\ pos \in 1..(Len(toks) + 1) /\ Len(stack) <= Len(toks) + 2
                                   /\ (st = "done" <=> Len(stack) = 0)

----------------------------------------------------------------------------
\* Part 3: grammar of the core language as derivation actions.  Symbols are records
\* [t |-> terminal text] or [n |-> nonterminal]; deriv is the sentential form still to be processed.
T(x) == [k |-> "t", v |-> x]
N(x) == [k |-> "n", v |-> x]
Ts(seq) == [i \in 1..Len(seq) |-> T(seq[i])]
IOps == <<"+", "-", "*", "/", "%">>
COps == <<"==", "!=", "<", "<=", ">", ">=">>
FnHead(name) == Ts(<<"fn", name, "(", "a", ":", "int", ",", "b", ":", "int", ")", "->", "int", "{", "\n",
                    "let", "mut", "x", ":", "int", "=", "a">>)
ShadowOf(name) == Ts(<<"shadow", name, "{", "assert", "(", "==", "(", name, "1", "2", ")", "(", name, "1", "2", ")", ")", "}", "\n">>)
Helper == Ts(<<"fn", "f0", "(", "a", ":", "int", ",", "b", ":", "int", ")", "->", "int", "{", "return", "(", "+", "a", "b", ")", "}", "\n",
              "shadow", "f0", "{", "assert", "(", "==", "(", "f0", "1", "2", ")", "3", ")", "}", "\n">>)
MainHead == Ts(<<"fn", "main", "(", ")", "->", "int", "{", "\n", "let", "a", ":", "int", "=", "1", "\n", "let", "b", ":", "int", "=", "2", "\n",
                "let", "mut", "x", ":", "int", "=", "0", "\n">>)
\* productions: nonterminal -> set of right-hand sides; `cheap` ones are used when the budget is spent
Prods(nt, fresh) ==
  CASE nt = "Program" -> {Helper \o <<N("Fns"), N("Main")>>}
    [] nt = "Fns"  -> {<<>>, <<N("Fn"), N("Fns")>>}
    [] nt = "Fn"   -> {FnHead("g" \o ToString(fresh)) \o <<T("\n"), N("Stmts"), T("return"), N("I"), T("}"), T("\n")>> \o ShadowOf("g" \o ToString(fresh))}
    [] nt = "Main" -> {MainHead \o <<N("Stmts"), T("return"), T("0"), T("}"), T("\n")>>}
    [] nt = "Stmts" -> {<<>>, <<N("Stmt"), T("\n"), N("Stmts")>>}
    [] nt = "Stmt" -> {<<T("set"), T("x"), N("I")>>,
                       <<T("if"), N("B"), T("{"), N("Stmts"), T("}"), T("else"), T("{"), N("Stmts"), T("}")>>,
                       <<T("if"), N("B"), T("{"), N("Stmts"), T("}")>>,
                       <<T("while"), N("B"), T("{"), N("Stmts"), T("}")>>,
                       <<T("("), T("println"), N("I"), T(")")>>,
                       <<T("let"), T("y" \o ToString(fresh)), T(":"), T("int"), T("="), N("I")>>,
                       <<T("let"), T("z" \o ToString(fresh)), T(":"), T("bool"), T("="), N("B")>>,
                       <<T("assert"), N("B")>>}
    [] nt = "I" -> {<<N("A")>>} \cup {<<T("("), T(IOps[i]), N("I"), N("I"), T(")")>> : i \in 1..5}
                   \cup {<<N("I"), T(IOps[i]), N("P")>> : i \in 1..5}                \* infix: the right operand is a primary
                   \cup {<<T("("), T("f0"), N("I"), N("I"), T(")")>>, <<T("("), T("-"), N("I"), T(")")>>}
    [] nt = "P" -> {<<N("A")>>, <<T("("), T("+"), N("I"), N("I"), T(")")>>, <<T("("), N("A"), T("*"), N("A"), T(")")>>}
    [] nt = "A" -> {<<T("a")>>, <<T("b")>>, <<T("x")>>, <<T("0")>>, <<T("7")>>, <<T("-3")>>}
    [] nt = "B" -> {<<T("true")>>, <<T("false")>>} \cup {<<T("("), T(COps[i]), N("I"), N("I"), T(")")>> : i \in 1..6}
                   \cup {<<N("A"), T(COps[i]), N("P")>> : i \in 1..6}
                   \cup {<<T("("), T("and"), N("B"), N("B"), T(")")>>, <<T("("), T("or"), N("B"), N("B"), T(")")>>,
                         <<T("("), T("not"), N("B"), T(")")>>, <<T("not"), T("true")>>}
Cheap(nt) == CASE nt = "Fns" -> <<>> [] nt = "Stmts" -> <<>> [] nt = "I" -> <<N("A")>> [] nt = "P" -> <<N("A")>>
               [] nt = "A" -> <<T("a")>> [] nt = "B" -> <<T("true")>> [] nt = "Stmt" -> <<T("set"), T("x"), T("1")>>
               [] OTHER -> <<>>
AlwaysFull == {"Program", "Fn", "Main"}
UsesFresh(nt) == nt \in {"Fn", "Stmt"}

\* shift terminals at the head of the sentential form to the output
Emit == /\ st = "derive" /\ Len(deriv) > 0 /\ deriv[1].k = "t"
        /\ toks' = Append(toks, deriv[1].v) /\ deriv' = Tail(deriv)
        /\ UNCHANGED <<pos, stack, errs, st, muts, aux>>
Expand == /\ st = "derive" /\ Len(deriv) > 0 /\ deriv[1].k = "n"
          /\ LET nt == deriv[1].v IN
             \E rhs \in (IF aux.fuel > 0 \/ nt \in AlwaysFull THEN Prods(nt, aux.fresh) ELSE {Cheap(nt)}) :
                /\ deriv' = rhs \o Tail(deriv)
                /\ aux' = [aux EXCEPT !.fuel = IF aux.fuel > 0 THEN aux.fuel - 1 ELSE 0,
                                      !.fresh = IF UsesFresh(nt) THEN aux.fresh + 1 ELSE aux.fresh]
          /\ UNCHANGED <<toks, pos, stack, errs, st, muts>>
EndDerive == /\ st = "derive" /\ Len(deriv) = 0 /\ st' = "mutate"
             /\ UNCHANGED <<toks, pos, stack, errs, deriv, muts, aux>>

\* mutations on the finished token list
InsertAt(s, i, x) == SubSeq(s, 1, i - 1) \o <<x>> \o SubSeq(s, i, Len(s))
RemoveAt(s, i) == SubSeq(s, 1, i - 1) \o SubSeq(s, i + 1, Len(s))
Junk == {"(", ")", "{", "}", "a", "1", "+", "else", "fn", "shadow", "let", "assert", ",", ":", "=", "->", ".", "[", "]", "if", "return", "-"}
BadBytes == {"<0xFF>", "<0xC3>", "<0x01>", "<NUL>", "$", "@", "`", "\\", "'", "<0xE2><0x82>"}
Mutate(kind, i, x) ==
  /\ st = "mutate" /\ Len(muts) < aux.target /\ i \in 1..Len(toks)
  /\ toks' = CASE kind = "Drop" -> RemoveAt(toks, i)
               [] kind = "Dup" -> InsertAt(toks, i, toks[i])
               [] kind = "Swap" -> IF i < Len(toks) THEN [toks EXCEPT ![i] = toks[i + 1], ![i + 1] = toks[i]] ELSE toks
               [] kind = "Insert" -> InsertAt(toks, i, x)
               [] kind = "Truncate" -> SubSeq(toks, 1, i - 1)
               [] kind = "Nest" -> InsertAt(toks, i, "<NEST:" \o x \o ">")      \* the harness expands it to k openers
               [] kind = "BadByte" -> InsertAt(toks, i, x)
               [] kind = "UntermString" -> InsertAt(toks, i, "\"abc")
               [] kind = "UntermComment" -> InsertAt(toks, i, "/* abc")
  /\ muts' = Append(muts, <<kind, ToString(i), x>>)
  /\ UNCHANGED <<pos, stack, errs, st, deriv, aux>>
Mutation ==
  \E i \in 1..Len(toks) :
     \/ \E kind \in {"Drop", "Dup", "Swap", "Truncate", "UntermString", "UntermComment"} : Mutate(kind, i, "-")
     \/ \E x \in Junk : Mutate("Insert", i, x)
     \/ \E x \in BadBytes : Mutate("BadByte", i, x)
     \/ \E x \in {"(:3", "(:40", "{:3", "{:40", "-:40", "if:5"} : Mutate("Nest", i, x)
Finish == /\ st = "mutate" /\ Len(muts) = aux.target /\ st' = "done"
          /\ PrintT("@@J " \o ToJson([toks |-> toks, muts |-> muts, valid |-> (Len(muts) = 0)]))
          /\ UNCHANGED <<toks, pos, stack, errs, deriv, muts, aux>>
DeriveNext == Emit \/ Expand \/ EndDerive \/ Mutation \/ Finish

----------------------------------------------------------------------------
\* Part 2: enumeration of class strings
RECURSIVE StringsOf(_, _)
StringsOf(S, n) == IF n = 0 THEN {<<>>} ELSE LET R == StringsOf(S, n - 1) IN R \cup {Append(s, c) : s \in R, c \in S}
\* EOF cuts the input, so it is useful only as the last class of a string
EnumStrings == {s \in StringsOf(ClassSet, MaxLen) : \A i \in 1..(Len(s) - 1) : s[i] # "EOF"}
Letter(c) == CHOOSE i \in 1..Len(Classes) : Classes[i] = c
EnumNext == /\ st = "run" /\ st' = "done"
            /\ PrintT("@@J " \o ToJson([s |-> [i \in 1..Len(toks) |-> Letter(toks[i])]]))
            /\ UNCHANGED <<toks, pos, stack, errs, deriv, muts, aux>>
Header == PrintT("@@J " \o ToJson([classes |-> Classes, conc |-> Conc, contexts |-> Contexts]))

----------------------------------------------------------------------------
Init == /\ errs = 0 /\ muts = <<>>
        /\ CASE Mode = "cursor" ->
                  /\ toks \in StringsOf(Alphabet \ {"EOF"}, MaxLen)
                  /\ pos = 1 /\ stack = <<Frame("program", 1)>> /\ st = "run" /\ deriv = <<>>
                  /\ aux = [fuel |-> 0, fresh |-> 0, target |-> 0]
             [] Mode = "enum" ->
                  /\ toks \in EnumStrings
                  /\ pos = 1 /\ stack = <<>> /\ st = "run" /\ deriv = <<>> /\ aux = [fuel |-> 0, fresh |-> 0, target |-> 0]
             [] Mode = "derive" ->
                  /\ toks = <<>> /\ pos = 1 /\ stack = <<>> /\ st = "derive" /\ deriv = <<N("Program")>>
                  /\ aux \in [fuel : {Fuel \div 4, Fuel \div 2, Fuel}, fresh : {1}, target : 0..MaxMuts]
Next == CASE Mode = "cursor" -> CursorNext
          [] Mode = "enum" -> EnumNext
          [] Mode = "derive" -> DeriveNext
Spec == Init /\ [][Next]_vars /\ WF_vars(Next)
=============================================================================
