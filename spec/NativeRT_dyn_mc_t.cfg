\* C20 / NativeRT.tla -- thorough: exhaustive model check, all seven element kinds, more prefills
\* The constants InitialCapacity and Growth are NOT in this file: harness/props/c20.py extracts them
\* from src/runtime/{dyn_array,list_int,list_string}.c and appends them (for a manual run add
\*   CONSTANTS InitialCapacity = 8  Growth = 2).
SPECIFICATION Spec
VIEW View
CONSTANTS
  Family = "dyn"
  Kinds = {"int", "u8", "float", "bool", "string", "array", "struct"}
  Prefills = {0, 1, 7, 8}
  InitCaps = {0}
  Vals = {1, 2}
  MaxLen = 6
  MaxObj = 1
  EmitMode = "none"
  StopAtDev = TRUE
  AllowAbort = TRUE
  AllowDev = TRUE
INVARIANTS TypeOK LenLeCap CapFloor
PROPERTIES SeqLawProp CapLawProp CloneProp
