\* emission only (used with deviation switches: what the unchanged decoder does on hostile bytes)
INIT Init
NEXT Next
INVARIANTS Emit
