\* C11 text form.  Table..Deep come from the generated root module NanoISA_MC;
\* Dev, MaxBody, MaxHostile, RealFile are appended by harness/props/c11.py.
INIT TInit
NEXT TNext
CONSTANTS
  Table <- MC_Table
  Opcodes <- MC_Opcodes
  KindSize <- MC_KindSize
  MaxOperands <- MC_MaxOperands
  MaxInstrSize <- MC_MaxInstrSize
  Deep <- MC_Deep
INVARIANTS
  TextInverse
