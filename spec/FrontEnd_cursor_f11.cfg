SPECIFICATION Spec
PROPERTY Progress
CONSTANTS
  Mode = "cursor"
  MaxLen = 3
  Alphabet = {"(", ")", "{", "}", "id", "num", "op", "else", "fn", "shadow", "let", "assert", ","}
  Dev = {"PREFIX_ARGS_NO_PROGRESS"}
  Fuel = 0
  MaxMuts = 0
