SPECIFICATION Spec
CONSTANTS
  Kind = "deep"
