---------------------------- MODULE FrontEndTrace ----------------------------
\* Trace validation for C09: the loop iterations recorded by hook H6 (hooks/h6-parser-progress.patch,
\* src/parser.c) are replayed against the discipline of the cursor machine of FrontEnd.tla:
\*   * loops nest (enter pushes a frame; an iteration or exit event belongs to the innermost frame of its
\*     kind that started where the event says it started -- frames above it were left by `return`);
\*   * the cursor never moves backwards;
\*   * every recorded iteration that continues its loop has advanced the cursor (FrontEnd!Progress);
\*     the two loops with a built-in stall detector (program, block) may stall at most StallBound times;
\*   * a `stuck` event (the no-progress fuel of the hook ran out) is a violation of Progress, unless the
\*     loop is one whose policy in FrontEnd's loop table is "none" under the deviation switches in Dev
\*     (then it is reported as `known`).
\* Events: {"e":"parse_begin","n":tokens} {"e":"enter","loop":L,"pos":p} {"e":"iter","loop":L,"pos_before":b,
\* "pos_after":a,"errs":k} {"e":"exit",...same...} {"e":"stuck","loop":L,"pos":p} {"e":"parse_end","n":pos,"errs":k}.
\* The spec is deterministic: one state per event; it does not stop at a bad event but records it, and the
\* last step (Finish) prints the summary the harness judges (violations must be empty).
EXTENDS FrontEnd, IOUtils

VARIABLES i, bad, known, stats
Tr == ndJsonDeserialize(IOEnv.TRACE)
tvars == <<vars, i, bad, known, stats>>
StallBound(k) == IF k \in {"program", "block"} THEN 11 ELSE 0
PolicyOf(k) == IF k \in LoopKinds THEN Policy(k) ELSE "progress"

Ev == Tr[i]
\* index of the innermost frame of kind k whose current iteration started at b (0: none)
RECURSIVE FindFrame(_, _, _)
FindFrame(j, k, b) == IF j = 0 THEN 0 ELSE IF stack[j].kind = k /\ stack[j].it = b THEN j ELSE FindFrame(j - 1, k, b)
Note(why) == [i |-> i, why |-> why, loop |-> IF "loop" \in DOMAIN Ev THEN Ev.loop ELSE "-", parse |-> stats.parses]

TInit == /\ i = 1 /\ bad = <<>> /\ known = <<>>
         /\ stats = [parses |-> 0, iters |-> 0, enters |-> 0, stalls |-> 0, maxdepth |-> 0]
         /\ toks = <<>> /\ pos = 0 /\ stack = <<>> /\ errs = 0 /\ st = "run" /\ deriv = <<>> /\ muts = <<>>
         /\ aux = [fuel |-> 0, fresh |-> 0, target |-> 0]

Same == UNCHANGED <<toks, deriv, muts, aux, st>>
Begin == /\ Ev.e = "parse_begin"
         /\ stack' = <<>> /\ pos' = 0 /\ errs' = 0
         /\ stats' = [stats EXCEPT !.parses = @ + 1]
         /\ UNCHANGED <<bad, known>>
End == /\ Ev.e = "parse_end"
       /\ stack' = <<>> /\ pos' = Ev.n /\ errs' = Ev.errs
       /\ bad' = IF Ev.n < pos THEN Append(bad, Note("cursor moved backwards")) ELSE bad
       /\ UNCHANGED <<known, stats>>
Enter == /\ Ev.e = "enter"
         /\ stack' = Append(stack, [kind |-> Ev.loop, it |-> Ev.pos, open |-> TRUE, stall |-> 0])
         /\ pos' = Ev.pos /\ errs' = Ev.errs
         /\ bad' = IF Ev.pos < pos THEN Append(bad, Note("cursor moved backwards")) ELSE bad
         /\ stats' = [stats EXCEPT !.enters = @ + 1, !.maxdepth = IF Len(stack) + 1 > @ THEN Len(stack) + 1 ELSE @]
         /\ UNCHANGED known
IterOrExit ==
  /\ Ev.e \in {"iter", "exit"}
  /\ LET j == FindFrame(Len(stack), Ev.loop, Ev.pos_before) IN
     IF j = 0
     THEN /\ bad' = Append(bad, Note("iteration of a loop that was not entered"))
          /\ UNCHANGED <<stack, known, stats>> /\ pos' = Ev.pos_after /\ errs' = Ev.errs
     ELSE LET f == stack[j]
              stalled == Ev.pos_after = Ev.pos_before
              nstall == IF stalled THEN f.stall + 1 ELSE 0
          IN /\ pos' = Ev.pos_after /\ errs' = Ev.errs
             /\ stack' = IF Ev.e = "exit" THEN SubSeq(stack, 1, j - 1)
                         ELSE Append(SubSeq(stack, 1, j - 1), [f EXCEPT !.it = Ev.pos_after, !.stall = nstall])
             /\ bad' = IF Ev.pos_after < Ev.pos_before \/ Ev.pos_before < f.it
                       THEN Append(bad, Note("cursor moved backwards"))
                       ELSE IF Ev.e = "iter" /\ stalled /\ nstall > StallBound(Ev.loop) /\ PolicyOf(Ev.loop) # "none"
                            THEN (IF Len(bad) < 50 THEN Append(bad, Note("iteration neither advanced the cursor nor left its loop")) ELSE bad)
                            ELSE bad
             /\ stats' = [stats EXCEPT !.iters = @ + 1, !.stalls = IF stalled /\ Ev.e = "iter" THEN @ + 1 ELSE @]
             /\ UNCHANGED known
Stuck == /\ Ev.e = "stuck"
         /\ IF PolicyOf(Ev.loop) = "none"
            THEN known' = (IF Len(known) < 200 THEN Append(known, Note("no progress (deviation switch)")) ELSE known) /\ UNCHANGED bad
            ELSE bad' = Append(bad, Note("parser stuck: no-progress fuel exhausted")) /\ UNCHANGED known
         /\ stack' = <<>> /\ UNCHANGED <<pos, errs, stats>>
Other == /\ Ev.e \notin {"parse_begin", "parse_end", "enter", "iter", "exit", "stuck"}
         /\ bad' = Append(bad, Note("unknown event")) /\ UNCHANGED <<stack, pos, errs, known, stats>>

Report == PrintT("@@J " \o ToJson([k |-> "summary", events |-> Len(Tr), stats |-> stats, violations |-> bad, known |-> known,
                                   nknown |-> Len(known)]))
TFinish == /\ i = Len(Tr) + 1 /\ i' = i + 1 /\ Report
          /\ UNCHANGED <<vars, bad, known, stats>>
TNext == \/ /\ i <= Len(Tr) /\ i' = i + 1 /\ Same
            /\ (Begin \/ End \/ Enter \/ IterOrExit \/ Stuck \/ Other)
         \/ TFinish
TSpec == TInit /\ [][TNext]_tvars
\* safety net: the frame stack stays small (no runaway nesting beyond the parser's recursion limit)
DepthOK == Len(stack) <= 4000
=============================================================================
