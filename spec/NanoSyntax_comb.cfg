SPECIFICATION Spec
INVARIANT Unambiguous
CONSTANTS
  Family = "comb"
  IntAtoms = {"a"}
  BoolAtoms = {"u"}
  Emit = TRUE
  CombSizes = {1, 2, 10, 100, 300, 450}
  Forms = {"fld", "tix", "chain", "call"}
