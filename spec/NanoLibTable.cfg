INIT Init
NEXT Next
INVARIANT Sane
CONSTANTS
  Deep = FALSE
  MaxDepth = 1024
