INIT Init
NEXT Next
INVARIANT Sane
CONSTANTS
  Deep = FALSE
