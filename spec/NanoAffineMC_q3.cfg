INIT Init
NEXT Next
INVARIANTS SoundInv ExactInv
CONSTANTS
  Vars = {"a", "b"}
  Level = 0
  MaxLen = 3
  MaxIter = 2
  Pre = 0
