\* C20 / NativeRT.tla -- quick: exhaustive model check, every state of dyn_array reachable in <= 6 steps (one representative kind per contract class)
\* The constants InitialCapacity and Growth are NOT in this file: harness/props/c20.py extracts them
\* from src/runtime/{dyn_array,list_int,list_string}.c and appends them (for a manual run add
\*   CONSTANTS InitialCapacity = 8  Growth = 2).
SPECIFICATION Spec
VIEW View
CONSTANTS
  Family = "dyn"
  Kinds = {"int", "struct"}
  Prefills = {0, 7}
  InitCaps = {0}
  Vals = {1, 2}
  MaxLen = 6
  MaxObj = 1
  EmitMode = "none"
  StopAtDev = TRUE
  AllowAbort = TRUE
  AllowDev = TRUE
INVARIANTS TypeOK LenLeCap CapFloor
PROPERTIES SeqLawProp CapLawProp CloneProp
