SPECIFICATION Spec
INVARIANT Unambiguous
CONSTANTS
  Family = "t2x"
  IntAtoms = {"a"}
  BoolAtoms = {"u"}
  Emit = TRUE
  CombSizes = {}
  Forms = {"fld", "tix", "chain", "call"}
