SPECIFICATION Spec
INVARIANT Unambiguous
CONSTANTS
  Family = "d2"
  IntAtoms = {"a", "2", "-3"}
  BoolAtoms = {"u", "true"}
  Emit = TRUE
  CombSizes = {}
  Forms = {"fld", "tix", "chain", "call"}
