SPECIFICATION Spec
INVARIANT Unambiguous
CONSTANTS
  Family = "d2"
  IntAtoms = {"a", "b", "2"}
  BoolAtoms = {"u", "true"}
  Emit = TRUE
  CombSizes = {}
  Forms = {"fld", "tix", "chain", "call"}
