---- MODULE NanoAffine ----
(***************************************************************************)
(* The static discipline for `resource struct` values (affine types) of    *)
(* docs/AFFINE_TYPES_GUIDE.md, docs/AFFINE_TYPES_DESIGN.md and MEMORY.md   *)
(* 5.12, as a transition system over the abstract syntax.                  *)
(*                                                                         *)
(* Part 1  the affine core: a function body is a sequence of commands      *)
(*         [k, x, o, bs] over *places* (a resource variable `f`, or the    *)
(*         resource field `c.h` of a holder struct variable):              *)
(*           new x   x comes into being holding a fresh resource           *)
(*           put x   the existing x is re-initialised (set x <fresh>)      *)
(*           use x   x is borrowed (a field of it is read)                 *)
(*           con x   x is consumed (passed by value to a function)         *)
(*           mvo x   x is moved out (let b = x, return x, S { h: x } ...)  *)
(*           alt bs  one of the blocks bs runs (if / else, match, and/or)  *)
(*           loop <<pre, body>>   while: pre = condition, body 0..n times  *)
(*           blk <<b>>            nested scope                             *)
(*           ret / brk / cnt      return, break, continue                  *)
(*         STATIC side: per place a state unused / used / consumed /       *)
(*         moved / maybe (dead on some path into this point), one transfer *)
(*         operator per command (DoNew DoPut DoUse DoCon DoMvo, AAlt =     *)
(*         join, ALoop = fixpoint over the back edge, ABlock = scope end,  *)
(*         DoRet = function exit) and the rules as error records [r, x]:   *)
(*           use_after_consume  double_consume  use_after_move             *)
(*           consume_in_loop    leak                                       *)
(*         DYNAMIC side: what really happens to resources when the body    *)
(*         runs (any branch, any iteration count <= MaxIter): a place is   *)
(*         live / dead / moved; touching a place that is not live, or      *)
(*         losing a live owned place, is an error.                         *)
(*         NanoAffineMC.tla checks exhaustively on a bounded space of      *)
(*         bodies that the static rules are sound and exact w.r.t. the     *)
(*         dynamic semantics.                                              *)
(* Part 2  Lower: NanoSem abstract syntax (function bodies) -> core, and   *)
(*         Violates(P): the rules a program breaks (NanoAffineRun.tla).    *)
(***************************************************************************)
EXTENDS Integers, Sequences, FiniteSets, TLC

\* ------------------------------------------------------------------ commands
Cmd(k, x, o, bs) == [k |-> k, x |-> x, o |-> o, bs |-> bs]
CNew(x, own) == Cmd("new", x, own, <<>>)
CPut(x) == Cmd("put", x, FALSE, <<>>)
CUse(x) == Cmd("use", x, FALSE, <<>>)
CCon(x) == Cmd("con", x, FALSE, <<>>)
CMvo(x) == Cmd("mvo", x, FALSE, <<>>)
CAlt(bs) == Cmd("alt", "", FALSE, bs)
CLoop(pre, body) == Cmd("loop", "", FALSE, <<pre, body>>)
CBlk(b) == Cmd("blk", "", FALSE, <<b>>)
CRet == Cmd("ret", "", FALSE, <<>>)
CBrk == Cmd("brk", "", FALSE, <<>>)
CCnt == Cmd("cnt", "", FALSE, <<>>)

Er(r, x) == [r |-> r, x |-> x]
Rules == {"use_after_consume", "double_consume", "use_after_move", "consume_in_loop", "leak"}

RECURSIVE IdxFrom(_, _, _)
IdxFrom(S, x, k) == IF k = 0 THEN 0 ELSE IF S[k].n = x THEN k ELSE IdxFrom(S, x, k - 1)
Idx(S, x) == IdxFrom(S, x, Len(S))          \* innermost binding of the name (shadowing)

\* =================================================================== STATIC
\* store: sequence of [n: place, st: state, o: owned (a let-bound local must be consumed; a parameter may be dropped)]
Ent(n, st, o) == [n |-> n, st |-> st, o |-> o]
Live(st) == st \in {"unused", "used"}
SR(S, ok, brk, cnt, errs) == [st |-> S, ok |-> ok, brk |-> brk, cnt |-> cnt, errs |-> errs]
\* ok: the end of the command is reachable; brk / cnt: the stores on the break / continue edges (sets)
Plain(S, errs) == SR(S, TRUE, {}, {}, errs)

DoNew(S, x, own) == Plain(Append(S, Ent(x, "unused", own)), {})
DoUse(S, x) ==
   LET k == Idx(S, x) IN
   IF k = 0 THEN Plain(S, {})
   ELSE IF Live(S[k].st) THEN Plain([S EXCEPT ![k].st = "used"], {})
   ELSE IF S[k].st = "moved" THEN Plain(S, {Er("use_after_move", x)})
   ELSE Plain(S, {Er("use_after_consume", x)})                       \* consumed, or consumed on some path (maybe)
DoCon(S, x) ==
   LET k == Idx(S, x) IN
   IF k = 0 THEN Plain(S, {})
   ELSE IF Live(S[k].st) THEN Plain([S EXCEPT ![k].st = "consumed"], {})
   ELSE IF S[k].st = "moved" THEN Plain(S, {Er("use_after_move", x)})
   ELSE Plain([S EXCEPT ![k].st = "consumed"], {Er("double_consume", x)})
DoMvo(S, x) ==
   LET k == Idx(S, x) IN
   IF k = 0 THEN Plain(S, {})
   ELSE IF Live(S[k].st) THEN Plain([S EXCEPT ![k].st = "moved"], {})
   ELSE IF S[k].st = "moved" THEN Plain(S, {Er("use_after_move", x)})
   ELSE Plain([S EXCEPT ![k].st = "moved"], {Er("use_after_consume", x)})
MustConsume(e) == e.o /\ e.st \in {"unused", "used", "maybe"}
DoPut(S, x) ==
   LET k == Idx(S, x) IN
   IF k = 0 THEN Plain(S, {})
   ELSE Plain([S EXCEPT ![k].st = "unused"], IF MustConsume(S[k]) THEN {Er("leak", x)} ELSE {})   \* the old resource is lost
LeakFrom(S, n) == {Er("leak", S[k].n) : k \in {j \in (n + 1)..Len(S) : MustConsume(S[j])}}
DoRet(S) == SR(S, FALSE, {}, {}, LeakFrom(S, 0))

\* join of the states a place has on the edges that meet
JoinStSet(X) ==
   IF Cardinality(X) = 1 THEN CHOOSE s \in X : TRUE
   ELSE IF X \subseteq {"unused", "used"} THEN "used"
   ELSE IF X \subseteq {"consumed", "moved"} THEN "consumed"
   ELSE "maybe"                                  \* live on one edge, dead on another
JoinAll(T) == LET s0 == CHOOSE s \in T : TRUE IN [k \in 1..Len(s0) |-> [s0[k] EXCEPT !.st = JoinStSet({s[k].st : s \in T})]]
OptS(ok, S) == IF ok THEN {S} ELSE {}
PopAll(T, n) == {SubSeq(s, 1, n) : s \in T}
LeakAll(T, n) == UNION {LeakFrom(s, n) : s \in T}

RECURSIVE AStmt(_, _), ASeq(_, _, _), ABlock(_, _), AAlt(_, _, _, _), ALoop(_, _, _, _, _)
\* brk / cnt: the stores on the break / continue edges leaving the command (sets; they are joined where the edges meet)
ASeq(r, cs, k) ==           \* r: result so far
   IF k > Len(cs) \/ ~r.ok THEN r              \* commands after a return / break are unreachable
   ELSE LET q == AStmt(r.st, cs[k]) IN
        ASeq(SR(q.st, q.ok, r.brk \cup q.brk, r.cnt \cup q.cnt, r.errs \cup q.errs), cs, k + 1)
\* a block: what it declares goes out of scope at its end, on every edge leaving it
ABlock(S, b) ==
   LET n == Len(S)
       r == ASeq(Plain(S, {}), b, 1) IN
   SR(SubSeq(r.st, 1, n), r.ok, PopAll(r.brk, n), PopAll(r.cnt, n),
      r.errs \cup (IF r.ok THEN LeakFrom(r.st, n) ELSE {}) \cup LeakAll(r.brk, n) \cup LeakAll(r.cnt, n))
\* branches: each from the same store; the states at the ends that are reachable are joined
AAlt(S, bs, k, acc) ==      \* acc: [ends: set of stores, brk, cnt, errs]
   IF k > Len(bs) THEN SR(IF acc.ends = {} THEN S ELSE JoinAll(acc.ends), acc.ends # {}, acc.brk, acc.cnt, acc.errs)
   ELSE LET r == ABlock(S, bs[k]) IN
        AAlt(S, bs, k + 1, [ends |-> acc.ends \cup OptS(r.ok, r.st), brk |-> acc.brk \cup r.brk,
                            cnt |-> acc.cnt \cup r.cnt, errs |-> acc.errs \cup r.errs])
\* loop: H = state at the loop head; iterate H := H join (states on the back edges) until stable.
\* What is dead on a back edge and touched again by the next iteration shows as an error of the later passes only.
ALoop(S, H, pre, body, first) ==
   LET rp == ASeq(Plain(H, {}), pre, 1)
       rb == IF rp.ok THEN ABlock(rp.st, body) ELSE SR(rp.st, FALSE, {}, {}, {})
       back == OptS(rb.ok, rb.st) \cup rb.cnt
       H2 == JoinAll({H} \cup back)
       errs == rp.errs \cup rb.errs
       e1 == IF first = <<>> THEN <<errs>> ELSE first IN
   IF H2 # H THEN ALoop(S, H2, pre, body, e1)
   ELSE LET exits == OptS(rp.ok, rp.st) \cup rb.brk
            later == errs \ e1[1] IN            \* what only goes wrong from the second iteration on
        SR(IF exits = {} THEN H ELSE JoinAll(exits), exits # {}, {}, {},
           e1[1] \cup {IF e.r = "leak" THEN e ELSE Er("consume_in_loop", e.x) : e \in later})

AStmt(S, c) ==
   CASE c.k = "new" -> DoNew(S, c.x, c.o)
     [] c.k = "put" -> DoPut(S, c.x)
     [] c.k = "use" -> DoUse(S, c.x)
     [] c.k = "con" -> DoCon(S, c.x)
     [] c.k = "mvo" -> DoMvo(S, c.x)
     [] c.k = "alt" -> AAlt(S, c.bs, 1, [ends |-> {}, brk |-> {}, cnt |-> {}, errs |-> {}])
     [] c.k = "loop" -> ALoop(S, S, c.bs[1], c.bs[2], <<>>)
     [] c.k = "blk" -> ABlock(S, c.bs[1])
     [] c.k = "ret" -> DoRet(S)
     [] c.k = "brk" -> SR(S, FALSE, {S}, {}, {})
     [] c.k = "cnt" -> SR(S, FALSE, {}, {S}, {})

\* a function body: falling off the end is a return
StaticErrs(body) == ASeq(Plain(<<>>, {}), body \o <<CRet>>, 1).errs
StaticRules(body) == {e.r : e \in StaticErrs(body)}

\* ================================================================== DYNAMIC
\* store entries [n, st in live/dead/moved, o]; an outcome is [st, flow, errs]
DOut(D, flow, errs) == [st |-> D, flow |-> flow, errs |-> errs]
DLeakFrom(D, n) == {Er("leak", D[k].n) : k \in {j \in (n + 1)..Len(D) : D[j].o /\ D[j].st = "live"}}
DTouch(D, x, what) ==       \* what in use / con / mvo
   LET k == Idx(D, x) IN
   IF k = 0 THEN DOut(D, "norm", {})
   ELSE IF D[k].st = "live" THEN DOut(IF what = "use" THEN D ELSE [D EXCEPT ![k].st = IF what = "con" THEN "dead" ELSE "moved"], "norm", {})
   ELSE IF D[k].st = "moved" THEN DOut(D, "norm", {Er("touch_moved", x)})
   ELSE DOut(IF what = "mvo" THEN [D EXCEPT ![k].st = "moved"] ELSE D, "norm", {Er(IF what = "con" THEN "consume_dead" ELSE "use_dead", x)})
DPut(D, x) ==
   LET k == Idx(D, x) IN
   IF k = 0 THEN DOut(D, "norm", {})
   ELSE DOut([D EXCEPT ![k].st = "live"], "norm", IF D[k].o /\ D[k].st = "live" THEN {Er("leak", x)} ELSE {})

RECURSIVE DStmt(_, _, _), DSeq(_, _, _, _, _), DBlock(_, _, _), DLoop(_, _, _, _, _)
\* all outcomes of running cs[k..] from D with errs so far; I = iteration bound of loops
DSeq(D, errs, cs, k, I) ==
   IF k > Len(cs) THEN {DOut(D, "norm", errs)}
   ELSE UNION {IF o.flow = "norm" THEN DSeq(o.st, errs \cup o.errs, cs, k + 1, I) ELSE {DOut(o.st, o.flow, errs \cup o.errs)}
               : o \in DStmt(D, cs[k], I)}
DBlock(D, b, I) ==
   LET n == Len(D) IN
   {DOut(SubSeq(o.st, 1, n), o.flow, o.errs \cup (IF o.flow = "ret" THEN {} ELSE DLeakFrom(o.st, n))) : o \in DSeq(D, {}, b, 1, I)}
DLoop(D, pre, body, n, I) ==
   UNION {IF p.flow # "norm" THEN {p}
          ELSE {p}                                                     \* the condition is false: leave the loop
               \cup (IF n = 0 THEN {}
                     ELSE UNION {IF o.flow = "ret" THEN {DOut(o.st, "ret", p.errs \cup o.errs)}
                                 ELSE IF o.flow = "brk" THEN {DOut(o.st, "norm", p.errs \cup o.errs)}
                                 ELSE {DOut(q.st, q.flow, p.errs \cup o.errs \cup q.errs) : q \in DLoop(o.st, pre, body, n - 1, I)}
                                 : o \in DBlock(p.st, body, I)})
          : p \in DSeq(D, {}, pre, 1, I)}
DStmt(D, c, I) ==
   CASE c.k = "new" -> {DOut(Append(D, Ent(c.x, "live", c.o)), "norm", {})}
     [] c.k = "put" -> {DPut(D, c.x)}
     [] c.k \in {"use", "con", "mvo"} -> {DTouch(D, c.x, c.k)}
     [] c.k = "alt" -> UNION {DBlock(D, c.bs[i], I) : i \in 1..Len(c.bs)}
     [] c.k = "loop" -> DLoop(D, c.bs[1], c.bs[2], I, I)
     [] c.k = "blk" -> DBlock(D, c.bs[1], I)
     [] c.k = "ret" -> {DOut(D, "ret", DLeakFrom(D, 0))}
     [] c.k = "brk" -> {DOut(D, "brk", {})}
     [] c.k = "cnt" -> {DOut(D, "cnt", {})}
DynErrs(body, I) == UNION {o.errs : o \in DSeq(<<>>, {}, body \o <<CRet>>, 1, I)}

\* the correspondence of rule names: a static rule is about dead places or about lost ones
SClass(r) == IF r = "leak" THEN "lost" ELSE "dead"
DClass(r) == IF r = "leak" THEN "lost" ELSE "dead"
Sound(body, I) == StaticErrs(body) = {} => DynErrs(body, I) = {}
\* ... and exact, place by place, when every branch outcome is possible
Exact(body, I) == {<<SClass(e.r), e.x>> : e \in StaticErrs(body)} = {<<DClass(e.r), e.x>> : e \in DynErrs(body, I)}

\* ======================================================= Part 2: NanoSem syntax
\* P.structs[i] = [n, fields, ftys, ftyS, res]; types are the records of NanoType.tla ([k, n, a]).
RECURSIVE FindN(_, _, _)
FindN(seq, name, k) == IF k = 0 THEN 0 ELSE IF seq[k].n = name THEN k ELSE FindN(seq, name, k - 1)
Find(seq, name) == FindN(seq, name, Len(seq))
IsResTy(P, t) == t.k = "struct" /\ LET i == Find(P.structs, t.n) IN i # 0 /\ P.structs[i].res
\* resource fields of a holder struct (a plain struct with fields of a resource type), in declaration order
ResFields(P, t) ==
   IF t.k # "struct" \/ IsResTy(P, t) THEN <<>>
   ELSE LET i == Find(P.structs, t.n) IN
        IF i = 0 THEN <<>>
        ELSE LET d == P.structs[i] IN
             [j \in 1..Len(SelectSeq([q \in 1..Len(d.fields) |-> q], LAMBDA q : IsResTy(P, d.ftyS[q]))) |->
                  d.fields[SelectSeq([q \in 1..Len(d.fields) |-> q], LAMBDA q : IsResTy(P, d.ftyS[q]))[j]]]
\* the places a variable of type t stands for
PlacesOf(P, v, t) == IF IsResTy(P, t) THEN <<v>> ELSE LET fs == ResFields(P, t) IN [j \in 1..Len(fs) |-> v \o "." \o fs[j]]
VarTy(G, v) == LET k == Find(G, v) IN IF k = 0 THEN [k |-> "none", n |-> "", a |-> <<>>] ELSE G[k].t
\* the places an expression denotes when it is a bare variable / holder field: <<>> if it is no such expression
Denotes(P, G, e) ==
   IF e.k = "var" THEN PlacesOf(P, e.s, VarTy(G, e.s))
   ELSE IF e.k = "field" /\ e.a[1].k = "var" THEN
        LET fs == ResFields(P, VarTy(G, e.a[1].s)) IN
        IF \E j \in 1..Len(fs) : fs[j] = e.s THEN <<e.a[1].s \o "." \o e.s>> ELSE <<>>
   ELSE <<>>
Each(ps, Mk(_)) == [j \in 1..Len(ps) |-> Mk(ps[j])]
IsFn(P, name) == Find(P.funcs, name) # 0 \/ Find(P.externs, name) # 0

RECURSIVE LowE(_, _, _), LowArgs(_, _, _, _, _, _), LowS(_, _, _), LowB(_, _, _, _, _)
\* an operand in a moving position (initialiser, return value, field of a literal): a place moves, anything else is evaluated
MoveOrEval(P, G, e) == LET ps == Denotes(P, G, e) IN IF ps # <<>> THEN Each(ps, CMvo) ELSE LowE(P, G, e)
\* arguments left to right; how in con / use / mvo says what happens to an argument that is a place
LowArgs(P, G, es, k, how, acc) ==
   IF k > Len(es) THEN acc
   ELSE LET ps == Denotes(P, G, es[k]) IN
        LowArgs(P, G, es, k + 1, how,
                acc \o (IF ps = <<>> THEN LowE(P, G, es[k])
                        ELSE IF how = "con" THEN Each(ps, CCon) ELSE IF how = "mvo" THEN Each(ps, CMvo) ELSE Each(ps, CUse)))
LowE(P, G, e) ==
   CASE e.k \in {"int", "float", "bool", "str", "enum"} -> <<>>
     [] e.k = "var" -> Each(Denotes(P, G, e), CUse)
     [] e.k = "field" -> LET ps == Denotes(P, G, e) IN
                         IF ps # <<>> THEN Each(ps, CUse)                                  \* c.h read as a value
                         ELSE LET qs == Denotes(P, G, e.a[1]) IN
                              IF qs # <<>> /\ (e.a[1].k = "field" \/ IsResTy(P, VarTy(G, e.a[1].s))) THEN Each(qs, CUse)   \* f.fd, c.h.fd
                              ELSE IF e.a[1].k = "var" THEN <<>>                            \* c.tag: no resource is touched
                              ELSE LowE(P, G, e.a[1])
     [] e.k = "tidx" -> LowE(P, G, e.a[1])
     [] e.k = "un" -> LowArgs(P, G, e.a, 1, "use", <<>>)
     [] e.k = "bin" -> IF e.s \in {"and", "or"}
                       THEN LET r == LowArgs(P, G, <<e.a[2]>>, 1, "use", <<>>) IN
                            LowArgs(P, G, <<e.a[1]>>, 1, "use", <<>>) \o (IF r = <<>> THEN <<>> ELSE <<CAlt(<<r, <<>>>>)>>)   \* short circuit
                       ELSE LowArgs(P, G, e.a, 1, "use", <<>>)
     [] e.k = "ifx" -> LET a == MoveOrEval(P, G, e.a[2])  b == MoveOrEval(P, G, e.a[3]) IN
                       LowArgs(P, G, <<e.a[1]>>, 1, "use", <<>>) \o (IF a = <<>> /\ b = <<>> THEN <<>> ELSE <<CAlt(<<a, b>>)>>)
     [] e.k = "call" -> LowArgs(P, G, e.a, 1, IF IsFn(P, e.s) THEN "con" ELSE "use", <<>>)   \* by value to a function: consumed
     [] e.k \in {"slit", "ulit", "alit", "tlit"} -> LowArgs(P, G, e.a, 1, "mvo", <<>>)
     [] OTHER -> <<>>

LR(ir, G) == [ir |-> ir, G |-> G]
LowB(P, G, ss, k, acc) == IF k > Len(ss) THEN acc ELSE LET r == LowS(P, G, ss[k]) IN LowB(P, r.G, ss, k + 1, acc \o r.ir)
Body(P, G, ss) == LowB(P, G, ss, 1, <<>>)
LowS(P, G, s) ==
   CASE s.k = "let" -> LR(MoveOrEval(P, G, s.a[1]) \o Each(PlacesOf(P, s.s, s.tyS), LAMBDA x : CNew(x, TRUE)),
                          Append(G, [n |-> s.s, t |-> s.tyS]))
     [] s.k = "set" -> LR(MoveOrEval(P, G, s.a[1]) \o Each(PlacesOf(P, s.s, VarTy(G, s.s)), CPut), G)
     [] s.k \in {"expr", "assert"} -> LR(LowE(P, G, s.a[1]), G)
     [] s.k = "ret" -> LR((IF Len(s.a) = 0 THEN <<>> ELSE MoveOrEval(P, G, s.a[1])) \o <<CRet>>, G)
     [] s.k = "break" -> LR(<<CBrk>>, G)
     [] s.k = "continue" -> LR(<<CCnt>>, G)
     [] s.k = "if" -> LR(LowE(P, G, s.a[1]) \o <<CAlt(<<Body(P, G, s.b), Body(P, G, s.c)>>)>>, G)
     [] s.k \in {"block", "unsafe"} -> LR(<<CBlk(Body(P, G, s.b))>>, G)
     [] s.k = "while" -> LR(<<CLoop(LowE(P, G, s.a[1]), Body(P, G, s.b))>>, G)
     [] s.k = "for" -> LR(LowE(P, G, s.a[1]) \o LowE(P, G, s.a[2]) \o <<CLoop(<<>>, Body(P, Append(G, [n |-> s.s, t |-> [k |-> "int", n |-> "", a |-> <<>>]]), s.b))>>, G)
     [] s.k = "forin" -> LR(LowE(P, G, s.a[1]) \o <<CLoop(<<>>, Body(P, Append(G, [n |-> s.s, t |-> [k |-> "none", n |-> "", a |-> <<>>]]), s.b))>>, G)
     [] s.k = "match" -> LR(LowE(P, G, s.a[1]) \o
                            <<CAlt([j \in 1..Len(s.arms) |-> Body(P, Append(G, [n |-> s.arms[j].bind, t |-> [k |-> "none", n |-> "", a |-> <<>>]]), s.arms[j].b)])>>, G)
     [] OTHER -> LR(<<>>, G)

\* a function: resource parameters are places the function owns but need not consume (the final consumer drops them)
RECURSIVE ParamCmds(_, _, _, _)
ParamCmds(P, f, k, acc) ==
   IF k > Len(f.params) THEN acc
   ELSE ParamCmds(P, f, k + 1, acc \o Each(PlacesOf(P, f.params[k], f.ptyS[k]), LAMBDA x : CNew(x, FALSE)))
FuncCore(P, f) == ParamCmds(P, f, 1, <<>>) \o Body(P, [k \in 1..Len(f.params) |-> [n |-> f.params[k], t |-> f.ptyS[k]]], f.body)
ShadowCore(P, sh) == Body(P, <<>>, sh.b)
\* [fn, r, x]: function (or shadow:<fn>), rule, place
Findings(P) ==
   UNION {{[fn |-> P.funcs[i].n, r |-> e.r, x |-> e.x] : e \in StaticErrs(FuncCore(P, P.funcs[i]))} : i \in 1..Len(P.funcs)}
   \cup UNION {{[fn |-> "shadow:" \o P.shadows[i].fn, r |-> e.r, x |-> e.x] : e \in StaticErrs(ShadowCore(P, P.shadows[i]))} : i \in 1..Len(P.shadows)}
Violates(P) == {d.r : d \in Findings(P)}
\* the same program judged by its executions (conditions treated as free): which places can go wrong
DynFindings(P, I) ==
   UNION {{[fn |-> P.funcs[i].n, r |-> e.r, x |-> e.x] : e \in DynErrs(FuncCore(P, P.funcs[i]), I)} : i \in 1..Len(P.funcs)}
   \cup UNION {{[fn |-> "shadow:" \o P.shadows[i].fn, r |-> e.r, x |-> e.x] : e \in DynErrs(ShadowCore(P, P.shadows[i]), I)} : i \in 1..Len(P.shadows)}
====
