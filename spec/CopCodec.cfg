INIT Init
NEXT Next
INVARIANTS RoundTrip SizeLaw CapLaw CapLawLong PrefixRefused Emit
