\* C17 (quick): three well-formed exec clients x modules, every interleaving; one OUTPUT frame per unit (line-buffered); arbitrary frame boundaries are explored by Vmd_c17_full.
SPECIFICATION Spec
CONSTANTS
  N = 3
  Suite = "c17q"
  Verify = TRUE
  CrcModel = "atomic"
  IgnoreSigpipe = TRUE
  Cap = 2
  Buffered = FALSE
  Gaps = "overlap"
  DropExit = FALSE
  FlushOnErr = TRUE
  KeepData = TRUE
  ExternalProg <- NoExternal
  Emit = FALSE
INVARIANTS TypeOK Isolation Transparency Available ReplyOK ActiveOK StatusOK
