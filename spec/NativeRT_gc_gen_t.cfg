\* C20 / NativeRT.tla -- thorough: every state reachable in <= 6 steps with 3 objects
\* The constants InitialCapacity and Growth are NOT in this file: harness/props/c20.py extracts them
\* from src/runtime/{dyn_array,list_int,list_string}.c and appends them (for a manual run add
\*   CONSTANTS InitialCapacity = 8  Growth = 2).
SPECIFICATION Spec
VIEW View
CONSTANTS
  Family = "gc"
  Kinds = {"int"}
  Prefills = {0}
  InitCaps = {0}
  Vals = {1}
  MaxLen = 6
  MaxObj = 3
  EmitMode = "edge"
  StopAtDev = TRUE
  AllowAbort = TRUE
  AllowDev = TRUE
INVARIANTS TypeOK RcZeroIffFreed RcExact NoDangling FreedHasNoOwner
PROPERTIES FreeOnceProp
