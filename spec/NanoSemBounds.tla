---- MODULE NanoSemBounds ----
(***************************************************************************)
(* C08: out-of-range operations stop the program and never yield a value.  *)
(* TLC enumerates every case (array length n, index, operation, syntactic  *)
(* context), builds the program as abstract syntax, evaluates it with      *)
(* NanoSem and checks on the specification itself that an index outside    *)
(* [0, n) ends the run with fault:bounds before any later event, while an  *)
(* index inside is an ordinary access.  Each case is printed (AST +        *)
(* prescribed output prefix) and replayed on every engine.                 *)
(***************************************************************************)
EXTENDS NanoSem, Json

CONSTANTS MaxLen

\* ---- abstract syntax constructors (same node shapes as harness/lib/nano_ast.py) ----
Ex(k, s, i, a, f) == [k |-> k, s |-> s, i |-> i, a |-> a, f |-> f]
IntL(l) == Ex("int", "", l, <<>>, <<>>)
Nat2(n) == IntL(I64FromNat(n))
Str(x) == Ex("str", x, L0, <<>>, <<>>)
Var(n) == Ex("var", n, L0, <<>>, <<>>)
CallE(f, args) == Ex("call", f, L0, args, <<>>)
ALitE(es) == Ex("alit", "int", L0, es, <<>>)
Stm(k, s, a, b, c, t, m) == [k |-> k, s |-> s, a |-> a, b |-> b, c |-> c, arms |-> <<>>, t |-> t, m |-> m]
LetS(n, ty, e, m) == Stm("let", n, <<e>>, <<>>, <<>>, ty, m)
ExprS(e) == Stm("expr", "", <<e>>, <<>>, <<>>, "", 0)
RetS(e) == Stm("ret", "", <<e>>, <<>>, <<>>, "", 0)
ForS(v, lo, hi, body) == Stm("for", v, <<lo, hi>>, body, <<>>, "", 0)
PrintlnS(e) == ExprS(CallE("println", <<e>>))
FuncD(n, ps, pts, ret, body) == [n |-> n, params |-> ps, ptys |-> pts, ret |-> ret, body |-> body]

\* ---- the case space ----
Lens == 0..MaxLen
Ops == {"read", "write", "pop"}
Ctxs == {"straight", "loop", "callee", "computed"}
Two31 == <<0, 0, 32768, 0>>
Two32 == <<0, 1, 0, 0>>
IdxKinds == {"m1", "n", "n1", "min", "max", "p32", "p32k", "p31", "in0", "inlast"}
IdxOf(kind, n) ==
   CASE kind = "m1" -> I64Neg(I64One)
     [] kind = "n" -> I64FromNat(n)
     [] kind = "n1" -> I64FromNat(n + 1)
     [] kind = "min" -> I64MinI
     [] kind = "max" -> I64MaxI
     [] kind = "p32" -> Two32
     [] kind = "p32k" -> I64Add(Two32, I64FromNat(IF n > 0 THEN n - 1 ELSE 0))     \* aliases a valid index when truncated to 32 bits
     [] kind = "p31" -> Two31
     [] kind = "in0" -> I64Zero
     [] kind = "inlast" -> I64FromNat(IF n > 0 THEN n - 1 ELSE 0)
InRange(kind, n) == kind \in {"in0", "inlast"} /\ n > 0

VARIABLES n, kind, op, cx, phase
vars == <<n, kind, op, cx, phase>>

Access(o, arr, ix) ==
   CASE o = "read"  -> <<PrintlnS(CallE("at", <<arr, ix>>))>>
     [] o = "write" -> <<ExprS(CallE("array_set", <<arr, ix, Nat2(7)>>)), PrintlnS(CallE("array_length", <<arr>>))>>
     [] o = "pop"   -> <<PrintlnS(CallE("array_pop", <<arr>>))>>
Body(len, k, o, c) ==
   LET ix == IntL(IdxOf(k, len))
       elems == [j \in 1..len |-> Nat2(10 + j)]
       acc == CASE c = "straight" -> Access(o, Var("a"), ix)
                [] c = "loop"     -> <<ForS("j", Nat2(0), Nat2(2), Access(o, Var("a"), ix))>>
                [] c = "callee"   -> <<PrintlnS(CallE("poke", <<Var("a"), ix>>))>>
                [] c = "computed" -> <<LetS("ix", "int", Ex("bin", "+", L0, <<ix, Nat2(0)>>, <<>>), 1)>> \o Access(o, Var("a"), Var("ix"))
   IN <<LetS("a", "array<int>", ALitE(elems), 1), PrintlnS(Str("before"))>> \o acc \o <<PrintlnS(Str("after")), RetS(Nat2(0))>>
Poke(o) == FuncD("poke", <<"z", "i">>, <<"array<int>", "int">>, "int",
                 CASE o = "read"  -> <<RetS(CallE("at", <<Var("z"), Var("i")>>))>>
                   [] o = "write" -> <<ExprS(CallE("array_set", <<Var("z"), Var("i"), Nat2(7)>>)), RetS(CallE("array_length", <<Var("z")>>))>>
                   [] o = "pop"   -> <<RetS(CallE("array_pop", <<Var("z")>>))>>)
Prog(len, k, o, c) ==
   [funcs |-> <<Poke(o), FuncD("body", <<>>, <<>>, "int", Body(len, k, o, c)),
               FuncD("main", <<>>, <<>>, "int", <<RetS(CallE("body", <<>>))>>)>>,
    structs |-> <<>>, enums |-> <<>>, unions |-> <<>>, globals |-> <<>>, shadows |-> <<>>, externs |-> <<>>]

\* pop ignores the index: one index kind is enough for it; an empty array has no in-range index
Relevant == /\ (op = "pop" => kind = "in0")
            /\ (kind \in {"in0", "inlast"} /\ n = 0 => op = "pop")
            /\ (kind = "inlast" => n > 1)
Init == /\ n \in Lens /\ kind \in IdxKinds /\ op \in Ops /\ cx \in Ctxs /\ phase = "todo" /\ Relevant
Run == RunMain(Prog(n, kind, op, cx), {}, "spec", 5000)
Faulting == IF op = "pop" THEN (IF cx = "loop" THEN n < 2 ELSE n = 0) ELSE ~InRange(kind, n)
Next == /\ phase = "todo" /\ phase' = "done" /\ UNCHANGED <<n, kind, op, cx>>
        /\ LET r == Run IN
           PrintT("@@J " \o ToJson([n |-> n, kind |-> kind, op |-> op, cx |-> cx, idx |-> IdxOf(kind, n), faulting |-> Faulting,
                                    status |-> r.status, exit |-> r.exit, out |-> r.out, prog |-> Prog(n, kind, op, cx)]))
Spec == Init /\ [][Next]_vars
\* ---- the property on the specification itself ----
HasAfter(out) == \E i \in 1..Len(out) : out[i].t = "str" /\ out[i].s = "after"
Stops == phase = "todo" =>
   LET r == Run IN
   IF Faulting THEN /\ r.status = "fault:bounds"                   \* run-time error
                    /\ ~HasAfter(r.out)                             \* no statement after the access is observed
                    /\ ((op # "pop" \/ cx # "loop") => r.out[Len(r.out)].s = "before")   \* the access itself yields no value
               ELSE r.status = "ok" /\ HasAfter(r.out)
====
