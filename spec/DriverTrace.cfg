INIT TInit
NEXT TNext
CONSTRAINT Track
POSTCONDITION Post
INVARIANTS Gate FailExit RejectQuiet NoLateWork
CONSTANTS
  MaxShadows = 3
  MaxAsserts = 3
