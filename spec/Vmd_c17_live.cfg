\* C17 liveness: every well-formed client is eventually served, every session ends (weak fairness)
SPECIFICATION Spec
CONSTANTS
  N = 3
  Suite = "c17l"
  Verify = TRUE
  CrcModel = "atomic"
  IgnoreSigpipe = TRUE
  Cap = 2
  Buffered = FALSE
  Gaps = "overlap"
  DropExit = FALSE
  FlushOnErr = TRUE
  KeepData = TRUE
  ExternalProg <- NoExternal
  Emit = FALSE
INVARIANTS TypeOK Isolation Transparency Available
PROPERTIES GoodServed AllEnd
