SPECIFICATION Spec
INVARIANT DepthBound
INVARIANT CacheOnce
PROPERTY Terminates
CONSTANTS
  Dev = {}
  Specials = {}
  MaxEdges = 3
