SPECIFICATION Spec
INVARIANTS VerifiedNoDecodeTrap VerifiedIndices Bounds Heap
CONSTRAINT StackConstraint
CONSTANTS
  MaxLen = 2
  Fuel = 10
  MaxFrames = 3
  MaxStackM = 8
