\* C13 (loader): section check repaired, string-length check as written: EXPECTED to violate ReadsInBounds (pos + slen wraps).
SPECIFICATION Spec
CONSTANTS
  W = 8
  SecCheck = "safe"
  StrCheck = "asWritten"
  Family = "hostileStr"
  MaxBurst = 0
  MaxTail = 0
  MaxFaults = 0
  SampleMod = 1
  Full = FALSE
INVARIANTS TypeOK SizeAssumption ReadsInBounds
