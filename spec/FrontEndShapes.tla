---------------------------- MODULE FrontEndShapes ----------------------------
\* C09: size and depth dimension of the input space.
\*
\* Every *recursive* syntactic category of the language (a nonterminal that can contain itself) gets a
\* "deep" shape  pre . open^n . core . close^n . post ; every *repetitive* category (a list the parser or
\* the type checker walks) gets a "wide" shape  pre . item^n . post .  TLC enumerates shape x size; the harness
\* only concatenates the strings ('#' inside a repeated unit stands for the repetition index, so that names differ).  The table is the specification of which categories exist; RecursiveCats /
\* RepetitiveCats list them by name and TLC checks that each has at least one shape (Covered).
\*   deep shapes:  the documents promise a depth limit with a diagnostic (SPECIFICATION / parser.c
\*                 MAX_RECURSION_DEPTH 1000, typechecker.c MAX_CHECK_EXPR_DEPTH 2000): beyond it the front end must
\*                 reject with a diagnostic -- never a signal.
\*   wide shapes:  the only documented bound is the 10 MB source limit of the drivers: the front end must finish
\*                 within the time budget for every file up to that size; the harness measures three sizes and
\*                 extrapolates (the growth exponent is part of the evidence).
EXTENDS Integers, Sequences, FiniteSets, TLC, Json

CONSTANTS Kind,      \* "deep" | "wide"
          Sizes      \* set of n

Main(body) == "fn main() -> int {\n" \o body \o "\nreturn 0 }\n"
S(cat, name, pre, open, core, close, post) ==
   [cat |-> cat, name |-> name, pre |-> pre, open |-> open, core |-> core, close |-> close, post |-> post, div |-> 1]
\* the unit is repeated n \div d times (units that are themselves large)
Scaled(s, d) == [s EXCEPT !.div = d]
RECURSIVE Rep(_, _)
Rep(str, k) == IF k = 0 THEN "" ELSE str \o Rep(str, k - 1)
InMain(cat, name, lead, open, core, close) ==
   S(cat, name, "fn main() -> int {\n" \o lead, open, core, close, "\nreturn 0 }\n")

RecursiveCats == {"type", "expression", "statement", "literal", "pattern", "definition", "comment"}
DeepShapes == {
  \* ---- types (parse_type_with_element, parse_function_signature)
  InMain("type", "type-array", "let x: ", "array<", "int", ">"),
  InMain("type", "type-list", "let x: ", "List<", "int", ">"),
  InMain("type", "type-hashmap", "let x: ", "HashMap<string, ", "int", ">"),
  InMain("type", "type-generic-user", "let x: ", "Result<", "int", ", int>"),
  InMain("type", "type-tuple", "let x: ", "(", "int", ", int)"),
  InMain("type", "type-fn-param", "let x: ", "fn(", "int", ") -> int"),
  S("type", "type-fn-return", "fn main() -> int {\nlet x: ", "fn(int) -> ", "int", "", " = 0\nreturn 0 }\n"),
  S("type", "type-in-param", "fn g(a: ", "array<", "int", ">", ") -> int { return 0 }\nfn main() -> int { return 0 }\n"),
  S("type", "type-in-return", "fn g() -> ", "array<", "int", ">", " { return [] }\nfn main() -> int { return 0 }\n"),
  S("type", "type-in-struct", "struct S { a: ", "array<", "int", ">", " }\nfn main() -> int { return 0 }\n"),
  S("type", "type-in-union", "union U { V { a: ", "(", "int", ", int)", " } }\nfn main() -> int { return 0 }\n"),
  S("type", "type-in-extern", "extern fn g(a: ", "fn(", "int", ") -> int", ") -> int\nfn main() -> int { return 0 }\n"),
  InMain("type", "type-open", "let x: ", "array<", "", ""),
  \* ---- expressions
  InMain("expression", "prefix-parens", "let v: int = ", "(+ 1 ", "1", ")"),
  InMain("expression", "group-parens", "let v: int = ", "(", "1", ")"),
  InMain("expression", "open-parens", "let v: int = ", "(", "", ""),
  InMain("expression", "open-prefix", "let v: int = ", "(+ 1 ", "", ""),
  InMain("expression", "unary-minus", "let v: int = ", "- ", "1", ""),
  InMain("expression", "unary-not", "let v: bool = ", "not ", "true", ""),
  InMain("expression", "call-chain", "let v: int = ", "(f ", "1", ")"),
  InMain("expression", "tuple-parens", "let v: int = ", "(1, ", "1", ")"),
  InMain("expression", "cond-nest", "let v: int = ", "(cond (true ", "1", ") (else 0))"),
  InMain("expression", "ifexpr-in-cond", "let v: int = ", "if ", "true", " { 1 } else { 0 }"),
  InMain("expression", "ifexpr-in-branch", "let v: int = ", "if true { ", "1", " } else { 0 }"),
  InMain("expression", "match-in-arm", "let v: int = ", "match x { A(a) => ", "1", " }"),
  InMain("expression", "unsafe-expr", "let v: int = ", "unsafe { ", "1", " }"),
  InMain("expression", "field-chain", "let v: int = a", "\n.b", "", ""),
  InMain("expression", "tuple-index-chain", "let v: int = t", "\n.0 ", "", ""),
  InMain("expression", "infix-chain", "let v: int = 1", "\n + 1", "", ""),
  InMain("expression", "and-chain", "let v: bool = true", "\n and true", "", ""),
  InMain("expression", "qualified-chain", "let v: int = a", "::b", "", ""),
  InMain("expression", "paren-right-nest", "let v: int = ", "1 + (", "1", ")"),
  \* ---- literals
  InMain("literal", "arrays", "let v: int = ", "[", "1", "]"),
  InMain("literal", "struct-lit", "let v: int = ", "P { a: ", "1", " }"),
  InMain("literal", "anon-struct-lit", "let v: int = ", "{ a: ", "1", " }"),
  InMain("literal", "union-construct", "let v: int = ", "U.V { a: ", "1", " }"),
  InMain("literal", "generic-union-construct", "let v: int = ", "R<", "int", ">"),
  \* ---- statements / blocks
  InMain("statement", "blocks", "", "if true { ", "", "}"),
  InMain("statement", "open-blocks", "", "if true { ", "", ""),
  InMain("statement", "while-nest", "", "while true { ", "", "}"),
  InMain("statement", "for-nest", "", "for i in (range 0 1) { ", "", "}"),
  InMain("statement", "unsafe-nest", "", "unsafe { ", "", "}"),
  InMain("statement", "if-chain", "if false { }", "\n else if false { }", "", ""),
  InMain("statement", "match-nest", "", "match x { A(a) => { ", "", "} }"),
  InMain("statement", "return-nest", "", "return ", "0", ""),
  \* ---- patterns: a match pattern is Variant(binding), not recursive in this language; arms nest through bodies
  InMain("pattern", "match-arm-body-nest", "", "match x { A(a) => match a { B(b) => ", "{ }", " } }"),
  \* ---- definitions
  InMain("definition", "fn-nest", "", "fn g() -> int { ", "", "return 0 }"),
  S("definition", "shadow-nest", "fn f() -> int { return 0 }\n", "shadow f { ", "", "}", "\nfn main() -> int { return 0 }\n"),
  \* ---- comments do not nest in the lexer; an opener inside a comment is text
  InMain("comment", "comment-openers", "/* ", "/* ", "*/", "")
}

RepetitiveCats == {"statements", "parameters", "arguments", "elements", "fields", "variants", "items", "imports", "tokens", "diagnostics"}
WideShapes == {
  InMain("statements", "let-chain", "", "let v#: int = 1\n", "", ""),
  InMain("statements", "println-chain", "", "(println 1)\n", "", ""),
  InMain("statements", "assert-chain", "", "assert (== 1 1)\n", "", ""),
  S("parameters", "params-many", "fn g(a: int", ", a#: int", "", "", ") -> int { return 0 }\nfn main() -> int { return 0 }\n"),
  InMain("arguments", "args-many", "let v: int = (f", " 1", ")", ""),
  InMain("elements", "array-wide", "let v: array<int> = [1", ", 1", "]", ""),
  S("fields", "struct-fields-many", "struct S { a: int", ", a#: int", "", "", " }\nfn main() -> int { return 0 }\n"),
  S("variants", "enum-many", "enum E { A", ", A#", "", "", " }\nfn main() -> int { return 0 }\n"),
  S("items", "fn-many", "", "fn g#() -> int { return 0 }\n", "", "", "fn main() -> int { return 0 }\n"),
  S("items", "struct-many", "", "struct S# { a: int }\n", "", "", "fn main() -> int { return 0 }\n"),
  S("imports", "import-many", "", "import \"nosuch.nano\"\n", "", "", "fn main() -> int { return 0 }\n"),
  InMain("tokens", "string-long", "let s: string = \"", "aaaaaaaaaa", "\"", ""),
  InMain("tokens", "comment-long", "/* ", "aaaaaaaaaa", " */", ""),
  InMain("tokens", "ident-long", "let v: int = a", "aaaaaaaaaa", "", ""),
  InMain("tokens", "number-long", "let v: int = 1", "0000000000", "", ""),
  \* ---- diagnostics: many errors in one file (each error echoes a source line)
  InMain("diagnostics", "type-errors-many", "", "let v: int = true\n", "", ""),
  InMain("diagnostics", "undefined-many", "", "(println nosuch)\n", "", ""),
  \* parenthesised groups as right operands, each holding a chain just below the type checker's depth limit
  Scaled(InMain("diagnostics", "deep-chain-errors", "let v: int = ", "1" \o Rep("\n + 1", 1990) \o " + (", "1", ")"), 1000),
  S("diagnostics", "parse-errors-many", "", "fn ( {\n", "", "", "fn main() -> int { return 0 }\n")
}

Shapes == IF Kind = "deep" THEN DeepShapes ELSE WideShapes
Covered == /\ \A c \in RecursiveCats : \E s \in DeepShapes : s.cat = c
           /\ \A c \in RepetitiveCats : \E s \in WideShapes : s.cat = c
           /\ \A s \in DeepShapes : s.cat \in RecursiveCats
           /\ \A s \in WideShapes : s.cat \in RepetitiveCats
           /\ Cardinality({s.name : s \in DeepShapes \cup WideShapes}) = Cardinality(DeepShapes \cup WideShapes)
ASSUME Covered

VARIABLES shape, n, st
Init == shape \in Shapes /\ n \in Sizes /\ st = "todo"
Next == /\ st = "todo" /\ st' = "done"
        /\ PrintT("@@J " \o ToJson([kind |-> Kind, cat |-> shape.cat, name |-> shape.name, n |-> n, pre |-> shape.pre,
                                    open |-> shape.open, core |-> shape.core, close |-> shape.close, post |-> shape.post, div |-> shape.div]))
        /\ UNCHANGED <<shape, n>>
Spec == Init /\ [][Next]_<<shape, n, st>>
=============================================================================
