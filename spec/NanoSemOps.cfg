INIT Init
NEXT Next
INVARIANT Laws
CONSTANTS
  MaxDepth = 1024
