SPECIFICATION Spec
INVARIANT Unambiguous
CONSTANTS
  Family = "t3"
  IntAtoms = {"a"}
  BoolAtoms = {"u"}
  Emit = TRUE
  CombSizes = {}
  Forms = {"fld", "tix", "chain", "call"}
