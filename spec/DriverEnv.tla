---------------------------- MODULE DriverEnv ----------------------------
(***************************************************************************)
(* C19 -- compilation is a function of the source (environment part of the  *)
(* compile driver model; the phase-gate part lives in Driver.tla).          *)
(*                                                                         *)
(* State: the configuration under which the compiler runs -- working        *)
(* directory, TMPDIR, unrelated environment variables, ASLR, MALLOC_PERTURB_,*)
(* how the tool and the source are addressed (relative / absolute path),    *)
(* whether the working directory holds unrelated files that carry the      *)
(* names of the program's modules (decoys), the number of times the same    *)
(* configuration has been run -- and the                                    *)
(* `artifact` the compiler produces for the fixed source under that          *)
(* configuration.  The environment actions change the configuration; the    *)
(* property is that none of them changes the artifact:                      *)
(*      ArtifactStable == [][artifact' = artifact]_vars                     *)
(* (the pid and TMPDIR flow only into the name of the scratch file           *)
(* nanoc_<pid>_<out>.c, never into the artifact).                           *)
(*                                                                         *)
(* The model is thin on purpose (DESIGN 6/C19): it fixes the configuration  *)
(* space, the legal steps and the acceptance rule.  It is also the          *)
(* generator: Gen* below is a greedy covering-walk construction evaluated   *)
(* by TLC -- walks of at most MaxWalk environment steps whose visited       *)
(* configurations cover every PAIR of values of every two dimensions -- and  *)
(* it prints the walks as JSON.  DriverEnvTrace.tla replays what the real    *)
(* tools produced along those walks through the very same actions.          *)
(***************************************************************************)
EXTENDS Integers, Sequences, FiniteSets, TLC, Json, SequencesExt

CONSTANTS Cwds, Tmps, Envs, Aslrs, Perturbs, Invs, Decoys,   \* value sets of the dimensions (strings)
          MaxWalk,                                   \* environment steps per walk
          Start                                      \* rotates the tie-breaking of the greedy choice (seed)

VARIABLES cfg,        \* [cwd, tmp, env, aslr, perturb, inv, rep]
          artifact    \* what the compiler emits for the source under cfg (abstract value)

Dims == <<"cwd", "tmp", "env", "aslr", "perturb", "inv", "decoy">>
Vals(d) == CASE d = "cwd" -> Cwds [] d = "tmp" -> Tmps [] d = "env" -> Envs
             [] d = "aslr" -> Aslrs [] d = "perturb" -> Perturbs [] d = "inv" -> Invs
             [] d = "decoy" -> Decoys

Configs == [cwd : Cwds, tmp : Tmps, env : Envs, aslr : Aslrs, perturb : Perturbs, inv : Invs, decoy : Decoys, rep : Nat]

\* ---- environment actions: each leaves `artifact` alone --------------------
ChangeCwd(c)  == c \in Cwds /\ c # cfg.cwd /\ cfg' = [cfg EXCEPT !.cwd = c, !.rep = 0] /\ UNCHANGED artifact
ChangeTmp(t)  == t \in Tmps /\ t # cfg.tmp /\ cfg' = [cfg EXCEPT !.tmp = t, !.rep = 0] /\ UNCHANGED artifact
ChangeEnv(e)  == e \in Envs /\ e # cfg.env /\ cfg' = [cfg EXCEPT !.env = e, !.rep = 0] /\ UNCHANGED artifact
ToggleASLR(a) == a \in Aslrs /\ a # cfg.aslr /\ cfg' = [cfg EXCEPT !.aslr = a, !.rep = 0] /\ UNCHANGED artifact
TogglePerturb(p) == p \in Perturbs /\ p # cfg.perturb /\ cfg' = [cfg EXCEPT !.perturb = p, !.rep = 0] /\ UNCHANGED artifact
RelAbsPath(v) == v \in Invs /\ v # cfg.inv /\ cfg' = [cfg EXCEPT !.inv = v, !.rep = 0] /\ UNCHANGED artifact
\* The working directories other than the one that holds the sources contain ("yes") or do not
\* contain ("no") unrelated files that carry the names of the modules the program imports (and of
\* the main file), with different contents.  Imports are resolved relative to the importing file,
\* so what lies in the working directory is environment: it must not reach the artifact.
\* (In the directory of the sources the same-named files ARE the sources: "yes" changes nothing there.)
PlaceDecoy(d) == d \in Decoys /\ d # cfg.decoy /\ cfg' = [cfg EXCEPT !.decoy = d, !.rep = 0] /\ UNCHANGED artifact
Repeat        == cfg' = [cfg EXCEPT !.rep = @ + 1] /\ UNCHANGED artifact      \* new pid, later time

\* one environment step named `act` that sets dimension value `v` ("" for Repeat)
EnvStep(act, v) ==
    CASE act = "ChangeCwd" -> ChangeCwd(v)
      [] act = "ChangeTmp" -> ChangeTmp(v)
      [] act = "ChangeEnv" -> ChangeEnv(v)
      [] act = "ToggleASLR" -> ToggleASLR(v)
      [] act = "TogglePerturb" -> TogglePerturb(v)
      [] act = "RelAbsPath" -> RelAbsPath(v)
      [] act = "PlaceDecoy" -> PlaceDecoy(v)
      [] act = "Repeat" -> Repeat
      [] OTHER -> FALSE

ActOf(d) == CASE d = "cwd" -> "ChangeCwd" [] d = "tmp" -> "ChangeTmp" [] d = "env" -> "ChangeEnv"
              [] d = "aslr" -> "ToggleASLR" [] d = "perturb" -> "TogglePerturb" [] d = "inv" -> "RelAbsPath"
              [] d = "decoy" -> "PlaceDecoy"

EnvNext == \/ \E d \in 1..Len(Dims) : \E v \in Vals(Dims[d]) : EnvStep(ActOf(Dims[d]), v)
           \/ Repeat

\* the compiler is a function of the source: whatever it emitted first it emits again
Init == /\ cfg \in [cwd : Cwds, tmp : Tmps, env : Envs, aslr : Aslrs, perturb : Perturbs, inv : Invs, decoy : Decoys, rep : {0}]
        /\ artifact = "A"
vars == <<cfg, artifact>>
Spec == Init /\ [][EnvNext /\ cfg'.rep <= 1]_vars

ArtifactStable == [][artifact' = artifact]_vars
TypeOK == /\ cfg.cwd \in Cwds /\ cfg.tmp \in Tmps /\ cfg.env \in Envs /\ cfg.aslr \in Aslrs
          /\ cfg.perturb \in Perturbs /\ cfg.inv \in Invs /\ cfg.decoy \in Decoys /\ cfg.rep \in Nat
          /\ artifact = "A"

-----------------------------------------------------------------------------
(* Generator: covering walks.  A pair is <<d1, v1, d2, v2>> with d1 < d2 (indices in Dims). *)

Get(c, d) == CASE d = "cwd" -> c.cwd [] d = "tmp" -> c.tmp [] d = "env" -> c.env
               [] d = "aslr" -> c.aslr [] d = "perturb" -> c.perturb [] d = "inv" -> c.inv
               [] d = "decoy" -> c.decoy

PairsOf(c) == {<<i, Get(c, Dims[i]), j, Get(c, Dims[j])>> : <<i, j>> \in {p \in (1..Len(Dims)) \X (1..Len(Dims)) : p[1] < p[2]}}
AllPairs == UNION {{<<p[1], v1, p[2], v2>> : v1 \in Vals(Dims[p[1]]), v2 \in Vals(Dims[p[2]])} :
                   p \in {q \in (1..Len(Dims)) \X (1..Len(Dims)) : q[1] < q[2]}}

\* the single-dimension successors of c, as <<action name, value, configuration>>
Succs(c) == UNION {{<<ActOf(Dims[d]), v, [c EXCEPT ![Dims[d]] = v, !.rep = 0]>> :
                      v \in Vals(Dims[d]) \ {Get(c, Dims[d])}} : d \in 1..Len(Dims)}

Gain(c, cov) == Cardinality(PairsOf(c) \ cov)

\* deterministic tie-breaking among the candidates of maximal gain, rotated by Start
BestOf(S, cov) ==      \* S: set of <<act, v, cfg>>; a candidate with the largest gain
    LET g == CHOOSE n \in {Gain(x[3], cov) : x \in S} : \A m \in {Gain(y[3], cov) : y \in S} : n >= m
        T == {x \in S : Gain(x[3], cov) = g}
    IN SetToSeq(T)[(Start % Cardinality(T)) + 1]

AllCfg0 == [cwd : Cwds, tmp : Tmps, env : Envs, aslr : Aslrs, perturb : Perturbs, inv : Invs, decoy : Decoys, rep : {0}]

\* walks are built by a recursive operator: Build(walks, cur, cov)
\*   cur = the walk under construction: sequence of [act, v, cfg]
RECURSIVE Build(_, _, _)
Build(walks, cur, cov) ==
    IF cov = AllPairs /\ Len(cur) >= 2
    THEN Append(walks, cur)
    ELSE IF cur = <<>>
    THEN \* open a new walk at the configuration with the largest gain, then repeat it once
         LET S == {<<"Start", "", c>> : c \in AllCfg0}
             b == BestOf(S, cov)
             c0 == b[3]
         IN Build(walks,
                  << [act |-> "Start", v |-> "", cfg |-> c0],
                     [act |-> "Repeat", v |-> "", cfg |-> [c0 EXCEPT !.rep = 1]] >>,
                  cov \cup PairsOf(c0))
    ELSE LET last == cur[Len(cur)].cfg
             b == BestOf(Succs(last), cov)
         IN IF Len(cur) - 1 >= MaxWalk \/ Gain(b[3], cov) = 0
            THEN Build(Append(walks, cur), <<>>, cov)
            ELSE Build(walks, Append(cur, [act |-> b[1], v |-> b[2], cfg |-> b[3]]), cov \cup PairsOf(b[3]))

Walks == Build(<<>>, <<>>, {})

\* checked by TLC before the walks are printed
CoveredBy(ws) == UNION {PairsOf(ws[k][s].cfg) : <<k, s>> \in {p \in (1..Len(ws)) \X (1..(MaxWalk + 2)) : p[2] <= Len(ws[p[1]])}}
WalksOK(ws) ==
    /\ CoveredBy(ws) = AllPairs
    /\ \A k \in 1..Len(ws) : Len(ws[k]) - 1 <= MaxWalk
    /\ \A k \in 1..Len(ws) : \A s \in 2..Len(ws[k]) :
         \* every step of a walk is one environment action of this specification
         LET a == ws[k][s - 1].cfg b == ws[k][s] IN
         IF b.act = "Repeat" THEN b.cfg = [a EXCEPT !.rep = @ + 1]
         ELSE \E d \in 1..Len(Dims) : b.act = ActOf(Dims[d]) /\ b.v \in Vals(Dims[d]) /\ b.v # Get(a, Dims[d])
                                       /\ b.cfg = [a EXCEPT ![Dims[d]] = b.v, !.rep = 0]

EmitWalks ==
    LET ws == Walks IN
    /\ Assert(WalksOK(ws), "generated walks do not cover all pairs / are not environment steps")
    /\ \A k \in 1..Len(ws) : PrintT("@@J " \o ToJson([walk |-> k, steps |-> ws[k]]))
    /\ PrintT("@@J " \o ToJson([pairs |-> Cardinality(AllPairs), walks |-> Len(ws)]))

=============================================================================
