INIT TInit
NEXT TNext
INVARIANT NotAccepted
CONSTRAINT Reached
POSTCONDITION Report
CONSTANTS
  Cwds = {"src", "sub", "far"}
  Tmps = {"t1", "t2"}
  Envs = {"none", "extra"}
  Aslrs = {"on", "off"}
  Perturbs = {"0", "85", "170"}
  Invs = {"rel", "abs"}
  Decoys = {"no", "yes"}
  MaxWalk = 6
  Start = 0
