---------------------------- MODULE NativeRT ----------------------------
(***************************************************************************)
(* C20 -- the native runtime containers and the reference-counted GC.      *)
(*                                                                         *)
(* Three families of behaviours, selected by the constant Family:          *)
(*   "dyn"  : src/runtime/dyn_array.c, one DynArray of one element kind    *)
(*            (int u8 float bool string array struct) plus a second array  *)
(*            produced by Clone (dyn_array_clone);                         *)
(*   "list" : src/runtime/list_int.c / list_string.c (List_int,            *)
(*            List_string: push pop insert remove set get clear);          *)
(*   "gc"   : src/runtime/gc.c + gc_struct.c: Alloc Retain Release over    *)
(*            <= MaxObj objects, structs holding references to objects.    *)
(*                                                                         *)
(* The abstract state of a container is a TLA+ sequence `elems` plus the   *)
(* capacity `cap`; every public operation of the C API is one action.      *)
(* A call outside the API's contract (index out of range, pop of an empty  *)
(* list, wrong element type ...) has the outcome "abort": the process      *)
(* must stop deliberately (assert / exit(1)); it must not continue and it  *)
(* must not touch memory.  Calls for which the C API documents a soft      *)
(* failure (dyn_array_pop_* on an empty array: *success = false;           *)
(* dyn_array_get_struct out of range: NULL) have the outcome "fail" and    *)
(* leave the state unchanged.                                              *)
(*                                                                         *)
(* The spec is also the generator: every step appends one entry (op,       *)
(* arguments, prescribed outcome, prescribed return value, abstract state  *)
(* after the step) to `hist`, and prints the history as JSON.  With        *)
(* EmitMode = "edge" and `VIEW View` (hist is not part of the view) TLC    *)
(* visits every abstract state reachable in <= MaxLen steps once and       *)
(* prints one history per TRANSITION of the reachable graph (a transition  *)
(* cover: shortest history to the source state + the step).  With          *)
(* EmitMode = "final" a history is printed once when it has MaxLen steps   *)
(* or has aborted (used without VIEW = all paths, and with -simulate).     *)
(***************************************************************************)
EXTENDS Integers, Sequences, FiniteSets, TLC, Json

CONSTANTS Family,     \* "dyn" | "list" | "gc"
          Kinds,      \* element kinds / list kinds explored (strings)
          Prefills,   \* initial lengths (filled by pushes before the history starts)
          InitCaps,   \* 0 = dyn_array_new / list_*_new; 100 + n = *_with_capacity(n)  (cfg files cannot hold negative numbers)
          Vals,       \* abstract element values used by push/set/insert (ints >= 1)
          MaxLen,     \* history length bound
          MaxObj,     \* gc family: number of objects
          EmitMode,   \* "edge" | "final" | "none"
          AllowAbort, \* FALSE: out-of-contract steps are not taken (long random histories)
          AllowDev,   \* FALSE: steps that carry a deviation name are not taken (idem)
          InitialCapacity, Growth,   \* #define INITIAL_CAPACITY / GROWTH_FACTOR of the family's
                      \* source file, extracted from the code by the harness at check time
          StopAtDev   \* TRUE: a step that carries a deviation name ends the history (the replay
                      \* cannot go on past a step the unchanged code gets wrong; without this
                      \* the generator would print thousands of histories that all die there)

VARIABLES kind, elems, cap, sized, zb,  \* the array in focus (zb: see Reserve)
          ohas, oelems, ocap, osized, ozb,   \* the other array (result of Clone), if any
          nalloc, okind, rc, ext, fld, freed,   \* gc family
          status,                       \* "run" | "aborted" | "done"
          hist

cvars == <<kind, elems, cap, sized, zb, ohas, oelems, ocap, osized, ozb>>
gvars == <<nalloc, okind, rc, ext, fld, freed>>
vars  == <<kind, elems, cap, sized, zb, ohas, oelems, ocap, osized, ozb, nalloc, okind, rc, ext, fld, freed, status, hist>>
View  == <<kind, elems, cap, sized, zb, ohas, oelems, ocap, osized, ozb, nalloc, okind, rc, ext, fld, freed, status>>
\* the shape abstraction used by the generation pass: contents are dropped, so TLC prints
\* one history per transition of the (length, capacity) quotient graph; the contents of
\* the representative history are still prescribed and compared step by step.
ShapeView == <<kind, Len(elems), cap, sized, zb, ohas, Len(oelems), ocap, osized, ozb, nalloc, okind, rc, ext, fld, freed, status>>

INITIAL_CAPACITY == InitialCapacity
GROWTH == Growth
ASSUME InitialCapacity \in Nat \ {0} /\ Growth \in Nat /\ Growth >= 2
NFIELDS == 2                   \* fields per GC struct in the gc family

DynKinds  == {"int", "u8", "float", "bool", "string", "array", "struct"}
ListKinds == {"list_int", "list_string"}
IsList(k) == k \in ListKinds
ScalarKinds == DynKinds \ {"struct"}
\* kinds with the same contract: no action below looks at `kind` except through
\* IsList / IsStruct, so a history generated for one member is a history of all of them;
\* the generator runs with one representative per class and names the class in the record.
ContractClass(k) == IF k \in ScalarKinds THEN ScalarKinds ELSE IF k \in ListKinds THEN ListKinds ELSE {k}
IsStruct(k) == k = "struct"

InRange(i, n) == i >= 0 /\ i < n
IdxSet(n) == {-1, 0, 1, n \div 2, n - 1, n}

\* 0-based index operations on TLA+ (1-based) sequences
SeqRemove(s, i)    == SubSeq(s, 1, i) \o SubSeq(s, i + 2, Len(s))
SeqInsert(s, i, v) == SubSeq(s, 1, i) \o <<v>> \o SubSeq(s, i + 1, Len(s))
SeqSet(s, i, v)    == [s EXCEPT ![i + 1] = v]
Last(s)  == s[Len(s)]
Front(s) == SubSeq(s, 1, Len(s) - 1)

\* prefill element j (1-based) gets the unique value 10 + j, so that any
\* misplaced memmove shows in the contents
PrefillSeq(n) == [j \in 1..n |-> 10 + j]

Max(a, b) == IF a >= b THEN a ELSE b

\* capacity after the pushes that build the prefill
RECURSIVE GrowTo(_, _)
GrowTo(c, n) == IF n <= c THEN c ELSE GrowTo((IF c = 0 THEN INITIAL_CAPACITY ELSE c * GROWTH), n)

InitCapOf(k, ic) ==
    IF ic = 0 THEN INITIAL_CAPACITY                                   \* dyn_array_new / list_X_new
    ELSE IF IsList(k) THEN ic - 100                                   \* list_X_with_capacity takes it as is (0 allowed)
    ELSE (IF ic - 100 < INITIAL_CAPACITY THEN INITIAL_CAPACITY ELSE ic - 100)  \* dyn_array_new_with_capacity: at least 8

-----------------------------------------------------------------------------
(* JSON emission *)

\* `dev` names a deviation of the unchanged code from what this spec prescribes for the
\* step ("" = none known).  The replay probe executes a step that carries a deviation name
\* in a child process first, so that a crash there is attributed to exactly that step; the
\* prescribed outcome is NOT weakened: if the child fails the step is reported under that
\* name (and is a VIOLATION unless the name is listed in known_findings), if it succeeds
\* the replay simply goes on.
Entry(op, i, v, res, ret) ==
    [op |-> op, i |-> i, v |-> v, res |-> res, ret |-> ret, dev |-> ""]
EntryDev(op, i, v, res, ret, dev) ==
    [op |-> op, i |-> i, v |-> v, res |-> res, ret |-> ret, dev |-> dev]

CState == [kind |-> kind', len |-> Len(elems'), cap |-> cap', elems |-> elems',
           ohas |-> (IF ohas' THEN 1 ELSE 0), oelems |-> oelems', ocap |-> ocap']

GState == [n |-> nalloc', rc |-> rc', ext |-> ext', fld |-> fld',
           live |-> [o \in 1..MaxObj |-> IF o <= nalloc' /\ o \notin freed' THEN 1 ELSE 0]]

Emit(h) == PrintT("@@J " \o ToJson([family |-> Family, h |-> h]))

\* common tail of every container step: record, emit, set status
CommitC(e) ==
    LET h2 == Append(hist, [e |-> e, s |-> CState]) IN
    /\ (e.res = "abort") => AllowAbort
    /\ (e.dev # "") => AllowDev
    /\ hist' = h2
    /\ status' = IF e.res = "abort" \/ (StopAtDev /\ e.dev # "") THEN "aborted" ELSE "run"
    /\ UNCHANGED gvars
    /\ (EmitMode = "edge") => Emit(h2)

CommitG(e) ==
    LET h2 == Append(hist, [e |-> e, s |-> GState]) IN
    /\ (e.res = "abort") => AllowAbort
    /\ (e.dev # "") => AllowDev
    /\ hist' = h2
    /\ status' = IF e.res = "abort" \/ (StopAtDev /\ e.dev # "") THEN "aborted" ELSE "run"
    /\ UNCHANGED cvars
    /\ (EmitMode = "edge") => Emit(h2)

Running == status = "run" /\ Len(hist) < MaxLen + 1      \* entry 1 of hist is the "new" step

-----------------------------------------------------------------------------
(* Containers *)

NoChange == UNCHANGED <<kind, elems, cap, sized, zb, ohas, oelems, ocap, osized, ozb>>
OnlyMain(e2, c2) == /\ elems' = e2 /\ cap' = c2
                    /\ UNCHANGED <<kind, sized, zb, ohas, oelems, ocap, osized, ozb>>

IsC == Family \in {"dyn", "list"}

\* ---- push: dyn_array_push_<kind> / list_X_push -------------------------
PushCap == IF IsList(kind)
           THEN GrowTo(cap, Len(elems) + 1)                      \* ensure_capacity(len + 1)
           ELSE (IF Len(elems) >= cap THEN cap * GROWTH ELSE cap) \* dyn_array_grow
Push(v) ==
    /\ IsC /\ Running
    /\ elems' = Append(elems, v) /\ cap' = PushCap
    /\ sized' = TRUE /\ zb' = FALSE
    /\ UNCHANGED <<kind, ohas, oelems, ocap, osized, ozb>>
    /\ CommitC(Entry("push", 0, v, "ok", 0))

\* ---- push of an element of the same array (aliasing) -----------------------
\* (array_push a (at a i)) on an array<struct> becomes
\*     dyn_array_push_struct(a, dyn_array_get_struct(a, i), size)
\* i.e. the source pointer points INTO the array's storage.  Prescribed: a copy of element i
\* is appended.  Deviation DYN_PUSH_STRUCT_ALIAS: at length = capacity the unchanged code
\* reallocs the storage first and then memcpy's from the pointer into the old block.
PushOwn(i) ==
    /\ Family = "dyn" /\ Running /\ IsStruct(kind) /\ InRange(i, Len(elems))
    /\ elems' = Append(elems, elems[i + 1]) /\ cap' = PushCap
    /\ UNCHANGED <<kind, sized, zb, ohas, oelems, ocap, osized, ozb>>
    /\ CommitC(EntryDev("push_own", i, elems[i + 1], "ok", 0,
                        (IF Len(elems) >= cap THEN "DYN_PUSH_STRUCT_ALIAS" ELSE "")))

\* ---- pop ---------------------------------------------------------------
\* dyn: empty => *success = false ("fail"); a struct array that never saw a push has
\* elem_size = 0 and dyn_array_pop_struct asserts elem_size == struct_size first => abort.
\* list: empty => "Error: Cannot pop from empty list", exit(1) => abort.
Pop ==
    /\ IsC /\ Running
    /\ IF Len(elems) > 0 /\ (IsStruct(kind) => sized)
       THEN /\ OnlyMain(Front(elems), cap)
            /\ CommitC(Entry("pop", 0, 0, "ok", Last(elems)))
       ELSE /\ NoChange
            /\ CommitC(Entry("pop", 0, 0,
                    (IF IsList(kind) \/ (IsStruct(kind) /\ ~sized) THEN "abort" ELSE "fail"), 0))

\* ---- get ---------------------------------------------------------------
OorRes == IF IsStruct(kind) THEN "fail" ELSE "abort"   \* dyn_array_get_struct/set_struct: message + NULL/return
Get(i) ==
    /\ IsC /\ Running
    /\ NoChange
    /\ CommitC(IF InRange(i, Len(elems))
               THEN Entry("get", i, 0, "ok", elems[i + 1])
               ELSE Entry("get", i, 0, OorRes, 0))

\* ---- set ---------------------------------------------------------------
\* dyn_array_set_struct asserts elem_size == struct_size before the range test
Set(i, v) ==
    /\ IsC /\ Running
    /\ IF IsStruct(kind) /\ ~sized
       THEN NoChange /\ CommitC(Entry("set", i, v, "abort", 0))
       ELSE IF InRange(i, Len(elems))
       THEN OnlyMain(SeqSet(elems, i, v), cap) /\ CommitC(Entry("set", i, v, "ok", 0))
       ELSE NoChange /\ CommitC(Entry("set", i, v, OorRes, 0))

\* ---- x[i] = x[i] on a list: list_X_set(l, i, list_X_get(l, i)) ---------------
\* Prescribed: nothing changes.  Deviation LIST_STRING_SET_ALIAS (List_string only; the
\* history is generated for the class and replayed on both list types): list_string_set frees
\* the old string and then strdup's the argument, which is that very string.
SetOwn(i) ==
    /\ Family = "list" /\ Running /\ InRange(i, Len(elems))
    /\ NoChange
    /\ CommitC(EntryDev("set_own", i, elems[i + 1], "ok", 0, "LIST_STRING_SET_ALIAS"))

\* ---- remove: dyn_array_remove_at (all kinds assert) / list_X_remove ------
Remove(i) ==
    /\ IsC /\ Running
    /\ IF InRange(i, Len(elems))
       THEN OnlyMain(SeqRemove(elems, i), cap)
            /\ CommitC(Entry("remove", i, 0, "ok", (IF IsList(kind) THEN elems[i + 1] ELSE 0)))
       ELSE NoChange /\ CommitC(Entry("remove", i, 0, "abort", 0))

\* ---- insert: lists only (dyn_array_insert_* is declared in dyn_array.h but
\* defined nowhere, so it is not part of the linkable API) -------------------
Insert(i, v) ==
    /\ Family = "list" /\ Running
    /\ IF i >= 0 /\ i <= Len(elems)
       THEN OnlyMain(SeqInsert(elems, i, v), GrowTo(cap, Len(elems) + 1))
            /\ CommitC(Entry("insert", i, v, "ok", 0))
       ELSE NoChange /\ CommitC(Entry("insert", i, v, "abort", 0))

\* ---- clear ---------------------------------------------------------------
Clear ==
    /\ IsC /\ Running
    /\ OnlyMain(<<>>, cap)
    /\ CommitC(Entry("clear", 0, 0, "ok", 0))

\* ---- reserve (dyn only) ---------------------------------------------------
\* zb: a struct array that has never been pushed to has elem_size = 0 and data = NULL; the
\* first growing reserve turns data into a zero-byte block (realloc(NULL, 0)), zb = TRUE.
\* The next growing reserve calls realloc(block, 0), which frees the block and returns NULL:
\* that is where the code used to go wrong (finding F-dyn-reserve-unsized-struct, fixed in /repo:
\* the deviation marker is gone, the state component stays so that the situation is still reached).
Reserve(n) ==
    /\ Family = "dyn" /\ Running
    /\ n <= 65536          \* keeps the capacities of long random histories (2 * cap + 3, repeated) allocatable
    /\ elems' = elems /\ cap' = (IF n > cap THEN n ELSE cap)
    /\ zb' = (zb \/ (IsStruct(kind) /\ ~sized /\ n > cap))
    /\ UNCHANGED <<kind, sized, ohas, oelems, ocap, osized, ozb>>
    /\ CommitC(Entry("reserve", n, 0, "ok", 0))

\* ---- clone (dyn only): dyn_array_new(kind) + reserve(len) + memcpy ---------
\* A sequence is a sequence whatever its element kind, so the prescribed result is a
\* copy for every kind (struct arrays used to crash here: F-dyn-clone-struct, fixed in /repo).
Clone ==
    /\ Family = "dyn" /\ Running
    /\ ohas' = TRUE /\ oelems' = elems /\ ocap' = Max(INITIAL_CAPACITY, Len(elems))
    /\ osized' = sized /\ ozb' = FALSE      \* the clone knows the element size iff the source does; fresh storage
    /\ UNCHANGED <<kind, elems, cap, sized, zb>>
    /\ CommitC(Entry("clone", 0, 0, "ok", 0))

\* ---- focus the clone (so that later steps mutate it and the original is observed)
Swap ==
    /\ Family = "dyn" /\ Running /\ ohas
    /\ elems' = oelems /\ cap' = ocap /\ oelems' = elems /\ ocap' = cap
    /\ sized' = osized /\ osized' = sized /\ zb' = ozb /\ ozb' = zb
    /\ UNCHANGED <<kind, ohas>>
    /\ CommitC(Entry("swap", 0, 0, "ok", 0))

\* ---- element-type contract ------------------------------------------------
\* push of another kind: assert "Type mismatch".  dyn_array_push_struct on a non-struct
\* array auto-promotes an EMPTY array to ELEM_STRUCT and asserts otherwise.
PushWrong ==
    /\ Family = "dyn" /\ Running /\ ~IsStruct(kind)
    /\ NoChange
    /\ CommitC(Entry("push_wrong", 0, 0, "abort", 0))

PushStructPromote(v) ==
    /\ Family = "dyn" /\ Running /\ ~IsStruct(kind)
    /\ ~ohas           \* one `kind` describes both arrays; promotion is explored without a clone
    /\ IF Len(elems) = 0
       THEN /\ kind' = "struct" /\ elems' = <<v>> /\ sized' = TRUE
            /\ UNCHANGED <<cap, zb, ohas, oelems, ocap, osized, ozb>>
            /\ CommitC(Entry("push_struct", 0, v, "ok", 0))
       ELSE NoChange /\ CommitC(Entry("push_struct", 0, v, "abort", 0))

CNext ==
    \/ \E v \in Vals : Push(v)
    \/ \E i \in IdxSet(Len(elems)) : PushOwn(i)
    \/ \E i \in IdxSet(Len(elems)) : SetOwn(i)
    \/ Pop
    \/ \E i \in IdxSet(Len(elems)) : Get(i)
    \/ \E i \in IdxSet(Len(elems)), v \in Vals : Set(i, v)
    \/ \E i \in IdxSet(Len(elems)) : Remove(i)
    \/ \E i \in IdxSet(Len(elems)), v \in Vals : Insert(i, v)
    \/ Clear
    \/ \E n \in {-1, cap, cap + 1, 2 * cap + 3} : Reserve(n)
    \/ Clone
    \/ Swap
    \/ PushWrong
    \/ \E v \in Vals : PushStructPromote(v)

-----------------------------------------------------------------------------
(* Reference-counted objects: gc.c + gc_struct.c                            *)
(*   okind[o] in {"struct","array","string"}; rc[o] = header ref_count;      *)
(*   ext[o] = references held by the caller (the test driver);               *)
(*   fld[s] = the NFIELDS reference fields of a struct (0 = NULL).           *)

Objs == 1..MaxObj
Live(o) == o <= nalloc /\ o \notin freed

\* a heap as one record, so that release can be written recursively
Heap == [rc |-> rc, fld |-> fld, freed |-> freed]

\* gc_release(o) on a live object: decrement; at zero free it and release the children
\* (gc_destroy_object -> gc_struct_free releases field 0, then field 1 ...).
RECURSIVE Rel(_, _), RelKids(_, _, _)
RelKids(h, o, k) ==        \* release fields k..NFIELDS of the (already unlinked) struct o
    IF k > NFIELDS THEN h
    ELSE LET c == h.fld[o][k] IN
         RelKids((IF c # 0 /\ c \notin h.freed THEN Rel(h, c) ELSE h), o, k + 1)
Rel(h, o) ==
    LET h1 == [h EXCEPT !.rc[o] = @ - 1] IN
    IF h1.rc[o] > 0 THEN h1
    ELSE RelKids([h1 EXCEPT !.freed = @ \cup {o}], o, 1)

SetHeap(h) == /\ rc' = h.rc /\ fld' = h.fld /\ freed' = h.freed

GKinds == {"struct", "array", "string"}

Alloc(k) ==
    /\ Family = "gc" /\ Running /\ nalloc < MaxObj
    /\ nalloc' = nalloc + 1
    /\ okind' = [okind EXCEPT ![nalloc + 1] = k]
    /\ rc' = [rc EXCEPT ![nalloc + 1] = 1]
    /\ ext' = [ext EXCEPT ![nalloc + 1] = 1]
    /\ UNCHANGED <<fld, freed>>
    /\ CommitG(Entry("alloc", nalloc + 1, 0, "ok", 0) @@ [k |-> k])

\* gc_retain through a valid pointer (the object is live)
Retain(o) ==
    /\ Family = "gc" /\ Running /\ Live(o)
    /\ rc' = [rc EXCEPT ![o] = @ + 1] /\ ext' = [ext EXCEPT ![o] = @ + 1]
    /\ UNCHANGED <<nalloc, okind, fld, freed>>
    /\ CommitG(Entry("retain", o, 0, "ok", 0) @@ [k |-> ""])

\* gc_release of a reference the caller owns
Release(o) ==
    /\ Family = "gc" /\ Running /\ Live(o) /\ ext[o] > 0
    /\ SetHeap(Rel(Heap, o))
    /\ ext' = [ext EXCEPT ![o] = @ - 1]
    /\ UNCHANGED <<nalloc, okind>>
    /\ CommitG(Entry("release", o, 0, "ok", 0) @@ [k |-> ""])

\* gc_release of a pointer whose object is gone: gc.c documents this as safe
\* ("allows safe release of potentially borrowed references": gc_is_managed() is false
\* and nothing happens).  Prescribed: no change, no report.
StaleRelease(o) ==
    /\ Family = "gc" /\ Running /\ o <= nalloc /\ o \in freed
    /\ UNCHANGED gvars
    /\ CommitG(Entry("stale_release", o, 0, "ok", 0) @@ [k |-> ""])

\* gc_struct_set_field(s, f, name, o, FIELD_x, true): the field takes a new reference,
\* the old value loses one.  Prescribed semantics = retain the new value, then release
\* the old one.  `hz` marks the steps in which releasing the old value FIRST (what
\* gc_struct.c does) would free the new value before it is retained.
\* Contract: the caller owns a reference to s for the duration of the call (ext[s] > 0;
\* otherwise clearing a self-reference would destroy s under the callee's feet); the new
\* value may be borrowed (e.g. read from a field of a struct the caller owns).
SetField(s, f, o) ==
    /\ Family = "gc" /\ Running /\ Live(s) /\ okind[s] = "struct" /\ ext[s] > 0
    /\ (o = 0 \/ Live(o))
    /\ IF f < 0 \/ f >= NFIELDS
       THEN UNCHANGED gvars
            /\ CommitG(Entry("setfield", s, o, "abort", 0) @@ [k |-> "", f |-> f, hz |-> 0])
       ELSE LET old == fld[s][f + 1]
                h0  == IF o # 0 THEN [Heap EXCEPT !.rc[o] = @ + 1] ELSE Heap
                h1  == [h0 EXCEPT !.fld[s][f + 1] = o]
                h2  == IF old # 0 /\ old \notin h1.freed THEN Rel(h1, old) ELSE h1
                \* the code's order: release old on the unmodified heap
                hc  == IF old # 0 THEN Rel(Heap, old) ELSE Heap
                hz  == IF o # 0 /\ o \in hc.freed THEN 1 ELSE 0
            IN /\ SetHeap(h2)
               /\ UNCHANGED <<nalloc, okind, ext>>
               /\ CommitG(Entry("setfield", s, o, "ok", 0) @@ [k |-> "", f |-> f, hz |-> hz])

\* gc_struct_get_field: out of range => message + NULL
GetField(s, f) ==
    /\ Family = "gc" /\ Running /\ Live(s) /\ okind[s] = "struct"
    /\ UNCHANGED gvars
    /\ CommitG(IF f < 0 \/ f >= NFIELDS
               THEN Entry("getfield", s, 0, "fail", 0) @@ [k |-> "", f |-> f]
               ELSE Entry("getfield", s, 0, "ok", fld[s][f + 1]) @@ [k |-> "", f |-> f])

\* gc_collect_cycles: objects with ref_count > 0 are roots, objects with ref_count = 0
\* never stay in the list, so a collection frees nothing (cycles leak; not a safety matter)
Collect ==
    /\ Family = "gc" /\ Running
    /\ UNCHANGED gvars
    /\ CommitG(Entry("collect", 0, 0, "ok", 0) @@ [k |-> ""])

GNext ==
    \/ \E k \in GKinds : Alloc(k)
    \/ \E o \in Objs : Retain(o)
    \/ \E o \in Objs : Release(o)
    \/ \E o \in Objs : StaleRelease(o)
    \/ \E s \in Objs, f \in {-1, 0, 1, NFIELDS}, o \in 0..MaxObj : SetField(s, f, o)
    \/ \E s \in Objs, f \in {-1, 0, NFIELDS - 1, NFIELDS} : GetField(s, f)
    \/ Collect

-----------------------------------------------------------------------------
Finish ==       \* EmitMode = "final": print a complete history exactly once
    /\ EmitMode = "final"
    /\ status # "done"
    /\ (status = "aborted" \/ Len(hist) >= MaxLen + 1)
    /\ Emit(hist)
    /\ status' = "done"
    /\ UNCHANGED <<cvars, gvars, hist>>

Init ==
    /\ kind \in Kinds
    /\ \E n \in Prefills, ic \in InitCaps :
         /\ elems = (IF Family = "gc" THEN <<>> ELSE PrefillSeq(n))
         /\ cap = (IF Family = "gc" THEN 0 ELSE
                   IF IsList(kind) THEN GrowTo(InitCapOf(kind, ic), n)
                   ELSE GrowTo(InitCapOf(kind, ic), n))
         /\ sized = (IF Family = "gc" THEN TRUE ELSE ~IsStruct(kind) \/ n > 0)
         /\ hist = << [e |-> [op |-> "new", i |-> ic, v |-> n, res |-> "ok", ret |-> 0, dev |-> "",
                                 kinds |-> IF Family = "gc" THEN {} ELSE ContractClass(kind)],
                      s |-> IF Family = "gc"
                            THEN [n |-> 0, rc |-> [o \in 1..MaxObj |-> 0], ext |-> [o \in 1..MaxObj |-> 0],
                                  fld |-> [o \in 1..MaxObj |-> [f \in 1..NFIELDS |-> 0]],
                                  live |-> [o \in 1..MaxObj |-> 0]]
                            ELSE [kind |-> kind, len |-> n,
                                  cap |-> GrowTo(InitCapOf(kind, ic), n),
                                  elems |-> PrefillSeq(n), ohas |-> 0, oelems |-> <<>>, ocap |-> 0]] >>
    /\ ohas = FALSE /\ oelems = <<>> /\ ocap = 0 /\ zb = FALSE /\ osized = TRUE /\ ozb = FALSE
    /\ nalloc = 0
    /\ okind = [o \in 1..MaxObj |-> ""]
    /\ rc = [o \in 1..MaxObj |-> 0]
    /\ ext = [o \in 1..MaxObj |-> 0]
    /\ fld = [o \in 1..MaxObj |-> [f \in 1..NFIELDS |-> 0]]
    /\ freed = {}
    /\ status = "run"

Next == CNext \/ GNext \/ Finish
Spec == Init /\ [][Next]_vars

-----------------------------------------------------------------------------
(* Properties checked by TLC on the model itself *)

LastE == hist[Len(hist)].e

TypeOK ==
    /\ kind \in DynKinds \cup ListKinds
    /\ cap \in Nat /\ ocap \in Nat
    /\ status \in {"run", "aborted", "done"}
    /\ nalloc \in 0..MaxObj /\ freed \subseteq 1..nalloc

\* DynArray / List invariant: length <= capacity, capacity never below the floor
LenLeCap == Len(elems) <= cap /\ (ohas => Len(oelems) <= ocap)
CapFloor == (Family = "dyn") => (cap >= INITIAL_CAPACITY /\ (ohas => ocap >= INITIAL_CAPACITY))

\* Sequence laws, stated pointwise (independently of the SubSeq formulation above)
SeqLaw ==
    LET e == LastE
        n == Len(elems) n2 == Len(elems') IN
    (Family # "gc" /\ hist' # hist /\ status' # "done") =>
      LET e2 == hist'[Len(hist')].e IN
      CASE e2.res # "ok" -> elems' = elems /\ cap' = cap /\ kind' = kind
        [] e2.op = "push" -> n2 = n + 1 /\ elems'[n2] = e2.v /\ \A j \in 1..n : elems'[j] = elems[j]
        [] e2.op = "push_own" -> n2 = n + 1 /\ elems'[n2] = elems[e2.i + 1] /\ \A j \in 1..n : elems'[j] = elems[j]
        [] e2.op = "set_own" -> elems' = elems
        [] e2.op = "push_struct" -> elems' = <<e2.v>> /\ n = 0
        [] e2.op = "pop" -> n2 = n - 1 /\ e2.ret = elems[n] /\ \A j \in 1..n2 : elems'[j] = elems[j]
        [] e2.op = "get" -> elems' = elems /\ e2.ret = elems[e2.i + 1]
        [] e2.op = "set" -> n2 = n /\ elems'[e2.i + 1] = e2.v
                            /\ \A j \in 1..n : j # e2.i + 1 => elems'[j] = elems[j]
        [] e2.op = "remove" -> n2 = n - 1
                            /\ \A j \in 1..n2 : elems'[j] = IF j <= e2.i THEN elems[j] ELSE elems[j + 1]
        [] e2.op = "insert" -> n2 = n + 1 /\ elems'[e2.i + 1] = e2.v
                            /\ \A j \in 1..n : elems'[IF j <= e2.i THEN j ELSE j + 1] = elems[j]
        [] e2.op = "clear" -> n2 = 0
        [] e2.op = "reserve" -> elems' = elems /\ cap' >= e2.i /\ cap' >= cap
        [] e2.op = "clone" -> elems' = elems /\ oelems' = elems /\ ohas'
        [] e2.op = "swap" -> elems' = oelems /\ oelems' = elems
        [] OTHER -> FALSE

\* The capacity changes only at the growth boundary (push/insert at length = capacity:
\* doubling, 8 -> 16 -> 32) or by an explicit reserve of a larger value.
CapLaw ==
    (Family # "gc" /\ hist' # hist /\ status' # "done") =>
      LET e2 == hist'[Len(hist')].e IN
      \/ cap' = cap
      \/ e2.op \in {"push", "push_own", "insert"} /\ Len(elems) = cap
           /\ cap' = (IF cap = 0 THEN INITIAL_CAPACITY ELSE GROWTH * cap)
      \/ e2.op = "reserve" /\ cap' = e2.i /\ e2.i > cap
      \/ e2.op = "swap"

\* Mutating one of the two arrays never changes the other one (clone is a copy)
CloneIndependent ==
    (Family = "dyn" /\ hist' # hist /\ status' # "done") =>
      LET e2 == hist'[Len(hist')].e IN
      e2.op \notin {"clone", "swap"} => (oelems' = oelems /\ ocap' = ocap /\ ohas' = ohas)

\* ---- gc ----
Indeg(o) == Cardinality({<<s, f>> \in (1..nalloc) \X (1..NFIELDS) : s \notin freed /\ fld[s][f] = o})

RcZeroIffFreed == \A o \in 1..nalloc : (rc[o] = 0) <=> (o \in freed)
\* the count of a live object is exactly: references of the caller + references from live structs
RcExact   == \A o \in 1..nalloc : o \notin freed => rc[o] = ext[o] + Indeg(o)
NoDangling == \A s \in 1..nalloc, f \in 1..NFIELDS : s \notin freed /\ fld[s][f] # 0 => fld[s][f] \notin freed
FreedHasNoOwner == \A o \in freed : ext[o] = 0
FreeOnce == freed \subseteq freed'         \* an object is freed once and never comes back
FreeOnceProp == [][FreeOnce]_vars
SeqLawProp == [][SeqLaw]_vars
CapLawProp == [][CapLaw]_vars
CloneProp  == [][CloneIndependent]_vars

=============================================================================
