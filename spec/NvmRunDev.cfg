\* C10 runners with the deviations listed as known findings: predicts what the unchanged tree does.
SPECIFICATION Spec
CONSTANTS
  Programs <- MC_Programs
INVARIANTS
  ExitIsByte
