---- MODULE CopProtocol ----
\* The FFI co-process protocol between nano_vm (--isolate-ffi) and nano_cop, with the operating
\* system as part of the model (pipes, SIGPIPE, exit, zombies, reaping) and one injected co-process
\* fault per behaviour (C16); the fault-free behaviour is the transparency claim of C15.
\*
\* VM side: one action per step of  src/nanovm/vm_ffi.c  (cop_ensure / cop_is_alive, vm_ffi_cop_start,
\* vm_ffi_call_cop, vm_ffi_cop_stop), src/nanovm/vm.c (TRAP_EXTERN_CALL) and src/nanovm/main.c (run_standalone).
\* Co-process side: the request loop of src/nanovm/cop_main.c plus the fault.
\* The pipe from the co-process to the VM is modelled byte by byte, so what the VM makes of a truncated,
\* garbled or surplus message is *derived* (header parsing as in cop_recv_header, payload decoding by
\* CopCodec!De) and not assumed.
\*
\* The modelled program:  print "before"; K times { r = extern(Arg); print r }; print "after".
EXTENDS CopCodec

CONSTANTS K,              \* extern calls made by the program
          Steps, Kinds,   \* the fault space; the pair <<"none","none">> is always included
          ArgSizes,       \* encoded size(s) of the argument of the extern call
          ReqCap,         \* bytes available for the encoded arguments in vm_ffi_call_cop's request buffer (extracted); 0 = unbounded
          ResLo,          \* the extern's result is the integer ResLo (0..65535)
          Ver, MsgInit, MsgReq, MsgShutdown, MsgResult, MsgError, MsgReady, MaxPayload   \* extracted from cop_protocol.h
\* Dev (declared in CopCodec) additionally understands:
\*   "VM_SIGPIPE_DEFAULT"  nano_vm leaves SIGPIPE at its default disposition: a write into a pipe without reader kills it
\*   "COP_REQBUF_FIXED"    the request is built in a fixed buffer of 6 + ReqCap bytes; larger arguments make the call fail

VARIABLES vm,      \* [pc, call, pid, inOpen, outOpen, need, code, nxt, argsize, k]  (k = extern calls the program makes)
          cop,     \* [st, pc, inOpen, outOpen, served, gen, status]   st: "none" | "run" | "zombie" | "reaped"
          toCop,   \* VM -> co-process: sequence of units [u |-> "H"|"P", ty |-> message type]
          fromCop, \* co-process -> VM: sequence of bytes
          fault,   \* [step, kind, done]; done when the fault has been performed
          io,      \* [pend, flushed, err]: stdio buffer of the VM, what reached stdout, "Runtime error" reported on stderr
          proc     \* [res, launched, reaped, garbled]   res = [k |-> "running"|"exit"|"sig", code]
pvars == <<vm, cop, toCop, fromCop, fault, io, proc>>
allvars == <<pvars, v, buf>>

ResV == VInt(<<0, 0, 0, ResLo>>)
SigpipeDefault == "VM_SIGPIPE_DEFAULT" \in Dev
Line(s)  == [s |-> s, x |-> VVoid]
ValLine(x) == [s |-> "val", x |-> x]
NoCop == [st |-> "none", pc |-> "-", inOpen |-> FALSE, outOpen |-> FALSE, served |-> 0, gen |-> 0, status |-> "-"]
Scenarios == {[step |-> "none", kind |-> "none", done |-> FALSE]} \cup [step : Steps, kind : Kinds, done : {FALSE}]

PInit == /\ vm \in {[pc |-> "start", call |-> 1, pid |-> 0, inOpen |-> FALSE, outOpen |-> FALSE, need |-> 0, code |-> 0, nxt |-> "-", argsize |-> a, k |-> K] : a \in ArgSizes}
         /\ cop = NoCop /\ toCop = <<>> /\ fromCop = <<>>
        /\ fault \in Scenarios
        /\ io = [pend |-> <<>>, flushed |-> <<>>, err |-> FALSE]
        /\ proc = [res |-> [k |-> "running", code |-> 0], launched |-> 0, reaped |-> 0, garbled |-> FALSE]
        /\ v = VVoid /\ buf = <<>>

Running == proc.res.k = "running"
At(p)   == Running /\ vm.pc = p

\* ------------------------------------------------------------------ wire helpers
Hdr(ver, ty, lenbytes) == <<ver, ty, 0, 0>> \o lenbytes
HdrN(ty, n) == Hdr(Ver, ty, LE32(n))
H(ty) == [u |-> "H", ty |-> ty]
P(ty) == [u |-> "P", ty |-> ty]
ReplyPayload == Ser(ResV, 4096).b                       \* cop_main.c: 4096-byte stack buffer (the result here is small)
ReplyBytes == HdrN(MsgResult, Len(ReplyPayload)) \o ReplyPayload
Half == Len(ReplyPayload) \div 2
\* cop_recv_header: version and length checks; the length is compared as a 32-bit word
Parse(b) == [ver |-> b[1], ty |-> b[2], len |-> U32of(SubSeq(b, 5, 8))]
HdrOk(h) == h.ver = Ver /\ ~Gt32(h.len, MaxPayload)

\* ------------------------------------------------------------------ operating system
\* A pipe end of the co-process stays open until it is released.  close() by a living process releases at once;
\* the ends of a process that exits or is killed are released by the kernel *after* its death, one by one, in no
\* particular order relative to what the VM observes (deferred fput): see OsRelease.
CopReads  == cop.inOpen                                  \* the read end of the VM -> cop pipe is still held
CopWrites == cop.outOpen                                 \* the write end of the cop -> VM pipe is still held
VmAlive   == vm.pc # "gone"
VmReads   == VmAlive /\ vm.outOpen
VmWrites  == VmAlive /\ vm.inOpen
Killed(sig) == /\ proc' = [proc EXCEPT !.res = [k |-> "sig", code |-> sig]]
               /\ vm' = [vm EXCEPT !.pc = "gone", !.inOpen = FALSE, !.outOpen = FALSE]
\* a write() by the VM: delivered, or EPIPE, or death by SIGPIPE
VmWrite(unit, next, onfail) ==
   IF CopReads THEN toCop' = Append(toCop, unit) /\ vm' = [vm EXCEPT !.pc = next] /\ UNCHANGED proc
   ELSE IF SigpipeDefault THEN Killed(13) /\ UNCHANGED toCop
   ELSE vm' = [vm EXCEPT !.pc = onfail] /\ UNCHANGED <<toCop, proc>>
\* a blocking read of n bytes by the VM returns when n bytes are there or the write end is closed everywhere
CanRead(n) == Len(fromCop) >= n \/ ~CopWrites

\* ------------------------------------------------------------------ VM actions
Print0 == /\ At("start") /\ io' = [io EXCEPT !.pend = Append(@, Line("before"))] /\ vm' = [vm EXCEPT !.pc = "ensure"]
          /\ UNCHANGED <<cop, toCop, fromCop, fault, proc>>
\* cop_ensure / cop_is_alive: waitpid(WNOHANG) reaps a dead co-process and closes its pipes
Ensure == /\ At("ensure")
          /\ IF vm.pid = 0 THEN vm' = [vm EXCEPT !.pc = "launch"] /\ UNCHANGED <<cop, proc>>
             ELSE IF cop.st = "zombie"
                  THEN /\ cop' = [cop EXCEPT !.st = "reaped"] /\ proc' = [proc EXCEPT !.reaped = @ + 1]
                       /\ vm' = [vm EXCEPT !.pc = "launch", !.pid = 0, !.inOpen = FALSE, !.outOpen = FALSE]
                  ELSE vm' = [vm EXCEPT !.pc = "ser"] /\ UNCHANGED <<cop, proc>>
          /\ UNCHANGED <<toCop, fromCop, fault, io>>
\* vm_ffi_cop_start: pipe, fork, exec
Launch == /\ At("launch")
          /\ cop' = [st |-> "run", pc |-> "rdhdr", inOpen |-> TRUE, outOpen |-> TRUE, served |-> 0, gen |-> proc.launched + 1, status |-> "-"]
          /\ proc' = [proc EXCEPT !.launched = @ + 1]
          /\ toCop' = <<>> /\ fromCop' = <<>>
          /\ vm' = [vm EXCEPT !.pc = "init_h", !.pid = 1, !.inOpen = TRUE, !.outOpen = TRUE]
          /\ UNCHANGED <<fault, io>>
SendInit == \/ At("init_h") /\ VmWrite(H(MsgInit), "init_p", "startfail") /\ UNCHANGED <<cop, fromCop, fault, io>>
            \/ At("init_p") /\ VmWrite(P(MsgInit), "awaitready", "startfail") /\ UNCHANGED <<cop, fromCop, fault, io>>
AwaitReady == /\ At("awaitready") /\ CanRead(8)
              /\ IF Len(fromCop) >= 8
                 THEN LET h == Parse(SubSeq(fromCop, 1, 8)) IN
                      /\ fromCop' = Drop(fromCop, 8)
                      /\ vm' = [vm EXCEPT !.pc = IF HdrOk(h) /\ h.ty = MsgReady THEN "ser" ELSE "startfail"]
                 ELSE fromCop' = <<>> /\ vm' = [vm EXCEPT !.pc = "startfail"]
              /\ UNCHANGED <<cop, toCop, fault, io, proc>>
\* vm_ffi_cop_stop, first half: SHUTDOWN message (its failure is ignored, SIGPIPE is not), close both pipe ends
StopBegin(p, next) ==
   /\ At(p)
   /\ IF vm.inOpen /\ ~CopReads /\ SigpipeDefault THEN Killed(13) /\ UNCHANGED toCop
      ELSE /\ toCop' = IF vm.inOpen /\ CopReads THEN Append(toCop, H(MsgShutdown)) ELSE toCop
           /\ vm' = [vm EXCEPT !.pc = "stopwait", !.nxt = next, !.inOpen = FALSE, !.outOpen = FALSE]
           /\ UNCHANGED proc
   /\ UNCHANGED <<cop, fromCop, fault, io>>
\* second half: waitpid(WNOHANG), 50 ms, waitpid(WNOHANG), SIGTERM + blocking waitpid: in every case the child is reaped
StopWait == /\ At("stopwait")
            /\ cop' = [cop EXCEPT !.st = "reaped", !.pc = "-", !.status = IF cop.st = "run" THEN "sig15" ELSE @]
            /\ proc' = [proc EXCEPT !.reaped = @ + 1]
            /\ vm' = [vm EXCEPT !.pc = vm.nxt, !.pid = 0]
            /\ UNCHANGED <<toCop, fromCop, fault, io>>
StartFail == StopBegin("startfail", "fallback")
\* cop_ensure failed: the call is made in process (and succeeds)
Fallback == /\ At("fallback") /\ io' = [io EXCEPT !.pend = Append(@, ValLine(ResV))] /\ vm' = [vm EXCEPT !.pc = "callok"]
            /\ UNCHANGED <<cop, toCop, fromCop, fault, proc>>
\* build the request: u32 import index, u16 argc, encoded arguments
SerReq == /\ At("ser")
          /\ vm' = [vm EXCEPT !.pc = IF "COP_REQBUF_FIXED" \in Dev /\ ReqCap > 0 /\ vm.argsize > ReqCap THEN "fail" ELSE "req_h"]
          /\ UNCHANGED <<cop, toCop, fromCop, fault, io, proc>>
SendReq == \/ At("req_h") /\ VmWrite(H(MsgReq), "req_p", "stopfail") /\ UNCHANGED <<cop, fromCop, fault, io>>
           \/ At("req_p") /\ VmWrite(P(MsgReq), "recvhdr", "stopfail") /\ UNCHANGED <<cop, fromCop, fault, io>>
RecvHdr == /\ At("recvhdr") /\ CanRead(8)
           /\ IF Len(fromCop) < 8 THEN fromCop' = <<>> /\ vm' = [vm EXCEPT !.pc = "stopfail"] /\ UNCHANGED io
              ELSE LET h == Parse(SubSeq(fromCop, 1, 8)) IN
                   /\ fromCop' = Drop(fromCop, 8)
                   /\ IF ~HdrOk(h) THEN vm' = [vm EXCEPT !.pc = "stopfail"] /\ UNCHANGED io
                      ELSE IF h.ty = MsgResult
                           THEN IF h.len = <<0, 0>>
                                THEN io' = [io EXCEPT !.pend = Append(@, ValLine(VVoid))] /\ vm' = [vm EXCEPT !.pc = "callok"]
                                ELSE vm' = [vm EXCEPT !.pc = "recvpay", !.need = ToInt(h.len)] /\ UNCHANGED io
                           ELSE vm' = [vm EXCEPT !.pc = "fail"] /\ UNCHANGED io      \* FFI_ERROR or an unexpected type: error, co-process kept
           /\ UNCHANGED <<cop, toCop, fault, proc>>
RecvPayload == /\ At("recvpay") /\ CanRead(vm.need)
               /\ IF Len(fromCop) < vm.need
                  THEN fromCop' = <<>> /\ vm' = [vm EXCEPT !.pc = "fail"] /\ UNCHANGED <<io, proc>>
                  ELSE LET d == De(SubSeq(fromCop, 1, vm.need)) IN
                       /\ fromCop' = Drop(fromCop, vm.need)
                       /\ IF d.hz # "none" THEN Killed(11) /\ UNCHANGED io                        \* the decoder leaves its buffer: SIGSEGV
                          ELSE IF d.n = 0 THEN vm' = [vm EXCEPT !.pc = "fail"] /\ UNCHANGED <<io, proc>>
                          ELSE /\ io' = [io EXCEPT !.pend = Append(@, ValLine(d.x))] /\ vm' = [vm EXCEPT !.pc = "callok"]
                               /\ proc' = [proc EXCEPT !.garbled = @ \/ d.x # ResV]
               /\ UNCHANGED <<cop, toCop, fault>>
StopFail == StopBegin("stopfail", "fail")
\* vm_error -> vm_execute returns -> "Runtime error: ..." on stderr, exit code 1
Fail == /\ At("fail") /\ io' = [io EXCEPT !.err = TRUE] /\ vm' = [vm EXCEPT !.pc = "exitstop", !.code = 1]
        /\ UNCHANGED <<cop, toCop, fromCop, fault, proc>>
CallOk == /\ At("callok")
          /\ IF vm.call < vm.k THEN vm' = [vm EXCEPT !.call = @ + 1, !.pc = "ensure"] /\ UNCHANGED io
             ELSE io' = [io EXCEPT !.pend = Append(@, Line("after"))] /\ vm' = [vm EXCEPT !.pc = "exitstop"]
          /\ UNCHANGED <<cop, toCop, fromCop, fault, proc>>
\* run_standalone: if (vm.cop_pid > 0) vm_ffi_cop_stop(&vm);
ExitStop == \/ vm.pid = 1 /\ StopBegin("exitstop", "exit")
            \/ vm.pid = 0 /\ At("exitstop") /\ vm' = [vm EXCEPT !.pc = "exit"] /\ UNCHANGED <<cop, toCop, fromCop, fault, io, proc>>
Exit == /\ At("exit") /\ proc' = [proc EXCEPT !.res = [k |-> "exit", code |-> vm.code]]
        /\ io' = [io EXCEPT !.flushed = io.pend]
        /\ vm' = [vm EXCEPT !.pc = "gone", !.inOpen = FALSE, !.outOpen = FALSE]
        /\ UNCHANGED <<cop, toCop, fromCop, fault>>

\* ------------------------------------------------------------------ co-process (cop_main.c loop) with the fault
CopRun == cop.st = "run"
CopDie(c, status) == [c EXCEPT !.st = "zombie", !.status = status, !.pc = "-"]          \* its pipe ends: OsRelease
FaultAt(step) == fault.step = step /\ ~fault.done /\ cop.gen = 1                   \* only the first co-process is faulty
\* bytes written by a co-process: they arrive, or (reader gone) SIGPIPE kills the co-process, or (own stdout closed) EBADF, ignored
CopOut(c, bytes) == IF ~c.outOpen \/ bytes = <<>> THEN [c |-> c, q |-> fromCop]
                    ELSE IF VmReads THEN [c |-> c, q |-> fromCop \o bytes]
                    ELSE [c |-> CopDie(c, "sig13"), q |-> fromCop]
\* the fault of this behaviour, performed where the regular bytes `reg` of type `exp` were due; `next` = where the loop goes on
BadMsg(kind, exp) ==
   CASE kind = "shorthdr"     -> <<Ver, exp, 0, 0>>
     [] kind = "badversion"   -> Hdr(Ver + 1, exp, LE32(0))
     [] kind = "badtype"      -> HdrN(127, 0)
     [] kind = "toolong"      -> Hdr(Ver, exp, LE32(MaxPayload + 1))
     [] kind = "shortpayload" -> HdrN(exp, 16) \o <<238, 238, 238, 238, 238, 238, 238, 238>>
     [] kind = "undecodable"  -> HdrN(MsgResult, 6) \o <<TagString, 10, 0, 0, 0, 97>>
     [] kind = "undecodable_wrap"  -> HdrN(MsgResult, 5) \o <<TagString, 255, 255, 255, 255>>
     [] kind = "undecodable_count" -> HdrN(MsgResult, 7) \o <<TagArray, 0, 255, 255, 255, 255, TagVoid>>
     [] OTHER -> <<>>
DiesAfter(kind) == kind \in {"shorthdr", "shortpayload"}       \* otherwise the VM would wait for ever (a stall, not in the fault list)
Apply(kind, exp, reg, next) ==
   /\ fault' = [fault EXCEPT !.done = TRUE]
   /\ CASE kind \in {"exit0", "exit1", "kill"} ->
              cop' = CopDie(cop, kind) /\ UNCHANGED fromCop
        [] kind = "closein" ->
              LET r == CopOut([cop EXCEPT !.inOpen = FALSE, !.pc = next.pc, !.served = next.served], reg)
              IN cop' = r.c /\ fromCop' = r.q
        [] kind = "closeout" ->
              cop' = [cop EXCEPT !.outOpen = FALSE, !.pc = next.pc, !.served = next.served] /\ UNCHANGED fromCop
        [] OTHER ->
              LET r == CopOut([cop EXCEPT !.pc = next.pc, !.served = next.served], BadMsg(kind, exp))
              IN /\ fromCop' = r.q
                 /\ cop' = IF DiesAfter(kind) /\ r.c.st = "run" THEN [r.c EXCEPT !.pc = "dying"] ELSE r.c    \* write and exit are two steps
Nx(pc, served) == [pc |-> pc, served |-> served]
\* read a header from stdin
CopRdHdr == /\ CopRun /\ cop.pc = "rdhdr"
            /\ IF ~cop.inOpen THEN cop' = CopDie(cop, "exit0") /\ UNCHANGED <<toCop, fromCop, fault>>            \* read() fails: loop ends, return 0
               ELSE IF toCop # <<>>
               THEN LET m == Head(toCop) IN
                    /\ toCop' = Tail(toCop)
                    /\ IF m.ty = MsgShutdown THEN cop' = CopDie(cop, "exit0") /\ UNCHANGED <<fromCop, fault>>
                       ELSE IF m.ty = MsgInit THEN cop' = [cop EXCEPT !.pc = "rdinit"] /\ UNCHANGED <<fromCop, fault>>
                       ELSE IF FaultAt("reqread" \o ToString(cop.served + 1))
                            THEN Apply(fault.kind, MsgResult, <<>>, Nx("rdreq", cop.served))
                            ELSE cop' = [cop EXCEPT !.pc = "rdreq"] /\ UNCHANGED <<fromCop, fault>>
               ELSE /\ ~VmWrites                                                                               \* EOF
                    /\ cop' = CopDie(cop, "exit0") /\ UNCHANGED <<toCop, fromCop, fault>>
            /\ UNCHANGED <<vm, io, proc>>
CopRdPayload == /\ CopRun /\ cop.pc \in {"rdinit", "rdreq"}
                /\ IF ~cop.inOpen THEN cop' = CopDie(cop, "exit0") /\ UNCHANGED toCop
                   ELSE IF toCop # <<>> THEN toCop' = Tail(toCop) /\ cop' = [cop EXCEPT !.pc = IF cop.pc = "rdinit" THEN "wready" ELSE "wresult"]
                   ELSE ~VmWrites /\ cop' = CopDie(cop, "exit0") /\ UNCHANGED toCop
                /\ UNCHANGED <<vm, fromCop, fault, io, proc>>
CopReady == /\ CopRun /\ cop.pc = "wready"
            /\ IF FaultAt("beforeready") THEN Apply(fault.kind, MsgReady, HdrN(MsgReady, 0), Nx("rdhdr", 0))
               ELSE LET r == CopOut([cop EXCEPT !.pc = IF FaultAt("afterready") THEN "postready" ELSE "rdhdr"], HdrN(MsgReady, 0))
                    IN cop' = r.c /\ fromCop' = r.q /\ UNCHANGED fault
            /\ UNCHANGED <<vm, toCop, io, proc>>
CopPostReady == /\ CopRun /\ cop.pc = "postready" /\ FaultAt("afterready")
                /\ Apply(fault.kind, MsgResult, <<>>, Nx("rdhdr", 0))
                /\ UNCHANGED <<vm, toCop, io, proc>>
CopResult == /\ CopRun /\ cop.pc = "wresult"
             /\ LET k == cop.served + 1 IN
                IF FaultAt("reply" \o ToString(k)) THEN Apply(fault.kind, MsgResult, ReplyBytes, Nx("rdhdr", k))
                ELSE IF FaultAt("midreply" \o ToString(k))
                THEN LET r == CopOut([cop EXCEPT !.pc = "midreply"], HdrN(MsgResult, Len(ReplyPayload)) \o SubSeq(ReplyPayload, 1, Half))
                     IN cop' = r.c /\ fromCop' = r.q /\ UNCHANGED fault
                ELSE LET r == CopOut([cop EXCEPT !.pc = "rdhdr", !.served = k], ReplyBytes)
                     IN cop' = r.c /\ fromCop' = r.q /\ UNCHANGED fault
             /\ UNCHANGED <<vm, toCop, io, proc>>
CopMidReply == /\ CopRun /\ cop.pc = "midreply"
               /\ Apply(fault.kind, MsgResult, SubSeq(ReplyPayload, Half + 1, Len(ReplyPayload)), Nx("rdhdr", cop.served + 1))
               /\ UNCHANGED <<vm, toCop, io, proc>>
CopDying == /\ CopRun /\ cop.pc = "dying" /\ cop' = CopDie(cop, "exit0") /\ UNCHANGED <<vm, toCop, fromCop, fault, io, proc>>
\* the kernel releases the pipe ends of a dead co-process
OsRelease == /\ cop.st \in {"zombie", "reaped"}
             /\ \/ cop.inOpen /\ cop' = [cop EXCEPT !.inOpen = FALSE]
                \/ cop.outOpen /\ cop' = [cop EXCEPT !.outOpen = FALSE]
             /\ UNCHANGED <<vm, toCop, fromCop, fault, io, proc>>
\* a silent, living co-process is outside the property's fault list; the action exists to name the exclusion and is never enabled
Stall == FALSE /\ UNCHANGED pvars

Done == vm.pc = "gone" /\ ~CopRun /\ UNCHANGED pvars           \* terminal self-loop, so that TLC's deadlock check means "stall"

VmNext == Print0 \/ Ensure \/ Launch \/ SendInit \/ AwaitReady \/ StartFail \/ StopWait \/ Fallback \/ SerReq \/ SendReq
          \/ RecvHdr \/ RecvPayload \/ StopFail \/ Fail \/ CallOk \/ ExitStop \/ Exit
CopNext == CopRdHdr \/ CopRdPayload \/ CopReady \/ CopPostReady \/ CopResult \/ CopMidReply \/ CopDying \/ OsRelease
PNext == (VmNext \/ CopNext \/ Stall \/ Done) /\ UNCHANGED <<v, buf>>
PSpec == PInit /\ [][PNext]_allvars

\* ------------------------------------------------------------------ properties
Terminal == vm.pc = "gone"
Exited   == Terminal /\ proc.res.k = "exit"
\* what the same program does with in-process FFI
InProcOut == <<Line("before")>> \o [j \in 1..vm.k |-> ValLine(ResV)] \o <<Line("after")>>
NeverSignaled == proc.res.k # "sig"
NoOrphan      == Exited => cop.st \in {"none", "reaped"} /\ proc.reaped = proc.launched
PrefixIntact  == Terminal => /\ io.flushed = io.pend                                \* nothing printed is lost
                             /\ Len(io.pend) >= 1 /\ io.pend[1] = Line("before")
                             /\ \A j \in 1..Len(io.pend) : io.pend[j] = InProcOut[j] \/ proc.garbled
OutcomeAllowed == Exited => \/ proc.res.code = 0 /\ ~io.err /\ Len(io.pend) = vm.k + 2 /\ io.pend[vm.k + 2] = Line("after")   \* recovered
                            \/ proc.res.code = 1 /\ io.err /\ \A j \in 1..Len(io.pend) : io.pend[j] # Line("after")        \* error reported
\* a wrong value is accepted only when the bytes that arrived form a well-formed message (no checksum in the protocol):
\* that needs a fault that splices bytes into a reply
GarbledOnlyBySplice == proc.garbled => fault.kind \notin {"none", "exit0", "exit1", "kill", "closein", "closeout"}
\* C15 inside the model: a healthy co-process gives the in-process behaviour
HealthySame == (Terminal /\ fault.kind = "none") => proc.res = [k |-> "exit", code |-> 0] /\ io.flushed = InProcOut /\ ~io.err
Relaunched == proc.launched <= vm.k

\* ------------------------------------------------------------------ emission: every scenario with its outcomes
RECURSIVE Show(_, _)
Show(ls, i) == IF i > Len(ls) THEN <<>> ELSE <<IF ls[i].s = "val" THEN [s |-> "val", t |-> ls[i].x.t, l |-> ls[i].x.l] ELSE [s |-> ls[i].s, t |-> "-", l |-> <<>>]>> \o Show(ls, i + 1)
EmitOutcome == (Terminal /\ ~CopRun /\ ~cop.inOpen /\ ~cop.outOpen) =>
   PrintT("@@J " \o ToJson([k |-> "outcome", step |-> fault.step, kind |-> fault.kind, done |-> fault.done, argsize |-> vm.argsize,
                            res |-> proc.res.k, code |-> proc.res.code, out |-> Show(io.flushed, 1), err |-> io.err,
                            launched |-> proc.launched, reaped |-> proc.reaped, garbled |-> proc.garbled,
                            copstatus |-> cop.status]))
\* the fault script of every scenario, for the stand-in (bytes of the bad message where one is written)
ExpAt(step) == IF step = "beforeready" THEN MsgReady ELSE MsgResult
EmitScript == vm.pc = "start" =>
   PrintT("@@J " \o ToJson([k |-> "script", step |-> fault.step, kind |-> fault.kind, bad |-> BadMsg(fault.kind, ExpAt(fault.step)),
                            die |-> DiesAfter(fault.kind)]))
====
