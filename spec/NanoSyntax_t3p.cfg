SPECIFICATION Spec
INVARIANT Unambiguous
CONSTANTS
  Family = "t3p"
  IntAtoms = {"a"}
  BoolAtoms = {"u"}
  Emit = TRUE
  CombSizes = {}
  Forms = {"fld", "tix", "chain", "call", "callfld", "neg", "lit"}
