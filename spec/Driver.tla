---- MODULE Driver ----
(***************************************************************************)
(* The compile driver (src/main.c compile_file) as a phase machine:        *)
(*   Lex -> Parse -> Typecheck -> ShadowTest(1..n) -> Transpile -> CC ->   *)
(*   WriteExe, any phase may fail.  The program is abstracted to what the  *)
(*   gate depends on: is it well typed, and for every shadow block the     *)
(*   truth value of each assertion it executes (prescribed by NanoSem).    *)
(* Properties C05/C06: an artifact exists iff the program is valid and     *)
(* every executed shadow assertion held; a failing test is named; nothing  *)
(* is produced and nothing runs after a failed phase.                      *)
(***************************************************************************)
EXTENDS Integers, Sequences, FiniteSets, TLC

CONSTANTS MaxShadows, MaxAsserts

VARIABLES prog,      \* [wt: BOOLEAN, sh: Seq(Seq(BOOLEAN)), missing: 0..1]   (chosen in Init)
          phase,     \* "lex" "parse" "tc" "shadow" "transpile" "cc" "write" "done" "failed"
          k,         \* index of the shadow block being run
          fails,     \* Seq(Nat): false assertions seen per finished block
          named,     \* set of block indices reported as FAILED
          warned,    \* missing-shadow warning emitted
          artifact,  \* "none" | "exe"
          exit,      \* -1 while running
          log        \* phase events in order (the transcript)
vars == <<prog, phase, k, fails, named, warned, artifact, exit, log>>

Bools == {TRUE, FALSE}
RECURSIVE SeqsUpTo(_, _)
SeqsUpTo(S, n) == IF n = 0 THEN {<<>>} ELSE LET R == SeqsUpTo(S, n - 1) IN R \cup {Append(s, x) : s \in {r \in R : Len(r) = n - 1}, x \in S}
Progs == [wt : Bools, sh : SeqsUpTo(SeqsUpTo(Bools, MaxAsserts), MaxShadows), missing : {0, 1}]

Init == /\ prog \in Progs /\ phase = "lex" /\ k = 1 /\ fails = <<>> /\ named = {} /\ warned = FALSE
        /\ artifact = "none" /\ exit = -1 /\ log = <<>>

Ev(e) == log' = Append(log, e)
CountFalse(s) == Cardinality({i \in 1..Len(s) : ~s[i]})

Lex   == phase = "lex" /\ phase' = "parse" /\ Ev("lex_ok") /\ UNCHANGED <<prog, k, fails, named, warned, artifact, exit>>
Parse == phase = "parse" /\ phase' = "tc" /\ Ev("parse_ok") /\ UNCHANGED <<prog, k, fails, named, warned, artifact, exit>>
Typecheck ==
   /\ phase = "tc"
   /\ IF prog.wt THEN /\ phase' = "shadow" /\ Ev("tc_ok") /\ warned' = (prog.missing = 1) /\ UNCHANGED exit
                 ELSE /\ phase' = "failed" /\ Ev("tc_failed") /\ exit' = 1 /\ UNCHANGED warned
   /\ UNCHANGED <<prog, k, fails, named, artifact>>
\* one shadow block: all its assertions are executed; false ones are counted, the block goes on (7.4)
ShadowTest ==
   /\ phase = "shadow" /\ k <= Len(prog.sh)
   /\ LET n == CountFalse(prog.sh[k]) IN
        /\ fails' = Append(fails, n)
        /\ named' = IF n > 0 THEN named \cup {k} ELSE named
        /\ Ev(IF n > 0 THEN "test_failed" ELSE "test_passed")
   /\ k' = k + 1 /\ UNCHANGED <<prog, phase, warned, artifact, exit>>
ShadowDone ==
   /\ phase = "shadow" /\ k > Len(prog.sh)
   /\ IF named = {} THEN phase' = "transpile" /\ Ev("shadow_ok") /\ UNCHANGED exit
                    ELSE phase' = "failed" /\ Ev("shadow_failed") /\ exit' = 1
   /\ UNCHANGED <<prog, k, fails, named, warned, artifact>>
Transpile == phase = "transpile" /\ phase' = "cc" /\ Ev("transpile_ok") /\ UNCHANGED <<prog, k, fails, named, warned, artifact, exit>>
CC == phase = "cc" /\ phase' = "write" /\ Ev("cc_ok") /\ UNCHANGED <<prog, k, fails, named, warned, artifact, exit>>
WriteExe == phase = "write" /\ phase' = "done" /\ artifact' = "exe" /\ exit' = 0 /\ Ev("exe_written")
            /\ UNCHANGED <<prog, k, fails, named, warned>>
Next == Lex \/ Parse \/ Typecheck \/ ShadowTest \/ ShadowDone \/ Transpile \/ CC \/ WriteExe
Spec == Init /\ [][Next]_vars /\ WF_vars(Next)

AllHold == \A i \in 1..Len(prog.sh) : CountFalse(prog.sh[i]) = 0
Terminal == phase \in {"done", "failed"}
\* ------------------------------------------------------------ properties
Gate        == artifact = "exe" => (prog.wt /\ AllHold)                                  \* C06 / C05 (only if)
GateIff     == Terminal => ((artifact = "exe") <=> (prog.wt /\ AllHold))                 \* C06 (iff)
FailNamed   == Terminal /\ prog.wt => named = {i \in 1..Len(prog.sh) : CountFalse(prog.sh[i]) > 0}
FailExit    == Terminal /\ ~(prog.wt /\ AllHold) => exit # 0 /\ artifact = "none"
RejectQuiet == ~prog.wt => (\A i \in 1..Len(log) : log[i] \notin {"test_passed", "test_failed", "transpile_ok", "exe_written"})  \* C05: nothing runs
NoLateWork  == \A i \in 1..Len(log) : log[i] \in {"tc_failed", "shadow_failed"} => i = Len(log)
MissingWarn == (phase \notin {"lex", "parse", "tc"} /\ prog.wt /\ prog.missing = 1) => warned
Terminates  == <>Terminal
====
