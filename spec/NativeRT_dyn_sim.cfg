\* C20 / NativeRT.tla -- thorough: -simulate, random in-contract histories of 200 steps
\* The constants InitialCapacity and Growth are NOT in this file: harness/props/c20.py extracts them
\* from src/runtime/{dyn_array,list_int,list_string}.c and appends them (for a manual run add
\*   CONSTANTS InitialCapacity = 8  Growth = 2).
SPECIFICATION Spec

CONSTANTS
  Family = "dyn"
  Kinds = {"int", "struct"}
  Prefills = {0, 7, 40}
  InitCaps = {0, 103}
  Vals = {1, 2, 3}
  MaxLen = 200
  MaxObj = 1
  EmitMode = "final"
  StopAtDev = TRUE
  AllowAbort = FALSE
  AllowDev = FALSE
INVARIANTS TypeOK LenLeCap CapFloor
PROPERTIES SeqLawProp CapLawProp CloneProp
