\* C18 (quick, reduced behaviour set): one good client + two arbitrary others (malformed, abandoning, ping, status), every interleaving.
SPECIFICATION Spec
CONSTANTS
  N = 3
  Suite = "c18s"
  Verify = TRUE
  CrcModel = "atomic"
  IgnoreSigpipe = TRUE
  Cap = 2
  Buffered = FALSE
  Gaps = "overlap"
  DropExit = FALSE
  FlushOnErr = TRUE
  KeepData = TRUE
  ExternalProg <- NoExternal
  Emit = FALSE
INVARIANTS TypeOK Isolation Transparency Available ReplyOK ActiveOK StatusOK
