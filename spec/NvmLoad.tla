------------------------------- MODULE NvmLoad -------------------------------
\* The .nvm loader (src/nanoisa/nvm_format.c: nvm_deserialize, nvm_validate_header,
\* nvm_crc32) as a staged state machine over a *real-format* byte image, together
\* with the fault catalogue of property C12 and the hostile-directory families of
\* property C13 (loader part).
\*
\*   stages   Start ReadHeader ValidateHeader CheckCrc CheckDir Alloc Section(i) Done Reject(stage)
\*   faults   FlipBit(k) Burst(off,len,pat) Truncate(n) Extend(tail) BadMagic BadVersion CrcBit(j)
\*
\* Arithmetic.  The C code computes offsets in uint32_t.  Here a machine word is a
\* pair <<hi, lo>> of W/2-bit limbs (TLC integers are 32-bit, so 2^32 itself is not
\* representable); AddW(a, b) is (a + b) mod 2^W, exactly the C addition.  W = 32 is
\* the real machine, W = 8 the scaled one in which TLC enumerates *every* directory
\* entry.  Scaling is faithful as long as the constants of the format fit
\* (ASSUME FormatFits) and the file leaves the head-room that a real file has
\* (SizeAssumption).
\*
\* Every decision of the loader is a named predicate over the file; every stage
\* action takes the decision as a parameter, so that NvmLoadTrace.tla can drive
\* the very same actions from the decisions the real code logged (hook H3) and
\* compare them with the predicates.
EXTENDS Integers, Sequences, FiniteSets, TLC, Bitwise, Folds, SequencesExt, Json

CONSTANTS
    W,              \* word width (even): 32 real, 8 scaled
    SecCheck,       \* "asWritten": sec_offset + sec_size > size   |  "safe": off > size \/ sz > size - off
    StrCheck,       \* "asWritten": pos + slen > sec_size          |  "safe": slen > sec_size - pos
    Family,         \* "faults" | "hostile" | "hostile32" | "trace"
    \* ---- extracted from nvm_format.h at check time (nvmfault_probe consts) ----
    HeaderSize, SecEntrySize, FnEntrySize, DbgEntrySize, ImpBaseSize, MaxSections, FormatVersion,
    Magic0, Magic1, Magic2, Magic3,
    SecCode, SecStrings, SecFunctions, SecImports, SecDebug,
    \* ---- bounds of the fault catalogue ----
    MaxBurst, MaxTail, MaxFaults,
    SampleMod,      \* every SampleMod-th flip/burst is printed with the model's prediction (replayed by the probe)
    Full            \* hostile families: TRUE = every <type, off, sz> (W = 8) / the larger boundary set (W = 32)

Pow2(n) == 2 ^ n
B == Pow2(W \div 2)                                   \* limb base
Magic == <<Magic0, Magic1, Magic2, Magic3>>

ASSUME WOk == W \in {8, 16, 32}
\* the constants of the format must fit into a word, otherwise the scaled machine
\* would wrap where the real one cannot (dir_end = 32 + section_count * 12 with
\* section_count <= NVM_MAX_SECTIONS)
ASSUME FormatFits == (HeaderSize + MaxSections * SecEntrySize + FnEntrySize) \div B < B

-----------------------------------------------------------------------------
\* CRC-32 (reflected, polynomial 0xEDB88320, init and final xor 0xFFFFFFFF) on
\* pairs of 16-bit limbs <<hi, lo>>; independent of W.
PolyHi == 60856      \* 0xEDB8
PolyLo == 33568      \* 0x8320
Shr1(c) == <<c[1] \div 2, (c[2] \div 2) + (IF (c[1] % 2) = 1 THEN 32768 ELSE 0)>>
Xor2(a, b) == <<a[1] ^^ b[1], a[2] ^^ b[2]>>
RECURSIVE TabEntry(_, _)
TabEntry(c, j) == IF j = 0 THEN c
                  ELSE TabEntry(IF (c[2] % 2) = 1 THEN Xor2(Shr1(c), <<PolyHi, PolyLo>>) ELSE Shr1(c), j - 1)
Table == [i \in 0..255 |-> TabEntry(<<0, i>>, 8)]
Shr8(c) == <<c[1] \div 256, (c[2] \div 256) + ((c[1] % 256) * 256)>>
CrcStep(c, b) == Xor2(Shr8(c), Table[(c[2] ^^ b) % 256])
CrcRaw(init, bytes) == FoldLeft(CrcStep, init, bytes)
Crc(bytes) == LET r == CrcRaw(<<65535, 65535>>, bytes) IN <<r[1] ^^ 65535, r[2] ^^ 65535>>

\* Reverse CRC: the 4 bytes e with CrcRaw(<<0,0>>, e) = delta.  Because the register
\* update is linear, xoring e into the LAST four bytes of a message changes its CRC
\* by exactly delta.  (Top bytes of the 256 table entries are pairwise distinct.)
TopByte(c) == c[1] \div 256
TabIdxWithTop(t) == CHOOSE i \in 0..255 : TopByte(Table[i]) = t
Shl8(c) == <<((c[1] % 256) * 256) + (c[2] \div 256), (c[2] % 256) * 256>>
\* one reverse step: given register r after a byte, return <<register before (low byte unknown = 0), index>>
RECURSIVE RevIdx(_, _)
RevIdx(r, n) == \* indices i4, i3, i2, i1 (last byte first) of the table entries used
    IF n = 0 THEN <<>>
    ELSE LET i == TabIdxWithTop(TopByte(r))
             prev == Shl8(Xor2(r, Table[i]))
         IN <<i>> \o RevIdx(prev, n - 1)
ForgeLast4(delta) ==
    \* run forward from register 0: byte k must make the table index equal idx[k]
    LET idx == RevIdx(delta, 4)                      \* idx[1] is for the last byte
        RECURSIVE Fwd(_, _)
        Fwd(c, k) == IF k = 0 THEN <<>>
                     ELSE LET b == (c[2] % 256) ^^ idx[k] IN <<b>> \o Fwd(CrcStep(c, b), k - 1)
    IN Fwd(<<0, 0>>, 4)
ASSUME ForgeOk == \A j \in {0, 7, 8, 15, 16, 23, 24, 31} :
                     LET d == IF j < 16 THEN <<0, Pow2(j)>> ELSE <<Pow2(j - 16), 0>>
                     IN CrcRaw(<<0, 0>>, ForgeLast4(d)) = d
ASSUME CrcCheckValue == Crc(<<49, 50, 51, 52, 53, 54, 55, 56, 57>>) = <<52212, 14630>>   \* CRC-32("123456789") = 0xCBF43926

-----------------------------------------------------------------------------
\* W-bit words as limb pairs
Wd(n) == <<n \div B, n % B>>                          \* n < 2^W and n < 2^31
ToN(w) == w[1] * B + w[2]                             \* only for words known to be < 2^31
AddC(a, b) == LET lo == a[2] + b[2]
                  hi == a[1] + b[1] + (lo \div B)
              IN [w |-> <<hi % B, lo % B>>, c |-> hi \div B]
AddW(a, b) == AddC(a, b).w                            \* (a + b) mod 2^W  -- the C expression a + b on uint32_t
SubW(a, b) == LET lo == a[2] - b[2]
                  bo == IF lo < 0 THEN 1 ELSE 0
                  hi == a[1] - b[1] - bo
              IN <<(hi + B) % B, (lo + B) % B>>       \* (a - b) mod 2^W
LeW(a, b) == a[1] < b[1] \/ (a[1] = b[1] /\ a[2] <= b[2])
GtW(a, b) == ~LeW(a, b)
Zero == <<0, 0>>
IsWord(w) == w[1] \in 0..(B - 1) /\ w[2] \in 0..(B - 1)

\* little-endian fields of the file (p is a 0-based byte offset)
LE32(n) == <<n % 256, (n \div 256) % 256, (n \div 65536) % 256, n \div 16777216>>
LE16(n) == <<n % 256, n \div 256>>
WordLE(w) == IF W = 32 THEN <<w[2] % 256, w[2] \div 256, w[1] % 256, w[1] \div 256>>
             ELSE LE32(ToN(w))
U32(f, p) == IF W = 32 THEN <<f[p + 3] + 256 * f[p + 4], f[p + 1] + 256 * f[p + 2]>>
             ELSE Wd((f[p + 1] + 256 * f[p + 2]) % (B * B))        \* the scaled machine reads W-bit fields
U16(f, p) == IF W = 32 THEN <<0, f[p + 1] + 256 * f[p + 2]>>
             ELSE <<0, f[p + 1] % B>>                                \* a "half word" on the scaled machine
Size(f) == Wd(Len(f))

\* header fields
MagicOk(f)   == <<f[1], f[2], f[3], f[4]>> = Magic
VersionOk(f) == <<f[5], f[6], f[7], f[8]>> = LE32(FormatVersion)
NSec(f)      == U32(f, 16)
CountOk(f)   == LeW(NSec(f), Wd(MaxSections))                        \* section_count > NVM_MAX_SECTIONS refused
Stored(f)    == <<f[31] + 256 * f[32], f[29] + 256 * f[30]>>          \* header.checksum, bytes 28..31
BodyOf(f)    == SubSeq(f, HeaderSize + 1, Len(f))
\* ---- the loader's decisions, one predicate per `return NULL` of nvm_deserialize ----
D_Size(f)   == Len(f) >= HeaderSize
D_Header(f) == MagicOk(f) /\ VersionOk(f) /\ CountOk(f)
D_Crc(f)    == Crc(BodyOf(f)) = Stored(f)
DirEnd(f)   == AddW(Wd(HeaderSize), Wd(ToN(NSec(f)) * SecEntrySize))  \* no wrap: CountOk and FormatFits
D_Dir(f)    == LeW(DirEnd(f), Size(f))

\* ---- section bounds -------------------------------------------------------
SecBoundsOk(mode, off, sz, S) ==
    IF mode = "asWritten" THEN ~GtW(AddW(off, sz), S)                 \* nvm_format.c:521  sec_offset + sec_size > size
    ELSE LeW(off, S) /\ LeW(sz, SubW(S, off))                         \* hooks/fix-loader-section-bounds.patch
StrLenOk(mode, pos, slen, sz) ==
    IF mode = "asWritten" THEN ~GtW(AddW(pos, slen), sz)              \* nvm_format.c:538  pos + slen > sec_size
    ELSE LeW(pos, sz) /\ LeW(slen, SubW(sz, pos))

\* A read of len bytes at address data + off + pos (pointer arithmetic is 64-bit: it
\* does not wrap).  In bounds iff off + pos + len <= size over the integers.
RangeIn(r, S) == \/ r.len = Zero
                 \/ /\ LeW(r.off, S) /\ LeW(r.pos, SubW(S, r.off))
                    /\ LeW(r.len, SubW(SubW(S, r.off), r.pos))
Rd(off, pos, len) == [off |-> off, pos |-> pos, len |-> len]
Bytes(f, off, pos, n) == SubSeq(f, ToN(off) + ToN(pos) + 1, ToN(off) + ToN(pos) + n)   \* only for ranges in bounds

\* ---- abstract module ------------------------------------------------------
NoMod == [alloc |-> FALSE, nsec |-> 0, strings |-> <<>>, code |-> <<>>, fns |-> <<>>, dbg |-> <<>>, imps |-> <<>>]
EmptyMod(n) == [NoMod EXCEPT !.alloc = TRUE, !.nsec = n]
AddString(strs, s) == IF \E j \in 1..Len(strs) : strs[j] = s THEN strs ELSE Append(strs, s)   \* nvm_add_string de-duplicates

\* Section parsers: transcriptions of the five `case`s of nvm_deserialize.  A loop is a
\* fold of its body over a fuel sequence; the loop state is [pos, m, reads, st] with
\* st = "run" | "ok" (loop left normally) | "oob" (a read left the file: undefined
\* behaviour, the model stops there); still "run" after the fuel = "nonterm".
Oob(l, r) == [l EXCEPT !.reads = @ \cup {r}, !.st = "oob"]
StrBody(mode, f, off, sz, l) ==
    IF l.st # "run" THEN l
    ELSE IF GtW(AddW(l.pos, Wd(4)), sz) THEN [l EXCEPT !.st = "ok"]            \* while (pos + 4 <= sec_size)
    ELSE LET r1 == Rd(off, l.pos, Wd(4)) IN
         IF ~RangeIn(r1, Size(f)) THEN Oob(l, r1)
         ELSE LET slen == U32(f, ToN(off) + ToN(l.pos))
                  p2   == AddW(l.pos, Wd(4))
              IN IF ~StrLenOk(mode, p2, slen, sz)
                 THEN [l EXCEPT !.reads = @ \cup {r1}, !.st = "ok"]             \* break
                 ELSE LET r2 == Rd(off, p2, slen) IN
                      IF ~RangeIn(r2, Size(f)) THEN Oob([l EXCEPT !.reads = @ \cup {r1}], r2)   \* memcpy in nvm_add_string
                      ELSE [l EXCEPT !.reads = @ \cup {r1, r2}, !.pos = AddW(p2, slen),
                                     !.m.strings = AddString(@, Bytes(f, off, p2, ToN(slen)))]
FixBody(f, off, sz, esz, field, l) ==                                \* FUNCTIONS (18) and DEBUG (8) entries
    IF l.st # "run" THEN l
    ELSE IF GtW(AddW(l.pos, Wd(esz)), sz) THEN [l EXCEPT !.st = "ok"]
    ELSE LET r == Rd(off, l.pos, Wd(esz)) IN
         IF ~RangeIn(r, Size(f)) THEN Oob(l, r)
         ELSE [l EXCEPT !.reads = @ \cup {r}, !.pos = AddW(l.pos, Wd(esz)),
                        !.m = IF field = "fns" THEN [@ EXCEPT !.fns = Append(@, Bytes(f, off, l.pos, esz))]
                              ELSE [@ EXCEPT !.dbg = Append(@, Bytes(f, off, l.pos, esz))]]
ImpBody(f, off, sz, l) ==
    IF l.st # "run" THEN l
    ELSE IF GtW(AddW(l.pos, Wd(ImpBaseSize)), sz) THEN [l EXCEPT !.st = "ok"]
    ELSE LET r1 == Rd(off, l.pos, Wd(ImpBaseSize)) IN
         IF ~RangeIn(r1, Size(f)) THEN Oob(l, r1)
         ELSE LET pc == U16(f, ToN(off) + ToN(l.pos) + 8)
                  p2 == AddW(l.pos, Wd(ImpBaseSize))
              IN IF GtW(AddW(p2, pc), sz) THEN [l EXCEPT !.reads = @ \cup {r1}, !.st = "ok"]   \* if (pos + param_count > sec_size) break
                 ELSE LET r2 == Rd(off, p2, pc) IN
                      IF ~RangeIn(r2, Size(f)) THEN Oob([l EXCEPT !.reads = @ \cup {r1}], r2)
                      ELSE [l EXCEPT !.reads = @ \cup {r1, r2}, !.pos = AddW(p2, pc),
                                     !.m.imps = Append(@, Bytes(f, off, l.pos, ImpBaseSize + ToN(pc)))]
RunLoop(body(_, _), m, fuel) ==
    LET l == FoldLeft(body, [pos |-> Zero, m |-> m, reads |-> {}, st |-> "run"], [k \in 1..fuel |-> k])
    IN [m |-> l.m, reads |-> l.reads, st |-> IF l.st = "run" THEN "nonterm" ELSE l.st]
ParseSection(mode, f, m, type, off, sz) ==
    LET acc0 == [m |-> m, reads |-> {}, st |-> "ok"]
        fuel == (Len(f) \div 4) + 2           \* every iteration that continues consumes at least 4 bytes of the file
    IN CASE type = SecStrings   -> RunLoop(LAMBDA l, k : StrBody(mode, f, off, sz, l), m, fuel)
         [] type = SecCode      -> LET r == Rd(off, Zero, sz) IN                 \* nvm_append_code(mod, sec_data, sec_size)
                                   IF ~RangeIn(r, Size(f)) THEN [acc0 EXCEPT !.reads = {r}, !.st = "oob"]
                                   ELSE [acc0 EXCEPT !.reads = {r}, !.m.code = @ \o Bytes(f, off, Zero, ToN(sz))]
         [] type = SecFunctions -> RunLoop(LAMBDA l, k : FixBody(f, off, sz, FnEntrySize, "fns", l), m, fuel)
         [] type = SecDebug     -> RunLoop(LAMBDA l, k : FixBody(f, off, sz, DbgEntrySize, "dbg", l), m, fuel)
         [] type = SecImports   -> RunLoop(LAMBDA l, k : ImpBody(f, off, sz, l), m, fuel)
         [] OTHER               -> acc0                                           \* unknown section type: skipped

\* For W = 32 the type word may exceed 2^31: only its value below 2^16 matters (the known types are < 16)
SecType(f, i) == LET p == HeaderSize + i * SecEntrySize
                     w == U32(f, p)
                 IN IF W = 32 /\ w[1] # 0 THEN 65535 ELSE IF W = 32 THEN w[2] ELSE ToN(w)

\* The whole load as a function (used for FullModule and for the verdicts printed
\* for replay); the staged actions below perform the same steps one at a time.
SecStep(smode, tmode, f, acc, i) ==
    IF acc.st # "ok" THEN acc
    ELSE LET off == U32(f, HeaderSize + i * SecEntrySize + 4)
             sz  == U32(f, HeaderSize + i * SecEntrySize + 8)
         IN IF ~SecBoundsOk(smode, off, sz, Size(f)) THEN [acc EXCEPT !.st = "reject", !.m = NoMod]
            ELSE LET a == ParseSection(tmode, f, acc.m, SecType(f, i), off, sz)
                 IN [m |-> a.m, reads |-> acc.reads \cup a.reads, st |-> a.st]
RunSections(smode, tmode, f) ==
    FoldLeft(LAMBDA acc, i : SecStep(smode, tmode, f, acc, i),
             [m |-> EmptyMod(ToN(NSec(f))), reads |-> {}, st |-> "ok"],
             [k \in 1..ToN(NSec(f)) |-> k - 1])
Verdict(smode, tmode, f) ==
    IF ~D_Size(f) THEN [v |-> "reject", stage |-> "short", m |-> NoMod, oob |-> FALSE]
    ELSE IF ~D_Header(f) THEN [v |-> "reject", stage |-> "header", m |-> NoMod, oob |-> FALSE]
    ELSE IF ~D_Crc(f) THEN [v |-> "reject", stage |-> "crc", m |-> NoMod, oob |-> FALSE]
    ELSE IF ~D_Dir(f) THEN [v |-> "reject", stage |-> "dir", m |-> NoMod, oob |-> FALSE]
    ELSE LET a == RunSections(smode, tmode, f)
         IN CASE a.st = "ok"     -> [v |-> "accept", stage |-> "done", m |-> a.m, oob |-> FALSE]
              [] a.st = "reject" -> [v |-> "reject", stage |-> "section", m |-> NoMod, oob |-> FALSE]
              [] a.st = "oob"    -> [v |-> "undefined", stage |-> "section", m |-> NoMod, oob |-> TRUE]
              [] OTHER           -> [v |-> "nonterm", stage |-> "section", m |-> NoMod, oob |-> FALSE]
FullModule(f) == Verdict(SecCheck, StrCheck, f).m

-----------------------------------------------------------------------------
\* The model image (Family "faults"): the module of
\*     fn main() -> int { (println "hi") return 0 }
\* laid out by the rules of the format: header, directory, STRINGS, CODE, FUNCTIONS.
Str(s) == LE32(Len(s)) \o s
ImgStrings == Str(<<109, 97, 105, 110>>) \o Str(<<104, 105>>)                         \* "main" "hi"
ImgCode == <<4, 1, 0, 0, 0, 164, 5, 8, 1, 0, 0, 0, 0, 0, 0, 0, 0, 61>>                  \* PUSH_STR 1; PRINTLN; PUSH_VOID; POP; PUSH_I64 0; RET
ImgFns == LE32(0) \o LE16(0) \o LE32(0) \o LE32(Len(ImgCode)) \o LE16(0) \o LE16(0)
ImgNSec == 3
ImgDirLen == ImgNSec * SecEntrySize
ImgOffStr == HeaderSize + ImgDirLen
ImgOffCode == ImgOffStr + Len(ImgStrings)
ImgOffFns == ImgOffCode + Len(ImgCode)
ImgDir == LE32(SecStrings) \o LE32(ImgOffStr) \o LE32(Len(ImgStrings))
       \o LE32(SecCode) \o LE32(ImgOffCode) \o LE32(Len(ImgCode))
       \o LE32(SecFunctions) \o LE32(ImgOffFns) \o LE32(Len(ImgFns))
ImgBody == ImgDir \o ImgStrings \o ImgCode \o ImgFns
CrcLE(c) == <<c[2] % 256, c[2] \div 256, c[1] % 256, c[1] \div 256>>
MkHeader(flags, entry, nsecBytes, spoff, splen, body) ==
    Magic \o LE32(FormatVersion) \o LE32(flags) \o LE32(entry) \o nsecBytes \o LE32(spoff) \o LE32(splen) \o CrcLE(Crc(body))
Image == MkHeader(1, 0, LE32(ImgNSec), ImgOffStr, Len(ImgStrings), ImgBody) \o ImgBody

\* Hostile families: well-checksummed files whose directory entries are arbitrary.
\* A file = header(nsec) ++ nsec directory entries ++ payload; the payload starts
\* with one free word x (it is what a STRINGS section pointed there reads as slen).
HostPayload(x) == WordLE(x) \o <<104, 105, 7, 0, 0, 0, 1, 2, 3, 4, 5, 6, 7, 8, 9, 10, 11, 12, 13, 14>>
MkHostile(entries, x) ==
    LET dir  == FoldLeft(LAMBDA acc, e : acc \o LE32(e.type) \o WordLE(e.off) \o WordLE(e.sz), <<>>, entries)
        body == dir \o HostPayload(x)
    IN MkHeader(1, 0, LE32(Len(entries)), 0, 0, body) \o body
SecTypes == {SecStrings, SecCode, SecFunctions, SecDebug, SecImports, 7}
AllWords == {<<h, l>> : h \in 0..(B - 1), l \in 0..(B - 1)}
\* boundary words of the real machine, relative to a file of n bytes (n < 2^15)
Bnd32(n) == {<<0, 0>>, <<0, 1>>, <<0, 32>>, <<0, HeaderSize + SecEntrySize>>,
             <<0, n - 1>>, <<0, n>>, <<0, n + 1>>,
             <<32768, 0>>, <<65535, 65536 - n>>,
             <<65535, 65520>>, <<65535, 65532>>, <<65535, 65535>>}
            \cup (IF Full THEN {<<0, 4>>, <<0, n - 4>>, <<0, n + 32>>, <<32767, 65535>>, <<65535, 65535 - n>>,
                                <<65535, 65504>>, <<65535, 65531>>} ELSE {})
HostLen(k) == HeaderSize + k * SecEntrySize + Len(HostPayload(Zero))

-----------------------------------------------------------------------------
VARIABLES file,      \* the bytes handed to nvm_deserialize
          good,      \* the undamaged file (constant along a behaviour)
          stage,     \* "forge" "start" "loaded" "hdr" "checks" "sections" "done" "reject" "undefined"
          checked,   \* which of the two independent checks {"crc", "dir"} have passed
          next,      \* index of the next section
          mod,       \* the module under construction (NoMod before allocation and after free)
          reads,     \* byte ranges of `data` the loader has read
          result,    \* "pending" | "Ok" | "Error"
          ret,       \* what nvm_deserialize returned (NoMod = NULL)
          ev,        \* stage events, the alphabet of hook H3
          fault,     \* the faults applied (sequence of descriptors)
          nonterm,   \* a section parser ran out of fuel
          pick       \* hostile families: the part of the adversary's choice made in Init (the rest is made by Forge)
vars == <<file, good, pick, stage, checked, next, mod, reads, result, ret, ev, fault, nonterm>>

Ev(e, i, type, off, size, st) == [e |-> e, i |-> i, type |-> type, off |-> off, size |-> size, stage |-> st]
Emit(e) == ev' = Append(ev, e)

RejectWith(st) == /\ stage' = "reject" /\ result' = "Error" /\ ret' = NoMod /\ mod' = NoMod
                  /\ Emit(Ev("reject", -1, -1, Zero, Zero, st))

\* ---- loader stages; `ok` is the decision taken ------------------------------
Start == /\ stage = "start" /\ stage' = "loaded"
         /\ Emit(Ev("load", -1, -1, Zero, Size(file), ""))
         /\ UNCHANGED <<file, good, pick, checked, next, mod, reads, result, ret, fault, nonterm>>
ReadHeaderA(ok) ==
    /\ stage = "loaded"
    /\ IF ok THEN /\ stage' = "hdr" /\ reads' = reads \cup {Rd(Zero, Zero, Wd(HeaderSize))}
                  /\ UNCHANGED <<mod, result, ret, ev>>
       ELSE RejectWith("short") /\ UNCHANGED reads
    /\ UNCHANGED <<file, good, pick, checked, next, fault, nonterm>>
ValidateHeaderA(ok) ==
    /\ stage = "hdr"
    /\ IF ok THEN /\ stage' = "checks" /\ Emit(Ev("hdr_ok", -1, -1, Zero, NSec(file), ""))
                  /\ UNCHANGED <<mod, result, ret>>
       ELSE RejectWith("header")
    /\ UNCHANGED <<file, good, pick, checked, next, reads, fault, nonterm>>
\* The checksum test and the directory-fits test only look at the header, the size
\* and (CRC) the body as a byte string; they commute, and the specification admits
\* both orders.  What it does not admit is a Section step before both have passed.
CheckCrcA(ok) ==
    /\ stage = "checks" /\ "crc" \notin checked
    /\ reads' = reads \cup {Rd(Wd(HeaderSize), Zero, SubW(Size(file), Wd(HeaderSize)))}
    /\ IF ok THEN /\ checked' = checked \cup {"crc"}
                  /\ Emit(Ev("crc_ok", -1, -1, Zero, SubW(Size(file), Wd(HeaderSize)), ""))
                  /\ UNCHANGED <<stage, mod, result, ret>>
       ELSE RejectWith("crc") /\ UNCHANGED checked
    /\ UNCHANGED <<file, good, pick, next, fault, nonterm>>
CheckDirA(ok) ==
    /\ stage = "checks" /\ "dir" \notin checked
    /\ (Family \notin {"faults", "trace"} => "crc" \in checked)    \* the hostile families only follow the code's order
    /\ IF ok THEN /\ checked' = checked \cup {"dir"}
                  /\ Emit(Ev("dir_ok", -1, -1, Zero, DirEnd(file), ""))
                  /\ UNCHANGED <<stage, mod, result, ret>>
       ELSE RejectWith("dir") /\ UNCHANGED checked
    /\ UNCHANGED <<file, good, pick, next, reads, fault, nonterm>>
Alloc == /\ stage = "checks" /\ checked = {"crc", "dir"}
         /\ stage' = "sections" /\ mod' = EmptyMod(ToN(NSec(file))) /\ next' = 0
         /\ UNCHANGED <<file, good, pick, checked, reads, result, ret, ev, fault, nonterm>>
SectionA(i, ok) ==
    /\ stage = "sections" /\ i = next /\ i < mod.nsec
    /\ LET d   == Rd(Wd(HeaderSize + i * SecEntrySize), Zero, Wd(SecEntrySize))
           off == U32(file, HeaderSize + i * SecEntrySize + 4)
           sz  == U32(file, HeaderSize + i * SecEntrySize + 8)
           ty  == SecType(file, i)
       IN IF ~ok THEN RejectWith("section") /\ reads' = reads \cup {d} /\ UNCHANGED <<next, nonterm>>
          ELSE LET a == ParseSection(StrCheck, file, mod, ty, off, sz) IN
               /\ reads' = reads \cup {d} \cup a.reads
               /\ Emit(Ev("section", i, ty, off, sz, ""))
               /\ next' = i + 1
               /\ nonterm' = (a.st = "nonterm")
               /\ IF a.st = "ok" THEN mod' = a.m /\ UNCHANGED stage
                  ELSE mod' = mod /\ stage' = "undefined"               \* out-of-bounds read or divergence
               /\ UNCHANGED <<result, ret>>
    /\ UNCHANGED <<file, good, pick, checked, fault>>
Done == /\ stage = "sections" /\ next = mod.nsec
        /\ stage' = "done" /\ result' = "Ok" /\ ret' = mod
        /\ Emit(Ev("done", -1, -1, Zero, Zero, ""))
        /\ UNCHANGED <<file, good, pick, checked, next, mod, reads, fault, nonterm>>

SecOk(f, i) == SecBoundsOk(SecCheck, U32(f, HeaderSize + i * SecEntrySize + 4),
                           U32(f, HeaderSize + i * SecEntrySize + 8), Size(f))
Load == \/ Start
        \/ ReadHeaderA(D_Size(file))
        \/ ValidateHeaderA(D_Header(file))
        \/ CheckCrcA(D_Crc(file))
        \/ CheckDirA(D_Dir(file))
        \/ Alloc
        \/ \E i \in 0..MaxSections : SectionA(i, SecOk(file, i))
        \/ Done

-----------------------------------------------------------------------------
\* Fault actions.  Bits are numbered from the first body bit: bit k is bit (k % 8)
\* (least significant first) of byte HeaderSize + k \div 8.
BodyBits(f) == 8 * (Len(f) - HeaderSize)
XorBits(f, S) == [i \in 1..Len(f) |->
                    LET bits == {k \in S : HeaderSize + (k \div 8) + 1 = i}
                    IN IF bits = {} THEN f[i]
                       ELSE f[i] ^^ FoldSet(LAMBDA k, acc : acc + Pow2(k % 8), 0, bits)]
Pats == {"ones", "alt", "ends", "prbs"}
PatsFor(len) == IF len = 2 THEN {"ones"} ELSE IF len = 3 THEN {"ones", "ends"} ELSE Pats
BurstBits(off, len, pat) ==
    {off, off + len - 1} \cup
    CASE pat = "ones" -> off .. (off + len - 1)
      [] pat = "alt"  -> {off + j : j \in {j \in 0..(len - 1) : (j % 2) = 0}}
      [] pat = "ends" -> {}
      [] pat = "prbs" -> {off + j : j \in {j \in 1..(len - 2) : ((j * j * 5 + j * 3 + off * 7 + len) % 11) < 5}}
Tails == {<<b>> : b \in 0..255} \cup
         UNION {{[i \in 1..n |-> 0], [i \in 1..n |-> 255], [i \in 1..n |-> (i * 37 + n * 11) % 256]} : n \in 2..MaxTail}
F(cls, a, b, c) == [cls |-> cls, a |-> a, b |-> b, c |-> c]
Faulted(f, d) == /\ file' = f /\ fault' = Append(fault, d)
                 /\ UNCHANGED <<good, pick, stage, checked, next, mod, reads, result, ret, ev, nonterm>>
CanFault == stage = "start" /\ Len(fault) < MaxFaults
FlipBit == /\ CanFault /\ Len(file) > HeaderSize
           /\ \E k \in 0..(BodyBits(file) - 1) : Faulted(XorBits(file, {k}), F("FlipBit", k, 0, ""))
Burst == /\ CanFault /\ Len(file) > HeaderSize
         /\ \E len \in 2..MaxBurst : \E off \in 0..(BodyBits(file) - len) : \E pat \in PatsFor(len) :
              Faulted(XorBits(file, BurstBits(off, len, pat)), F("Burst", off, len, pat))
Truncate == /\ CanFault
            /\ \E n \in 0..(Len(file) - 1) : Faulted(SubSeq(file, 1, n), F("Truncate", n, 0, ""))
Extend == /\ CanFault
          /\ \E t \in Tails : Faulted(file \o t, F("Extend", Len(t), t[1], IF Len(t) = 1 THEN "byte" ELSE
                                            IF t[1] = 0 THEN "zeros" ELSE IF t[1] = 255 /\ t[2] = 255 THEN "ones" ELSE "prbs"))
BadMagic == /\ CanFault /\ Len(file) >= HeaderSize
            /\ \E i \in 1..4 : \E v \in 0..255 :
                 v # file[i] /\ Faulted([file EXCEPT ![i] = v], F("BadMagic", i - 1, v, ""))
BadVersion == /\ CanFault /\ Len(file) >= HeaderSize
              /\ \E i \in 5..8 : \E v \in 0..255 :
                   v # file[i] /\ Faulted([file EXCEPT ![i] = v], F("BadVersion", i - 1, v, ""))
\* A burst inside the last 32 body bits chosen so that the checksum of the damaged
\* body differs from the stored one in exactly bit j: refusing all 32 of them is
\* what "the whole 32-bit checksum is compared" means.
CrcBit == /\ CanFault /\ Len(file) >= HeaderSize + 4
          /\ \E j \in 0..31 :
               LET d == IF j < 16 THEN <<0, Pow2(j)>> ELSE <<Pow2(j - 16), 0>>
                   e == ForgeLast4(d)
                   n == Len(file)
               IN Faulted([i \in 1..n |-> IF i > n - 4 THEN file[i] ^^ e[i - (n - 4)] ELSE file[i]],
                          F("CrcBit", j, 0, ""))
Fault == FlipBit \/ Burst \/ Truncate \/ Extend \/ BadMagic \/ BadVersion \/ CrcBit

-----------------------------------------------------------------------------
NoPick == [fam |-> "", t |-> 0, off |-> Zero, sz |-> Zero]
InitCommon(f) == /\ file = f /\ good = f /\ stage = "start" /\ checked = {} /\ next = 0 /\ mod = NoMod
                 /\ reads = {} /\ result = "pending" /\ ret = NoMod /\ ev = <<>> /\ fault = <<>>
                 /\ nonterm = FALSE /\ pick = NoPick
\* The adversary of the hostile families writes a file in two steps (Init picks a part of
\* the directory entry, Forge the rest, lays the file out and recomputes the checksum), so
\* that TLC's workers share the work of building the files.
InitPick(fam, t, off, sz) == /\ file = <<>> /\ good = <<>> /\ stage = "forge" /\ checked = {} /\ next = 0 /\ mod = NoMod
                             /\ reads = {} /\ result = "pending" /\ ret = NoMod /\ ev = <<>> /\ fault = <<>>
                             /\ nonterm = FALSE /\ pick = [fam |-> fam, t |-> t, off |-> off, sz |-> sz]
Forged(f) == /\ file' = f /\ good' = f /\ stage' = "start"
             /\ UNCHANGED <<pick, checked, next, mod, reads, result, ret, ev, fault, nonterm>>
BndW == {Zero, Wd(1), Wd(4), Wd(HeaderSize), Wd(HostLen(1) - 1), Wd(HostLen(1)), Wd(HostLen(1) + 1),
         Wd((B * B) \div 2 - 1), Wd((B * B) \div 2), Wd(B * B - HostLen(1)), Wd(B * B - 4), Wd(B * B - 1)}
PayloadOff(k) == Wd(HeaderSize + k * SecEntrySize)
BenignCode == [type |-> SecCode, off |-> PayloadOff(2), sz |-> Wd(8)]
\* one: a single arbitrary entry <t, off, sz>.   two: a benign CODE entry, then an arbitrary one.
\* str: a STRINGS section of pick.sz bytes over the payload, whose first length word x is arbitrary.
HostileInit ==
    \/ \E t \in SecTypes : \E off \in AllWords : InitPick("one", t, off, Zero)
    \/ \E t \in SecTypes : \E off \in AllWords : InitPick("two", t, off, Zero)
    \/ \E sz \in {Wd(4), Wd(8), Wd(24)} : InitPick("str", SecStrings, PayloadOff(1), sz)
Forge ==
    /\ stage = "forge"
    /\ CASE pick.fam = "one" ->     \* Full: every <off, sz>; otherwise every off x boundary sz and boundary off x every sz
              \E sz \in (IF Full \/ pick.off \in BndW THEN AllWords ELSE BndW) :
                  Forged(MkHostile(<<[type |-> pick.t, off |-> pick.off, sz |-> sz]>>, Zero))
         [] pick.fam = "two" ->
              \E sz \in (IF Full THEN AllWords ELSE {Zero, Wd(1), Wd(4), Wd(HostLen(2)), Wd(B * B - 4), Wd(B * B - 1)}) :
                  Forged(MkHostile(<<BenignCode, [type |-> pick.t, off |-> pick.off, sz |-> sz]>>, Zero))
         [] pick.fam = "str" ->
              \E x \in AllWords :
                  Forged(MkHostile(<<[type |-> SecStrings, off |-> pick.off, sz |-> pick.sz]>>, x))
         [] pick.fam = "one32" ->
              \E sz \in Bnd32(HostLen(1)) :
                  Forged(MkHostile(<<[type |-> pick.t, off |-> pick.off, sz |-> sz]>>, Zero))
         [] pick.fam = "two32" ->
              \E sz \in {Zero, <<0, 1>>, <<0, 32>>, <<65535, 65535>>} :
                  Forged(MkHostile(<<BenignCode, [type |-> pick.t, off |-> pick.off, sz |-> sz]>>, Zero))
         [] pick.fam = "str32" ->
              \E x \in Bnd32(24) :
                  Forged(MkHostile(<<[type |-> SecStrings, off |-> pick.off, sz |-> pick.sz]>>, x))
         [] pick.fam = "count" ->        \* section counts around the limit, nothing behind them
              LET body == <<1, 2, 3>> IN Forged(MkHeader(1, 0, LE32(ToN(pick.sz)), 0, 0, body) \o body)
Hostile32Init ==
    \/ \E t \in SecTypes : \E off \in Bnd32(HostLen(1)) : InitPick("one32", t, off, Zero)
    \/ \E t \in SecTypes : \E off \in Bnd32(HostLen(2)) : InitPick("two32", t, off, Zero)
    \/ \E sz \in {Wd(4), Wd(8), Wd(24)} : InitPick("str32", SecStrings, PayloadOff(1), sz)
    \/ \E n \in {0, 1, MaxSections, MaxSections + 1, 255} : InitPick("count", 0, Zero, Wd(n))
Init == CASE Family = "faults"    -> InitCommon(Image)
          [] Family = "hostile"   -> HostileInit
          [] Family = "hostileSec" -> \E t \in SecTypes : \E off \in AllWords : InitPick("one", t, off, Zero)
          [] Family = "hostileStr" -> \E sz \in {Wd(4), Wd(8), Wd(24)} : InitPick("str", SecStrings, PayloadOff(1), sz)
          [] Family = "hostile32" -> Hostile32Init
          [] OTHER                -> InitCommon(Image)

\* ---- what the model prints for the replay side -------------------------------
Terminal == stage \in {"done", "reject", "undefined"}
FaultHash(d) == (d.a * 31 + d.b * 17 + Len(d.cls) * 7 + (IF d.c = "" THEN 0 ELSE Len(d.c))) % SampleMod
Emitted ==   \* side effect only: always TRUE
    IF Family = "faults" /\ Terminal /\ Len(fault) = 1
       /\ (fault[1].cls \notin {"FlipBit", "Burst"} \/ FaultHash(fault[1]) = 0)
    THEN PrintT("@@J " \o ToJson([k |-> "fault", f |-> fault[1], len |-> Len(file),
                                   crc |-> IF Len(file) > HeaderSize THEN Crc(BodyOf(file)) ELSE <<0, 0>>,
                                   result |-> result, stage |-> ev[Len(ev)].stage,
                                   last4 |-> IF Len(file) >= 4 THEN SubSeq(file, Len(file) - 3, Len(file)) ELSE file]))
    ELSE IF Family \in {"hostile", "hostileSec", "hostileStr"} /\ stage = "undefined"
    THEN PrintT("@@J " \o ToJson([k |-> "oob", w |-> W, bytes |-> file, nsec |-> ToN(NSec(file)),
                                   entries |-> [i \in 1..ToN(NSec(file)) |->
                                                  [type |-> SecType(file, i - 1),
                                                   off |-> ToN(U32(file, HeaderSize + (i - 1) * SecEntrySize + 4)),
                                                   sz |-> ToN(U32(file, HeaderSize + (i - 1) * SecEntrySize + 8))]],
                                   x |-> ToN(U32(file, HeaderSize + ToN(NSec(file)) * SecEntrySize)),
                                   reads |-> {[off |-> ToN(r.off), pos |-> ToN(r.pos), len |-> ToN(r.len)] : r \in {r \in reads : ~RangeIn(r, Size(file))}}]))
    ELSE IF Family = "hostile32" /\ stage = "loaded"
    THEN PrintT("@@J " \o ToJson([k |-> "hostile", bytes |-> file,
                                   asWritten |-> LET v == Verdict("asWritten", "asWritten", file) IN [v |-> v.v, stage |-> v.stage],
                                   safe |-> LET v == Verdict("safe", "safe", file) IN [v |-> v.v, stage |-> v.stage],
                                   secOnly |-> LET v == Verdict("safe", "asWritten", file) IN [v |-> v.v, stage |-> v.stage]]))
    ELSE TRUE

Next == (Forge \/ Fault \/ Load) /\ Emitted'
Spec == Init /\ [][Next]_vars

ASSUME PrintImage ==
    Family = "faults" =>
        PrintT("@@J " \o ToJson([k |-> "image", bytes |-> Image, mod |-> FullModule(Image),
                                  bodybits |-> BodyBits(Image),
                                  catalogue |-> [FlipBit |-> "every body bit",
                                                 Burst |-> [minlen |-> 2, maxlen |-> MaxBurst, pats |-> Pats, first_and_last_bit_always_flipped |-> TRUE],
                                                 Truncate |-> "every length 0..|f|-1",
                                                 Extend |-> [every_1_byte_tail |-> TRUE, maxlen |-> MaxTail, kinds |-> {"zeros", "ones", "prbs"}],
                                                 BadMagic |-> "each of the 4 magic bytes set to each other value",
                                                 BadVersion |-> "each of the 4 version bytes set to each other value",
                                                 CrcBit |-> "last 4 body bytes xor ForgeLast4(2^j), j in 0..31"]]))

-----------------------------------------------------------------------------
\* Invariants
Damaged == file # good
HasEv(name) == \E n \in 1..Len(ev) : ev[n].e = name
TypeOK == /\ stage \in {"forge", "start", "loaded", "hdr", "checks", "sections", "done", "reject", "undefined"}
          /\ result \in {"pending", "Ok", "Error"} /\ checked \subseteq {"crc", "dir"}
          /\ \A r \in reads : IsWord(r.off) /\ IsWord(r.pos) /\ IsWord(r.len)

\* C12: a damaged file is refused, before anything of its body is interpreted.
Refused == Damaged => /\ result # "Ok" /\ stage # "done" /\ stage # "sections"
                      /\ ~HasEv("section") /\ mod = NoMod /\ ret = NoMod
RefusedEarly == (Damaged /\ stage = "reject") => ev[Len(ev)].stage \in {"short", "header", "crc", "dir"}
\* the undamaged image loads (otherwise Refused would hold vacuously)
GoodLoads == (~Damaged /\ Family = "faults") => stage \notin {"reject", "undefined"}
\* all-or-nothing: what is returned is NULL or the complete module of the file
AllOrNothing == /\ (ret = NoMod \/ ret = FullModule(file))
                /\ (result = "Ok" <=> (stage = "done" /\ ret = mod /\ ret.alloc))
                /\ (result = "Error" <=> stage = "reject")
                /\ (stage = "reject" => mod = NoMod /\ ret = NoMod)
\* the checksum is verified before any section is looked at; nothing follows a reject
Staged == /\ \A n \in 1..Len(ev) : ev[n].e = "section" =>
                \E a, b \in 1..(n - 1) : ev[a].e = "crc_ok" /\ ev[b].e = "dir_ok"
          /\ \A n \in 1..Len(ev) : ev[n].e \in {"reject", "done"} => n = Len(ev)
          /\ (HasEv("crc_ok") => HasEv("hdr_ok"))
\* C13 (loader part): every read stays inside the file, and every section parser ends
ReadsInBounds == \A r \in reads : RangeIn(r, Size(file))
Terminates == ~nonterm
NeverUndefined == stage # "undefined"
\* the literal form of DESIGN 3.1, usable where offsets are small enough to enumerate
ReadsInBoundsEnum ==
    W = 32 \/ \A r \in reads : r.len = Zero \/
        (ToN(r.off) + ToN(r.pos)) .. (ToN(r.off) + ToN(r.pos) + ToN(r.len) - 1) \subseteq 0 .. (Len(file) - 1)
\* head-room every real file has (size <= 100 MB in nano_vm and nano_vmd): pos + entry size cannot wrap
SizeAssumption == (Len(file) + FnEntrySize + B) \div B < B
=============================================================================
