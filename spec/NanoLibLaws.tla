---- MODULE NanoLibLaws ----
(***************************************************************************)
(* Algebraic laws of the library specification (NanoLib.tla), checked by   *)
(* TLC as invariants over a bounded argument space: they tie the functions  *)
(* to each other (partitions of the character classes, idempotence and      *)
(* inverses of the case mappings, round trips of the conversions, slices    *)
(* that concatenate, insert/remove and push/pop inverses, reference         *)
(* semantics of the in-place operations), so the specification is more than *)
(* a transcript of one implementation.                                      *)
(***************************************************************************)
EXTENDS NanoLib
CONSTANTS MaxLen,       \* arrays / lists up to this length over the element alphabet
          Deep          \* TRUE: wider index range

\* ---- helpers: apply a library function and look at the outcome
Ap(f, vs, store) == LibApply(f, vs, store)
OkV(f, vs, store) == LET r == Ap(f, vs, store) IN IF r.ok = "ok" THEN r.v ELSE VVoid
B1(f, l) == IsTrue(OkV(f, <<VInt(l)>>, <<>>))                     \* a character predicate as a boolean
I1(f, l) == OkV(f, <<VInt(l)>>, <<>>).i                            \* an int -> int function on limbs
Vi(k) == VInt(I64FromInt(k))
Two32 == <<0, 1, 0, 0>>

\* ---- argument spaces
Codes == {<<0, 0, 0, k>> : k \in 0..255}
Beyond == {I64FromInt(-1), I64FromInt(-65), <<0, 0, 0, 256>>, <<0, 0, 0, 256 + 65>>, <<0, 0, 1, 48>>, <<0, 0, 1, 97>>, I64Add(Two32, <<0, 0, 0, 48>>),
           I64Add(Two32, <<0, 0, 0, 65>>), I64Add(Two32, <<0, 0, 0, 97>>), I64Add(Two32, <<0, 0, 0, 32>>), I64MaxI, I64MinI, <<0, 0, 32768, 0>>}
Chars == Codes \cup Beyond
Ints == {I64Zero, I64One, I64FromInt(-1), I64FromInt(42), I64FromInt(-100), <<0, 0, 0, 65535>>, <<0, 0, 1, 0>>, <<0, 0, 32768, 0>>, Two32,
         <<32, 0, 0, 1>>, <<65503, 65535, 65535, 65535>>, <<3276, 52428, 52428, 52428>>, <<3276, 52428, 52428, 52429>>, I64MaxI, I64MinI,
         <<32768, 0, 0, 1>>, <<32767, 65535, 65535, 65534>>}
DigitStrs == {"0", "7", "42", "007", "922337203685477580", "9223372036854775807", "9223372036854775808", "9223372036854775809", "18446744073709551616",
              "99999999999999999999", "1000000000000000000", "123456789012345678"}
Tails == {"", " ", "x", ".5", "e3", "-1"}
Elems == {Vi(0), Vi(1), Vi(2)}
RECURSIVE SeqsUpTo(_)
SeqsUpTo(n) == IF n = 0 THEN {<<>>} ELSE LET s == SeqsUpTo(n - 1) IN s \cup {Append(x, e) : x \in {y \in s : Len(y) = n - 1}, e \in Elems}
Seqs == SeqsUpTo(MaxLen)
IdxRange == IF Deep THEN (-2)..(MaxLen + 2) ELSE (-1)..(MaxLen + 1)
WideIdx == {I64Add(Two32, I64FromInt(k)) : k \in 0..1} \cup {I64MinI, I64MaxI}      \* outside every array
ARef == VArr(1)
LRef == VList(1, "int")

VARIABLES kind, c, a, i, l
vars == <<kind, c, a, i, l>>
Init == \/ kind = "char" /\ c \in Chars /\ a = <<>> /\ i = 0 /\ l = 0
        \/ kind = "int"  /\ c \in Ints  /\ a = <<>> /\ i = 0 /\ l = 0
        \/ kind = "seq"  /\ c = I64Zero /\ a \in Seqs /\ i \in IdxRange /\ l \in IdxRange
        \/ kind = "wide" /\ c \in WideIdx /\ a \in Seqs /\ i = 0 /\ l = 0
Next == UNCHANGED vars
Spec == Init /\ [][Next]_vars

\* ------------------------------------------------------------ characters
CharLaws == kind = "char" =>
   /\ B1("is_alnum", c) = (B1("is_alpha", c) \/ B1("is_digit", c))                       \* alnum = alpha + digit
   /\ B1("is_alpha", c) = (B1("is_upper", c) \/ B1("is_lower", c))                       \* alpha = upper + lower
   /\ ~(B1("is_upper", c) /\ B1("is_lower", c))                                         \* ... disjoint
   /\ ~(B1("is_alpha", c) /\ B1("is_digit", c))
   /\ ~(B1("is_whitespace", c) /\ B1("is_alnum", c))
   /\ (c \notin Codes => ~B1("is_alnum", c) /\ ~B1("is_whitespace", c))                 \* nothing outside 0..255 is in a class
   /\ B1("is_digit", c) = ~I64IsNeg(I1("digit_value", c))                               \* digit_value = -1 exactly off the digits
   /\ (B1("is_digit", c) => I64Add(<<0, 0, 0, 48>>, I1("digit_value", c)) = c)
   /\ (~B1("is_digit", c) => I1("digit_value", c) = I64Neg(I64One))
   /\ I1("char_to_lower", I1("char_to_lower", c)) = I1("char_to_lower", c)                \* idempotent
   /\ I1("char_to_upper", I1("char_to_upper", c)) = I1("char_to_upper", c)
   /\ I1("char_to_upper", I1("char_to_lower", c)) = I1("char_to_upper", c)                \* upper . lower = upper
   /\ I1("char_to_lower", I1("char_to_upper", c)) = I1("char_to_lower", c)
   /\ (B1("is_upper", c) => I1("char_to_upper", I1("char_to_lower", c)) = c /\ B1("is_lower", I1("char_to_lower", c)))
   /\ (B1("is_lower", c) => I1("char_to_lower", I1("char_to_upper", c)) = c /\ B1("is_upper", I1("char_to_upper", c)))
   /\ (~B1("is_alpha", c) => I1("char_to_lower", c) = c /\ I1("char_to_upper", c) = c)  \* non-letters unchanged
   /\ B1("is_alpha", I1("char_to_lower", c)) = B1("is_alpha", c)                         \* the mappings stay inside the letters
\* the classes have the sizes of the ASCII ranges (evaluated once)
ClassSizes == (kind = "char" /\ c = I64Zero) =>
   /\ Cardinality({x \in Chars : B1("is_digit", x)}) = 10
   /\ Cardinality({x \in Chars : B1("is_upper", x)}) = 26
   /\ Cardinality({x \in Chars : B1("is_lower", x)}) = 26
   /\ Cardinality({x \in Chars : B1("is_alnum", x)}) = 62
   /\ Cardinality({x \in Chars : B1("is_whitespace", x)}) = 4
   /\ {I1("digit_value", x) : x \in Chars} = {I64FromInt(k) : k \in -1..9}

\* ----------------------------------------------------------- conversions
S1(f, v) == OkV(f, <<v>>, <<>>)
ConvLaws == kind = "int" =>
   LET n == VInt(c) IN
   /\ S1("cast_int", S1("cast_string", n)) = n                                          \* int -> string -> int
   /\ S1("string_to_int", S1("cast_string", n)) = n
   /\ S1("cast_string", n) = VStr(Dec(c)) /\ S1("to_string", n) = S1("cast_string", n)
   /\ S1("cast_string", S1("cast_string", n)) = S1("cast_string", n)                     \* a string is unchanged
   /\ S1("cast_int", n) = n /\ S1("cast_int", S1("cast_int", n)) = n
   /\ S1("cast_bool", n) = VBool(c # I64Zero)
   /\ S1("cast_bool", S1("cast_string", n)) = VBool(TRUE)                                \* a numeral is a non-empty string
   /\ S1("cast_int", S1("cast_bool", n)) = (IF c = I64Zero THEN VInt(I64Zero) ELSE VInt(I64One))
   /\ S1("cast_bool", S1("cast_int", S1("cast_bool", n))) = S1("cast_bool", n)           \* bool -> int -> bool
BoolLaws == (kind = "int" /\ c = I64Zero) =>
   /\ \A b \in BOOLEAN : S1("cast_bool", S1("cast_int", VBool(b))) = VBool(b) /\ S1("cast_bool", VBool(b)) = VBool(b)
   /\ S1("cast_string", VBool(TRUE)) = VStr("true") /\ S1("cast_string", VBool(FALSE)) = VStr("false")
   /\ S1("cast_bool", VStr("")) = VBool(FALSE) /\ S1("cast_bool", VStr("false")) = VBool(TRUE) /\ S1("cast_bool", VStr("0")) = VBool(TRUE)
\* strtoll: sign symmetry, saturation, ignored tail, skipped blanks (evaluated once)
StrLaws == (kind = "int" /\ c = I64Zero) =>
   \A d \in DigitStrs :
      LET p == Strtoll(d)  m == Strtoll("-" \o d) IN
      /\ p.any /\ p.all /\ ~I64IsNeg(p.v)                                                \* never wraps to a negative number
      /\ (p.v # I64MaxI => m.v = I64Neg(p.v))                                            \* below the limit: exact, symmetric
      /\ (p.v = I64MaxI => m.v \in {I64MinI, I64Neg(I64MaxI)})                          \* at / over the limit: saturates
      /\ I64Le(m.v, I64Zero)
      /\ Strtoll("+" \o d).v = p.v /\ Strtoll("  " \o d).v = p.v
      /\ \A t \in Tails : Strtoll(d \o t).v = p.v /\ (t # "" => ~Strtoll(d \o t).all)
      /\ Strtoll("x" \o d).v = I64Zero /\ ~Strtoll("x" \o d).any /\ Strtoll("- " \o d).v = I64Zero
      /\ S1("string_to_int", VStr(d)) = VInt(p.v)
      /\ (Len(d) <= 18 => S1("cast_string", VInt(p.v)) = S1("cast_string", S1("cast_int", VStr(d))))

\* ------------------------------------------------------ arrays and lists
St0 == <<a>>                          \* the store: one cell holding a
Content(r) == r.store[r.v.r]          \* the elements of an array-valued result
SeqLaws == kind = "seq" =>
   LET n == Len(a)
       sl == Ap("array_slice", <<ARef, Vi(i), Vi(l)>>, St0)
       rm == Ap("array_remove_at", <<ARef, Vi(i)>>, St0)
       x == Vi(7) IN
   \* array_slice: a new array, the source untouched, the clamped portion
   /\ (i >= 0 /\ l >= 0) => /\ sl.ok = "ok" /\ sl.v.r = 2 /\ sl.store[1] = a
                            /\ Len(Content(sl)) = (IF i >= n THEN 0 ELSE IF i + l > n THEN n - i ELSE l)
                            /\ \A k \in 1..Len(Content(sl)) : Content(sl)[k] = a[i + k]
   /\ (i < 0 \/ l < 0) => sl.ok = "unspecified:array_slice-negative"
   /\ Content(Ap("array_slice", <<ARef, Vi(0), Vi(n)>>, St0)) = a                       \* slice(a, 0, len) = a
   /\ (i >= 0 /\ l >= 0) =>                                                              \* slices concatenate
         \A l2 \in 0..2 : Content(Ap("array_slice", <<ARef, Vi(i), Vi(l + l2)>>, St0))
                          = Content(sl) \o Content(Ap("array_slice", <<ARef, Vi(IF i + l > n THEN n ELSE i + l), Vi(IF i + l > n THEN 0 ELSE l2)>>, St0))
   /\ (i >= 0 /\ l >= 0) =>                                                              \* a slice of a slice
         Content(Ap("array_slice", <<VArr(2), Vi(0), Vi(1)>>, sl.store)) = (IF Content(sl) = <<>> THEN <<>> ELSE <<Content(sl)[1]>>)
   \* array_remove_at: in place, the array itself is the result, bounds checked
   /\ (i >= 0 /\ i < n) => /\ rm.ok = "ok" /\ rm.v = ARef /\ Len(rm.store) = 1 /\ Len(rm.store[1]) = n - 1
                           /\ InsertAt(rm.store[1], i + 1, a[i + 1]) = a
   /\ (i < 0 \/ i >= n) => rm.ok = "fault:bounds" /\ rm.store = St0
   \* array_new
   /\ (l >= 0) => LET nw == Ap("array_new", <<Vi(l), x>>, St0) IN
                  /\ nw.ok = "ok" /\ nw.v.r = 2 /\ nw.store[1] = a /\ Len(Content(nw)) = l /\ \A k \in 1..l : Content(nw)[k] = x
                  /\ (i >= 0 => Content(Ap("array_slice", <<VArr(2), Vi(0), Vi(i)>>, nw.store)) = Rep(IF i > l THEN l ELSE i, x))
   /\ (l < 0) => Ap("array_new", <<Vi(l), x>>, St0).ok = "fault:array_new-negative-size"
   \* lists (the same cell read as a List<int>)
   /\ LET push == Ap("list_int_push", <<LRef, x>>, St0)
          pop == Ap("list_int_pop", <<LRef>>, push.store)
          ins == Ap("list_int_insert", <<LRef, Vi(i), x>>, St0)
          rem == Ap("list_int_remove", <<LRef, Vi(i)>>, St0)
          set == Ap("list_int_set", <<LRef, Vi(i), x>>, St0)
          get == Ap("list_int_get", <<LRef, Vi(i)>>, St0) IN
      /\ push.ok = "ok" /\ push.store[1] = Append(a, x)
      /\ pop.ok = "ok" /\ pop.v = x /\ pop.store = St0                                  \* pop . push = identity
      /\ OkV("list_int_length", <<LRef>>, push.store) = Vi(n + 1)
      /\ OkV("list_int_is_empty", <<LRef>>, St0) = VBool(n = 0)
      /\ (n = 0 => Ap("list_int_pop", <<LRef>>, St0).ok = "fault:bounds")
      /\ (n > 0 => LET p == Ap("list_int_pop", <<LRef>>, St0) IN p.ok = "ok" /\ p.v = a[n] /\ Ap("list_int_push", <<LRef, p.v>>, p.store).store = St0)   \* push . pop
      /\ (i >= 0 /\ i <= n) => /\ ins.ok = "ok" /\ Len(ins.store[1]) = n + 1
                               /\ OkV("list_int_get", <<LRef, Vi(i)>>, ins.store) = x
                               /\ Ap("list_int_remove", <<LRef, Vi(i)>>, ins.store).store = St0   \* remove . insert = identity
      /\ (i < 0 \/ i > n) => ins.ok = "fault:bounds"
      /\ (i = n) => ins.store = push.store                                              \* insert at the end = push
      /\ (i >= 0 /\ i < n) => /\ get.ok = "ok" /\ get.v = a[i + 1] /\ get.store = St0
                              /\ set.ok = "ok" /\ OkV("list_int_get", <<LRef, Vi(i)>>, set.store) = x
                              /\ Ap("list_int_set", <<LRef, Vi(i), get.v>>, set.store).store = St0
                              /\ \A j \in 0..(n - 1) : j # i => OkV("list_int_get", <<LRef, Vi(j)>>, set.store) = a[j + 1]
                              /\ rem.ok = "ok" /\ rem.store[1] = rm.store[1]            \* list remove = array_remove_at on the elements
                              /\ Ap("list_int_insert", <<LRef, Vi(i), a[i + 1]>>, rem.store).store = St0
      /\ (i < 0 \/ i >= n) => get.ok = "fault:bounds" /\ set.ok = "fault:bounds" /\ rem.ok = "fault:bounds"
      /\ LET cl == Ap("list_int_clear", <<LRef>>, St0) IN cl.ok = "ok" /\ OkV("list_int_is_empty", <<LRef>>, cl.store) = VBool(TRUE)
                                                       /\ OkV("list_int_length", <<LRef>>, cl.store) = Vi(0)
      /\ LET nw == Ap("list_int_new", <<>>, St0) IN nw.ok = "ok" /\ nw.v = VList(2, "int") /\ nw.store[1] = a /\ OkV("list_int_is_empty", <<nw.v>>, nw.store) = VBool(TRUE)
      /\ LET fr == Ap("list_int_free", <<LRef>>, St0) IN fr.ok = "ok" /\ Ap("list_int_length", <<LRef>>, fr.store).ok = "unspecified:list-use-after-free"
      /\ Ap("list_string_length", <<LRef>>, St0).ok = "stuck:type"                     \* a List<int> is not a List<string>
\* an index that is a valid position only modulo 2^32, or the 64-bit extremes: outside every sequence
WideLaws == kind = "wide" =>
   /\ Ap("array_remove_at", <<ARef, VInt(c)>>, St0).ok = "fault:bounds"
   /\ Ap("list_int_get", <<LRef, VInt(c)>>, St0).ok = "fault:bounds" /\ Ap("list_int_set", <<LRef, VInt(c), Vi(1)>>, St0).ok = "fault:bounds"
   /\ Ap("list_int_insert", <<LRef, VInt(c), Vi(1)>>, St0).ok = "fault:bounds" /\ Ap("list_int_remove", <<LRef, VInt(c)>>, St0).ok = "fault:bounds"
   /\ (~I64IsNeg(c) => /\ (c # I64MaxI => Content(Ap("array_slice", <<ARef, VInt(c), Vi(1)>>, St0)) = <<>>)      \* a start beyond the end: empty
                       /\ (c = I64MaxI => Ap("array_slice", <<ARef, VInt(c), Vi(1)>>, St0).ok = "unspecified:array_slice-overflow")
                       /\ Content(Ap("array_slice", <<ARef, Vi(0), VInt(c)>>, St0)) = a)              \* a length beyond the end: all
   /\ (I64IsNeg(c) => Ap("array_new", <<VInt(c), Vi(0)>>, St0).ok = "fault:array_new-negative-size")
====
