---- MODULE NanoVMVal ----
(***************************************************************************)
(* Value-level semantics of the NanoISA instruction set as executed by the *)
(* NanoVM (src/nanovm/vm.c: vm_core_execute; docs/NANOISA.md; isa.h).      *)
(*                                                                         *)
(* State  S = [stack, frames, globals, heap, ip, fn]                       *)
(*   stack    operand stack; the locals of every frame live in it          *)
(*   frames   <<[fn, base, nloc, ret, clo]>>  (base: stack index of local  *)
(*            0, ret: return address stored by the call, clo: closure id)  *)
(*   globals  sequence of values (index + 1)                               *)
(*   heap     container id -> [k (tag), m (<<m0, m1>> meta), v (values)]   *)
(*   ip, fn   byte offset of the next instruction, current function        *)
(* Value  [t, n, s, h, o]: t NanoValueTag; n 64 payload bits as four 16-bit*)
(*   limbs (int, float bits, bool/u8 0..255, enum, raw fn index, string    *)
(*   length); s bytes of a string of <= StrMax bytes; h content key of a   *)
(*   longer string; o container id (arrays, structs, unions, tuples,       *)
(*   closures, maps), -1 = not a live object, -2 = null pointer.           *)
(*   The specification does not model float arithmetic: a float result is  *)
(*   the wildcard Wild(TFloat) ("some float"); Wild values only appear in  *)
(*   prescribed successor states and are matched by VMatch.                *)
(*                                                                         *)
(* Step(S, I, E) gives the successor as a function of the state, the       *)
(* decoded instruction I = [op, a, len, imm] and the module environment    *)
(* E = [fns (<<arity, nloc, off, len, upv>> per function), imps, newid].   *)
(* One CASE arm per case of the switch in vm_core_execute.  The result is  *)
(*   [kind, S, code, tv, why]   kind:                                      *)
(*     "ok"      the core goes on with S                                   *)
(*     "done"    RET of the outermost frame: core returns TRAP_NONE        *)
(*     "trap"    TRAP_ERROR with VmResult `code` (residual stack not       *)
(*               prescribed)                                               *)
(*     "print" / "assert" / "extern"   core returns to the host with tv    *)
(*     "halt"                                                              *)
(*     "unspec"  this specification says nothing (why: reason)             *)
(* Sources: NANOISA.md (DIV by zero = 0, relative jumps count from the     *)
(* start of the instruction, ADD also concatenates strings), the opcode    *)
(* comments of isa.h, and where both are silent the code (marked inferred).*)
(***************************************************************************)
EXTENDS Int64, FiniteSets

TVoid == 0  TInt == 1  TU8 == 2  TFloat == 3  TBool == 4  TStr == 5  TBStr == 6  TArr == 7  TStruct == 8
TEnum == 9  TUnion == 10  TFn == 11  TTuple == 12  TMap == 13  TOpaque == 14
TAny == 99
Wild(t) == 100 + t
StrMax == 64
MaxGlobals == 4096
MaxFrames == 1024
\* VmResult (vm.h); the harness checks that the enum still has these values
ErrCallDepth == 3  ErrInvalidOpcode == 4  ErrType == 5  ErrBounds == 6  ErrAssert == 8  ErrUndefFn == 10  ErrNotImpl == 11  ErrDecode == 13

Val(t, n, s, h, o) == [t |-> t, n |-> n, s |-> s, h |-> h, o |-> o]
VoidV == Val(TVoid, I64Zero, <<>>, 0, 0)
IntV(n) == Val(TInt, n, <<>>, 0, 0)
BoolV(b) == Val(TBool, IF b THEN I64One ELSE I64Zero, <<>>, 0, 0)
U8V(k) == Val(TU8, <<0, 0, 0, k>>, <<>>, 0, 0)
EnumV(k) == Val(TEnum, I64FromInt(k), <<>>, 0, 0)
WildV(t) == Val(Wild(t), I64Zero, <<>>, 0, 0)
AnyV == Val(TAny, I64Zero, <<>>, 0, 0)
RefV(t, id) == Val(t, I64Zero, <<>>, 0, id)
\* a string whose bytes are known: if it is too long for the trace encoding only its length is prescribed (h = -1)
StrV(bytes) == IF Len(bytes) <= StrMax THEN Val(TStr, I64FromNat(Len(bytes)), bytes, 0, 0)
               ELSE Val(TStr, I64FromNat(Len(bytes)), <<>>, -1, 0)
StrOfLen(k) == Val(TStr, I64FromNat(k), <<>>, -1, 0)
IsStr(v) == v.t = TStr /\ v.o = 0                      \* a live string
StrLen(v) == v.n[3] * I64B + v.n[4]                    \* < 2^31
IsShort(v) == IsStr(v) /\ StrLen(v) <= StrMax
IsContainer(v) == v.t \in {TArr, TStruct, TUnion, TTuple, TMap, TFn} /\ v.o > 0

\* does the observed value o satisfy the prescribed value p?
VMatch(p, o) ==
   IF p.t = TAny THEN TRUE
   ELSE IF p.t >= 100 THEN o.t = p.t - 100
   ELSE IF p.t = TStr /\ p.h = -1 THEN o.t = TStr /\ o.n = p.n /\ o.o = 0 /\ (Len(p.s) = 0 \/ Len(o.s) = 0 \/ p.s = o.s)
   ELSE p = o
SeqMatch(ps, os) == Len(ps) = Len(os) /\ \A i \in 1..Len(ps) : VMatch(ps[i], os[i])

\* ---------------------------------------------------------------- results
Res(kind, S, code, tv, why) == [kind |-> kind, S |-> S, code |-> code, tv |-> tv, why |-> why]
Ok(S) == Res("ok", S, 0, <<>>, "")
TrapR(S, code) == Res("trap", S, code, <<>>, "")
Unspec(S, why) == Res("unspec", S, 0, <<>>, why)
\* pseudo values returned by the value-level operators below
TrapV(code) == Val(-1, <<0, 0, 0, code>>, <<>>, 0, 0)
UnspecReasons == <<"float or mixed arithmetic result", "element-wise array arithmetic", "operand is not a live object", "operand outside the modelled domain",
                   "string with a NUL byte", "long string">>
UnspecV(r) == Val(-2, <<0, 0, 0, r>>, <<>>, 0, 0)

\* ---------------------------------------------------------------- stack
Depth(S) == Len(S.stack)
Top(S) == S.stack[Len(S.stack)]
Peek(S, k) == S.stack[Len(S.stack) - k]
PopN(S, k) == [S EXCEPT !.stack = SubSeq(@, 1, Len(@) - k)]
Push(S, v) == [S EXCEPT !.stack = Append(@, v)]
Fr(S) == S.frames[Len(S.frames)]
\* operands live above the locals of the current frame; the code generator never pops below that
Floor(S) == IF Len(S.frames) = 0 THEN 0 ELSE Fr(S).base + Fr(S).nloc
CanPop(S, k) == Depth(S) - k >= Floor(S)
Adv(S, I) == [S EXCEPT !.ip = @ + I.len]
Voids(k) == [i \in 1..k |-> VoidV]

\* ------------------------------------------------------------ conversions
AsInt(v) == IF v.t = TEnum THEN IntV(v.n) ELSE v            \* "coerce enum to int for arithmetic"
ShortDiv10(a) ==      \* unsigned a div 10, a mod 10 on limbs
   LET q1 == a[1] \div 10                    r1 == a[1] % 10
       c2 == r1 * I64B + a[2]  q2 == c2 \div 10  r2 == c2 % 10
       c3 == r2 * I64B + a[3]  q3 == c3 \div 10  r3 == c3 % 10
       c4 == r3 * I64B + a[4]  q4 == c4 \div 10  r4 == c4 % 10
   IN <<<<q1, q2, q3, q4>>, r4>>
RECURSIVE U64Digits(_, _)
U64Digits(a, acc) == IF a = I64Zero THEN acc ELSE LET qr == ShortDiv10(a) IN U64Digits(qr[1], <<48 + qr[2]>> \o acc)
I64Dec(a) == IF a = I64Zero THEN <<48>>                                  \* printf("%lld")
             ELSE IF I64IsNeg(a) THEN <<45>> \o U64Digits(I64Neg(a), <<>>) ELSE U64Digits(a, <<>>)
BytesTrue == <<116, 114, 117, 101>>   BytesFalse == <<102, 97, 108, 115, 101>>
F64PosZero == I64Zero   F64NegZero == <<32768, 0, 0, 0>>
\* val_truthy
Truthy(v) ==
   CASE v.t = TVoid -> FALSE
     [] v.t \in {TInt, TU8, TBool, TEnum, TOpaque} -> v.n # I64Zero
     [] v.t = TFloat -> v.n \notin {F64PosZero, F64NegZero}             \* f64 != 0.0 (NaN is truthy)
     [] v.t = TFn /\ v.o = 0 -> v.n # I64Zero                              \* a bare function index, read as a pointer
     [] OTHER -> v.o # -2                                                  \* heap reference: non-null

\* --------------------------------------------------------------- strings
RECURSIVE BytesCmp(_, _, _)
BytesCmp(a, b, i) ==      \* memcmp on the common prefix, then the lengths (vmstring_compare)
   IF i > Len(a) /\ i > Len(b) THEN 0 ELSE IF i > Len(a) THEN -1 ELSE IF i > Len(b) THEN 1
   ELSE IF a[i] < b[i] THEN -1 ELSE IF a[i] > b[i] THEN 1 ELSE BytesCmp(a, b, i + 1)
HasNul(bs) == \E i \in 1..Len(bs) : bs[i] = 0
Contains(h, n) == Len(n) = 0 \/ (Len(n) <= Len(h) /\ \E i \in 0..(Len(h) - Len(n)) : SubSeq(h, i + 1, i + Len(n)) = n)
\* equality of two live strings: TRUE / FALSE / "?" (long strings with equal length and key)
StrEq3(a, b) ==
   IF StrLen(a) # StrLen(b) THEN "F"
   ELSE IF IsShort(a) THEN (IF a.s = b.s THEN "T" ELSE "F")
   ELSE IF a.h # b.h THEN "F" ELSE "?"
Bool3(x) == IF x = "T" THEN BoolV(TRUE) ELSE IF x = "F" THEN BoolV(FALSE) ELSE WildV(TBool)
Not3(x) == IF x = "T" THEN "F" ELSE IF x = "F" THEN "T" ELSE "?"
ConcatV(a, b) ==
   IF IsShort(a) /\ IsShort(b) THEN StrV(a.s \o b.s) ELSE StrOfLen(StrLen(a) + StrLen(b))

\* ------------------------------------------------------------ arithmetic
IsArrayArith(a, b, withStr) ==
   LET sc == IF withStr THEN {TInt, TFloat, TStr} ELSE {TInt, TFloat} IN
   (a.t = TArr /\ b.t = TArr) \/ (a.t = TArr /\ b.t \in sc) \/ (a.t \in sc /\ b.t = TArr)
NumMix(a, b) == {a.t, b.t} \subseteq {TInt, TFloat}
ArithV(op, a0, b0) ==
   LET a == AsInt(a0)  b == AsInt(b0) IN
   IF a.t = TInt /\ b.t = TInt THEN
      CASE op = "ADD" -> IntV(I64Add(a.n, b.n))
        [] op = "SUB" -> IntV(I64Sub(a.n, b.n))
        [] op = "MUL" -> IntV(I64Mul(a.n, b.n))
        [] op = "DIV" -> IntV(IF b.n = I64Zero THEN I64Zero ELSE I64DivT(a.n, b.n))      \* NANOISA.md: division by zero produces 0
        [] op = "MOD" -> IntV(IF b.n = I64Zero THEN I64Zero ELSE I64ModT(a.n, b.n))      \* inferred from the code: 0
   ELSE IF op = "MOD" THEN TrapV(ErrType)
   ELSE IF NumMix(a, b) THEN WildV(TFloat)
   ELSE IF op = "ADD" /\ a.t = TStr /\ b.t = TStr THEN (IF IsStr(a) /\ IsStr(b) THEN ConcatV(a, b) ELSE UnspecV(3))
   ELSE IF IsArrayArith(a, b, op = "ADD") THEN UnspecV(2)
   ELSE TrapV(ErrType)
NegV(a0) == LET a == AsInt(a0) IN
   IF a.t = TInt THEN IntV(I64Neg(a.n)) ELSE IF a.t = TFloat THEN WildV(TFloat) ELSE TrapV(ErrType)

\* val_equal
Eq3(a, b) ==
   IF {a.t, b.t} = {TEnum, TInt} THEN (IF a.n = b.n THEN "T" ELSE "F")
   ELSE IF {a.t, b.t} = {TInt, TFloat} THEN "?"
   ELSE IF a.t # b.t THEN "F"
   ELSE CASE a.t = TVoid -> "T"
          [] a.t \in {TInt, TEnum} -> IF a.n = b.n THEN "T" ELSE "F"
          [] a.t \in {TU8, TBool} -> IF a.n[4] = b.n[4] THEN "T" ELSE "F"
          [] a.t = TFloat -> "?"
          [] a.t = TStr -> IF a.o = -2 /\ b.o = -2 THEN "T" ELSE IF a.o = -2 \/ b.o = -2 THEN "F"
                           ELSE IF IsStr(a) /\ IsStr(b) THEN StrEq3(a, b) ELSE "?"
          [] OTHER -> IF a.o = -1 \/ b.o = -1 THEN "?" ELSE IF a.o = b.o /\ a.n = b.n THEN "T" ELSE "F"   \* pointer identity
\* val_compare as -1 / 0 / 1, or 2 = not modelled
Sign(x) == IF x < 0 THEN -1 ELSE IF x > 0 THEN 1 ELSE 0
Cmp(a, b) ==
   IF {a.t, b.t} = {TEnum, TInt} THEN (IF I64Lt(a.n, b.n) THEN -1 ELSE IF I64Lt(b.n, a.n) THEN 1 ELSE 0)
   ELSE IF {a.t, b.t} = {TInt, TFloat} THEN 2
   ELSE IF a.t # b.t THEN Sign(a.t - b.t)                                   \* inferred: different tags compare by tag number
   ELSE CASE a.t \in {TInt, TEnum} -> IF I64Lt(a.n, b.n) THEN -1 ELSE IF I64Lt(b.n, a.n) THEN 1 ELSE 0     \* an enum value is its integer (SPECIFICATION 3.4.2)
          [] a.t = TU8 -> Sign(a.n[4] - b.n[4])
          [] a.t = TFloat -> 2
          [] a.t = TBool -> Sign((IF a.n[4] # 0 THEN 1 ELSE 0) - (IF b.n[4] # 0 THEN 1 ELSE 0))
          [] a.t = TStr -> IF a.o = -2 \/ b.o = -2 \/ ~IsStr(a) \/ ~IsStr(b) THEN 2
                           ELSE IF IsShort(a) /\ IsShort(b) THEN BytesCmp(a.s, b.s, 1) ELSE 2
          [] OTHER -> 0                                                     \* inferred: values of other kinds are unordered
CmpV(op, a, b) ==
   LET c == Cmp(a, b) IN
   IF c = 2 THEN WildV(TBool)
   ELSE BoolV(CASE op = "LT" -> c < 0 [] op = "LE" -> c <= 0 [] op = "GT" -> c > 0 [] op = "GE" -> c >= 0)

\* an int operand used as an index / count: its value if it is an int in 0 .. 2^30, else -1
SmallNat(v) == IF v.t = TInt /\ v.n[1] = 0 /\ v.n[2] = 0 /\ v.n[3] < 16384 THEN v.n[3] * I64B + v.n[4] ELSE -1
IsNegInt(v) == v.t = TInt /\ I64IsNeg(v.n)

\* ------------------------------------------------------------- the heap
Obj(k, m0, m1, vs) == [k |-> k, m |-> <<m0, m1>>, v |-> vs]
Known(S, v, k) == v.t = k /\ v.o > 0 /\ v.o \in DOMAIN S.heap /\ S.heap[v.o].k = k
Alloc(S, id, obj) == [S EXCEPT !.heap = (id :> obj) @@ @]
TopN(S, k) == SubSeq(S.stack, Len(S.stack) - k + 1, Len(S.stack))
\* an instruction that builds a container of kind k from the n topmost values (stored in push order)
Build(S, I, E, k, m0, m1, n) ==
   IF ~CanPop(S, n) THEN Unspec(S, "pops below the operand region")
   ELSE IF E.newid <= 0 THEN Res("ok", Adv(Push(PopN(S, n), RefV(k, -3)), I), 0, <<>>, "")      \* exactly one new object must appear: -3 matches nothing
   ELSE Ok(Adv(Push(Alloc(PopN(S, n), E.newid, Obj(k, m0, m1, TopN(S, n))), RefV(k, E.newid)), I))
\* STRUCT_GET / TUPLE_GET / UNION_FIELD
FieldGet(S, I, k, idx) ==
   IF ~CanPop(S, 1) THEN Unspec(S, "pops below the operand region")
   ELSE LET c == Top(S) IN
        IF c.t # k \/ c.o = -2 THEN TrapR(S, ErrType)
        ELSE IF ~Known(S, c, k) THEN Unspec(S, "operand is not a live object")
        ELSE IF idx >= Len(S.heap[c.o].v) THEN TrapR(S, ErrBounds)
        ELSE Ok(Adv(Push(PopN(S, 1), S.heap[c.o].v[idx + 1]), I))

\* ----------------------------------------------------------- call / return
Enter(S, I, E, callee, clo) ==
   IF callee >= Len(E.fns) THEN TrapR(S, ErrUndefFn)
   ELSE IF Len(S.frames) >= MaxFrames THEN TrapR(S, ErrCallDepth)
   ELSE LET f == E.fns[callee + 1]  arity == f[1]  nloc == f[2] IN
        IF Depth(S) - arity < Floor(S) THEN Unspec(S, "fewer operands than parameters")
        ELSE Ok([S EXCEPT !.stack = @ \o Voids(IF nloc > arity THEN nloc - arity ELSE 0),      \* the arguments become locals 0 .. arity-1, in push order
                          !.frames = Append(@, [fn |-> callee, base |-> Depth(S) - arity, nloc |-> nloc, ret |-> S.ip + I.len, clo |-> clo]),
                          !.ip = f[3], !.fn = callee])
DoRet(S, I) ==
   IF Len(S.frames) = 0 THEN Unspec(S, "RET without a frame")
   ELSE LET f == Fr(S)
            hasres == Depth(S) > f.base + f.nloc
            res == IF hasres THEN Top(S) ELSE VoidV
            S1 == [S EXCEPT !.stack = Append(SubSeq(@, 1, f.base), res), !.frames = SubSeq(@, 1, Len(@) - 1)] IN
        IF Depth(S) < f.base THEN Unspec(S, "stack below the frame")
        ELSE IF Len(S.frames) = 1 THEN Res("done", Adv(S1, I), 0, <<>>, "")
        ELSE Ok([S1 EXCEPT !.ip = f.ret, !.fn = S.frames[Len(S.frames) - 1].fn])

\* ------------------------------------------------- generic shapes of a step
Un(S, I, r) ==        \* pop one, push r (r may be a pseudo value)
   IF r.t = -1 THEN TrapR(S, r.n[4]) ELSE IF r.t = -2 THEN Unspec(S, UnspecReasons[r.n[4]]) ELSE Ok(Adv(Push(PopN(S, 1), r), I))
Bin(S, I, r) ==
   IF r.t = -1 THEN TrapR(S, r.n[4]) ELSE IF r.t = -2 THEN Unspec(S, UnspecReasons[r.n[4]]) ELSE Ok(Adv(Push(PopN(S, 2), r), I))
Need(S, k, res) == IF CanPop(S, k) THEN res ELSE Unspec(S, "pops below the operand region")

\* ---------------------------------------------------------------- hash maps
KeyIdx(vs, key) ==       \* index i of the pair whose key equals `key`: 0 = none, -1 = cannot be decided here
   LET n == Len(vs) \div 2
       undec == \E i \in 1..n : vs[2 * i - 1].t # key.t \/ Eq3(vs[2 * i - 1], key) = "?"
       hit == {i \in 1..n : Eq3(vs[2 * i - 1], key) = "T"} IN
   IF key.t \notin {TInt, TStr, TBool, TEnum} \/ (key.t = TStr /\ ~IsStr(key)) \/ undec THEN -1
   ELSE IF hit = {} THEN 0 ELSE CHOOSE i \in hit : \A j \in hit : i <= j
MapOp(S, I, npop, newid) ==
   IF ~CanPop(S, npop) THEN Unspec(S, "pops below the operand region")
   ELSE LET m == Peek(S, npop - 1) IN
        IF m.t # TMap THEN TrapR(S, ErrType)
        ELSE IF ~Known(S, m, TMap) THEN Unspec(S, "operand is not a live object")
        ELSE LET vs == S.heap[m.o].v
                 n == Len(vs) \div 2
                 key == IF I.op = "HM_SET" THEN Peek(S, 1) ELSE Top(S)
                 i == IF npop >= 2 THEN KeyIdx(vs, key) ELSE 0
                 S1 == PopN(S, npop) IN
             IF i = -1 THEN Unspec(S, "key kind outside the modelled domain")
             ELSE CASE I.op = "HM_LEN" -> Ok(Adv(Push(S1, IntV(I64FromNat(n))), I))
                    [] I.op = "HM_GET" ->       \* absent key: the default of the map's value type ("" for strings, else 0; commit 85d94b8, docs: map_get)
                         Ok(Adv(Push(S1, IF i # 0 THEN vs[2 * i] ELSE IF S.heap[m.o].m[2] = TStr THEN StrV(<<>>) ELSE IntV(I64Zero)), I))
                    [] I.op = "HM_HAS" -> Ok(Adv(Push(S1, BoolV(i # 0)), I))
                    [] I.op = "HM_SET" -> Ok(Adv(Push([S1 EXCEPT !.heap[m.o].v = IF i = 0 THEN vs \o <<key, Top(S)>> ELSE [vs EXCEPT ![2 * i] = Top(S)]], m), I))
                    [] I.op = "HM_DELETE" -> Ok(Adv(Push([S1 EXCEPT !.heap[m.o].v = IF i = 0 THEN vs ELSE SubSeq(vs, 1, 2 * i - 2) \o SubSeq(vs, 2 * i + 1, Len(vs))], m), I))
                    [] I.op \in {"HM_KEYS", "HM_VALUES"} ->        \* a fresh array, in the order of the association list
                         LET off == IF I.op = "HM_KEYS" THEN 1 ELSE 0
                             ty == S.heap[m.o].m[IF I.op = "HM_KEYS" THEN 1 ELSE 2] IN
                         IF newid <= 0 THEN Ok(Adv(Push(S1, RefV(TArr, -3)), I))
                         ELSE Ok(Adv(Push(Alloc(S1, newid, Obj(TArr, ty, 0, [j \in 1..n |-> vs[2 * j - off]])), RefV(TArr, newid)), I))

Step(S, I, E) ==
   LET op == I.op  a == I.a IN
   CASE op \in {"NOP", "DEBUG_LINE", "GC_SCOPE_ENTER", "GC_SCOPE_EXIT"} -> Ok(Adv(S, I))
     \* ---- stack & constants
     [] op = "PUSH_I64" -> IF I.imm.t = TInt THEN Ok(Adv(Push(S, I.imm), I)) ELSE Unspec(S, "no immediate")
     [] op = "PUSH_F64" -> IF I.imm.t = TFloat THEN Ok(Adv(Push(S, I.imm), I)) ELSE Unspec(S, "no immediate")
     [] op = "PUSH_STR" -> IF I.imm.t = TStr THEN Ok(Adv(Push(S, I.imm), I)) ELSE Unspec(S, "no immediate")       \* the pool constant (absent index: "")
     [] op = "PUSH_BOOL" -> Ok(Adv(Push(S, BoolV(a[1] # 0)), I))
     [] op = "PUSH_VOID" -> Ok(Adv(Push(S, VoidV), I))
     [] op = "PUSH_U8" -> Ok(Adv(Push(S, U8V(a[1])), I))
     [] op = "DUP" -> Need(S, 1, Ok(Adv(Push(S, Top(S)), I)))
     [] op = "POP" -> Need(S, 1, Ok(Adv(PopN(S, 1), I)))
     [] op = "GC_RELEASE" -> Need(S, 1, Ok(Adv(PopN(S, 1), I)))
     [] op = "GC_RETAIN" -> Ok(Adv(S, I))
     [] op = "SWAP" -> Need(S, 2, Ok(Adv([S EXCEPT !.stack = SubSeq(@, 1, Len(@) - 2) \o <<Top(S), Peek(S, 1)>>], I)))
     [] op = "ROT3" -> Need(S, 3, Ok(Adv([S EXCEPT !.stack = SubSeq(@, 1, Len(@) - 3) \o <<Peek(S, 1), Top(S), Peek(S, 2)>>], I)))   \* x y z -> y z x
     \* ---- variables
     [] op = "LOAD_LOCAL" ->
          IF Len(S.frames) = 0 THEN Unspec(S, "no frame")
          ELSE IF Fr(S).base + a[1] >= Depth(S) THEN TrapR(S, ErrBounds)
          ELSE Ok(Adv(Push(S, S.stack[Fr(S).base + a[1] + 1]), I))
     [] op = "STORE_LOCAL" ->
          IF Len(S.frames) = 0 THEN Unspec(S, "no frame")
          ELSE IF Fr(S).base + a[1] >= Depth(S) THEN TrapR(S, ErrBounds)
          ELSE IF Fr(S).base + a[1] + 1 >= Depth(S) \/ ~CanPop(S, 1) THEN Unspec(S, "pops below the operand region")
          ELSE Ok(Adv([PopN(S, 1) EXCEPT !.stack[Fr(S).base + a[1] + 1] = Top(S)], I))
     [] op = "LOAD_GLOBAL" ->
          IF a[1] >= MaxGlobals THEN TrapR(S, ErrBounds)
          ELSE Ok(Adv(Push(S, IF a[1] < Len(S.globals) THEN S.globals[a[1] + 1] ELSE VoidV), I))      \* a global never stored is void
     [] op = "STORE_GLOBAL" ->
          IF a[1] >= MaxGlobals THEN TrapR(S, ErrBounds)
          ELSE Need(S, 1, LET g == IF a[1] < Len(S.globals) THEN S.globals ELSE S.globals \o Voids(a[1] + 1 - Len(S.globals)) IN
                          Ok(Adv([PopN(S, 1) EXCEPT !.globals = [g EXCEPT ![a[1] + 1] = Top(S)]], I)))
     [] op = "LOAD_UPVALUE" ->
          IF Len(S.frames) = 0 THEN Unspec(S, "no frame")
          ELSE LET c == Fr(S).clo IN
               IF c = 0 THEN Ok(Adv(Push(S, VoidV), I))
               ELSE IF c \notin DOMAIN S.heap THEN Unspec(S, "operand is not a live object")
               ELSE Ok(Adv(Push(S, IF a[2] < Len(S.heap[c].v) THEN S.heap[c].v[a[2] + 1] ELSE VoidV), I))
     [] op = "STORE_UPVALUE" ->
          IF Len(S.frames) = 0 THEN Unspec(S, "no frame")
          ELSE LET c == Fr(S).clo IN
               IF c # 0 /\ c \notin DOMAIN S.heap THEN Unspec(S, "operand is not a live object")
               ELSE Need(S, 1, IF c # 0 /\ a[2] < Len(S.heap[c].v) THEN Ok(Adv([PopN(S, 1) EXCEPT !.heap[c].v[a[2] + 1] = Top(S)], I))
                               ELSE Ok(Adv(PopN(S, 1), I)))
     \* ---- arithmetic, comparison, logic
     [] op \in {"ADD", "SUB", "MUL", "DIV", "MOD"} -> Need(S, 2, Bin(S, I, ArithV(op, Peek(S, 1), Top(S))))
     [] op = "NEG" -> Need(S, 1, Un(S, I, NegV(Top(S))))
     [] op = "EQ" -> Need(S, 2, Bin(S, I, Bool3(Eq3(Peek(S, 1), Top(S)))))
     [] op = "NE" -> Need(S, 2, Bin(S, I, Bool3(Not3(Eq3(Peek(S, 1), Top(S))))))
     [] op \in {"LT", "LE", "GT", "GE"} -> Need(S, 2, Bin(S, I, CmpV(op, Peek(S, 1), Top(S))))
     [] op = "AND" -> Need(S, 2, Bin(S, I, BoolV(Truthy(Peek(S, 1)) /\ Truthy(Top(S)))))
     [] op = "OR" -> Need(S, 2, Bin(S, I, BoolV(Truthy(Peek(S, 1)) \/ Truthy(Top(S)))))
     [] op = "NOT" -> Need(S, 1, Un(S, I, BoolV(~Truthy(Top(S)))))
     \* ---- control flow: offsets count from the first byte of the jump instruction
     [] op = "JMP" -> Ok([S EXCEPT !.ip = @ + a[1]])
     [] op = "JMP_TRUE" -> Need(S, 1, Ok([PopN(S, 1) EXCEPT !.ip = IF Truthy(Top(S)) THEN @ + a[1] ELSE @ + I.len]))
     [] op = "JMP_FALSE" -> Need(S, 1, Ok([PopN(S, 1) EXCEPT !.ip = IF ~Truthy(Top(S)) THEN @ + a[1] ELSE @ + I.len]))
     [] op = "MATCH_TAG" ->
          IF Depth(S) = 0 THEN Ok(Adv(S, I))
          ELSE LET u == Top(S) IN
               IF u.t # TUnion \/ u.o = -2 THEN Ok(Adv(S, I))
               ELSE IF ~Known(S, u, TUnion) THEN Unspec(S, "operand is not a live object")
               ELSE Ok([S EXCEPT !.ip = IF S.heap[u.o].m[2] = a[1] THEN @ + a[2] ELSE @ + I.len])
     [] op = "CALL" -> Enter(S, I, E, a[1], 0)
     [] op \in {"CALL_INDIRECT", "CLOSURE_CALL"} ->
          Need(S, 1, LET c == Top(S) IN
                     IF c.t # TFn \/ (op = "CLOSURE_CALL" /\ c.o = 0 /\ c.n = I64Zero) THEN TrapR(S, ErrType)
                     ELSE IF ~Known(S, c, TFn) THEN Unspec(S, "operand is not a live object")      \* a bare function index is read as a pointer by the code
                     ELSE Enter(PopN(S, 1), I, E, S.heap[c.o].m[1], c.o))
     [] op = "RET" -> DoRet(S, I)
     [] op = "CALL_EXTERN" ->
          IF a[1] >= Len(E.imps) THEN TrapR(S, ErrBounds)
          ELSE LET n == IF E.imps[a[1] + 1] > 16 THEN 16 ELSE E.imps[a[1] + 1] IN
               Need(S, n, Res("extern", Adv(PopN(S, n), I), 0, TopN(S, n), ""))
     \* ---- strings
     [] op = "STR_LEN" -> Need(S, 1, LET s == Top(S) IN Un(S, I, IF s.t # TStr THEN TrapV(ErrType) ELSE IF s.o = -2 THEN IntV(I64Zero)
                                                               ELSE IF ~IsStr(s) THEN UnspecV(3) ELSE IntV(s.n)))
     [] op = "STR_CONCAT" -> Need(S, 2, LET x == Peek(S, 1)  y == Top(S) IN
                                        Bin(S, I, IF x.t # TStr \/ y.t # TStr THEN TrapV(ErrType) ELSE IF ~IsStr(x) \/ ~IsStr(y) THEN UnspecV(3) ELSE ConcatV(x, y)))
     [] op = "STR_EQ" -> Need(S, 2, LET x == Peek(S, 1)  y == Top(S) IN
                                    Bin(S, I, IF x.t # TStr \/ y.t # TStr THEN TrapV(ErrType) ELSE IF ~IsStr(x) \/ ~IsStr(y) THEN UnspecV(3) ELSE Bool3(StrEq3(x, y))))
     [] op = "STR_CONTAINS" ->
          Need(S, 2, LET x == Peek(S, 1)  y == Top(S) IN
                     Bin(S, I, IF x.t # TStr \/ y.t # TStr THEN TrapV(ErrType) ELSE IF ~IsStr(x) \/ ~IsStr(y) THEN UnspecV(3)
                               ELSE IF StrLen(y) = 0 THEN BoolV(TRUE) ELSE IF StrLen(y) > StrLen(x) THEN BoolV(FALSE)
                               ELSE IF ~IsShort(x) \/ ~IsShort(y) THEN WildV(TBool)
                               ELSE IF HasNul(x.s) \/ HasNul(y.s) THEN UnspecV(5) ELSE BoolV(Contains(x.s, y.s))))
     [] op = "STR_CHAR_AT" ->       \* the byte at the index as an int, -1 outside the string (isa.h says "char as string"; code generator and language use the int)
          Need(S, 2, LET s == Peek(S, 1)  iv == Top(S)  i == IF iv.t = TInt THEN SmallNat(iv) ELSE 0 IN
                     Bin(S, I, IF s.t # TStr THEN TrapV(ErrType) ELSE IF ~IsStr(s) THEN UnspecV(3)
                               ELSE IF IsNegInt(iv) THEN IntV(I64FromInt(-1))
                               ELSE IF i < 0 THEN (IF iv.t = TInt THEN IntV(I64FromInt(-1)) ELSE UnspecV(4))      \* huge index
                               ELSE IF i >= StrLen(s) THEN IntV(I64FromInt(-1))
                               ELSE IF ~IsShort(s) THEN WildV(TInt) ELSE IF HasNul(s.s) THEN UnspecV(5) ELSE IntV(I64FromNat(s.s[i + 1]))))
     [] op = "STR_SUBSTR" ->        \* bytes start .. start+len-1 clipped to the string; empty when start is past the end
          Need(S, 3, LET s == Peek(S, 2)  st == IF Peek(S, 1).t = TInt THEN SmallNat(Peek(S, 1)) ELSE 0
                         ln == IF Top(S).t = TInt THEN SmallNat(Top(S)) ELSE 0
                         r == IF s.t # TStr THEN TrapV(ErrType) ELSE IF ~IsStr(s) THEN UnspecV(3) ELSE IF st < 0 \/ ln < 0 THEN UnspecV(4)
                              ELSE IF st >= StrLen(s) THEN StrV(<<>>)
                              ELSE LET e == IF st + ln > StrLen(s) THEN StrLen(s) ELSE st + ln IN
                                   IF IsShort(s) THEN StrV(SubSeq(s.s, st + 1, e)) ELSE StrOfLen(e - st) IN
                     IF r.t = -1 THEN TrapR(S, r.n[4]) ELSE IF r.t = -2 THEN Unspec(S, UnspecReasons[r.n[4]]) ELSE Ok(Adv(Push(PopN(S, 3), r), I)))
     [] op = "STR_FROM_INT" -> Need(S, 1, Un(S, I, StrV(I64Dec(IF Top(S).t = TInt THEN Top(S).n ELSE I64Zero))))
     [] op = "STR_FROM_FLOAT" -> Need(S, 1, Un(S, I, WildV(TStr)))
     \* ---- arrays
     [] op = "ARR_NEW" -> Build(S, I, E, TArr, a[1], 0, 0)
     [] op = "ARR_LITERAL" -> Build(S, I, E, TArr, a[1], 0, a[2])
     [] op = "ARR_PUSH" ->
          Need(S, 2, LET arr == Peek(S, 1) IN
                     IF arr.t # TArr THEN TrapR(S, ErrType) ELSE IF ~Known(S, arr, TArr) THEN Unspec(S, "operand is not a live object")
                     ELSE Ok(Adv(Push([PopN(S, 2) EXCEPT !.heap[arr.o].v = Append(@, Top(S))], arr), I)))
     [] op = "ARR_POP" ->
          Need(S, 1, LET arr == Top(S) IN
                     IF arr.t # TArr THEN TrapR(S, ErrType) ELSE IF ~Known(S, arr, TArr) THEN Unspec(S, "operand is not a live object")
                     ELSE LET vs == S.heap[arr.o].v IN
                          IF Len(vs) = 0 THEN TrapR(S, ErrBounds)
                          ELSE Ok(Adv(Push(Push([PopN(S, 1) EXCEPT !.heap[arr.o].v = SubSeq(vs, 1, Len(vs) - 1)], vs[Len(vs)]), arr), I)))
     [] op = "ARR_GET" ->
          Need(S, 2, LET arr == Peek(S, 1)  i == SmallNat(Top(S)) IN
                     IF arr.t # TArr THEN TrapR(S, ErrType) ELSE IF ~Known(S, arr, TArr) THEN Unspec(S, "operand is not a live object")
                     ELSE IF i < 0 \/ i >= Len(S.heap[arr.o].v) THEN TrapR(S, ErrBounds)            \* every index outside [0, length) stops the program
                     ELSE Ok(Adv(Push(PopN(S, 2), S.heap[arr.o].v[i + 1]), I)))
     [] op = "ARR_SET" ->
          Need(S, 3, LET arr == Peek(S, 2)  i == SmallNat(Peek(S, 1)) IN
                     IF arr.t # TArr THEN TrapR(S, ErrType) ELSE IF ~Known(S, arr, TArr) THEN Unspec(S, "operand is not a live object")
                     ELSE IF i < 0 \/ i >= Len(S.heap[arr.o].v) THEN TrapR(S, ErrBounds)
                     ELSE Ok(Adv(Push([PopN(S, 3) EXCEPT !.heap[arr.o].v[i + 1] = Top(S)], arr), I)))
     [] op = "ARR_LEN" ->
          Need(S, 1, LET arr == Top(S) IN
                     IF arr.t # TArr THEN TrapR(S, ErrType) ELSE IF ~Known(S, arr, TArr) THEN Unspec(S, "operand is not a live object")
                     ELSE Ok(Adv(Push(PopN(S, 1), IntV(I64FromNat(Len(S.heap[arr.o].v)))), I)))
     [] op = "ARR_SLICE" ->         \* elements start .. end-1, both clipped to the length; a fresh array
          Need(S, 3, LET arr == Peek(S, 2)  vs == S.heap[arr.o].v  n == Len(vs)
                         st0 == IF Peek(S, 1).t = TInt THEN SmallNat(Peek(S, 1)) ELSE 0
                         en0 == IF Top(S).t = TInt THEN SmallNat(Top(S)) ELSE n
                         st == IF st0 > n THEN n ELSE st0   en == IF en0 > n THEN n ELSE en0 IN
                     IF arr.t # TArr THEN TrapR(S, ErrType) ELSE IF ~Known(S, arr, TArr) THEN Unspec(S, "operand is not a live object")
                     ELSE IF st0 < 0 \/ en0 < 0 THEN Unspec(S, "operand outside the modelled domain")
                     ELSE IF E.newid <= 0 THEN Ok(Adv(Push(PopN(S, 3), RefV(TArr, -3)), I))
                     ELSE Ok(Adv(Push(Alloc(PopN(S, 3), E.newid, Obj(TArr, S.heap[arr.o].m[1], 0, IF en <= st THEN <<>> ELSE SubSeq(vs, st + 1, en))), RefV(TArr, E.newid)), I)))
     [] op = "ARR_REMOVE" ->        \* bounds-checked like ARR_GET / ARR_SET: every index outside [0, length) stops the program
          Need(S, 2, LET arr == Peek(S, 1)  i == IF Top(S).t = TInt THEN SmallNat(Top(S)) ELSE -1 IN
                     IF arr.t # TArr THEN TrapR(S, ErrType) ELSE IF ~Known(S, arr, TArr) THEN Unspec(S, "operand is not a live object")
                     ELSE LET vs == S.heap[arr.o].v IN
                          IF i < 0 \/ i >= Len(vs) THEN TrapR(S, ErrBounds)
                          ELSE Ok(Adv(Push([PopN(S, 2) EXCEPT !.heap[arr.o].v = SubSeq(vs, 1, i) \o SubSeq(vs, i + 2, Len(vs))], arr), I)))
     \* ---- structs, unions, enums, tuples
     [] op = "STRUCT_NEW" -> Build(S, I, E, TStruct, a[1], 0, 0)
     [] op = "STRUCT_LITERAL" -> Build(S, I, E, TStruct, a[1], 0, a[2])
     [] op = "STRUCT_GET" -> FieldGet(S, I, TStruct, a[1])
     [] op = "STRUCT_SET" ->
          Need(S, 2, LET sv == Peek(S, 1) IN
                     IF sv.t # TStruct \/ sv.o = -2 THEN TrapR(S, ErrType) ELSE IF ~Known(S, sv, TStruct) THEN Unspec(S, "operand is not a live object")
                     ELSE IF a[1] >= Len(S.heap[sv.o].v) THEN TrapR(S, ErrBounds)
                     ELSE Ok(Adv(Push([PopN(S, 2) EXCEPT !.heap[sv.o].v[a[1] + 1] = Top(S)], sv), I)))
     [] op = "UNION_CONSTRUCT" -> Build(S, I, E, TUnion, a[1], a[2], a[3])
     [] op = "UNION_TAG" ->
          Need(S, 1, LET u == Top(S) IN
                     IF u.t # TUnion \/ u.o = -2 THEN TrapR(S, ErrType) ELSE IF ~Known(S, u, TUnion) THEN Unspec(S, "operand is not a live object")
                     ELSE Ok(Adv(Push(PopN(S, 1), IntV(I64FromNat(S.heap[u.o].m[2]))), I)))
     [] op = "UNION_FIELD" -> FieldGet(S, I, TUnion, a[1])
     [] op = "ENUM_VAL" -> Ok(Adv(Push(S, EnumV(a[2])), I))
     [] op = "TUPLE_NEW" -> Build(S, I, E, TTuple, 0, 0, a[1])
     [] op = "TUPLE_GET" -> FieldGet(S, I, TTuple, a[1])
     \* ---- hash maps: heap[m].v is the association list <<k1, v1, k2, v2, ...>> (in the trace: in bucket order).  Keys are compared
     \* with val_equal; lookups are specified for keys of the kind of the keys already present (int, string, bool, enum), for which the
     \* hash function agrees with equality.  Where a new entry goes is not prescribed: maps are matched as sets of pairs (PairsMatch).
     [] op = "HM_NEW" -> Build(S, I, E, TMap, a[1], a[2], 0)
     [] op = "HM_LEN" -> MapOp(S, I, 1, 0)
     [] op = "HM_GET" -> MapOp(S, I, 2, 0)
     [] op = "HM_HAS" -> MapOp(S, I, 2, 0)
     [] op = "HM_DELETE" -> MapOp(S, I, 2, 0)
     [] op = "HM_SET" -> MapOp(S, I, 3, 0)
     [] op \in {"HM_KEYS", "HM_VALUES"} -> MapOp(S, I, 1, E.newid)
     \* ---- casts
     [] op = "CAST_INT" ->
          Need(S, 1, LET v == Top(S) IN
                     Un(S, I, CASE v.t = TInt -> v
                                [] v.t = TFloat -> WildV(TInt)
                                [] v.t = TBool -> IntV(IF v.n[4] # 0 THEN I64One ELSE I64Zero)
                                [] v.t = TU8 -> IntV(<<0, 0, 0, v.n[4]>>)
                                [] v.t = TEnum -> IF I64IsNeg(v.n) THEN UnspecV(4) ELSE IntV(v.n)
                                [] v.t = TStr -> WildV(TInt)                           \* strtoll
                                [] OTHER -> IntV(I64Zero)))
     [] op = "CAST_FLOAT" -> Need(S, 1, Un(S, I, IF Top(S).t = TFloat THEN Top(S) ELSE WildV(TFloat)))
     [] op = "CAST_BOOL" -> Need(S, 1, Un(S, I, BoolV(IF Top(S).t = TStr THEN Top(S).o # -2 /\ Top(S).n # I64Zero   \* STDLIB cast_bool: an empty string is false
                                                           ELSE Truthy(Top(S)))))
     [] op = "CAST_STRING" ->
          Need(S, 1, LET v == Top(S) IN
                     Un(S, I, CASE v.t = TStr -> v
                                [] v.t = TInt -> StrV(I64Dec(v.n))
                                [] v.t = TFloat -> WildV(TStr)
                                [] v.t = TBool -> StrV(IF v.n[4] # 0 THEN BytesTrue ELSE BytesFalse)
                                [] v.t \in {TEnum, TU8} -> StrV(I64Dec(v.n))          \* enum values are integers (3.4.2)
                                [] OTHER -> StrV(<<>>)))
     [] op = "TYPE_CHECK" -> Need(S, 1, Un(S, I, BoolV(Top(S).t = a[1])))
     \* ---- closures
     [] op = "CLOSURE_NEW" -> Build(S, I, E, TFn, a[1], 0, a[2])
     \* ---- I/O: the popped value travels to the host
     [] op \in {"PRINT", "PRINTLN"} -> Need(S, 1, Res("print", Adv(PopN(S, 1), I), 0, <<Top(S)>>, ""))
     [] op = "ASSERT" -> Need(S, 1, Res("assert", Adv(PopN(S, 1), I), 0, <<Top(S)>>, ""))
     [] op = "HALT" -> Res("halt", Adv(S, I), 0, <<>>, "")
     [] op = "OPAQUE_NULL" -> Ok(Adv(Push(S, Val(TOpaque, I64Zero, <<>>, 0, 0)), I))
     [] op = "OPAQUE_VALID" -> Need(S, 1, Un(S, I, BoolV(Top(S).t = TOpaque /\ Top(S).n # I64Zero)))
     [] op = "?" -> TrapR(S, ErrDecode)
     \* CALL_MODULE and anything new
     [] OTHER -> Unspec(S, "opcode not specified")

\* the containers an instruction can create or modify: the new one, those referenced by its (at most three) topmost operands, the
\* closure of the current frame.  Everything else in the heap must be left alone (the trace check compares those and every container
\* the VM was seen to change).
Touched(S, E) ==
   {E.newid} \cup {S.stack[i].o : i \in {j \in (Len(S.stack) - 2)..Len(S.stack) : j >= 1}}
             \cup (IF Len(S.frames) = 0 THEN {} ELSE {S.frames[Len(S.frames)].clo})

Specified == {"NOP", "DEBUG_LINE", "GC_SCOPE_ENTER", "GC_SCOPE_EXIT", "PUSH_I64", "PUSH_F64", "PUSH_STR", "PUSH_BOOL", "PUSH_VOID", "PUSH_U8", "DUP", "POP",
   "GC_RELEASE", "GC_RETAIN", "SWAP", "ROT3", "LOAD_LOCAL", "STORE_LOCAL", "LOAD_GLOBAL", "STORE_GLOBAL", "LOAD_UPVALUE", "STORE_UPVALUE", "ADD", "SUB", "MUL", "DIV", "MOD",
   "NEG", "EQ", "NE", "LT", "LE", "GT", "GE", "AND", "OR", "NOT", "JMP", "JMP_TRUE", "JMP_FALSE", "MATCH_TAG", "CALL", "CALL_INDIRECT", "CLOSURE_CALL", "RET", "CALL_EXTERN",
   "STR_LEN", "STR_CONCAT", "STR_EQ", "STR_CONTAINS", "STR_CHAR_AT", "STR_SUBSTR", "STR_FROM_INT", "STR_FROM_FLOAT", "ARR_NEW", "ARR_LITERAL", "ARR_PUSH", "ARR_POP",
   "ARR_GET", "ARR_SET", "ARR_LEN", "ARR_SLICE", "ARR_REMOVE", "STRUCT_NEW", "STRUCT_LITERAL", "STRUCT_GET", "STRUCT_SET", "UNION_CONSTRUCT", "UNION_TAG", "UNION_FIELD",
   "ENUM_VAL", "TUPLE_NEW", "TUPLE_GET", "HM_NEW", "HM_LEN", "HM_GET", "HM_HAS", "HM_SET", "HM_DELETE", "HM_KEYS", "HM_VALUES", "CAST_INT", "CAST_FLOAT", "CAST_BOOL", "CAST_STRING", "TYPE_CHECK", "CLOSURE_NEW", "PRINT", "PRINTLN",
   "ASSERT", "HALT", "OPAQUE_NULL", "OPAQUE_VALID"}
Unspecified == {"CALL_MODULE"}

\* ------------------------------------------------------- the host's part
\* vm_call_function: the callee's frame is set up by the host (arguments, if any, are the first locals)
HostCall(S, E, callee) ==
   IF callee >= Len(E.fns) THEN Unspec(S, "no such function")
   ELSE LET f == E.fns[callee + 1] IN
        Ok([S EXCEPT !.stack = @ \o [i \in 1..f[2] |-> IF i <= f[1] THEN AnyV ELSE VoidV],
                     !.frames = Append(@, [fn |-> callee, base |-> Depth(S), nloc |-> f[2], ret |-> S.ip, clo |-> 0]),
                     !.ip = f[3], !.fn = callee])
EmptyState == [stack |-> <<>>, frames |-> <<>>, globals |-> <<>>, heap |-> <<>>, ip |-> 0, fn |-> 0]
====
