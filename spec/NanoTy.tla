---- MODULE NanoTy ----
(* Types of the static rules (NanoType.tla): records [k, n, a], compatibility, lookup helpers. *)
EXTENDS Integers, Sequences, FiniteSets, TLC

Ty(k, n, a) == [k |-> k, n |-> n, a |-> a]
TFloat == Ty("float", "", <<>>)
TInt == Ty("int", "", <<>>)    TBool == Ty("bool", "", <<>>)   TStr == Ty("str", "", <<>>)   TVoid == Ty("void", "", <<>>)
TArr(t) == Ty("arr", "", <<t>>)
TAny == Ty("any", "", <<>>)                \* type of an empty array literal's elements
TMap(k, v) == Ty("map", "", <<k, v>>)      \* HashMap<K,V>; (map_new) has type TMap(TAny, TAny) until an annotation fixes it
MapKeyOk(t) == t = TInt \/ t = TStr
Err(rule) == Ty("err", rule, <<>>)
IsErr(t) == t.k = "err"

RECURSIVE FindLastT(_, _, _)
FindLastT(seq, name, k) == IF k = 0 THEN 0 ELSE IF seq[k].n = name THEN k ELSE FindLastT(seq, name, k - 1)
FindT(seq, name) == FindLastT(seq, name, Len(seq))
RECURSIVE IndexOfT(_, _, _)
IndexOfT(seq, x, k) == IF k > Len(seq) THEN 0 ELSE IF seq[k] = x THEN k ELSE IndexOfT(seq, x, k + 1)

\* type compatibility: identical, or an empty array literal against any array type
RECURSIVE Compat(_, _)
Compat(want, got) ==
   \/ want = got
   \/ want.k = "arr" /\ got.k = "arr" /\ (got.a[1].k = "any" \/ Compat(want.a[1], got.a[1]))
   \/ want.k = "map" /\ got = TMap(TAny, TAny)
   \/ want.k = "union" /\ got.k = "variant" /\ got.a[1] = want.n          \* a constructed variant is a value of its union
   \/ (want.k = "enum" /\ got.k = "int")                                 \* 3.4.2: enum constants are integers
   \/ (want.k = "int" /\ got.k = "enum")

FnType(f) == Ty("fn", "", f.ptyS \o <<f.retS>>)            \* parameters then result
\* "Union.Variant" lookup: <<union index, variant index>> or <<0, 0>>
RECURSIVE FindUVT(_, _, _, _)
FindUVT(us, full, ui, vi) ==
   IF ui > Len(us) THEN <<0, 0>>
   ELSE IF vi > Len(us[ui].variants) THEN FindUVT(us, full, ui + 1, 1)
   ELSE IF (us[ui].n \o "." \o us[ui].variants[vi].n) = full THEN <<ui, vi>> ELSE FindUVT(us, full, ui, vi + 1)
RECURSIVE FindEVT(_, _, _, _)
FindEVT(es, full, ei, vi) ==
   IF ei > Len(es) THEN <<0, 0>>
   ELSE IF vi > Len(es[ei].variants) THEN FindEVT(es, full, ei + 1, 1)
   ELSE IF (es[ei].n \o "." \o es[ei].variants[vi].n) = full THEN <<ei, vi>> ELSE FindEVT(es, full, ei, vi + 1)

====
