SPECIFICATION Spec
INVARIANT CursorTypeOK
PROPERTY Progress
PROPERTY Variant
CONSTANTS
  Mode = "cursor"
  MaxLen = 8
  Alphabet = {"(", ")", "op", "else"}
  Dev = {}
  Fuel = 0
  MaxMuts = 0
