---- MODULE NanoSemOps ----
(* C02: every binary and unary operator of the core language on every ordered pair of boundary   *)
(* operands.  TLC evaluates NanoSem's operator semantics, checks the algebraic laws below on the  *)
(* whole table and prints one record per case; the harness replays the table on each engine.      *)
EXTENDS NanoSem, Json
Boundary == <<
   <<0, 0, 0, 0>>,
   <<0, 0, 0, 1>>,
   <<65535, 65535, 65535, 65535>>,
   <<0, 0, 0, 2>>,
   <<65535, 65535, 65535, 65534>>,
   <<0, 0, 0, 7>>,
   <<65535, 65535, 65535, 65529>>,
   <<0, 0, 0, 10>>,
   <<65535, 65535, 65535, 65526>>,
   <<0, 0, 0, 255>>,
   <<0, 0, 0, 256>>,
   <<0, 0, 0, 65535>>,
   <<0, 0, 1, 0>>,
   <<0, 0, 32767, 65535>>,
   <<0, 0, 32768, 0>>,
   <<65535, 65535, 32768, 0>>,
   <<0, 0, 65535, 65535>>,
   <<0, 1, 0, 0>>,
   <<0, 1, 0, 1>>,
   <<65535, 65534, 65535, 65535>>,
   <<16384, 0, 0, 0>>,
   <<49152, 0, 0, 0>>,
   <<32767, 65535, 65535, 65535>>,
   <<32768, 0, 0, 0>>,
   <<32768, 0, 0, 1>>,
   <<0, 0, 46340, 62260>>,
   <<65535, 65535, 19195, 3276>>
>>
NB == Len(Boundary)
BinOpNames == <<"+", "-", "*", "/", "%", "==", "!=", "<", "<=", ">", ">=">>
UnOpNames == <<"-", "abs">>
C0 == Ctx([funcs |-> <<>>, structs |-> <<>>, enums |-> <<>>, unions |-> <<>>, globals |-> <<>>, shadows |-> <<>>, externs |-> <<>>], {}, "spec", FALSE)
CCoq == [C0 EXCEPT !.mode = "coq"]
VARIABLES op, ai, bi, phase
vars == <<op, ai, bi, phase>>
Init == /\ op \in 1..(Len(BinOpNames) + Len(UnOpNames)) /\ ai \in 1..NB
        /\ bi \in (IF op <= Len(BinOpNames) THEN 1..NB ELSE {1}) /\ phase = "todo"
St == NewState(1000)
ResBin(C, o, a, b) == BinApply(C, BinOpNames[o], VInt(a), VInt(b), St)
ResUn(o, a) == IF UnOpNames[o] = "-" THEN RV(VInt(I64Neg(a)), St) ELSE Builtin(C0, "abs", <<VInt(a)>>, St)
Rec(o, a, b) ==
   IF o <= Len(BinOpNames)
   THEN LET r == ResBin(C0, o, a, b) c == ResBin(CCoq, o, a, b) IN
        [op |-> BinOpNames[o], a |-> a, b |-> b, status |-> r.st.status, t |-> r.v.t, v |-> r.v.i,
         coq_status |-> c.st.status, coq_v |-> c.v.i]
   ELSE LET r == ResUn(o - Len(BinOpNames), a) IN
        [op |-> "un" \o UnOpNames[o - Len(BinOpNames)], a |-> a, b |-> a, status |-> r.st.status, t |-> r.v.t, v |-> r.v.i,
         coq_status |-> r.st.status, coq_v |-> r.v.i]
Next == /\ phase = "todo" /\ phase' = "done" /\ UNCHANGED <<op, ai, bi>>
        /\ PrintT("@@J " \o ToJson(Rec(op, Boundary[ai], Boundary[bi])))
Spec == Init /\ [][Next]_vars
\* ---- laws of 64-bit two's-complement arithmetic, checked on every pair ----
A == Boundary[ai]
B == Boundary[bi]
Laws == (op = 1 /\ phase = "todo") =>      \* the laws do not depend on op: evaluate them once per pair
   /\ I64Add(A, B) = I64Add(B, A)
   /\ I64Mul(A, B) = I64Mul(B, A)
   /\ I64Sub(A, B) = I64Add(A, I64Neg(B))
   /\ I64Sub(I64Add(A, B), B) = A
   /\ I64Neg(I64Neg(A)) = A
   /\ (B # I64Zero) => I64Add(I64Mul(I64DivT(A, B), B), I64ModT(A, B)) = A          \* truncating division
   /\ (B # I64Zero) => I64Add(I64Mul(I64DivF(A, B), B), I64ModF(A, B)) = A          \* floor division (Coq)
   /\ (B # I64Zero /\ I64ModT(A, B) # I64Zero) => (I64IsNeg(I64ModT(A, B)) = I64IsNeg(A))
   /\ (B # I64Zero /\ I64ModF(A, B) # I64Zero) => (I64IsNeg(I64ModF(A, B)) = I64IsNeg(B))
   /\ I64Lt(A, B) = ~I64Le(B, A)
   /\ (I64Lt(A, B) \/ I64Lt(B, A) \/ A = B)
   /\ (I64Le(A, B) /\ I64Le(B, A)) => A = B
====
