---- MODULE NanoSem ----
(***************************************************************************)
(* Reference semantics of the nanolang core language as a big-step         *)
(* evaluator: docs/SPECIFICATION.md sections 4-8 (strict left-to-right     *)
(* evaluation, short-circuit and/or, static scoping, block shadowing,      *)
(* immutability is a static matter, 64-bit wrapping integers).  Points on  *)
(* which the documents are silent are tagged  INFERRED  (see DESIGN 5.1a). *)
(* Deviation switches (the set C.dev) reproduce what one engine of the     *)
(* unchanged tree really does where it leaves the specification; they are  *)
(* used only to attribute an observed disagreement to a *listed* finding.  *)
(*                                                                         *)
(* Programs are abstract syntax trees with uniformly shaped nodes:         *)
(*   expression [k, s, i, a, f]   statement [k, s, a, b, c, arms]          *)
(* Values are uniformly shaped records [t, i, s, f, r]; integers are four  *)
(* 16-bit limbs (module Int64) because TLC integers are 32-bit.            *)
(***************************************************************************)
EXTENDS Integers, Sequences, FiniteSets, TLC, Int64, NanoVal, NanoLib

CONSTANTS MaxDepth     \* documented call-depth limit (extracted: VM_MAX_FRAMES)

\* ---------------------------------------------------------------- state
\* env: lexical bindings of the running function, innermost last; glob: globals in declaration order
\* store: arrays (reference semantics, INFERRED: all engines alias); out: observable events
NewState(fuel) == [env |-> <<>>, glob |-> <<>>, store |-> <<>>, out |-> <<>>, status |-> "ok",
                   fuel |-> fuel, depth |-> 0, fails |-> 0]
Bad(st) == st.status # "ok"
Fault(st, why) == IF Bad(st) THEN st ELSE [st EXCEPT !.status = why]
Tick(st) == IF st.fuel <= 0 THEN Fault(st, "fuel") ELSE [st EXCEPT !.fuel = @ - 1]
RV(v, st) == [v |-> v, st |-> st]
RS(sig, v, st) == [sig |-> sig, v |-> v, st |-> st]

RECURSIVE FindLast(_, _, _)
FindLast(seq, name, k) == IF k = 0 THEN 0 ELSE IF seq[k].n = name THEN k ELSE FindLast(seq, name, k - 1)
FindName(seq, name) == FindLast(seq, name, Len(seq))
RECURSIVE IndexOf(_, _, _)
IndexOf(seq, x, k) == IF k > Len(seq) THEN 0 ELSE IF seq[k] = x THEN k ELSE IndexOf(seq, x, k + 1)

HasDev(C, d) == d \in C.dev
\* the NanoVM code generator (fixed) and the tree-walking evaluator (still) keep block-local names alive after the block
NoBlockScope(C) == HasDev(C, "VM_NO_BLOCK_SCOPE") \/ HasDev(C, "INTERP_NO_BLOCK_SCOPE")

\* INTERP_STATIC_ARRAYS: in the tree-walking evaluator an array made by a literal is a static array (the value is marked
\* "lit"); array_push extends only dynamic arrays: on an empty literal array it answers a new dynamic array and leaves the
\* literal untouched, on a non-empty literal array it prints an error and answers void; array_pop of a literal array
\* answers void as well.  Everywhere else (and without the switch) arrays are one kind of value.
LitArr(C, ref) == IF HasDev(C, "INTERP_STATIC_ARRAYS") THEN [VArr(ref) EXCEPT !.s = "lit"] ELSE VArr(ref)

\* String literals: the abstract syntax carries the characters the literal denotes; in source text a tab, a newline, a double
\* quote and a backslash are written \t \n \" \\ (INFERRED: docs/STDLIB.md file_append example and the repository's examples use
\* "\n" for a line break; native code gets exactly that).  RAW_STRING_ESCAPES: the NanoVM code generator and the evaluator take
\* the source spelling as the content: the two characters backslash, t instead of a tab, and so on.
RECURSIVE RawEsc(_, _, _)
RawEsc(x, k, acc) ==
   IF k > Len(x) THEN acc
   ELSE LET c == SubSeq(x, k, k) IN
        RawEsc(x, k + 1, acc \o (CASE c = "\t" -> "\\t" [] c = "\n" -> "\\n" [] c = "\"" -> "\\\"" [] c = "\\" -> "\\\\" [] OTHER -> c))

\* -------------------------------------------------------- program tables
FuncIdx(C, name)   == FindName(C.p.funcs, name)
ExternIdx(C, name) == FindName(C.p.externs, name)
\* the external C functions the corpus declares (libc): their meaning is fixed by the C standard
ExternApply(name, vs, st) ==
   CASE name = "labs" /\ Len(vs) = 1 /\ vs[1].t = "int" -> RV(VInt(IF I64IsNeg(vs[1].i) THEN I64Neg(vs[1].i) ELSE vs[1].i), st)
     [] name = "toupper" /\ Len(vs) = 1 /\ vs[1].t = "int" /\ vs[1].i[1] = 0 /\ vs[1].i[2] = 0 /\ vs[1].i[3] = 0 /\ vs[1].i[4] <= 255 ->   \* defined for unsigned char values
           RV(VInt(IF vs[1].i[1] = 0 /\ vs[1].i[2] = 0 /\ vs[1].i[3] = 0 /\ vs[1].i[4] >= 97 /\ vs[1].i[4] <= 122
                   THEN <<0, 0, 0, vs[1].i[4] - 32>> ELSE vs[1].i), st)
     [] OTHER -> RV(VVoid, Fault(st, "unspecified:extern"))
StructIdx(C, name) == FindName(C.p.structs, name)
\* "Union.Variant" -> field names of that variant (<<>> if unknown, flagged by UVKnown)
RECURSIVE FindUV(_, _, _, _)
FindUV(us, full, ui, vi) ==
   IF ui > Len(us) THEN <<0, 0>>
   ELSE IF vi > Len(us[ui].variants) THEN FindUV(us, full, ui + 1, 1)
   ELSE IF (us[ui].n \o "." \o us[ui].variants[vi].n) = full THEN <<ui, vi>>
   ELSE FindUV(us, full, ui, vi + 1)
UVFields(C, full) == LET p == FindUV(C.p.unions, full, 1, 1) IN
                     IF p[1] = 0 THEN <<>> ELSE C.p.unions[p[1]].variants[p[2]].fields
UVKnown(C, full) == FindUV(C.p.unions, full, 1, 1)[1] # 0
RECURSIVE FindEV(_, _, _, _)
FindEV(es, full, ei, vi) ==
   IF ei > Len(es) THEN <<0, 0>>
   ELSE IF vi > Len(es[ei].variants) THEN FindEV(es, full, ei + 1, 1)
   ELSE IF (es[ei].n \o "." \o es[ei].variants[vi].n) = full THEN <<ei, vi>>
   ELSE FindEV(es, full, ei, vi + 1)

\* ------------------------------------------------------------ arithmetic
\* 64-bit two's complement, wrapping (SPECIFICATION 3.1 / property C02); / and % truncate toward zero
\* (INFERRED from all three engines; the Coq model uses floor: Mode "coq").
ArithOp(C, op, a, b) ==   \* a, b limbs; result [ok, v]
   CASE op = "+" -> [ok |-> "ok", v |-> I64Add(a, b)]
     [] op = "-" -> [ok |-> "ok", v |-> I64Sub(a, b)]
     [] op = "*" -> [ok |-> "ok", v |-> I64Mul(a, b)]
     [] op = "/" -> IF b = I64Zero THEN [ok |-> "fault:div0", v |-> I64Zero]
                    ELSE IF a = I64MinI /\ b = I64Neg(I64One) /\ HasDev(C, "DIV_MIN_NEG1_TRAPS")
                         THEN [ok |-> "fault:sigfpe", v |-> I64Zero]
                    ELSE [ok |-> "ok", v |-> IF C.mode = "coq" THEN I64DivF(a, b) ELSE I64DivT(a, b)]
     [] op = "%" -> IF b = I64Zero THEN [ok |-> "fault:div0", v |-> I64Zero]
                    ELSE IF a = I64MinI /\ b = I64Neg(I64One) /\ HasDev(C, "DIV_MIN_NEG1_TRAPS")
                         THEN [ok |-> "fault:sigfpe", v |-> I64Zero]
                    ELSE [ok |-> "ok", v |-> IF C.mode = "coq" THEN I64ModF(a, b) ELSE I64ModT(a, b)]
CmpOp(op, a, b) ==
   CASE op = "<" -> I64Lt(a, b) [] op = "<=" -> I64Le(a, b)
     [] op = ">" -> I64Lt(b, a) [] op = ">=" -> I64Le(b, a)
ArithOps == {"+", "-", "*", "/", "%"}
CmpOps == {"<", "<=", ">", ">="}


BinApply(C, op, x, y, st) ==
   IF op \in ArithOps THEN
        IF x.t = "int" /\ y.t = "int" THEN
             LET r == ArithOp(C, op, x.i, y.i) IN
             IF r.ok = "ok" THEN RV(VInt(r.v), st) ELSE RV(VVoid, Fault(st, r.ok))
        ELSE IF op = "+" /\ x.t = "str" /\ y.t = "str" THEN RV(VStr(x.s \o y.s), st)
        ELSE IF x.t = "float" /\ y.t = "float" THEN RV(VVoid, Fault(st, "unspecified:float-arith"))   \* no IEEE arithmetic in this specification
        ELSE RV(VVoid, Fault(st, "stuck:type"))
   ELSE IF op \in CmpOps THEN
        IF (x.t = "int" /\ y.t = "int") \/ (x.t = "float" /\ y.t = "float") THEN RV(VBool(CmpOp(op, x.i, y.i)), st)
        ELSE RV(VVoid, Fault(st, "stuck:type"))
   ELSE IF op \in {"==", "!="} THEN
        IF x.t = y.t /\ x.t \in {"int", "bool", "str", "float"}
        THEN RV(VBool(IF op = "==" THEN ValEq(x, y) ELSE ~ValEq(x, y)), st)
        ELSE RV(VVoid, Fault(st, "stuck:type"))
   ELSE RV(VVoid, Fault(st, "stuck:op"))

Emit(st, nl, v) == [st EXCEPT !.out = Append(@, [nl |-> nl, t |-> v.t, i |-> v.i, s |-> v.s])]
Printable(v) == v.t \in {"int", "bool", "str"}

\* ----------------------------------------------------------- evaluation
RECURSIVE Eval(_, _, _), EvalList(_, _, _, _, _), EvalListRTL(_, _, _, _, _), CallFn(_, _, _, _),
          Builtin(_, _, _, _), ExecSeq(_, _, _, _), Exec(_, _, _), ExecWhile(_, _, _), ExecFor(_, _, _, _, _),
          ExecForIn(_, _, _, _, _), ExecForInSnap(_, _, _, _, _, _)

Builtins == {"println", "print", "array_length", "at", "array_set", "array_push", "array_pop",
             "str_length", "int_to_string", "abs", "min", "max", "str_concat", "str_equals",
             "str_substring", "str_contains", "char_at", "string_from_char", "string_to_int",
             "map_new", "map_put", "map_get", "map_has", "map_size", "map_length", "map_remove"} \cup LibBuiltins \cup {"filter", "map", "reduce"}
\* arguments strictly left to right (SPECIFICATION 4.9)
EvalList(C, es, k, acc, st) ==
   IF k > Len(es) \/ Bad(st) THEN [vs |-> acc, st |-> st]
   ELSE LET r == Eval(C, es[k], st) IN EvalList(C, es, k + 1, Append(acc, r.v), r.st)
\* deviation NATIVE_ARGS_RTL: the C compiler evaluates call arguments right to left
EvalListRTL(C, es, k, acc, st) ==
   IF k < 1 \/ Bad(st) THEN [vs |-> acc, st |-> st]
   ELSE LET r == Eval(C, es[k], st) IN EvalListRTL(C, es, k - 1, <<r.v>> \o acc, r.st)

LookupVar(C, name, st) ==       \* static scoping: locals of the running function, then globals, then functions
   LET k == FindName(st.env, name) IN
   IF k # 0 THEN [ok |-> TRUE, v |-> st.env[k].v]
   ELSE LET g == FindName(st.glob, name) IN
        IF g # 0 THEN [ok |-> TRUE, v |-> st.glob[g].v]
        ELSE IF FuncIdx(C, name) # 0 THEN [ok |-> TRUE, v |-> VFn(name)]
        ELSE [ok |-> FALSE, v |-> VVoid]

Eval(C, e, st0) ==
   IF Bad(st0) THEN RV(VVoid, st0) ELSE
   LET st == Tick(st0) IN
   IF Bad(st) THEN RV(VVoid, st) ELSE
   CASE e.k = "int"  -> RV(VInt(e.i), st)
     [] e.k = "float" -> RV(VFloat(e.i), st)
     [] e.k = "bool" -> RV(VBool(e.s = "true"), st)
     [] e.k = "str"  -> RV(VStr(IF HasDev(C, "RAW_STRING_ESCAPES") THEN RawEsc(e.s, 1, "") ELSE e.s), st)
     [] e.k = "var"  -> LET l == LookupVar(C, e.s, st) IN
                        IF l.ok THEN RV(l.v, st) ELSE RV(VVoid, Fault(st, "stuck:unbound"))
     [] e.k = "enum" -> LET p == FindEV(C.p.enums, e.s, 1, 1) IN
                        IF p[1] = 0 THEN RV(VVoid, Fault(st, "stuck:variant"))
                        ELSE RV(VInt(C.p.enums[p[1]].variants[p[2]].v), st)
     [] e.k = "un"   -> LET r == Eval(C, e.a[1], st) IN
                        IF Bad(r.st) THEN r
                        ELSE IF e.s = "-" /\ r.v.t = "int" THEN RV(VInt(I64Neg(r.v.i)), r.st)
                        ELSE IF e.s = "not" /\ r.v.t = "bool" THEN RV(VBool(~IsTrue(r.v)), r.st)
                        ELSE RV(VVoid, Fault(r.st, "stuck:type"))
     [] e.k = "bin"  ->
          IF e.s \in {"and", "or"} THEN
               LET l == Eval(C, e.a[1], st) IN
               IF Bad(l.st) THEN l
               ELSE IF l.v.t # "bool" THEN RV(VVoid, Fault(l.st, "stuck:type"))
               ELSE IF HasDev(C, "VM_EAGER_ANDOR") THEN           \* codegen.c emits both operands, then OP_AND/OP_OR
                    LET r == Eval(C, e.a[2], l.st) IN
                    IF Bad(r.st) THEN r
                    ELSE IF r.v.t # "bool" THEN RV(VVoid, Fault(r.st, "stuck:type"))
                    ELSE RV(VBool(IF e.s = "and" THEN IsTrue(l.v) /\ IsTrue(r.v) ELSE IsTrue(l.v) \/ IsTrue(r.v)), r.st)
               ELSE IF e.s = "and" /\ ~IsTrue(l.v) THEN RV(VBool(FALSE), l.st)     \* 8.5 short circuit
               ELSE IF e.s = "or" /\ IsTrue(l.v) THEN RV(VBool(TRUE), l.st)
               ELSE LET r == Eval(C, e.a[2], l.st) IN
                    IF Bad(r.st) THEN r
                    ELSE IF r.v.t # "bool" THEN RV(VVoid, Fault(r.st, "stuck:type"))
                    ELSE RV(VBool(IsTrue(r.v)), r.st)
          ELSE IF HasDev(C, "NATIVE_VAR_OPERAND_READ_LATE") /\ e.a[1].k = "var" THEN
               \* the C compiler reads a plain variable operand after it has evaluated the other operand
               LET r == Eval(C, e.a[2], st) IN
               IF Bad(r.st) THEN r
               ELSE LET l == Eval(C, e.a[1], r.st) IN
                    IF Bad(l.st) THEN l ELSE BinApply(C, e.s, l.v, r.v, l.st)
          ELSE LET l == Eval(C, e.a[1], st) IN                     \* left operand first (4.9)
               IF Bad(l.st) THEN l
               ELSE LET r == Eval(C, e.a[2], l.st) IN
                    IF Bad(r.st) THEN r ELSE BinApply(C, e.s, l.v, r.v, r.st)
     [] e.k = "ifx"  -> LET c == Eval(C, e.a[1], st) IN
                        IF Bad(c.st) THEN c
                        ELSE IF c.v.t # "bool" THEN RV(VVoid, Fault(c.st, "stuck:type"))
                        ELSE IF IsTrue(c.v) THEN Eval(C, e.a[2], c.st) ELSE Eval(C, e.a[3], c.st)
     [] e.k = "field" -> LET r == Eval(C, e.a[1], st) IN
                        IF Bad(r.st) THEN r
                        ELSE IF r.v.t = "struct" THEN
                             LET si == StructIdx(C, r.v.s)
                                 fi == IF si = 0 THEN 0 ELSE IndexOf(C.p.structs[si].fields, e.s, 1) IN
                             IF fi = 0 THEN RV(VVoid, Fault(r.st, "stuck:field")) ELSE RV(r.v.f[fi], r.st)
                        ELSE IF r.v.t = "union" THEN
                             LET fi == IndexOf(UVFields(C, r.v.s), e.s, 1) IN
                             IF fi = 0 THEN RV(VVoid, Fault(r.st, "stuck:field")) ELSE RV(r.v.f[fi], r.st)
                        ELSE RV(VVoid, Fault(r.st, "stuck:type"))
     [] e.k = "tidx" -> LET r == Eval(C, e.a[1], st) IN
                        IF Bad(r.st) THEN r
                        ELSE IF r.v.t # "tuple" THEN RV(VVoid, Fault(r.st, "stuck:type"))
                        ELSE IF e.i[4] + 1 > Len(r.v.f) THEN RV(VVoid, Fault(r.st, "stuck:field"))
                        ELSE RV(r.v.f[e.i[4] + 1], r.st)
     [] e.k = "slit" -> LET si == StructIdx(C, e.s) IN              \* fields evaluated in source order, stored in definition order
                        IF si = 0 THEN RV(VVoid, Fault(st, "stuck:struct"))
                        ELSE LET r == EvalList(C, e.a, 1, <<>>, st)
                                 defs == C.p.structs[si].fields IN
                             IF Bad(r.st) THEN RV(VVoid, r.st)
                             ELSE IF Len(defs) # Len(e.f) \/ \E d \in 1..Len(defs) : IndexOf(e.f, defs[d], 1) = 0
                                  THEN RV(VVoid, Fault(r.st, "stuck:field"))
                             ELSE RV(VStruct(e.s, [d \in 1..Len(defs) |-> r.vs[IndexOf(e.f, defs[d], 1)]]), r.st)
     [] e.k = "ulit" -> IF ~UVKnown(C, e.s) THEN RV(VVoid, Fault(st, "stuck:variant"))
                        ELSE LET r == EvalList(C, e.a, 1, <<>>, st)
                                 defs == UVFields(C, e.s) IN
                             IF Bad(r.st) THEN RV(VVoid, r.st)
                             ELSE IF Len(defs) # Len(e.f) \/ \E d \in 1..Len(defs) : IndexOf(e.f, defs[d], 1) = 0
                                  THEN RV(VVoid, Fault(r.st, "stuck:field"))
                             ELSE RV(VUnion(e.s, [d \in 1..Len(defs) |-> r.vs[IndexOf(e.f, defs[d], 1)]]), r.st)
     [] e.k = "tlit" -> LET r == EvalList(C, e.a, 1, <<>>, st) IN
                        IF Bad(r.st) THEN RV(VVoid, r.st) ELSE RV(VTuple(r.vs), r.st)
     [] e.k = "alit" /\ HasDev(C, "INTERP_NO_NESTED_ARRAYS") /\ Len(e.a) > 0 /\ e.a[1].k = "alit" ->
                        \* eval.c has no arrays of arrays: `Unsupported array element type`, the literal yields void
                        LET r == EvalList(C, e.a, 1, <<>>, st) IN RV(VVoid, r.st)
     [] e.k = "alit" /\ HasDev(C, "INTERP_ARRAY_LIT_FIRST_TWICE") /\ Len(e.a) > 0 ->
                        \* eval.c evaluates the first element once to find the element type and then every element
                        LET r0 == Eval(C, e.a[1], st)
                            r == EvalList(C, e.a, 1, <<>>, r0.st) IN
                        IF Bad(r.st) THEN RV(VVoid, r.st)
                        ELSE RV(LitArr(C, Len(r.st.store) + 1), [r.st EXCEPT !.store = Append(@, r.vs)])
     [] e.k = "alit" -> LET r == IF HasDev(C, "NATIVE_ARGS_RTL") THEN EvalListRTL(C, e.a, Len(e.a), <<>>, st)
                                 ELSE EvalList(C, e.a, 1, <<>>, st) IN
                        IF Bad(r.st) THEN RV(VVoid, r.st)
                        ELSE RV(LitArr(C, Len(r.st.store) + 1), [r.st EXCEPT !.store = Append(@, r.vs)])
     [] e.k = "call" -> CallFn(C, e.s, e.a, st)
     [] OTHER -> RV(VVoid, Fault(st, "stuck:expr"))

CallFn(C, name, args, st) ==
   \* CALL_PREFERS_TOPLEVEL_FUNCTION: all three engines resolve the callee of (f x) among the top-level functions first, so a
   \* parameter or local of function type named like a top-level function is never called (8.1 says the innermost binder wins)
   LET l == IF HasDev(C, "CALL_PREFERS_TOPLEVEL_FUNCTION") /\ FuncIdx(C, name) # 0 THEN [ok |-> TRUE, v |-> VFn(name)] ELSE LookupVar(C, name, st)
       target == IF l.ok /\ l.v.t = "fn" THEN l.v.s ELSE name
       fi == FuncIdx(C, target) IN
   IF l.ok /\ l.v.t # "fn" THEN RV(VVoid, Fault(st, "stuck:notfn"))
   ELSE IF fi = 0 /\ ExternIdx(C, name) # 0 THEN
        LET r == EvalList(C, args, 1, <<>>, st) IN
        IF Bad(r.st) THEN RV(VVoid, r.st) ELSE ExternApply(name, r.vs, r.st)
   ELSE IF fi = 0 THEN
        IF name \in Builtins THEN
             LET r == IF HasDev(C, "NATIVE_ARGS_RTL") THEN EvalListRTL(C, args, Len(args), <<>>, st)   \* builtins are C calls too
                      ELSE EvalList(C, args, 1, <<>>, st) IN
             IF Bad(r.st) THEN RV(VVoid, r.st) ELSE Builtin(C, name, r.vs, r.st)
        ELSE RV(VVoid, Fault(st, "stuck:unbound"))
   ELSE LET fn == C.p.funcs[fi]
            r == IF HasDev(C, "NATIVE_ARGS_RTL") THEN EvalListRTL(C, args, Len(args), <<>>, st)
                 ELSE EvalList(C, args, 1, <<>>, st) IN
        IF Bad(r.st) THEN RV(VVoid, r.st)
        ELSE IF Len(r.vs) # Len(fn.params) THEN RV(VVoid, Fault(r.st, "stuck:arity"))
        ELSE IF r.st.depth + 1 >= MaxDepth THEN RV(VVoid, Fault(r.st, "fault:depth"))
        ELSE LET params == [k \in 1..Len(fn.params) |-> [n |-> fn.params[k], v |-> r.vs[k]]]
                 \* 8.1 static scoping: the callee starts from its parameters only.  INTERP_DYNAMIC_SCOPE: the
                 \* tree-walking evaluator keeps one symbol stack, so the caller's locals stay visible in the callee.
                 inner == [r.st EXCEPT !.env = IF HasDev(C, "INTERP_DYNAMIC_SCOPE") THEN r.st.env \o params ELSE params,
                                       !.depth = @ + 1]
                 b == ExecSeq(C, fn.body, 1, inner)
                 back == [b.st EXCEPT !.env = r.st.env, !.depth = r.st.depth] IN
             IF Bad(b.st) THEN RV(VVoid, back)
             ELSE IF b.sig = "r" THEN RV(b.v, back)
             ELSE IF fn.ret = "void" THEN RV(VVoid, back)
             ELSE RV(VVoid, Fault(back, "stuck:noreturn"))

\* ==== begin: higher-order library functions (STDLIB "Array Advanced Operations": filter; "Higher-Order Functions": map, reduce) ====
\* They call back into the program, so they live here and not in NanoLib.tla.
\*   filter(arr, pred) "a new array with elements that match the predicate"       (filter [1,2,3,4,5,6] is_even) = [2,4,6]
\*   map(arr, f)       "transform each element using the provided function"       (map [1,2,3,4] square) = [1,4,9,16]
\*   reduce(arr, init, f) "reduce an array to a single value", f(acc, x)          (reduce [1,2,3,4] 0 add) = 10
\* The elements are visited once each, in index order (INFERRED: all three engines; it is observable when f prints);
\* the result of filter / map is a new array, the source is unchanged.  A callback that changes the source array while
\* it is being traversed: unspecified.
HofBuiltins == {"filter", "map", "reduce"}
\* the call of a function value on argument *values*: CallFn after the arguments have been evaluated
ApplyFn(C, fv, vals, st) ==
   LET fi == IF fv.t = "fn" THEN FuncIdx(C, fv.s) ELSE 0 IN
   IF fi = 0 THEN RV(VVoid, Fault(st, "stuck:notfn"))
   ELSE LET fn == C.p.funcs[fi] IN
        IF Len(vals) # Len(fn.params) THEN RV(VVoid, Fault(st, "stuck:arity"))
        ELSE IF st.depth + 1 >= MaxDepth THEN RV(VVoid, Fault(st, "fault:depth"))
        ELSE LET params == [k \in 1..Len(fn.params) |-> [n |-> fn.params[k], v |-> vals[k]]]
                 inner == [st EXCEPT !.env = IF HasDev(C, "INTERP_DYNAMIC_SCOPE") THEN st.env \o params ELSE params, !.depth = @ + 1]
                 b == ExecSeq(C, fn.body, 1, inner)
                 back == [b.st EXCEPT !.env = st.env, !.depth = st.depth] IN
             IF Bad(b.st) THEN RV(VVoid, back)
             ELSE IF b.sig = "r" THEN RV(b.v, back)
             ELSE IF fn.ret = "void" THEN RV(VVoid, back)
             ELSE RV(VVoid, Fault(back, "stuck:noreturn"))
RECURSIVE HofLoop(_, _, _, _, _, _, _)
\* src: the elements at the time of the call; acc: the results so far (filter, map) or <<accumulator>> (reduce)
HofLoop(C, name, vs, src, k, acc, st0) ==
   LET st == Tick(st0)
       f == vs[Len(vs)] IN
   IF Bad(st) THEN RV(VVoid, st)
   ELSE IF st.store[vs[1].r] # src THEN RV(VVoid, Fault(st, "unspecified:hof-source-changed"))
   ELSE IF k > Len(src) THEN
        (IF name = "reduce" THEN RV(acc[1], st)
         ELSE RV(VArr(Len(st.store) + 1), [st EXCEPT !.store = Append(@, acc)]))
   ELSE LET r == ApplyFn(C, f, IF name = "reduce" THEN <<acc[1], src[k]>> ELSE <<src[k]>>, st) IN
        IF Bad(r.st) THEN RV(VVoid, r.st)
        ELSE IF name = "filter" THEN
             (IF r.v.t # "bool" THEN RV(VVoid, Fault(r.st, "stuck:type"))
              ELSE HofLoop(C, name, vs, src, k + 1, IF IsTrue(r.v) THEN Append(acc, src[k]) ELSE acc, r.st))
        ELSE IF name = "map" THEN HofLoop(C, name, vs, src, k + 1, Append(acc, r.v), r.st)
        ELSE HofLoop(C, name, vs, src, k + 1, <<r.v>>, r.st)
Hof(C, name, vs, st) ==
   IF Len(vs) # (IF name = "reduce" THEN 3 ELSE 2) THEN RV(VVoid, Fault(st, "stuck:arity"))
   ELSE IF vs[1].t # "arr" \/ vs[Len(vs)].t # "fn" THEN RV(VVoid, Fault(st, "stuck:type"))
   ELSE HofLoop(C, name, vs, st.store[vs[1].r], 1, IF name = "reduce" THEN <<vs[2]>> ELSE <<>>, st)
\* ==== end: higher-order library functions ====

ArrOf(st, v) == st.store[v.r]
Builtin(C, name, vs, st) ==
   LET n == Len(vs) IN
   CASE name \in {"println", "print"} ->
            IF n # 1 THEN RV(VVoid, Fault(st, "stuck:print"))          \* any value can be printed; the text of composite
                                                                      \* values is not specified (event type = the value's kind)
            ELSE RV(VVoid, Emit(st, IF name = "println" THEN 1 ELSE 0, vs[1]))
     [] name = "array_length" ->
            IF n # 1 \/ vs[1].t # "arr" THEN RV(VVoid, Fault(st, "stuck:type"))
            ELSE RV(VInt(I64FromNat(Len(ArrOf(st, vs[1])))), st)
     [] name = "at" ->
            IF n # 2 \/ vs[1].t # "arr" \/ vs[2].t # "int" THEN RV(VVoid, Fault(st, "stuck:type"))
            ELSE LET a == ArrOf(st, vs[1]) ix == vs[2].i IN
                 \* ARRAY_SAFETY.md: always bounds checked; any index outside [0, length) is a run-time fault
                 IF I64IsNeg(ix) \/ ~I64IsSmall(ix) \/ I64ToInt(ix) >= Len(a)
                 THEN RV(VVoid, Fault(st, "fault:bounds"))
                 ELSE RV(a[I64ToInt(ix) + 1], st)
     [] name = "array_set" ->
            IF n # 3 \/ vs[1].t # "arr" \/ vs[2].t # "int" THEN RV(VVoid, Fault(st, "stuck:type"))
            \* INTERP_STATIC_ARRAYS, the other way round: eval.c's array_set accepts only static arrays; on a dynamic array (one that
            \* array_push made) it prints an error and changes nothing
            ELSE IF HasDev(C, "INTERP_STATIC_ARRAYS") /\ vs[1].s # "lit" THEN RV(VVoid, st)
            ELSE LET a == ArrOf(st, vs[1]) ix == vs[2].i IN
                 IF I64IsNeg(ix) \/ ~I64IsSmall(ix) \/ I64ToInt(ix) >= Len(a)
                 THEN RV(VVoid, Fault(st, "fault:bounds"))
                 ELSE RV(VVoid, [st EXCEPT !.store[vs[1].r][I64ToInt(ix) + 1] = vs[3]])
     [] name = "array_push" ->      \* INFERRED: pushes in place and returns the same array (aliases see it) on all engines
            IF n # 2 \/ vs[1].t # "arr" THEN RV(VVoid, Fault(st, "stuck:type"))
            ELSE IF vs[1].s = "lit" /\ Len(ArrOf(st, vs[1])) = 0 THEN RV(VArr(Len(st.store) + 1), [st EXCEPT !.store = Append(@, <<vs[2]>>)])
            ELSE IF vs[1].s = "lit" THEN RV(VVoid, st)
            ELSE RV(vs[1], [st EXCEPT !.store[vs[1].r] = Append(@, vs[2])])
     [] name = "array_pop" ->
            IF n # 1 \/ vs[1].t # "arr" THEN RV(VVoid, Fault(st, "stuck:type"))
            ELSE IF vs[1].s = "lit" THEN RV(VVoid, st)
            ELSE LET a == ArrOf(st, vs[1]) IN
                 IF Len(a) = 0 THEN RV(VVoid, Fault(st, "fault:bounds"))
                 ELSE RV(a[Len(a)], [st EXCEPT !.store[vs[1].r] = SubSeq(a, 1, Len(a) - 1)])
     [] name = "str_length" ->
            IF n # 1 \/ vs[1].t # "str" THEN RV(VVoid, Fault(st, "stuck:type"))
            ELSE RV(VInt(I64FromNat(Len(vs[1].s))), st)
     [] name = "str_concat" ->
            IF n # 2 \/ vs[1].t # "str" \/ vs[2].t # "str" THEN RV(VVoid, Fault(st, "stuck:type"))
            ELSE RV(VStr(vs[1].s \o vs[2].s), st)
     [] name = "str_equals" ->
            IF n # 2 \/ vs[1].t # "str" \/ vs[2].t # "str" THEN RV(VVoid, Fault(st, "stuck:type"))
            ELSE RV(VBool(vs[1].s = vs[2].s), st)
     [] name = "str_substring" ->       \* (s, start, len): clamped to the string (INFERRED from both backends); negative arguments unspecified
            IF n # 3 \/ vs[1].t # "str" \/ vs[2].t # "int" \/ vs[3].t # "int" THEN RV(VVoid, Fault(st, "stuck:type"))
            ELSE IF I64IsNeg(vs[2].i) \/ I64IsNeg(vs[3].i) \/ ~I64IsSmall(vs[2].i) \/ ~I64IsSmall(vs[3].i) THEN RV(VVoid, Fault(st, "unspecified:substring"))
            ELSE LET a == I64ToInt(vs[2].i)  l == I64ToInt(vs[3].i)  L == Len(vs[1].s) IN
                 \* STDLIB str_substring: "I return an empty string if start is out of bounds".  INTERP_SUBSTRING_OOB_VOID: the
                 \* evaluator prints `start index out of bounds` and answers the void value instead (eval_string.c)
                 IF a >= L /\ ~(a = L /\ l = 0) /\ HasDev(C, "INTERP_SUBSTRING_OOB_VOID") THEN RV(VVoid, st)
                 ELSE RV(VStr(IF a >= L THEN "" ELSE SubSeq(vs[1].s, a + 1, IF a + l > L THEN L ELSE a + l)), st)
     [] name = "str_contains" ->
            IF n # 2 \/ vs[1].t # "str" \/ vs[2].t # "str" THEN RV(VVoid, Fault(st, "stuck:type"))
            ELSE RV(VBool(Contains(vs[1].s, vs[2].s)), st)
     [] name = "char_at" ->
            IF n # 2 \/ vs[1].t # "str" \/ vs[2].t # "int" THEN RV(VVoid, Fault(st, "stuck:type"))
            ELSE IF I64IsNeg(vs[2].i) \/ ~I64IsSmall(vs[2].i) \/ I64ToInt(vs[2].i) >= Len(vs[1].s) THEN RV(VVoid, Fault(st, "unspecified:char_at"))
            ELSE RV(VInt(I64FromNat(CharCode(SubSeq(vs[1].s, I64ToInt(vs[2].i) + 1, I64ToInt(vs[2].i) + 1)))), st)
     [] name = "string_from_char" ->
            IF n # 1 \/ vs[1].t # "int" THEN RV(VVoid, Fault(st, "stuck:type"))
            ELSE IF ~I64IsSmall(vs[1].i) \/ I64ToInt(vs[1].i) < 32 \/ I64ToInt(vs[1].i) > 126 THEN RV(VVoid, Fault(st, "unspecified:char"))
            ELSE RV(VStr(SubSeq(Ascii, I64ToInt(vs[1].i) - 31, I64ToInt(vs[1].i) - 31)), st)
     [] name = "string_to_int" ->
            IF n # 1 \/ vs[1].t # "str" THEN RV(VVoid, Fault(st, "stuck:type"))
            ELSE LET x == vs[1].s
                     neg == Len(x) > 1 /\ SubSeq(x, 1, 1) = "-"
                     d == IF neg THEN SubSeq(x, 2, Len(x)) ELSE x IN
                 IF ~IsDigitStr(d) \/ Len(d) > 18 THEN RV(VVoid, Fault(st, "unspecified:string_to_int"))
                 ELSE RV(VInt(IF neg THEN I64Neg(ParseU(d, 1, I64Zero)) ELSE ParseU(d, 1, I64Zero)), st)
     [] name = "int_to_string" ->
            IF n # 1 \/ vs[1].t # "int" THEN RV(VVoid, Fault(st, "stuck:type"))
            ELSE RV(VStr(Dec(vs[1].i)), st)
     [] name = "abs" ->
            IF n # 1 \/ vs[1].t # "int" THEN RV(VVoid, Fault(st, "stuck:type"))
            ELSE RV(VInt(IF I64IsNeg(vs[1].i) THEN I64Neg(vs[1].i) ELSE vs[1].i), st)
     [] name \in {"min", "max"} ->
            IF n # 2 \/ vs[1].t # "int" \/ vs[2].t # "int" THEN RV(VVoid, Fault(st, "stuck:type"))
            ELSE LET lt == I64Lt(vs[1].i, vs[2].i) IN
                 IF name = "min" /\ HasDev(C, "VM_MIN_WRONG") THEN RV(VInt(IF lt THEN vs[2].i ELSE vs[1].i), st)
                 ELSE RV(VInt(IF (name = "min") = lt THEN vs[1].i ELSE vs[2].i), st)
     [] name = "map_new" ->
            IF n # 0 THEN RV(VVoid, Fault(st, "stuck:arity"))
            ELSE RV(VMap(Len(st.store) + 1, ""), [st EXCEPT !.store = Append(@, <<>>)])
     [] name = "map_put" ->             \* insert or update; aliases see it (reference semantics, as for arrays)
            IF n # 3 \/ vs[1].t # "map" \/ vs[2].t \notin {"int", "str"} THEN RV(VVoid, Fault(st, "stuck:type"))
            ELSE LET es == ArrOf(st, vs[1])
                     hits == {j \in 1..Len(es) : ValEq(es[j].f[1], vs[2])}
                     ent == VTuple(<<vs[2], vs[3]>>) IN
                 RV(VVoid, [st EXCEPT !.store[vs[1].r] = IF hits = {} THEN Append(es, ent)
                                                          ELSE [es EXCEPT ![CHOOSE j \in hits : TRUE] = ent]])
     [] name = "map_get" ->             \* STDLIB: the value, or the default of the value type (0 or "") if the key is missing
            IF n # 2 \/ vs[1].t # "map" \/ vs[2].t \notin {"int", "str"} THEN RV(VVoid, Fault(st, "stuck:type"))
            ELSE LET es == ArrOf(st, vs[1])
                     hits == {j \in 1..Len(es) : ValEq(es[j].f[1], vs[2])} IN
                 IF hits # {} THEN RV(es[CHOOSE j \in hits : TRUE].f[2], st)
                 ELSE IF vs[1].s = "int" THEN RV(VInt(I64Zero), st)
                 ELSE IF vs[1].s = "str" THEN RV(VStr(""), st)
                 ELSE RV(VVoid, Fault(st, "unspecified:map-value-type"))
     [] name = "map_has" ->
            IF n # 2 \/ vs[1].t # "map" \/ vs[2].t \notin {"int", "str"} THEN RV(VVoid, Fault(st, "stuck:type"))
            ELSE RV(VBool(\E j \in 1..Len(ArrOf(st, vs[1])) : ValEq(ArrOf(st, vs[1])[j].f[1], vs[2])), st)
     [] name \in {"map_size", "map_length"} ->
            IF n # 1 \/ vs[1].t # "map" THEN RV(VVoid, Fault(st, "stuck:type"))
            ELSE RV(VInt(I64FromNat(Len(ArrOf(st, vs[1])))), st)
     [] name = "map_remove" ->          \* removes the entry if present
            IF n # 2 \/ vs[1].t # "map" \/ vs[2].t \notin {"int", "str"} THEN RV(VVoid, Fault(st, "stuck:type"))
            ELSE LET es == ArrOf(st, vs[1])
                     keep == {j \in 1..Len(es) : ~ValEq(es[j].f[1], vs[2])} IN
                 RV(VVoid, [st EXCEPT !.store[vs[1].r] = SelectSeq(es, LAMBDA x : ~ValEq(x.f[1], vs[2]))])
     [] name \in HofBuiltins -> Hof(C, name, vs, st)      \* higher-order library functions (block above)
     [] name = "array_remove_at" /\ n >= 1 /\ vs[1].t = "arr" /\ vs[1].s = "lit" -> RV(VVoid, st)      \* INTERP_STATIC_ARRAYS: refused, void, nothing removed
     [] name = "array_new" /\ HasDev(C, "INTERP_STATIC_ARRAYS") ->                                     \* INTERP_STATIC_ARRAYS: array_new makes a static array
            LET r == LibApply(name, vs, st.store) IN
            IF r.ok = "ok" THEN RV([r.v EXCEPT !.s = "lit"], [st EXCEPT !.store = r.store]) ELSE RV(VVoid, Fault(st, r.ok))
     [] name = "array_slice" /\ n >= 1 /\ vs[1].t = "arr" /\ vs[1].s = "lit" ->                       \* INTERP_STATIC_ARRAYS: the slice of a static array is static
            LET r == LibApply(name, vs, st.store) IN
            IF r.ok = "ok" THEN RV([r.v EXCEPT !.s = "lit"], [st EXCEPT !.store = r.store]) ELSE RV(VVoid, Fault(st, r.ok))
     [] name \in LibBuiltins ->        \* the standard library (NanoLib.tla): functions of the argument values and the store
            LET r == LibApply(name, vs, st.store) IN
            IF r.ok = "ok" THEN RV(r.v, [st EXCEPT !.store = r.store]) ELSE RV(VVoid, Fault(st, r.ok))
     [] OTHER -> RV(VVoid, Fault(st, "stuck:builtin"))

\* a block opens a scope: bindings made inside disappear at its end (8.2)
ExecScoped(C, stmts, st) ==
   LET n == Len(st.env)
       r == ExecSeq(C, stmts, 1, st) IN
   IF NoBlockScope(C) THEN r          \* codegen.c keeps the inner name visible after the block
   ELSE [r EXCEPT !.st.env = SubSeq(r.st.env, 1, n)]

ExecSeq(C, stmts, k, st) ==
   IF k > Len(stmts) \/ Bad(st) THEN RS("n", VVoid, st)
   ELSE LET r == Exec(C, stmts[k], st) IN
        IF r.sig # "n" \/ Bad(r.st) THEN r ELSE ExecSeq(C, stmts, k + 1, r.st)

SetVar(st, name, v) ==
   LET k == FindName(st.env, name) IN
   IF k # 0 THEN [st EXCEPT !.env[k].v = v]
   ELSE LET g == FindName(st.glob, name) IN
        IF g # 0 THEN [st EXCEPT !.glob[g].v = v] ELSE Fault(st, "stuck:unbound")

Exec(C, s, st0) ==
   IF Bad(st0) THEN RS("n", VVoid, st0) ELSE
   LET st == Tick(st0) IN
   IF Bad(st) THEN RS("n", VVoid, st) ELSE
   CASE s.k = "let" -> LET r == Eval(C, s.a[1], st) IN
                       IF Bad(r.st) THEN RS("n", VVoid, r.st)
                       ELSE LET v == IF r.v.t = "map" /\ r.v.s = "" THEN [r.v EXCEPT !.s = MapValTy(s.t)] ELSE r.v IN   \* the annotation fixes a new map's value type
                            RS("n", VVoid, [r.st EXCEPT !.env = Append(@, [n |-> s.s, v |-> v])])
     [] s.k = "set" -> LET r == Eval(C, s.a[1], st) IN
                       IF Bad(r.st) THEN RS("n", VVoid, r.st) ELSE RS("n", VVoid, SetVar(r.st, s.s, r.v))
     [] s.k = "expr" -> LET r == Eval(C, s.a[1], st) IN RS("n", VVoid, r.st)
     [] s.k = "ret" -> IF Len(s.a) = 0 THEN RS("r", VVoid, st)
                       ELSE LET r == Eval(C, s.a[1], st) IN RS(IF Bad(r.st) THEN "n" ELSE "r", r.v, r.st)
     [] s.k = "break" -> RS("b", VVoid, st)
     [] s.k = "continue" -> RS("c", VVoid, st)
     [] s.k = "assert" ->
            LET r == Eval(C, s.a[1], st) IN
            IF Bad(r.st) THEN RS("n", VVoid, r.st)
            ELSE IF r.v.t # "bool" THEN RS("n", VVoid, Fault(r.st, "stuck:type"))
            ELSE IF IsTrue(r.v) THEN RS("n", VVoid, r.st)
            ELSE IF C.shadow THEN RS("n", VVoid, [r.st EXCEPT !.fails = @ + 1])   \* 7.4: recorded, the test goes on
            ELSE RS("n", VVoid, Fault(r.st, "fault:assert"))
     [] s.k = "if" ->
            LET c == Eval(C, s.a[1], st) IN
            IF Bad(c.st) THEN RS("n", VVoid, c.st)
            ELSE IF c.v.t # "bool" THEN RS("n", VVoid, Fault(c.st, "stuck:type"))
            ELSE IF IsTrue(c.v) THEN ExecScoped(C, s.b, c.st) ELSE ExecScoped(C, s.c, c.st)
     [] s.k \in {"block", "unsafe"} -> ExecScoped(C, s.b, st)
     [] s.k = "while" -> ExecWhile(C, s, st)
     [] s.k = "for" ->       \* for i in (range lo hi): bounds evaluated once, left to right
            LET lo == Eval(C, s.a[1], st) IN
            IF Bad(lo.st) THEN RS("n", VVoid, lo.st) ELSE
            LET hi == Eval(C, s.a[2], lo.st) IN
            IF Bad(hi.st) THEN RS("n", VVoid, hi.st)
            ELSE IF lo.v.t # "int" \/ hi.v.t # "int" THEN RS("n", VVoid, Fault(hi.st, "stuck:type"))
            ELSE LET n == Len(hi.st.env)
                     r == ExecFor(C, s, lo.v.i, hi.v.i, hi.st) IN
                 \* (the evaluator drops the loop's names when the for statement ends, although not between iterations)
                 IF HasDev(C, "VM_NO_BLOCK_SCOPE") THEN r ELSE [r EXCEPT !.st.env = SubSeq(r.st.env, 1, n)]
     [] s.k = "forin" ->
            LET a == Eval(C, s.a[1], st) IN
            IF Bad(a.st) THEN RS("n", VVoid, a.st)
            ELSE IF a.v.t # "arr" THEN RS("n", VVoid, Fault(a.st, "stuck:type"))
            ELSE IF HasDev(C, "NATIVE_FOR_IN_ARRAY_SKIPPED") /\ s.a[1].k = "var" THEN RS("n", VVoid, a.st)
            ELSE LET n == Len(a.st.env)
                     r == IF HasDev(C, "FORIN_LENGTH_SNAPSHOT") THEN ExecForInSnap(C, s, a.v, 1, Len(ArrOf(a.st, a.v)), a.st)
                          ELSE ExecForIn(C, s, a.v, 1, a.st) IN
                 IF HasDev(C, "VM_NO_BLOCK_SCOPE") THEN r ELSE [r EXCEPT !.st.env = SubSeq(r.st.env, 1, n)]
     [] s.k = "match" ->
            LET r == Eval(C, s.a[1], st) IN
            IF Bad(r.st) THEN RS("n", VVoid, r.st)
            ELSE IF r.v.t # "union" THEN RS("n", VVoid, Fault(r.st, "stuck:type"))
            ELSE LET hits == {k \in 1..Len(s.arms) : s.arms[k].v = r.v.s} IN      \* arms carry the qualified name "Union.Variant"
                 IF hits = {} THEN RS("n", VVoid, Fault(r.st, "stuck:nomatch"))
                 ELSE LET arm == s.arms[CHOOSE k \in hits : \A j \in hits : k <= j]
                          n == Len(r.st.env)
                          b == ExecSeq(C, arm.b, 1, [r.st EXCEPT !.env = Append(@, [n |-> arm.bind, v |-> r.v])]) IN
                      IF (HasDev(C, "INTERP_RETURN_IN_MATCH_ARM") /\ b.sig = "r")
                         \/ (HasDev(C, "NATIVE_BREAK_IN_MATCH") /\ b.sig = "b")       \* C switch: break leaves the match only
                      THEN RS("n", VVoid, [b.st EXCEPT !.env = SubSeq(b.st.env, 1, n)])
                      ELSE [b EXCEPT !.st.env = SubSeq(b.st.env, 1, n)]
     [] OTHER -> RS("n", VVoid, Fault(st, "stuck:stmt"))

ExecWhile(C, s, st0) ==
   LET st == Tick(st0) IN
   IF Bad(st) THEN RS("n", VVoid, st) ELSE
   LET c == Eval(C, s.a[1], st) IN
   IF Bad(c.st) THEN RS("n", VVoid, c.st)
   ELSE IF c.v.t # "bool" THEN RS("n", VVoid, Fault(c.st, "stuck:type"))
   ELSE IF ~IsTrue(c.v) THEN RS("n", VVoid, c.st)
   ELSE LET b == ExecScoped(C, s.b, c.st) IN
        IF Bad(b.st) THEN b
        ELSE IF b.sig = "b" THEN RS("n", VVoid, b.st)
        ELSE IF b.sig = "r" THEN b
        ELSE ExecWhile(C, s, b.st)

\* for i in (range lo hi): i bound afresh each iteration; `continue` goes on with the next value
\* (INFERRED: the only terminating reading of 5.4; VM_FOR_CONTINUE reproduces the VM's missing increment)
ExecFor(C, s, i, hi, st0) ==
   LET st == Tick(st0) IN
   IF Bad(st) THEN RS("n", VVoid, st)
   ELSE IF ~I64Lt(i, hi) THEN RS("n", VVoid, st)
   ELSE LET n == Len(st.env)
            b == ExecScoped(C, s.b, [st EXCEPT !.env = Append(@, [n |-> s.s, v |-> VInt(i)])])
            after == IF NoBlockScope(C) THEN b.st ELSE [b.st EXCEPT !.env = SubSeq(@, 1, n)] IN
        IF Bad(b.st) THEN b
        ELSE IF b.sig = "b" THEN RS("n", VVoid, after)
        ELSE IF b.sig = "r" THEN [b EXCEPT !.st = after]
        ELSE IF b.sig = "c" /\ HasDev(C, "VM_FOR_CONTINUE") THEN ExecFor(C, s, i, hi, after)
        ELSE ExecFor(C, s, I64Add(i, I64One), hi, after)

ExecForIn(C, s, arr, k, st0) ==
   LET st == Tick(st0) IN
   IF Bad(st) THEN RS("n", VVoid, st)
   ELSE IF k > Len(ArrOf(st, arr)) THEN RS("n", VVoid, st)
   ELSE LET n == Len(st.env)
            b == ExecScoped(C, s.b, [st EXCEPT !.env = Append(@, [n |-> s.s, v |-> ArrOf(st, arr)[k]])])
            after == IF NoBlockScope(C) THEN b.st ELSE [b.st EXCEPT !.env = SubSeq(@, 1, n)] IN
        IF Bad(b.st) THEN b
        ELSE IF b.sig = "b" THEN RS("n", VVoid, after)
        ELSE IF b.sig = "r" THEN [b EXCEPT !.st = after]
        ELSE ExecForIn(C, s, arr, k + 1, after)

\* The documents do not say what `for x in a` does when its body changes the length of a.  ExecForIn above re-reads the
\* length before every iteration (the loop ends early when the array shrinks).  FORIN_LENGTH_SNAPSHOT is the other reading the
\* engines implement: the length is read once, elements are taken by index, and an index that is no longer inside the array
\* is an out-of-range access like any other (ARRAY_SAFETY.md): the run stops there.  Both are acceptable; reading a stale
\* element is not.
ExecForInSnap(C, s, arr, k, n0, st0) ==
   LET st == Tick(st0) IN
   IF Bad(st) THEN RS("n", VVoid, st)
   ELSE IF k > n0 THEN RS("n", VVoid, st)
   ELSE IF k > Len(ArrOf(st, arr)) THEN RS("n", VVoid, Fault(st, "fault:bounds"))
   ELSE LET n == Len(st.env)
            b == ExecScoped(C, s.b, [st EXCEPT !.env = Append(@, [n |-> s.s, v |-> ArrOf(st, arr)[k]])])
            after == IF NoBlockScope(C) THEN b.st ELSE [b.st EXCEPT !.env = SubSeq(@, 1, n)] IN
        IF Bad(b.st) THEN b
        ELSE IF b.sig = "b" THEN RS("n", VVoid, after)
        ELSE IF b.sig = "r" THEN [b EXCEPT !.st = after]
        ELSE ExecForInSnap(C, s, arr, k + 1, n0, after)

\* ------------------------------------------------------------- programs
RECURSIVE InitGlobals(_, _, _)
InitGlobals(C, k, st) ==
   IF k > Len(C.p.globals) \/ Bad(st) THEN st
   ELSE LET g == C.p.globals[k]
            r == Eval(C, g.init, st) IN
        InitGlobals(C, k + 1, IF Bad(r.st) THEN r.st ELSE [r.st EXCEPT !.glob = Append(@, [n |-> g.n, v |-> r.v])])

Ctx(prog, dev, mode, shadow) == [p |-> prog, dev |-> dev, mode |-> mode, shadow |-> shadow]

\* the compiled program: globals, then main(); exit status = main's value modulo 256
RunMain(prog, dev, mode, fuel) ==
   LET C == Ctx(prog, dev, mode, FALSE)
       g == InitGlobals(C, 1, NewState(fuel))
       r == IF FuncIdx(C, "main") = 0 THEN RV(VVoid, Fault(g, "stuck:nomain")) ELSE CallFn(C, "main", <<>>, g) IN
   [status |-> r.st.status, out |-> r.st.out,
    exit |-> IF Bad(r.st) THEN 1 ELSE IF r.v.t = "int" THEN r.v.i[4] % 256 ELSE 0,
    steps |-> fuel - r.st.fuel]

\* the shadow tests (section 7): each block runs in order in the evaluator; a false assertion is counted
\* run_shadow_tests skips a block when the tested function's body or the block itself calls an external function
\* directly (outside an unsafe block, where the call is carried out through the FFI)
RECURSIVE ExtInExpr(_, _), ExtInStmts(_, _, _)
ExtInExpr(C, e) == (e.k = "call" /\ ExternIdx(C, e.s) # 0) \/ \E j \in 1..Len(e.a) : ExtInExpr(C, e.a[j])
ExtInStmts(C, ss, k) ==
   IF k > Len(ss) THEN FALSE
   ELSE LET s == ss[k] IN
        \/ (s.k \in {"let", "set", "ret", "expr", "if", "while"} /\ \E j \in 1..Len(s.a) : ExtInExpr(C, s.a[j]))
        \/ (s.k \in {"if", "while", "block"} /\ (ExtInStmts(C, s.b, 1) \/ ExtInStmts(C, s.c, 1)))
        \/ ExtInStmts(C, ss, k + 1)
ShadowSkipped(C, sh) == LET fi == FuncIdx(C, sh.fn) IN
                        (fi # 0 /\ ExtInStmts(C, C.p.funcs[fi].body, 1)) \/ ExtInStmts(C, sh.b, 1)
RECURSIVE RunShadowsFrom(_, _, _, _)
RunShadowsFrom(C, k, st, acc) ==
   IF k > Len(C.p.shadows) THEN acc
   ELSE IF ShadowSkipped(C, C.p.shadows[k]) THEN
        RunShadowsFrom(C, k + 1, st, Append(acc, [fn |-> C.p.shadows[k].fn, fails |-> 0, status |-> "skipped", out |-> <<>>]))
   ELSE IF Len(acc) > 0 /\ acc[Len(acc)].status \notin {"ok", "skipped"} THEN
        \* a run-time fault inside a shadow block ends the evaluator (and with it the compilation): the remaining blocks
        \* are not run; after a block without prescription (unspecified / fuel) nothing can be prescribed either
        RunShadowsFrom(C, k + 1, st, Append(acc, [fn |-> C.p.shadows[k].fn, fails |-> 0, status |-> "notrun", out |-> <<>>]))
   ELSE LET sh == C.p.shadows[k]
            fresh == [st EXCEPT !.env = <<>>, !.out = <<>>, !.fails = 0, !.status = "ok", !.depth = 0]
            r == ExecSeq(C, sh.b, 1, fresh) IN
        RunShadowsFrom(C, k + 1, r.st,
                       Append(acc, [fn |-> sh.fn, fails |-> r.st.fails, status |-> r.st.status, out |-> r.st.out]))
RunShadows(prog, dev, mode, fuel) ==
   LET C == Ctx(prog, dev, mode, TRUE)
       g == InitGlobals(C, 1, NewState(fuel)) IN
   RunShadowsFrom(C, 1, g, <<>>)
====
