\* Trace validation (N and Verify are appended by the harness; TRACE, MODS and protocol constants come through IOEnv).
SPECIFICATION TraceSpec
CONSTANTS
  Suite = "trace"
  CrcModel = "atomic"
  IgnoreSigpipe = TRUE
  Cap = 2
  Buffered = TRUE
  Gaps = "overlap"
  FlushOnErr = TRUE
  KeepData = FALSE
  ExternalProg <- TraceProg
  Emit = FALSE
INVARIANTS TraceActiveOK TraceStatusOK TraceOwner TraceNoFrameAfterExit
