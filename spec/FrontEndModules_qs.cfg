SPECIFICATION Spec
INVARIANT DepthBound
INVARIANT CacheOnce
PROPERTY Terminates
CONSTANTS
  Dev = {}
  Specials = {"missing", "dir", "bad"}
  MaxEdges = 1
