\* C18, the daemon as it is at HEAD (no verifier call before execution): Available is expected to be VIOLATED.
SPECIFICATION Spec
CONSTANTS
  N = 3
  Suite = "c18s"
  Verify = FALSE
  CrcModel = "atomic"
  IgnoreSigpipe = TRUE
  Cap = 2
  Buffered = FALSE
  Gaps = "overlap"
  DropExit = FALSE
  FlushOnErr = TRUE
  KeepData = TRUE
  ExternalProg <- NoExternal
  Emit = FALSE
INVARIANTS TypeOK Isolation Available
