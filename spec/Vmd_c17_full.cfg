\* C17 (thorough): three well-formed exec clients x modules, every interleaving; CRC table initialised before the accept loop.
SPECIFICATION Spec
CONSTANTS
  N = 3
  Suite = "c17"
  Verify = TRUE
  CrcModel = "atomic"
  IgnoreSigpipe = TRUE
  Cap = 2
  Buffered = TRUE
  Gaps = "overlap"
  DropExit = FALSE
  FlushOnErr = TRUE
  KeepData = TRUE
  ExternalProg <- NoExternal
  Emit = FALSE
INVARIANTS TypeOK Isolation Transparency Available ReplyOK ActiveOK StatusOK
