\* Sensitivity: the daemon drops main's exit status while standalone reports it (F12b): Transparency is expected to be VIOLATED.
SPECIFICATION Spec
CONSTANTS
  N = 3
  Suite = "c17x"
  Verify = TRUE
  CrcModel = "atomic"
  IgnoreSigpipe = TRUE
  Cap = 2
  Buffered = TRUE
  Gaps = "overlap"
  DropExit = TRUE
  KeepData = TRUE
  ExternalProg <- NoExternal
  Emit = FALSE
INVARIANTS TypeOK Isolation Transparency Available
