---- MODULE DriverTrace ----
(* Trace validation for the compile driver: the transcript of a real `nanoc --verbose` run, turned into events  *)
(* by the harness (one ndjson line per phase line / test verdict), must be a behaviour of Driver.tla for the   *)
(* truth matrix that NanoSem prescribes for the program (bound from the Reset line).                            *)
EXTENDS Driver, Json, IOUtils
Tr == ndJsonDeserialize(IOEnv.TRACE)
VARIABLE l
tvars == <<vars, l>>
IsEv(e) == l <= Len(Tr) /\ Tr[l].e = e /\ l' = l + 1
TInit == /\ l = 1 /\ TLCSet(1, 1)
         /\ prog = [wt |-> TRUE, sh |-> <<>>, missing |-> 0] /\ phase = "done" /\ k = 1 /\ fails = <<>> /\ named = {}
         /\ warned = FALSE /\ artifact = "none" /\ exit = 0 /\ log = <<>>
TReset == /\ IsEv("Reset")
          /\ prog' = [wt |-> Tr[l].wt, sh |-> Tr[l].sh, missing |-> Tr[l].missing]
          /\ phase' = "lex" /\ k' = 1 /\ fails' = <<>> /\ named' = {} /\ warned' = FALSE /\ artifact' = "none" /\ exit' = -1 /\ log' = <<>>
TLex == IsEv("lex_ok") /\ Lex
TParse == IsEv("parse_ok") /\ Parse
TTc == (IsEv("tc_ok") \/ IsEv("tc_failed")) /\ Typecheck /\ log'[Len(log')] = Tr[l].e
TTest == (IsEv("test_passed") \/ IsEv("test_failed")) /\ ShadowTest /\ log'[Len(log')] = Tr[l].e
         /\ (Tr[l].e = "test_failed" => fails'[Len(fails')] = Tr[l].n)        \* reported number of failed assertions
TShDone == (IsEv("shadow_ok") \/ IsEv("shadow_failed")) /\ ShadowDone /\ log'[Len(log')] = Tr[l].e
TTrans == IsEv("transpile_ok") /\ Transpile
TCC == IsEv("cc_ok") /\ CC
TWrite == IsEv("exe_written") /\ WriteExe
\* end of the run: observed exit status and artifact must be the model's; a rejected program has exit # 0
TEnd == /\ IsEv("end") /\ Terminal
        /\ (Tr[l].exit = 0) = (exit = 0) /\ Tr[l].artifact = artifact /\ Tr[l].warned = warned
        /\ UNCHANGED vars
TNext == TReset \/ TLex \/ TParse \/ TTc \/ TTest \/ TShDone \/ TTrans \/ TCC \/ TWrite \/ TEnd
TSpec == TInit /\ [][TNext]_tvars
Track == TLCSet(1, IF l > TLCGet(1) THEN l ELSE TLCGet(1))
Post == PrintT("@@J " \o ToJson([maxl |-> TLCGet(1), len |-> Len(Tr)]))
====
