SPECIFICATION Spec
INVARIANT Summary
POSTCONDITION Post
