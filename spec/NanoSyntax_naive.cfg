SPECIFICATION Spec
INVARIANT Unambiguous
CONSTANTS
  Family = "naive"
  IntAtoms = {"a"}
  BoolAtoms = {"u"}
  Emit = FALSE
  CombSizes = {}
  Forms = {"fld", "tix", "chain", "call"}
