SPECIFICATION Spec
CONSTANTS MaxLen = 4
 Vals = {1, 2}
 Route = "bysig"
INVARIANTS Same OneLibrary
CHECK_DEADLOCK FALSE
