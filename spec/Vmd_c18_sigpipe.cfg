\* Model sensitivity: with SIGPIPE at its default a client that disconnects while its program prints kills the daemon.
SPECIFICATION Spec
CONSTANTS
  N = 3
  Suite = "c18s"
  Verify = TRUE
  CrcModel = "atomic"
  IgnoreSigpipe = FALSE
  Cap = 2
  Buffered = FALSE
  Gaps = "overlap"
  DropExit = FALSE
  FlushOnErr = TRUE
  KeepData = TRUE
  ExternalProg <- NoExternal
  Emit = FALSE
INVARIANTS TypeOK Isolation Available
