------------------------------- MODULE NanoISAText -------------------------------
(* Property C11, second half: the textual assembly form.                           *)
(*                                                                                 *)
(* A module is [strings, functions, code]; strings and code are byte lists, a      *)
(* function is [name, arity, locals, upvalues, off, len] (name = string index).    *)
(* RT(m, D) is what "disassemble, then assemble" yields:                           *)
(*   - with D = {} it describes the text form as an inverse must behave: every     *)
(*     jump operand whose target is an instruction boundary of its function (or    *)
(*     the function end) becomes a label, every other operand is printed as a      *)
(*     literal that reads back to the same bytes, strings and names read back      *)
(*     unchanged.  TLC checks RT(m, {}) = m on every generated module              *)
(*     (invariant TextInverse): the text form *can* be an exact inverse.           *)
(*   - every element of D is a named deviation of the unchanged tree (one per      *)
(*     known finding); with it RT reproduces what the real assembler or            *)
(*     disassembler does instead.  Dev is the set of deviations currently listed   *)
(*     in /verif/known_findings.d/C11.json.                                        *)
(* The replay oracle is the property: the real asm_assemble(disasm_module(m))      *)
(* must equal m.  A real failure is a KNOWN finding only if RT(m, Dev) predicts    *)
(* exactly that outcome; anything else is a violation.                             *)
(*                                                                                 *)
(* The module families are generated from the extracted table only by operand      *)
(* shape (a "jump" is any opcode with an I32 operand, which is how the             *)
(* disassembler sees it), so renaming or renumbering opcodes does not disturb      *)
(* the check.  PUSH_STR is the one opcode looked up by mnemonic because the        *)
(* disassembler annotates it with the string text.                                 *)
EXTENDS NanoISA

CONSTANTS Dev,        \* SUBSET DevNames: deviations listed as known findings
          MaxBody,    \* length bound of the exhaustive jump-shape family
          MaxHostile, \* length bound of the family with raw (non-label) jump operands
          RealFile,   \* ndjson file with module dumps of real (compiler-produced) modules, or ""
          Alts        \* BOOLEAN: second pass - print Alternatives(m) for the modules of RealFile

DevNames == {"DISASM_LABEL_MIDINSTR",   \* a label is invented for a jump target inside an instruction and never defined
             "ASM_PATCH_FIXUP",          \* a literal I32 operand steals the pending patch of the previous label reference
             "ASM_COMMENT_IN_STRING",    \* ';' and '#' start a comment even inside a quoted string
             "DISASM_STR_NUL",           \* strings are printed as C strings: cut at the first NUL byte
             "DISASM_COMMENT_NEWLINE",   \* the `; "text"` annotation of PUSH_STR is printed raw: a newline ends the comment
             "ASM_FN_NAME_IDENT",        \* .function accepts only [A-Za-z0-9_]+ as a name
             "ASM_STRING_4095",          \* .string is parsed into a 4096-byte buffer
             "ASM_LABEL_TABLE",          \* the assembler's label table (1024 entries) is never reset between functions
             "TEXT_NO_LAYOUT",           \* the text form has no code offsets: code is laid out in function-table order
             "F64_NAN_PAYLOAD",          \* %.17g prints every NaN as nan/-nan: payload and signalling bit are lost
             "F64_SUBNORMAL_REFUSED"}    \* strtod sets ERANGE for subnormal values and the operand is refused

ASSUME Dev \subseteq DevNames
ASSUME KindSize["I32"] = 4 /\ KindSize["F64"] = 8

(* ------------------------------------------------------------------ helpers *)
Max2(a, b) == IF a > b THEN a ELSE b
LE32(v) == IF v >= 0 THEN <<v % 256, (v \div 256) % 256, (v \div 65536) % 256, v \div 16777216>>
           ELSE LET lo == 65536 + v IN <<lo % 256, lo \div 256, 255, 255>>          \* -65536 <= v < 0
\* signed value of a 4-byte operand when |v| < 65536 ("near"); everything else cannot land in a small function
Near(bs) == IF bs[3] = 0 /\ bs[4] = 0 THEN [near |-> TRUE, v |-> bs[1] + 256 * bs[2]]
            ELSE IF bs[3] = 255 /\ bs[4] = 255 THEN [near |-> TRUE, v |-> bs[1] + 256 * bs[2] - 65536]
            ELSE [near |-> FALSE, v |-> 0]
Write4(code, at, b4) == (SubSeq(code, 1, at) \o b4) \o SubSeq(code, at + 5, Len(code))

RECURSIVE Dedup(_, _)
Dedup(s, seen) == IF s = <<>> THEN <<>>
                  ELSE IF Head(s) \in seen THEN Dedup(Tail(s), seen)
                  ELSE <<Head(s)>> \o Dedup(Tail(s), seen \cup {Head(s)})
IndexOf(s, x) == CHOOSE i \in DOMAIN s : s[i] = x

RECURSIVE UpToNul(_)
UpToNul(s) == IF s = <<>> \/ Head(s) = 0 THEN <<>> ELSE <<Head(s)>> \o UpToNul(Tail(s))

\* nvm_add_string: the index of an equal string if there is one, else append
AddString(pool, s) == IF \E i \in DOMAIN pool : pool[i] = s
                      THEN [pool |-> pool, idx |-> (CHOOSE i \in DOMAIN pool : pool[i] = s) - 1]
                      ELSE [pool |-> Append(pool, s), idx |-> Len(pool)]

IdentChar == (48 .. 57) \cup (65 .. 90) \cup (97 .. 122) \cup {95}
IsIdent(s) == s # <<>> /\ \A i \in DOMAIN s : s[i] \in IdentChar

IsNaN(b) == b[8] % 128 = 127 /\ b[7] >= 240 /\ (b[7] % 16 # 0 \/ \E j \in 1 .. 6 : b[j] # 0)
CanonNaN(b) == <<0, 0, 0, 0, 0, 0, 248, b[8]>>
IsSubnormal(b) == b[8] % 128 = 0 /\ b[7] < 16 /\ (b[7] # 0 \/ \E j \in 1 .. 6 : b[j] # 0)

(* -------------------------------------------------------------- disassembler *)
MaxDisasmLabels == 512      \* MAX_DISASM_LABELS, per function (harmless: the remaining operands are literals)
MaxAsmLabels == 1024        \* MAX_LABELS, one table for the whole module (deviation ASM_LABEL_TABLE)
RECURSIVE DecodeAll(_, _)
DecodeAll(bs, off) == IF bs = <<>> THEN <<>>
                      ELSE LET d == Decode(bs) IN
                           IF ~d.ok THEN <<>>        \* only decodable code is generated
                           ELSE <<[off |-> off, op |-> d.op, args |-> d.args]>> \o DecodeAll(Drop(bs, d.n), off + d.n)

RECURSIVE InsTargets(_, _)
InsTargets(i, k) == IF k > Len(i.args) THEN <<>>
                    ELSE (IF Kinds(i.op)[k] = "I32" /\ Near(i.args[k]).near
                          THEN <<i.off + Near(i.args[k]).v>> ELSE <<>>) \o InsTargets(i, k + 1)
RECURSIVE AllTargets(_)
AllTargets(ins) == IF ins = <<>> THEN <<>> ELSE InsTargets(Head(ins), 1) \o AllTargets(Tail(ins))

\* labels in order of first use (L0, L1, ...): the position in this sequence is the label's name
Labels(ins, len, D) ==
    LET bounds == {ins[i].off : i \in DOMAIN ins} \cup {len}
        Ok(t) == t >= 0 /\ t <= len /\ ("DISASM_LABEL_MIDINSTR" \in D \/ t \in bounds)
        all == Dedup(SelectSeq(AllTargets(ins), Ok), {})
    IN IF Len(all) > MaxDisasmLabels THEN SubSeq(all, 1, MaxDisasmLabels) ELSE all      \* further targets print as numbers

\* text of one operand: a label reference, or a literal given by the bytes it reads back to (<<>> = unreadable)
ArgText(i, k, labels, D) ==
    LET kind == Kinds(i.op)[k]  a == i.args[k] IN
    IF kind = "I32" /\ Near(a).near /\ (i.off + Near(a).v) \in Range(labels)
      THEN [ref |-> TRUE, v |-> <<IndexOf(labels, i.off + Near(a).v)>>]
    ELSE IF kind = "F64" /\ "F64_NAN_PAYLOAD" \in D /\ IsNaN(a) THEN [ref |-> FALSE, v |-> CanonNaN(a)]
    ELSE IF kind = "F64" /\ "F64_SUBNORMAL_REFUSED" \in D /\ IsSubnormal(a) THEN [ref |-> FALSE, v |-> <<>>]
    ELSE [ref |-> FALSE, v |-> a]

\* items of a function body: [k = "label", n] or [k = "ins", op, args]
RECURSIVE Items(_, _, _)
Items(ins, labels, D) ==
    IF ins = <<>> THEN <<>>
    ELSE LET i == Head(ins) IN
         (IF i.off \in Range(labels) THEN <<[k |-> "label", n |-> IndexOf(labels, i.off), op |-> 0, args |-> <<>>]>> ELSE <<>>)
         \o <<[k |-> "ins", n |-> 0, op |-> i.op, args |-> [j \in DOMAIN i.args |-> ArgText(i, j, labels, D)]]>>
         \o Items(Tail(ins), labels, D)
FnText(code, D) ==
    LET ins == DecodeAll(code, 0)  labels == Labels(ins, Len(code), D) IN
    Items(ins, labels, D) \o (IF Len(code) \in Range(labels)
                              THEN <<[k |-> "label", n |-> IndexOf(labels, Len(code)), op |-> 0, args |-> <<>>]>> ELSE <<>>)

(* ----------------------------------------------------------------- assembler *)
\* st = [ok, code, defs (set of <<label, offset>>), patches (seq of [lab, at, start])]
RECURSIVE AsmArgs(_, _, _, _, _)
AsmArgs(st, it, k, start, D) ==
    IF k > Len(it.args) \/ ~st.ok THEN st
    ELSE LET a == it.args[k]  kind == Kinds(it.op)[k]  pos == Len(st.code) IN
         IF a.ref THEN AsmArgs([st EXCEPT !.code = @ \o <<0, 0, 0, 0>>,
                                          !.patches = Append(@, [lab |-> a.v[1], at |-> pos, start |-> start])],
                               it, k + 1, start, D)
         ELSE IF Len(a.v) # KindSize[kind] THEN [st EXCEPT !.ok = FALSE]
         ELSE AsmArgs([st EXCEPT !.code = @ \o a.v,
                                 !.patches = IF kind = "I32" /\ "ASM_PATCH_FIXUP" \in D /\ @ # <<>>
                                             THEN [@ EXCEPT ![Len(@)].at = pos] ELSE @],
                      it, k + 1, start, D)
RECURSIVE AsmItems(_, _, _)
AsmItems(st, items, D) ==
    IF items = <<>> \/ ~st.ok THEN st
    ELSE LET it == Head(items) IN
         IF it.k = "label" THEN AsmItems([st EXCEPT !.defs = @ \cup {<<it.n, Len(st.code)>>}], Tail(items), D)
         ELSE AsmItems(AsmArgs([st EXCEPT !.code = Append(@, it.op)], it, 1, Len(st.code), D), Tail(items), D)
RECURSIVE Resolve(_, _, _)
Resolve(code, patches, defs) ==
    IF patches = <<>> THEN [ok |-> TRUE, code |-> code]
    ELSE LET p == Head(patches) IN
         IF ~\E d \in defs : d[1] = p.lab THEN [ok |-> FALSE, code |-> <<>>]      \* "Undefined label"
         ELSE Resolve(Write4(code, p.at, LE32((CHOOSE d \in defs : d[1] = p.lab)[2] - p.start)), Tail(patches), defs)
FnRT(code, D) ==
    LET st == AsmItems([ok |-> TRUE, code |-> <<>>, defs |-> {}, patches |-> <<>>], FnText(code, D), D) IN
    IF ~st.ok THEN [ok |-> FALSE, code |-> <<>>] ELSE Resolve(st.code, st.patches, st.defs)

(* ------------------------------------------------------------- whole modules *)
PushStrOps == {b \in Byte : Valid(b) /\ Table[b].name = "PUSH_STR" /\ Kinds(b) # <<>>}
FnSlice(m, f) == IF f.len > 0 /\ f.off + f.len <= Len(m.code) THEN SubSeq(m.code, f.off + 1, f.off + f.len) ELSE <<>>
\* does the body annotate a PUSH_STR with a string that contains a newline?
NewlineInAnnotation(m, body) ==
    \E i \in Range(DecodeAll(body, 0)) :
        /\ i.op \in PushStrOps /\ Len(i.args[1]) = 4 /\ Near(i.args[1]).near
        /\ LET x == Near(i.args[1]).v IN x >= 0 /\ x < Len(m.strings) /\ 10 \in Range(UpToNul(m.strings[x + 1]))

StrText(s, D) == IF "DISASM_STR_NUL" \in D THEN UpToNul(s) ELSE s
StrRefused(s, D) == \/ "ASM_COMMENT_IN_STRING" \in D /\ ({59, 35} \cap Range(StrText(s, D)) # {})
                    \/ "ASM_STRING_4095" \in D /\ Len(StrText(s, D)) > 4095
RECURSIVE AddAll(_, _)
AddAll(pool, ss) == IF ss = <<>> THEN pool ELSE AddAll(AddString(pool, Head(ss)).pool, Tail(ss))

Failure == [kind |-> "refused", strings |-> <<>>, functions |-> <<>>, code |-> <<>>]

\* functions one after the other; acc = [ok, pool, fns, code]
RECURSIVE FnsRT(_, _, _, _)
FnsRT(m, k, acc, D) ==
    IF k > Len(m.functions) \/ ~acc.ok THEN acc
    ELSE LET f == m.functions[k]
             nm == IF f.name < Len(m.strings) THEN StrText(m.strings[f.name + 1], D) ELSE <<63, 63, 63>>
             body == FnSlice(m, f)
             rt == FnRT(body, D)
             added == AddString(acc.pool, nm)
             nlab == acc.nlab + Len(Labels(DecodeAll(body, 0), Len(body), D))
         IN IF \/ "ASM_FN_NAME_IDENT" \in D /\ ~IsIdent(nm)
               \/ "DISASM_COMMENT_NEWLINE" \in D /\ NewlineInAnnotation(m, body)
               \/ "ASM_LABEL_TABLE" \in D /\ nlab > MaxAsmLabels
               \/ ~rt.ok
            THEN [acc EXCEPT !.ok = FALSE]
            ELSE FnsRT(m, k + 1,
                       [ok |-> TRUE, pool |-> added.pool, nlab |-> nlab,
                        fns |-> Append(acc.fns, [name |-> added.idx, arity |-> f.arity, locals |-> f.locals, upvalues |-> f.upvalues,
                                                 off |-> IF "TEXT_NO_LAYOUT" \in D THEN Len(acc.code) ELSE f.off,
                                                 len |-> IF "TEXT_NO_LAYOUT" \in D THEN Len(rt.code) ELSE f.len]),
                        code |-> IF "TEXT_NO_LAYOUT" \in D THEN acc.code \o rt.code
                                 ELSE IF body = <<>> THEN acc.code
                                 ELSE (SubSeq(acc.code, 1, f.off) \o rt.code) \o SubSeq(acc.code, f.off + Len(rt.code) + 1, Len(acc.code))],
                       D)

Core(m) == [strings |-> m.strings, functions |-> m.functions, code |-> m.code]
RT(m, D) ==
    IF \E i \in DOMAIN m.strings : StrRefused(m.strings[i], D) THEN Failure
    ELSE LET pool0 == AddAll(<<>>, [i \in DOMAIN m.strings |-> StrText(m.strings[i], D)])
             r == FnsRT(m, 1, [ok |-> TRUE, pool |-> pool0, nlab |-> 0, fns |-> <<>>,
                               code |-> IF "TEXT_NO_LAYOUT" \in D THEN <<>> ELSE m.code], D)
         IN IF ~r.ok THEN Failure
            ELSE LET out == [strings |-> r.pool, functions |-> r.fns, code |-> r.code] IN
                 [kind |-> IF out = Core(m) THEN "same" ELSE "differs",
                  strings |-> out.strings, functions |-> out.functions, code |-> out.code]

\* which listed deviations explain RT(m, Dev) # m: those without which the prediction changes; if several
\* deviations fail the module independently, those that fail it on their own; else all of them
Blame(m) == LET full == RT(m, Dev) IN
            IF full.kind = "same" THEN {}
            ELSE LET need == {d \in Dev : RT(m, Dev \ {d}) # full}
                     one == {d \in Dev : RT(m, {d}).kind # "same"} IN
                 IF need # {} THEN need ELSE IF one # {} THEN one ELSE Dev

\* second pass, for modules whose real outcome is not RT(m, Dev) (e.g. a listed deviation has been repaired but is
\* still listed): the outcome under every subset of the deviations that matter for m on their own
BlameIn(m, D) == LET full == RT(m, D) IN
                 IF full.kind = "same" THEN {}
                 ELSE LET need == {d \in D : RT(m, D \ {d}) # full} IN IF need # {} THEN need ELSE D
Relevant(m) == {d \in Dev : RT(m, {d}).kind # "same"}
Candidates(m) == LET rel == Relevant(m) IN
                 IF Cardinality(rel) <= 5 THEN SUBSET rel \ {{}}
                 ELSE {{d} : d \in rel} \cup {rel \ {d} : d \in rel} \cup {rel}
Alternatives(m) == {[dev |-> D, pred |-> RT(m, D), blame |-> BlameIn(m, D)] : D \in Candidates(m)}

(* ------------------------------------------------------- generated families *)
\* (the families take a dummy argument only because TLC evaluates zero-arity constant definitions eagerly)
ValidOps == {b \in Opcodes : Valid(b)}
NoArgOps == {b \in ValidOps : Kinds(b) = <<>>}
JumpOps  == {b \in ValidOps : "I32" \in Range(Kinds(b))}
WideOps  == {b \in ValidOps \ JumpOps : \E k \in DOMAIN Kinds(b) : KindSize[Kinds(b)[k]] = 8}
MinOf(S) == CHOOSE x \in S : \A y \in S : x <= y
Filler == MinOf(NoArgOps)
Wide   == MinOf(WideOps)

\* body symbols: F filler, W wide instruction, J jump to instruction index t (t = Len(body) is the function end),
\* R jump with a raw operand: t = 1 far beyond the code, 2 before the function, 3 one byte past the following boundary
SymLen(x) == CASE x.s = "F" -> InstrLen(Filler) [] x.s = "W" -> InstrLen(Wide) [] OTHER -> InstrLen(x.op)
RECURSIVE OffOf(_, _)
OffOf(body, k) == IF k = 0 THEN 0 ELSE OffOf(body, k - 1) + SymLen(body[k])
JArgs(op, i32) == [k \in DOMAIN Kinds(op) |-> IF Kinds(op)[k] = "I32" THEN i32 ELSE Low(7, KindSize[Kinds(op)[k]])]
SymBytes(body, j) ==
    LET x == body[j] IN
    CASE x.s = "F" -> Encode([op |-> Filler, args |-> <<>>])
      [] x.s = "W" -> Encode([op |-> Wide, args |-> [k \in DOMAIN Kinds(Wide) |-> Ramp(KindSize[Kinds(Wide)[k]])]])
      [] x.s = "J" -> Encode([op |-> x.op, args |-> JArgs(x.op, LE32(OffOf(body, x.t) - OffOf(body, j - 1)))])
      [] x.s = "R" -> Encode([op |-> x.op, args |-> JArgs(x.op, CASE x.t = 1 -> LE32(1000) [] x.t = 2 -> LE32(-7 - OffOf(body, j - 1))
                                                                  [] OTHER -> LE32(SymLen(x) + 1))])
BodyCode(body) == Flat([j \in DOMAIN body |-> SymBytes(body, j)])

Plain == {[s |-> "F", op |-> 0, t |-> 0], [s |-> "W", op |-> 0, t |-> 0]}
Jumps(n) == {[s |-> "J", op |-> b, t |-> t] : b \in JumpOps, t \in 0 .. n}
Raws == {[s |-> "R", op |-> b, t |-> t] : b \in JumpOps, t \in 1 .. 3}
JumpBodies(n) == [1 .. n -> Plain \cup Jumps(n)]
HostileBodies(n) == {b \in [1 .. n -> Plain \cup Jumps(n) \cup Raws] : \E j \in 1 .. n : b[j].s = "R"}

FName(i) == <<102, 48 + i>>                                  \* "f1", "f2"
Fn(name, off, len) == [name |-> name, arity |-> 0, locals |-> 0, upvalues |-> 0, off |-> off, len |-> len]
OneFn(code) == [strings |-> <<FName(1)>>, functions |-> <<Fn(0, 0, Len(code))>>, code |-> code]
TwoFn(c1, c2) == [strings |-> <<FName(1), FName(2)>>, functions |-> <<Fn(0, 0, Len(c1)), Fn(1, Len(c1), Len(c2))>>, code |-> c1 \o c2]

FamJump(u_) == {[fam |-> "jump", m |-> OneFn(BodyCode(b))] : b \in UNION {JumpBodies(n) : n \in 1 .. MaxBody}}
\* label names are per function: the same shapes in two functions of one module
FamTwo(u_) == {[fam |-> "twofn", m |-> TwoFn(BodyCode(b1), BodyCode(b2))] : b1 \in JumpBodies(1), b2 \in JumpBodies(1)}
          \cup {[fam |-> "twofn", m |-> TwoFn(BodyCode(b), BodyCode(b))] : b \in JumpBodies(2)}
FamHostile(u_) == {[fam |-> "rawjump", m |-> OneFn(BodyCode(b))] : b \in UNION {HostileBodies(n) : n \in 1 .. MaxHostile}}
\* every opcode with every operand pattern, followed by a filler (so that the instruction end is a boundary)
FamOperand(u_) == UNION {{[fam |-> "operand", m |-> OneFn(Encode([op |-> b, args |-> a]) \o Encode([op |-> Filler, args |-> <<>>]))]
                      : a \in ArgSpace(Kinds(b))} : b \in ValidOps}

StrAlphabet == {97, 110, 59, 35, 34, 92, 10, 9, 13, 0, 32, 128}        \* a n ; # " \ LF TAB CR NUL space 0x80
SmallStrings(u_) == {<<>>} \cup {<<x>> : x \in StrAlphabet} \cup {<<x, y>> : x, y \in StrAlphabet}
LongStrings(u_) == IF Deep THEN {Rep(120, 4094), Rep(120, 4095), Rep(120, 4096), Rep(120, 5000)} ELSE {}
StrModule(ss, refd) ==
    LET ps == IF PushStrOps = {} THEN Filler ELSE MinOf(PushStrOps)
        code == (IF refd /\ PushStrOps # {} THEN Encode([op |-> ps, args |-> <<LE32(1)>>]) ELSE <<>>) \o Encode([op |-> Filler, args |-> <<>>])
    IN [strings |-> <<FName(1)>> \o ss, functions |-> <<Fn(0, 0, Len(code))>>, code |-> code]
FamString(u_) == {[fam |-> "string", m |-> StrModule(<<s>>, r)] : s \in SmallStrings(0) \cup LongStrings(0), r \in BOOLEAN}
             \cup {[fam |-> "string", m |-> StrModule(ss, FALSE)] :
                       ss \in {<<<<97>>, <<97, 0, 98>>, <<98>>>>, <<<<97, 0>>, <<97>>>>, <<<<>>, <<0>>>>, <<<<92, 110>>, <<10>>>>}}

NameSet == {<<102>>, <<95, 120, 57>>, <<57, 120>>, <<76, 48>>, <<74, 77, 80>>, <<97, 46, 98>>, <<97, 45, 98>>, <<>>}  \* f _x9 9x L0 JMP a.b a-b ""
Counts == {0, 1, 255, 256, 65535}
FillerCode == Encode([op |-> Filler, args |-> <<>>])
WideCode == Encode([op |-> Wide, args |-> [k \in DOMAIN Kinds(Wide) |-> Ramp(KindSize[Kinds(Wide)[k]])]])
FamFunction(u_) ==
    {[fam |-> "fnname", m |-> [strings |-> <<nm>>, functions |-> <<Fn(0, 0, Len(FillerCode))>>, code |-> FillerCode]] : nm \in NameSet}
    \cup {[fam |-> "fncounts", m |-> [strings |-> <<FName(1)>>, code |-> FillerCode,
                                      functions |-> <<[name |-> 0, arity |-> a, locals |-> l, upvalues |-> u, off |-> 0, len |-> Len(FillerCode)]>>]]
          : a \in Counts, l \in Counts, u \in Counts}
    \cup {[fam |-> "layout", m |-> x] : x \in {
            TwoFn(FillerCode, WideCode),                                                                  \* canonical
            [strings |-> <<FName(1), FName(2)>>, code |-> WideCode \o FillerCode,                         \* table order # code order
             functions |-> <<Fn(0, Len(WideCode), Len(FillerCode)), Fn(1, 0, Len(WideCode))>>],
            [strings |-> <<FName(1), FName(2)>>, code |-> (FillerCode \o FillerCode) \o WideCode,         \* a gap between the functions
             functions |-> <<Fn(0, 0, Len(FillerCode)), Fn(1, 2 * Len(FillerCode), Len(WideCode))>>],
            [strings |-> <<FName(1), FName(2)>>, code |-> WideCode,                                       \* two functions share their code
             functions |-> <<Fn(0, 0, Len(WideCode)), Fn(1, 0, Len(WideCode))>>],
            [strings |-> <<FName(1), FName(2)>>, code |-> FillerCode,                                     \* an empty function
             functions |-> <<Fn(0, 0, 0), Fn(1, 0, Len(FillerCode))>>],
            [strings |-> <<FName(1)>>, code |-> FillerCode \o WideCode,                                   \* code after the last function
             functions |-> <<Fn(0, 0, Len(FillerCode))>>],
            [strings |-> <<FName(1)>>, code |-> FillerCode,                                               \* two functions, one name
             functions |-> <<Fn(0, 0, Len(FillerCode)), Fn(0, Len(FillerCode), 0)>>] }}

Generated(u_) == FamJump(0) \cup FamTwo(0) \cup FamHostile(0) \cup FamOperand(0) \cup FamString(0) \cup FamFunction(0)

\* real modules: dumps written by `isa_probe rtfile` ({file, strings, functions, code} with byte lists)
FamReal(u_) == LET real == ndJsonDeserialize(RealFile) IN
               {[fam |-> "real", idx |-> i, m |-> [strings |-> real[i].strings, functions |-> real[i].functions, code |-> real[i].code]]
                : i \in DOMAIN real}

VARIABLES tc, tst
tvars == <<tc, tst>>

EmitText(x) == LET p == RT(x.m, Dev) IN
               [fam |-> x.fam, m |-> x.m, pred |-> p, blame |-> Blame(x.m), law |-> "asm(disasm(m)) = m on strings, functions, code"]
\* for real modules only the verdict travels back (the module itself is already on the Python side)
EmitReal(x) == LET p == RT(x.m, Dev) IN
               [fam |-> "real", idx |-> x.idx, nstrings |-> Len(x.m.strings), ncode |-> Len(x.m.code), nfunctions |-> Len(x.m.functions),
                ideal |-> RT(x.m, {}).kind, pred |-> p, blame |-> Blame(x.m)]

\* (kase, kst are the variables of the codec configuration of NanoISA; they are parked here)
TInit == tc \in (IF RealFile = "" THEN Generated(0) ELSE FamReal(0)) /\ tst = "new" /\ kase = 0 /\ kst = "text"
TCheck == /\ tst = "new"
          /\ PrintT("@@J " \o ToJson(IF tc.fam # "real" THEN EmitText(tc)
                                    ELSE IF Alts THEN [fam |-> "alts", idx |-> tc.idx, alts |-> Alternatives(tc.m)]
                                    ELSE EmitReal(tc)))
          /\ tst' = "done" /\ UNCHANGED <<tc, kase, kst>>
TNext == TCheck

\* the text form, as the property needs it, is an exact inverse on every module of the families
TextInverse == RT(tc.m, {}).kind = "same"
=============================================================================
