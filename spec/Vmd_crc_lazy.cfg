\* The code as it is: crc32_init() on first use inside the client threads.  NoCrcRace is expected to be VIOLATED.
SPECIFICATION Spec
CONSTANTS
  N = 3
  Suite = "crc"
  Verify = TRUE
  CrcModel = "lazy"
  IgnoreSigpipe = TRUE
  Cap = 2
  Buffered = TRUE
  Gaps = "overlap"
  DropExit = FALSE
  FlushOnErr = TRUE
  KeepData = TRUE
  ExternalProg <- NoExternal
  Emit = FALSE
INVARIANTS TypeOK Isolation Transparency Available NoCrcRace
