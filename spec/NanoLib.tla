---- MODULE NanoLib ----
(***************************************************************************)
(* The standard library of nanolang (docs/STDLIB.md) as functions of the   *)
(* argument values and the store of arrays: LibApply(name, vs, store) =    *)
(* [ok, v, store].  ok = "ok", or a status: "fault:<kind>" for a documented *)
(* run-time error, "unspecified:<what>" where the documents leave the      *)
(* result open (such runs are not compared), "stuck:type" for a call the   *)
(* static rules exclude.  NanoSem.tla dispatches every name in LibBuiltins *)
(* here; NanoTypeLib.tla gives the static signatures.                      *)
(***************************************************************************)
EXTENDS Integers, Sequences, FiniteSets, TLC, Int64, NanoVal

LR(v, store) == [ok |-> "ok", v |-> v, store |-> store]
LF(why, store) == [ok |-> why, v |-> VVoid, store |-> store]

LibBuiltins == {}
LibApply(name, vs, store) == LF("stuck:builtin", store)
====
