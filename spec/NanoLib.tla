---- MODULE NanoLib ----
(***************************************************************************)
(* The standard library of nanolang (docs/STDLIB.md) as functions of the   *)
(* argument values and the store of arrays: LibApply(name, vs, store) =    *)
(* [ok, v, store].  ok = "ok", or a status: "fault:<kind>" for a documented *)
(* run-time error, "unspecified:<what>" where the documents leave the      *)
(* result open (such runs are not compared), "stuck:type" for a call the   *)
(* static rules exclude.  NanoSem.tla dispatches every name in LibBuiltins *)
(* here; NanoTypeLib.tla gives the static signatures.                      *)
(*                                                                         *)
(* Sources: STDLIB.md (section names quoted at each group), ARRAY_SAFETY.md *)
(* and DYNAMIC_ARRAYS.md ("I perform bounds checking on all array          *)
(* operations at runtime").  A case the documents do not settle and on     *)
(* which native, NanoVM and the evaluator agree is specified as they       *)
(* behave and tagged INFERRED; where they disagree it is unspecified.      *)
(* The higher-order functions filter / map / reduce call back into the     *)
(* program and are therefore specified in NanoSem.tla (block "higher-order *)
(* library functions").                                                    *)
(***************************************************************************)
EXTENDS Integers, Sequences, FiniteSets, TLC, Int64, NanoVal

LR(v, store) == [ok |-> "ok", v |-> v, store |-> store]
LF(why, store) == [ok |-> why, v |-> VVoid, store |-> store]

\* ------------------------------------------------------------ characters
\* "Character Classification (6)": a character is an int; the classes are ranges of ASCII codes, every other
\* integer (negative, > 127, >= 2^32 ...) is in no class.
LIn(l, lo, hi) == l[1] = 0 /\ l[2] = 0 /\ l[3] = 0 /\ l[4] >= lo /\ l[4] <= hi
LDigit(l) == LIn(l, 48, 57)
LUpper(l) == LIn(l, 65, 90)
LLower(l) == LIn(l, 97, 122)
LAlpha(l) == LUpper(l) \/ LLower(l)
LAlnum(l) == LAlpha(l) \/ LDigit(l)
LSpace(l) == LIn(l, 32, 32) \/ LIn(l, 9, 10) \/ LIn(l, 13, 13)       \* space, tab, newline, carriage return
CharClass(name, l) ==
   CASE name = "is_digit" -> LDigit(l) [] name = "is_alpha" -> LAlpha(l) [] name = "is_alnum" -> LAlnum(l)
     [] name = "is_whitespace" -> LSpace(l) [] name = "is_upper" -> LUpper(l) [] name = "is_lower" -> LLower(l)
CharClassFns == {"is_digit", "is_alpha", "is_alnum", "is_whitespace", "is_upper", "is_lower"}
\* "Type Conversions (5)"
DigitValue(l) == IF LDigit(l) THEN <<0, 0, 0, l[4] - 48>> ELSE I64Neg(I64One)      \* -1 if it is not a digit
ToLower(l) == IF LUpper(l) THEN <<0, 0, 0, l[4] + 32>> ELSE l                      \* non-letters unchanged
ToUpper(l) == IF LLower(l) THEN <<0, 0, 0, l[4] - 32>> ELSE l

\* ------------------------------------------------------ string -> integer
\* string_to_int: "I parse a string to an integer.  I return 0 if the string cannot be parsed."  Documented: a decimal
\* numeral with an optional '-' gives its value, a string with no numeral gives 0.  INFERRED (native, NanoVM and the
\* evaluator all use strtoll): leading spaces and one '+' or '-' are skipped, the longest run of digits is read and the rest
\* of the string is ignored, a magnitude that does not fit saturates at the 64-bit limits.
\* (strings of this specification are printable ASCII: the only white space is the space character)
RECURSIVE SkipSp(_, _)
SkipSp(x, k) == IF k <= Len(x) /\ SubSeq(x, k, k) = " " THEN SkipSp(x, k + 1) ELSE k
IsDig(x, k) == k <= Len(x) /\ CharCode(SubSeq(x, k, k)) >= 48 /\ CharCode(SubSeq(x, k, k)) <= 57
RECURSIVE DigitsEnd(_, _)
DigitsEnd(x, k) == IF IsDig(x, k) THEN DigitsEnd(x, k + 1) ELSE k
TenthOfMin == <<3276, 52428, 52428, 52428>>          \* floor(2^63 / 10) = 922337203685477580
\* magnitude of the digit run x[k .. e-1] as an unsigned 64-bit number, [v, over]: over = it exceeds 2^63
RECURSIVE Magn(_, _, _, _, _)
Magn(x, k, e, acc, over) ==
   IF k >= e THEN [v |-> acc, over |-> over]
   ELSE IF over \/ I64LtU(TenthOfMin, acc) THEN Magn(x, k + 1, e, acc, TRUE)
   ELSE LET nx == I64AddU(I64Mul(acc, <<0, 0, 0, 10>>), <<0, 0, 0, CharCode(SubSeq(x, k, k)) - 48>>) IN
        Magn(x, k + 1, e, nx, I64LtU(I64MinI, nx))
\* [any: a numeral was found, all: nothing follows it, plain: no leading space / '+' was skipped, v: the value]
Strtoll(x) ==
   LET a == SkipSp(x, 1)
       neg == a <= Len(x) /\ SubSeq(x, a, a) = "-"
       pos == a <= Len(x) /\ SubSeq(x, a, a) = "+"
       b == IF neg \/ pos THEN a + 1 ELSE a
       e == DigitsEnd(x, b)
       m == Magn(x, b, e, I64Zero, FALSE) IN
   [any |-> e > b, all |-> e > Len(x), plain |-> a = 1 /\ ~pos,
    v |-> IF e = b THEN I64Zero
          ELSE IF neg THEN (IF m.over THEN I64MinI ELSE I64Neg(m.v))            \* magnitude 2^63 itself negates to MinI
          ELSE IF m.over \/ m.v = I64MinI THEN I64MaxI ELSE m.v]

\* -------------------------------------------------------------- indices
\* an index into a sequence of length n: the position 1..n, or 0 when the 64-bit value is outside [0, n)
Pos(ix, n) == IF I64IsNeg(ix) \/ ~I64IsSmall(ix) \/ I64ToInt(ix) >= n THEN 0 ELSE I64ToInt(ix) + 1
RemoveAt(s, p) == SubSeq(s, 1, p - 1) \o SubSeq(s, p + 1, Len(s))
InsertAt(s, p, x) == SubSeq(s, 1, p - 1) \o <<x>> \o SubSeq(s, p, Len(s))       \* x becomes element number p
Rep(n, x) == [k \in 1..n |-> x]
FirstOrder(v) == v.t \in {"int", "bool", "str"}

\* ------------------------------------------------------------ dispatcher
ListFns(p) == {p \o "_new", p \o "_with_capacity", p \o "_push", p \o "_pop", p \o "_get", p \o "_set", p \o "_insert",
               p \o "_remove", p \o "_length", p \o "_capacity", p \o "_is_empty", p \o "_clear", p \o "_free"}
LibBuiltins == CharClassFns \cup {"digit_value", "char_to_lower", "char_to_upper",
                                  "cast_int", "cast_bool", "cast_string", "to_string",
                                  "array_new", "array_slice", "array_remove_at"}
               \cup ListFns("list_int") \cup ListFns("list_string")
\* functions NanoSem.tla specifies itself on part of their domain and NanoLib specifies completely; LibApply accepts them
\* (the case table of NanoLibTable.tla goes through LibApply), NanoSem's own arm takes precedence inside programs
LibOverrides == {"string_to_int"}

ListApply(p, et, name, vs, store) ==       \* "List Operations (Dynamic Lists)": List<int> (et = "int"), List<string> (et = "str")
   LET n == Len(vs)
       op == SubSeq(name, Len(p) + 2, Len(name))
       isl == n >= 1 /\ vs[1].t = "list" /\ vs[1].s = et
       cell == store[vs[1].r]
       dead == cell = <<VFreed>> IN
   IF op = "new" THEN
        IF n # 0 THEN LF("stuck:arity", store) ELSE LR(VList(Len(store) + 1, et), Append(store, <<>>))
   ELSE IF op = "with_capacity" THEN       \* an empty list; the capacity is a performance hint that no operation shows
        IF n # 1 \/ vs[1].t # "int" THEN LF("stuck:type", store)
        ELSE IF I64IsNeg(vs[1].i) \/ ~I64IsSmall(vs[1].i) THEN LF("unspecified:list-capacity", store)
        ELSE LR(VList(Len(store) + 1, et), Append(store, <<>>))
   ELSE IF ~isl THEN LF("stuck:type", store)
   ELSE IF dead THEN LF("unspecified:list-use-after-free", store)        \* "I will not allow you to use the list after it is freed"
   ELSE IF op = "push" THEN
        IF n # 2 \/ vs[2].t # et THEN LF("stuck:type", store) ELSE LR(VVoid, [store EXCEPT ![vs[1].r] = Append(@, vs[2])])
   ELSE IF op = "pop" THEN
        \* STDLIB: "or 0 if the list is empty"; native, NanoVM (where present) and the evaluator all stop with an error, as
        \* ARRAY_SAFETY demands for arrays (fail fast): INFERRED fault, see notes/LIB.md "documents against all engines"
        IF n # 1 THEN LF("stuck:arity", store)
        ELSE IF Len(cell) = 0 THEN LF("fault:bounds", store)
        ELSE LR(cell[Len(cell)], [store EXCEPT ![vs[1].r] = SubSeq(cell, 1, Len(cell) - 1)])
   ELSE IF op = "get" THEN                 \* STDLIB: "or 0 if it is out of bounds": as for pop, every engine stops (INFERRED fault)
        IF n # 2 \/ vs[2].t # "int" THEN LF("stuck:type", store)
        ELSE IF Pos(vs[2].i, Len(cell)) = 0 THEN LF("fault:bounds", store) ELSE LR(cell[Pos(vs[2].i, Len(cell))], store)
   ELSE IF op = "set" THEN                 \* "I require the index to be valid"
        IF n # 3 \/ vs[2].t # "int" \/ vs[3].t # et THEN LF("stuck:type", store)
        ELSE IF Pos(vs[2].i, Len(cell)) = 0 THEN LF("fault:bounds", store)
        ELSE LR(VVoid, [store EXCEPT ![vs[1].r][Pos(vs[2].i, Len(cell))] = vs[3]])
   ELSE IF op = "insert" THEN              \* "insert a value at the index and shift elements to the right"; index = length appends (INFERRED)
        IF n # 3 \/ vs[2].t # "int" \/ vs[3].t # et THEN LF("stuck:type", store)
        ELSE IF Pos(vs[2].i, Len(cell) + 1) = 0 THEN LF("fault:bounds", store)
        ELSE LR(VVoid, [store EXCEPT ![vs[1].r] = InsertAt(cell, Pos(vs[2].i, Len(cell) + 1), vs[3])])
   ELSE IF op = "remove" THEN              \* "remove the element at the index and shift elements to the left" (-> void)
        IF n # 2 \/ vs[2].t # "int" THEN LF("stuck:type", store)
        ELSE IF Pos(vs[2].i, Len(cell)) = 0 THEN LF("fault:bounds", store)
        ELSE LR(VVoid, [store EXCEPT ![vs[1].r] = RemoveAt(cell, Pos(vs[2].i, Len(cell)))])
   ELSE IF op = "length" THEN
        IF n # 1 THEN LF("stuck:arity", store) ELSE LR(VInt(I64FromNat(Len(cell))), store)
   ELSE IF op = "is_empty" THEN
        IF n # 1 THEN LF("stuck:arity", store) ELSE LR(VBool(Len(cell) = 0), store)
   ELSE IF op = "capacity" THEN            \* "the allocated capacity": any number >= the length
        IF n # 1 THEN LF("stuck:arity", store) ELSE LF("unspecified:list-capacity", store)
   ELSE IF op = "clear" THEN
        IF n # 1 THEN LF("stuck:arity", store) ELSE LR(VVoid, [store EXCEPT ![vs[1].r] = <<>>])
   ELSE IF op = "free" THEN
        IF n # 1 THEN LF("stuck:arity", store) ELSE LR(VVoid, [store EXCEPT ![vs[1].r] = <<VFreed>>])
   ELSE LF("stuck:builtin", store)

LibApply(name, vs, store) ==
   LET n == Len(vs) IN
   CASE name \in CharClassFns ->
            IF n # 1 \/ vs[1].t # "int" THEN LF("stuck:type", store) ELSE LR(VBool(CharClass(name, vs[1].i)), store)
     [] name = "digit_value" ->
            IF n # 1 \/ vs[1].t # "int" THEN LF("stuck:type", store) ELSE LR(VInt(DigitValue(vs[1].i)), store)
     [] name = "char_to_lower" ->
            IF n # 1 \/ vs[1].t # "int" THEN LF("stuck:type", store) ELSE LR(VInt(ToLower(vs[1].i)), store)
     [] name = "char_to_upper" ->
            IF n # 1 \/ vs[1].t # "int" THEN LF("stuck:type", store) ELSE LR(VInt(ToUpper(vs[1].i)), store)
     \* "Type Conversion (10)": cast_int "truncate floats and parse strings"; an int is unchanged, true is 1 and false 0 (INFERRED)
     [] name = "cast_int" ->
            IF n # 1 THEN LF("stuck:arity", store)
            ELSE IF vs[1].t = "int" THEN LR(vs[1], store)
            ELSE IF vs[1].t = "bool" THEN LR(VInt(vs[1].i), store)
            ELSE IF vs[1].t = "str" THEN
                 LET p == Strtoll(vs[1].s) IN
                 IF p.any /\ p.all THEN LR(VInt(p.v), store)                      \* (cast_int "42") = 42
                 ELSE IF ~p.any THEN LR(VInt(I64Zero), store)                     \* INFERRED: no numeral -> 0 (NanoVM, evaluator)
                 ELSE LF("unspecified:cast_int-trailing-text", store)             \* "12abc": 12 on the NanoVM, 0 in the evaluator
            ELSE IF vs[1].t = "float" THEN LF("unspecified:float", store)
            ELSE LF("stuck:type", store)
     \* cast_bool: "I evaluate 0, an empty string, or null as false; everything else becomes true."
     [] name = "cast_bool" ->
            IF n # 1 THEN LF("stuck:arity", store)
            ELSE IF vs[1].t = "bool" THEN LR(vs[1], store)
            ELSE IF vs[1].t = "int" THEN LR(VBool(vs[1].i # I64Zero), store)
            ELSE IF vs[1].t = "str" THEN LR(VBool(vs[1].s # ""), store)
            ELSE IF vs[1].t = "float" THEN LF("unspecified:float", store)
            ELSE LF("stuck:type", store)
     \* cast_string: (cast_string 42) = "42", (cast_string true) = "true"; a string is unchanged (INFERRED).
     \* to_string is not in STDLIB.md; all engines treat it as cast_string (INFERRED)
     [] name \in {"cast_string", "to_string"} ->
            IF n # 1 THEN LF("stuck:arity", store)
            ELSE IF vs[1].t = "int" THEN LR(VStr(Dec(vs[1].i)), store)
            ELSE IF vs[1].t = "bool" THEN LR(VStr(IF IsTrue(vs[1]) THEN "true" ELSE "false"), store)
            ELSE IF vs[1].t = "str" THEN LR(vs[1], store)
            ELSE IF vs[1].t = "float" THEN LF("unspecified:float", store)
            ELSE LF("unspecified:print-composite", store)
     [] name = "string_to_int" ->
            IF n # 1 \/ vs[1].t # "str" THEN LF("stuck:type", store) ELSE LR(VInt(Strtoll(vs[1].s).v), store)
     \* "Array Operations": array_new(size, default) "filled with the default value ... The size must be non-negative.
     \* I will cause an error if you provide a negative size."
     [] name = "array_new" ->
            IF n # 2 \/ vs[1].t # "int" THEN LF("stuck:type", store)
            ELSE IF I64IsNeg(vs[1].i) THEN LF("fault:array_new-negative-size", store)
            ELSE IF ~I64IsSmall(vs[1].i) \/ I64ToInt(vs[1].i) > 65536 THEN LF("unspecified:resource-limit", store)
            ELSE IF ~FirstOrder(vs[2]) THEN LF("unspecified:array_new-composite-default", store)
            ELSE LR(VArr(Len(store) + 1), Append(store, Rep(I64ToInt(vs[1].i), vs[2])))
     \* "Array Advanced Operations": array_slice(arr, start, length) "a sub-array from a portion of an array": a new array,
     \* (array_slice [1,2,3,4,5] 1 3) = [2,3,4].  INFERRED (native and the evaluator; the rule STDLIB states for
     \* str_substring): the portion is clamped to the array.  Negative start or length, and start + length > 2^63 - 1: not specified.
     [] name = "array_slice" ->
            IF n # 3 \/ vs[1].t # "arr" \/ vs[2].t # "int" \/ vs[3].t # "int" THEN LF("stuck:type", store)
            ELSE IF I64IsNeg(vs[2].i) \/ I64IsNeg(vs[3].i) THEN LF("unspecified:array_slice-negative", store)
            \* start + length beyond 2^63 - 1: 0 elements natively, a crash in the evaluator, the rest of the array on the NanoVM
            ELSE IF I64IsNeg(I64Add(vs[2].i, vs[3].i)) THEN LF("unspecified:array_slice-overflow", store)
            ELSE LET a == store[vs[1].r]
                     L == Len(a)
                     s0 == IF ~I64IsSmall(vs[2].i) \/ I64ToInt(vs[2].i) > L THEN L ELSE I64ToInt(vs[2].i)
                     e0 == IF ~I64IsSmall(vs[3].i) \/ I64ToInt(vs[3].i) > L - s0 THEN L ELSE s0 + I64ToInt(vs[3].i) IN
                 LR(VArr(Len(store) + 1), Append(store, SubSeq(a, s0 + 1, e0)))
     \* array_remove_at(arr, index): "remove the element at the index and shift remaining elements"; in place, the array
     \* itself is the result (DYNAMIC_ARRAYS: `set arr (array_remove_at arr 0)`; STDLIB writes the call as a statement);
     \* DYNAMIC_ARRAYS "Bounds Checking: I perform bounds checking on all array operations at runtime"
     [] name = "array_remove_at" ->
            IF n # 2 \/ vs[1].t # "arr" \/ vs[2].t # "int" THEN LF("stuck:type", store)
            ELSE LET a == store[vs[1].r] p == Pos(vs[2].i, Len(store[vs[1].r])) IN
                 IF p = 0 THEN LF("fault:bounds", store)
                 ELSE LR(vs[1], [store EXCEPT ![vs[1].r] = RemoveAt(a, p)])
     [] name \in ListFns("list_int") -> ListApply("list_int", "int", name, vs, store)
     [] name \in ListFns("list_string") -> ListApply("list_string", "str", name, vs, store)
     [] OTHER -> LF("stuck:builtin", store)

\* ------------------------------------------------------------ deviations
\* What one engine of the unchanged tree does where it leaves the specification above (known_findings.d/LIB.json).  Used only
\* to attribute an observed mismatch to a *listed* finding: a run is excused by a switch only if it shows exactly the result
\* below.  LibDev(sw, ...) = LibApply(...) wherever the switch does not apply.
U32(l) == <<0, 0, l[3], l[4]>>                                               \* (uint32_t) of a 64-bit value
S32(l) == IF l[3] >= 32768 THEN <<65535, 65535, l[3], l[4]>> ELSE <<0, 0, l[3], l[4]>>     \* (int) of a 64-bit value
LibSwitches == {"VM_SLICE_START_END", "VM_REMOVE_AT_UNCHECKED", "INTERP_CHAR_ARG_32BIT", "LIST_INDEX_32BIT", "VM_CAST_BOOL_STRING_TRUE",
                "INTERP_CAST_BOOL_STRING_LITERAL", "ARRAY_NEW_NEGATIVE_EMPTY"}
LibDev(sw, name, vs, store) ==
   LET n == Len(vs) IN
   CASE sw = "VM_SLICE_START_END" /\ name = "array_slice" /\ n = 3 /\ vs[1].t = "arr" /\ vs[2].t = "int" /\ vs[3].t = "int" ->
            \* vm.c OP_ARR_SLICE: (uint32_t) start, (uint32_t) end - the third argument is read as the end index
            LET a == store[vs[1].r]
                s0 == IF I64IsSmall(U32(vs[2].i)) /\ I64ToInt(U32(vs[2].i)) < Len(a) THEN I64ToInt(U32(vs[2].i)) ELSE Len(a)
                e0 == IF I64IsSmall(U32(vs[3].i)) /\ I64ToInt(U32(vs[3].i)) < Len(a) THEN I64ToInt(U32(vs[3].i)) ELSE Len(a) IN
            LR(VArr(Len(store) + 1), Append(store, IF s0 < e0 THEN SubSeq(a, s0 + 1, e0) ELSE <<>>))
     [] sw = "VM_REMOVE_AT_UNCHECKED" /\ name = "array_remove_at" /\ n = 2 /\ vs[1].t = "arr" /\ vs[2].t = "int" ->
            \* vm.c OP_ARR_REMOVE: (uint32_t) index, an index >= length is ignored
            LET a == store[vs[1].r] p == Pos(U32(vs[2].i), Len(store[vs[1].r])) IN
            IF p = 0 THEN LR(vs[1], store) ELSE LR(vs[1], [store EXCEPT ![vs[1].r] = RemoveAt(a, p)])
     [] sw = "INTERP_CHAR_ARG_32BIT" /\ name \in CharClassFns \cup {"digit_value", "char_to_lower", "char_to_upper"} /\ n = 1 /\ vs[1].t = "int" ->
            \* eval.c: `int c = (int)args[0].as.int_val;` and the result is computed from (and, for the mappings, is) c
            LibApply(name, <<VInt(S32(vs[1].i))>>, store)
     [] sw = "LIST_INDEX_32BIT" /\ name \in {"list_int_get", "list_int_set", "list_int_insert", "list_int_remove",
                                              "list_string_get", "list_string_set", "list_string_insert", "list_string_remove"} /\ n >= 2 /\ vs[2].t = "int" ->
            \* runtime/list_int.c, list_string.c: `int index` parameters
            LibApply(name, [vs EXCEPT ![2] = VInt(S32(vs[2].i))], store)
     [] sw = "VM_CAST_BOOL_STRING_TRUE" /\ name = "cast_bool" /\ n = 1 /\ vs[1].t = "str" -> LR(VBool(TRUE), store)
     [] sw = "INTERP_CAST_BOOL_STRING_LITERAL" /\ name = "cast_bool" /\ n = 1 /\ vs[1].t = "str" -> LR(VBool(vs[1].s \in {"true", "1"}), store)
     [] sw = "ARRAY_NEW_NEGATIVE_EMPTY" /\ name = "array_new" /\ n = 2 /\ vs[1].t = "int" /\ I64IsNeg(vs[1].i) /\ FirstOrder(vs[2]) ->
            LR(VArr(Len(store) + 1), Append(store, <<>>))              \* native, NanoVM: an empty array (the evaluator: void, see LIB.json)
     [] OTHER -> LibApply(name, vs, store)
====
