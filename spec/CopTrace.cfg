INIT TInit
NEXT TNext
INVARIANT NotAccepted
CONSTRAINT Reached
POSTCONDITION Report
