SPECIFICATION Spec
INVARIANT DepthBound
INVARIANT CacheOnce
CONSTANTS
  Dev = {"IMPORT_CYCLE_UNCHECKED"}
  Specials = {}
  MaxEdges = 2
