\* scenario generator for C17: initial states only (module assignments x arrival schedules), printed as JSON
INIT Init
NEXT GenNext
CONSTANTS
  N = 3
  Suite = "c17"
  Verify = TRUE
  CrcModel = "atomic"
  IgnoreSigpipe = TRUE
  Cap = 2
  Buffered = TRUE
  Gaps = "all"
  DropExit = FALSE
  FlushOnErr = TRUE
  KeepData = TRUE
  ExternalProg <- NoExternal
  Emit = TRUE
