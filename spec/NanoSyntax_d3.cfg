SPECIFICATION Spec
INVARIANT Unambiguous
CONSTANTS
  Family = "d3"
  IntAtoms = {"a"}
  BoolAtoms = {"u"}
  Emit = FALSE
  CombSizes = {}
  Forms = {"fld", "tix", "chain", "call"}
