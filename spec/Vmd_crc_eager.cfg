\* The repair: table initialised before the accept loop. NoCrcRace holds.
SPECIFICATION Spec
CONSTANTS
  N = 3
  Suite = "crc"
  Verify = TRUE
  CrcModel = "eager"
  IgnoreSigpipe = TRUE
  Cap = 2
  Buffered = TRUE
  Gaps = "overlap"
  DropExit = FALSE
  FlushOnErr = TRUE
  KeepData = TRUE
  ExternalProg <- NoExternal
  Emit = FALSE
INVARIANTS TypeOK Isolation Transparency Available NoCrcRace
