SPECIFICATION Spec
INVARIANT CursorTypeOK
PROPERTY Progress
PROPERTY Variant
CONSTANTS
  Mode = "cursor"
  MaxLen = 5
  Alphabet = {"(", ")", "{", "}", "id", "num", "op", "else", "fn", "shadow", "let", "assert", ","}
  Dev = {}
  Fuel = 0
  MaxMuts = 0
