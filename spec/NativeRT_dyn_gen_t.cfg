\* C20 / NativeRT.tla -- thorough: generation over more initial lengths / capacities (second doubling 16 -> 32, with_capacity)
\* The constants InitialCapacity and Growth are NOT in this file: harness/props/c20.py extracts them
\* from src/runtime/{dyn_array,list_int,list_string}.c and appends them (for a manual run add
\*   CONSTANTS InitialCapacity = 8  Growth = 2).
SPECIFICATION Spec
VIEW ShapeView
CONSTANTS
  Family = "dyn"
  Kinds = {"int", "struct"}
  Prefills = {0, 1, 7, 8, 15, 16}
  InitCaps = {0, 103, 120}
  Vals = {1, 2}
  MaxLen = 6
  MaxObj = 1
  EmitMode = "edge"
  StopAtDev = TRUE
  AllowAbort = TRUE
  AllowDev = TRUE
INVARIANTS TypeOK LenLeCap CapFloor
PROPERTIES SeqLawProp CapLawProp CloneProp
