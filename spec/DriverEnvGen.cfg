\* C19: configuration lattice + covering walks.  The constant Start (tie-breaking seed) is appended
\* by harness/props/c19.py (VERIF_SEED); for a manual run add  CONSTANTS Start = 1
SPECIFICATION Spec
CONSTANTS
  Cwds = {"src", "sub", "far"}
  Tmps = {"t1", "t2"}
  Envs = {"none", "extra"}
  Aslrs = {"on", "off"}
  Perturbs = {"0", "85", "170"}
  Invs = {"rel", "abs"}
  Decoys = {"no", "yes"}
  MaxWalk = 6
INVARIANT TypeOK
PROPERTY ArtifactStable
