\* C10 runners, no deviation: the three runners follow the prescription (model-checked).
\* Programs comes from the generated root module NvmRun_MC; Dev is appended by harness/props/c10.py.
SPECIFICATION Spec
CONSTANTS
  Programs <- MC_Programs
INVARIANTS
  SameAsPrescribed
  ExitIsByte
