---- MODULE VmdTrace ----
\* Trace validation for C17/C18: the H4 session events of a real nano_vmd (hooks/h4-vmd.patch), merged by the
\* global counter taken under g_client_count_mutex, are replayed through the *same* server-step operators
\* (S_Accept S_Enter S_RecvHdr S_RecvPayload S_Deser S_Verify S_ExecStep S_Flush S_ExecEnd S_SendErr S_SendRtErr
\* S_SendExit S_Pong S_StatusRead S_StatusSend S_CloseFd S_Cleanup) that Vmd.tla model-checks.  Nothing is restated:
\* an event is accepted iff the corresponding operator is enabled with the logged input and produces the logged
\* output.  What this checks on the implementation:
\*   * every frame is written on the socket of the session whose thread writes it (fd of the event = fd of the
\*     session), and its bytes are exactly the next bytes of the standalone output of *that session's* module;
\*   * the run-time error text and the exit code sent are the standalone ones; nothing is sent after the exit frame;
\*   * a module the standalone verifier refuses is never executed (Verify = TRUE);
\*   * g_active_clients is what the model says after every enter / cleanup, and back to 0 at the end of a round.
\* The trace file (ndjson, env TRACE) is a concatenation of rounds separated by {"e":"Reset"}; session numbers are
\* renumbered 1..N per round by the harness; the module table (env MODS) maps payload hashes to the observation
\* of the real `nano_vm x.nvm` (hex), measured by the harness.
EXTENDS Vmd, IOUtils

TraceLog == ndJsonDeserialize(IOEnv.TRACE)
ModTable == ndJsonDeserialize(IOEnv.MODS)       \* records [h, cls, out, err, exit]; out/err as hex strings
MAXPAY   == atoi(IOEnv.MAXPAY)                  \* VMD_MAX_PAYLOAD, extracted from the header by the harness
T_EXEC   == atoi(IOEnv.T_EXEC)
T_PING   == atoi(IOEnv.T_PING)
T_STATUS == atoi(IOEnv.T_STATUS)
T_PONG   == atoi(IOEnv.T_PONG)

HashKey(h) == "h" \o ToString(h)
Known(h)  == \E j \in 1 .. Len(ModTable) : ModTable[j].h = h
Entry(h)  == ModTable[CHOOSE j \in 1 .. Len(ModTable) : ModTable[j].h = h]
ClassOf(h) == IF Known(h) THEN Entry(h).cls ELSE "junk"
RECURSIVE KeyIndex(_, _)
KeyIndex(k, j) == IF j > Len(ModTable) THEN 0 ELSE IF HashKey(ModTable[j].h) = k THEN j ELSE KeyIndex(k, j + 1)
\* substituted for ExternalProg in the configuration
TraceProg(m) == LET j == KeyIndex(m, 1) IN
                IF j = 0 THEN [out |-> "", err |-> "", exit |-> 0]
                ELSE [out |-> ModTable[j].out, err |-> ModTable[j].err, exit |-> ModTable[j].exit]

VARIABLES i, fdof
tvars == <<i, fdof>>

Ev == TraceLog[i]
IsEv(name) == i <= Len(TraceLog) /\ Ev.e = name
Sess == Ev.s                                    \* session number of the current event (1 .. N within its round)
Consume == i' = i + 1
Silent  == i' = i
ClientsUnchanged == UNCHANGED <<cst, c2s, copen, nrecv, kind, order, gap>>

InitVals ==
    /\ kind = [c \in Clients |-> "trace"] /\ mod = [c \in Clients |-> "zero"] /\ order = <<>>
    /\ gap = [j \in 1 .. N - 1 |-> "overlap"]
    /\ cst = [c \in Clients |-> "init"] /\ c2s = [c \in Clients |-> <<>>]
    /\ copen = [c \in Clients |-> FALSE] /\ nrecv = [c \in Clients |-> 0]
    /\ sst = [c \in Clients |-> "none"] /\ rpos = [c \in Clients |-> 0] /\ loaded = [c \in Clients |-> "-"]
    /\ pos = [c \in Clients |-> 0] /\ flushed = [c \in Clients |-> 0]
    /\ sent = [c \in Clients |-> <<>>] /\ ndel = [c \in Clients |-> 0] /\ sopen = [c \in Clients |-> FALSE]
    /\ stat = [c \in Clients |-> 0] /\ up = TRUE /\ active = 0
    /\ crcflag = TRUE /\ crcpc = [c \in Clients |-> "idle"]
    /\ fdof = [c \in Clients |-> -1]
TraceInit == InitVals /\ i = 1

TypeName(t) == IF t = T_EXEC THEN "exec" ELSE IF t = T_PING THEN "ping" ELSE IF t = T_STATUS THEN "status" ELSE "unknown"
LenClass(n) == IF n = 0 THEN "zero" ELSE IF n <= MAXPAY THEN "n" ELSE "over"
OwnFd == Ev.fd = fdof[Sess]                     \* "no frame is written to another session's socket"
Ok == Ev.ok = 1
HexLen == 2 * Ev.len

TrAccept == /\ IsEv("accept") /\ S_Accept(Sess)
            /\ \A d \in Clients : sopen[d] => fdof[d] # Ev.fd          \* the kernel never hands out an fd that is still open
            /\ fdof' = [fdof EXCEPT ![Sess] = Ev.fd] /\ Consume /\ UNCHANGED mod /\ ClientsUnchanged
TrEnter  == /\ IsEv("enter") /\ OwnFd /\ S_Enter(Sess) /\ active' = Ev.active
            /\ Consume /\ UNCHANGED <<fdof, mod>> /\ ClientsUnchanged
TrHdr    == /\ IsEv("hdr") /\ OwnFd /\ S_RecvHdr(Sess, Hdr("ok", TypeName(Ev.type), LenClass(Ev.len)))
            /\ Consume /\ UNCHANGED <<fdof, mod>> /\ ClientsUnchanged
TrHdrFail == /\ IsEv("hdr_fail") /\ OwnFd /\ S_RecvHdr(Sess, Eof)
             /\ Consume /\ UNCHANGED <<fdof, mod>> /\ ClientsUnchanged
TrPayload == /\ IsEv("payload_ok") /\ OwnFd /\ S_RecvPayload(Sess, Pay(ClassOf(Ev.h), "all"))
             /\ mod' = [mod EXCEPT ![Sess] = HashKey(Ev.h)]
             /\ Consume /\ UNCHANGED fdof /\ ClientsUnchanged
TrPayloadFail == /\ IsEv("payload_fail") /\ OwnFd /\ S_RecvPayload(Sess, Eof)
                 /\ Consume /\ UNCHANGED <<fdof, mod>> /\ ClientsUnchanged
TrDeser  == /\ (IsEv("deser_ok") \/ IsEv("deser_fail")) /\ S_Deser(Sess, Ev.e = "deser_ok")
            /\ Consume /\ UNCHANGED <<fdof, mod>> /\ ClientsUnchanged
\* exec_begin: the module passed the verification gate (at HEAD there is none: the event follows deser_ok at once)
TrExecBegin == /\ IsEv("exec_begin") /\ S_Verify(Sess) /\ sst'[Sess] = "exec"
               /\ Consume /\ UNCHANGED <<fdof, mod>> /\ ClientsUnchanged
\* one OUTPUT frame = the program printed Ev.len more bytes (silent step) + one write of exactly those bytes
TrFrameProduce == /\ IsEv("frame_out") /\ sst[Sess] = "exec" /\ flushed[Sess] = pos[Sess]
                  /\ S_ExecStep(Sess, HexLen)
                  /\ Silent /\ UNCHANGED <<fdof, mod>> /\ ClientsUnchanged
TrFrameWrite == /\ IsEv("frame_out") /\ OwnFd /\ flushed[Sess] < pos[Sess]
                /\ pos[Sess] - flushed[Sess] = HexLen
                /\ SubSeq(ProgOf(Sess).out, flushed[Sess] + 1, pos[Sess]) = Ev.hex
                /\ S_Flush(Sess, Ok)
                /\ Consume /\ UNCHANGED <<fdof, mod>> /\ ClientsUnchanged
\* vm_execute returned: everything the program prints has been produced (part of it may still sit in the stdio buffer)
TrExecEndProduce == /\ IsEv("exec_end") /\ sst[Sess] = "exec" /\ pos[Sess] < Len(ProgOf(Sess).out) /\ flushed[Sess] = pos[Sess]
                    /\ S_ExecStep(Sess, Len(ProgOf(Sess).out) - pos[Sess])
                    /\ Silent /\ UNCHANGED <<fdof, mod>> /\ ClientsUnchanged
TrExecEnd == /\ IsEv("exec_end") /\ S_ExecEnd(Sess) /\ ((Ev.result = 0) <=> (ProgOf(Sess).err = ""))
             /\ Consume /\ UNCHANGED <<fdof, mod>> /\ ClientsUnchanged
TrVerifyFail == /\ IsEv("err_sent") /\ sst[Sess] = "verify" /\ S_Verify(Sess) /\ sst'[Sess] = "err_verify"
                /\ Silent /\ UNCHANGED <<fdof, mod>> /\ ClientsUnchanged
TrErr    == /\ IsEv("err_sent") /\ OwnFd /\ S_SendErr(Sess, Ok)
            /\ Consume /\ UNCHANGED <<fdof, mod>> /\ ClientsUnchanged
TrRtErr  == /\ IsEv("err_sent") /\ OwnFd /\ Ev.hex = ProgOf(Sess).err /\ S_SendRtErr(Sess, Ok)
            /\ Consume /\ UNCHANGED <<fdof, mod>> /\ ClientsUnchanged
TrExit   == /\ IsEv("exit_sent") /\ OwnFd /\ Ev.code = ExitCode(Sess) /\ S_SendExit(Sess, Ok)
            /\ Consume /\ UNCHANGED <<fdof, mod>> /\ ClientsUnchanged
TrPong   == /\ IsEv("simple_sent") /\ OwnFd /\ Ev.type = T_PONG /\ S_Pong(Sess, Ok)
            /\ Consume /\ UNCHANGED <<fdof, mod>> /\ ClientsUnchanged
\* STATUS: the value was read under the mutex some time before the send that is logged
TrStatusRead == /\ IsEv("status_sent") /\ sst[Sess] = "status_read" /\ S_StatusRead(Sess, Ev.n)
                /\ Silent /\ UNCHANGED <<fdof, mod>> /\ ClientsUnchanged
TrStatusSend == /\ IsEv("status_sent") /\ OwnFd /\ S_StatusSend(Sess, Ok)
                /\ Consume /\ UNCHANGED <<fdof, mod>> /\ ClientsUnchanged
TrClose  == /\ IsEv("close") /\ OwnFd /\ S_CloseFd(Sess)
            /\ Consume /\ UNCHANGED <<fdof, mod>> /\ ClientsUnchanged
TrCleanup == /\ IsEv("cleanup") /\ S_Cleanup(Sess) /\ active' = Ev.active
             /\ Consume /\ UNCHANGED <<fdof, mod>> /\ ClientsUnchanged

\* Deviation switch VMD_NO_VERIFY (Verify = FALSE, finding F16): a hostile module is being executed; the behaviour
\* of that session is undefined from here on - its events are skipped, and the process may be gone afterwards.
Undefined(c) == ~Verify /\ sst[c] = "exec" /\ loaded[c] = "hostile"
TrUndefined == /\ i <= Len(TraceLog) /\ Ev.e \notin {"Reset", "accept", "close", "cleanup"} /\ Undefined(Sess)
               /\ Consume /\ UNCHANGED <<vars, fdof>>
\* ... but if the process survives, the session still gives its fd back and is still counted out
TrUndefClose == /\ IsEv("close") /\ Undefined(Sess) /\ OwnFd /\ sopen[Sess]
                /\ sopen' = [sopen EXCEPT ![Sess] = FALSE] /\ Consume
                /\ UNCHANGED <<scenvars, clientvars, sst, rpos, loaded, pos, flushed, sent, ndel, stat, up, active, crcflag, crcpc, fdof>>
TrUndefCleanup == /\ IsEv("cleanup") /\ Undefined(Sess) /\ ~sopen[Sess]
                  /\ sst' = [sst EXCEPT ![Sess] = "done"] /\ active' = active - 1 /\ active' = Ev.active /\ Consume
                  /\ UNCHANGED <<scenvars, clientvars, rpos, loaded, pos, flushed, sent, ndel, sopen, stat, up, crcflag, crcpc, fdof>>

\* end of a round: every session has been cleaned up and the counter is back to zero (unless the process died)
Quiescent == (active = 0 /\ \A c \in Clients : sst[c] \in {"none", "done"}) \/ (\E c \in Clients : Undefined(c))
AllPrimed == /\ kind' = [c \in Clients |-> "trace"] /\ mod' = [c \in Clients |-> "zero"] /\ order' = <<>>
             /\ gap' = [j \in 1 .. N - 1 |-> "overlap"]
             /\ cst' = [c \in Clients |-> "init"] /\ c2s' = [c \in Clients |-> <<>>]
             /\ copen' = [c \in Clients |-> FALSE] /\ nrecv' = [c \in Clients |-> 0]
             /\ sst' = [c \in Clients |-> "none"] /\ rpos' = [c \in Clients |-> 0] /\ loaded' = [c \in Clients |-> "-"]
             /\ pos' = [c \in Clients |-> 0] /\ flushed' = [c \in Clients |-> 0]
             /\ sent' = [c \in Clients |-> <<>>] /\ ndel' = [c \in Clients |-> 0] /\ sopen' = [c \in Clients |-> FALSE]
             /\ stat' = [c \in Clients |-> 0] /\ up' = TRUE /\ active' = 0
             /\ crcflag' = TRUE /\ crcpc' = [c \in Clients |-> "idle"]
             /\ fdof' = [c \in Clients |-> -1]
TrReset  == IsEv("Reset") /\ Quiescent /\ AllPrimed /\ Consume
TrDone   == i > Len(TraceLog) /\ UNCHANGED <<vars, tvars>>        \* accepted: stutter (anything else is a deadlock)

TraceNext == \/ TrAccept \/ TrEnter \/ TrHdr \/ TrHdrFail \/ TrPayload \/ TrPayloadFail \/ TrDeser \/ TrExecBegin
             \/ TrFrameProduce \/ TrFrameWrite \/ TrExecEndProduce \/ TrExecEnd \/ TrVerifyFail \/ TrErr \/ TrRtErr
             \/ TrExit \/ TrPong \/ TrStatusRead \/ TrStatusSend \/ TrClose \/ TrCleanup
             \/ TrUndefined \/ TrUndefClose \/ TrUndefCleanup
             \/ TrReset \/ TrDone
TraceSpec == TraceInit /\ [][TraceNext]_<<vars, tvars>>

\* invariants evaluated in every state of the replayed run
TraceActiveOK == active = Cardinality({c \in Clients : sst[c] \in Entered})
TraceStatusOK == \A c \in Clients : \A j \in 1 .. Len(sent[c]) : sent[c][j].t = "status" => (sent[c][j].code >= 1 /\ sent[c][j].code <= N)
TraceOwner    == \A c \in Clients : \A j \in 1 .. Len(sent[c]) : sent[c][j].owner = c
TraceNoFrameAfterExit == \A c \in Clients : \A j \in 1 .. Len(sent[c]) - 1 : sent[c][j].t # "exit"
====
