\* C20 / NativeRT.tla -- thorough: ALL histories of <= 3 steps over more initial lengths and both values
\* The constants InitialCapacity and Growth are NOT in this file: harness/props/c20.py extracts them
\* from src/runtime/{dyn_array,list_int,list_string}.c and appends them (for a manual run add
\*   CONSTANTS InitialCapacity = 8  Growth = 2).
SPECIFICATION Spec

CONSTANTS
  Family = "dyn"
  Kinds = {"int", "struct"}
  Prefills = {0, 7, 8}
  InitCaps = {0}
  Vals = {1, 2}
  MaxLen = 3
  MaxObj = 1
  EmitMode = "final"
  StopAtDev = TRUE
  AllowAbort = TRUE
  AllowDev = TRUE
INVARIANTS TypeOK LenLeCap CapFloor
PROPERTIES SeqLawProp CapLawProp CloneProp
