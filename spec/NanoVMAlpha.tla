---- MODULE NanoVMAlpha ----
(***************************************************************************)
(* C14, model-checking half: "alphabet mode".  At every step any           *)
(* instruction of the alphabet whose operands are available (as verified,  *)
(* type-checked code guarantees) may execute; TLC explores every reachable *)
(* configuration within the bounds and checks that the ownership           *)
(* conventions of NanoVM!Do keep RcInv, NoDangling and FreeOnce.  Bug      *)
(* switches remove one retain/release to show that the invariants are not  *)
(* vacuous (they are violated within a few hundred states).                *)
(***************************************************************************)
EXTENDS NanoVM
CONSTANTS MaxStack, MaxObjs, MaxSteps, MaxFrames, Bug
VARIABLES S, nextid, steps, freed, held, last
vars == <<S, nextid, steps, freed, held, last>>

Init == /\ S = [stack |-> <<0, 0>>, frames |-> <<[base |-> 0, nloc |-> 2, clo |-> 0]>>, globals |-> <<0>>, heap |-> <<>>]
        /\ nextid = 1 /\ steps = 0 /\ freed = {} /\ held = 0 /\ last = "init"

\* an instruction of the alphabet: [op, a, aux, c]  (c: content key for PUSH_STR)
I(op, a, aux, c) == [op |-> op, a |-> a, aux |-> aux, c |-> c]
Alphabet ==
   {I("PUSH_STR", <<0>>, 0, c) : c \in {1, 2}} \cup {I("PUSH_I64", <<>>, 0, 0)}
   \cup {I("ARR_LITERAL", <<7, n>>, 0, 0) : n \in {0, 1, 2}}
   \cup {I(op, <<>>, 0, 0) : op \in {"DUP", "POP", "SWAP", "ROT3", "ARR_PUSH", "ARR_POP", "ARR_LEN", "EQ", "ADD", "RET", "CALL_INDIRECT", "PRINT"}}
   \cup {I(op, <<k>>, 0, 0) : op \in {"LOAD_LOCAL", "STORE_LOCAL"}, k \in {0, 1}}
   \cup {I(op, <<0>>, 0, 0) : op \in {"LOAD_GLOBAL", "STORE_GLOBAL"}}
   \cup {I("ARR_GET", <<>>, k, 0) : k \in {0, 1}} \cup {I("ARR_SET", <<>>, 0, 0)}
   \cup {I("STRUCT_LITERAL", <<0, 2>>, 0, 0), I("TUPLE_NEW", <<2>>, 0, 0), I("UNION_CONSTRUCT", <<0, 0, 1>>, 0, 0)}
   \cup {I("STRUCT_GET", <<k>>, 0, 0) : k \in {0, 1}} \cup {I("TUPLE_GET", <<1>>, 0, 0), I("UNION_FIELD", <<0>>, 0, 0)}
   \cup {I("CLOSURE_NEW", <<0, n>>, 0, 0) : n \in {0, 1}} \cup {I("LOAD_UPVALUE", <<0, 0>>, 0, 0)}
   \cup {I("CALL", <<0>>, 1 * 65536 + 2, 0)}

Kind(v) == KindOf(S, v)
\* operands available and of the type the type checker / verifier guarantee
Enabled1(i) ==
   LET n == SLen(S)  base == Frame(S).base  nloc == Frame(S).nloc  above == n - (base + nloc) IN   \* operands above the locals
   CASE i.op \in {"PUSH_STR", "PUSH_I64", "LOAD_LOCAL", "LOAD_GLOBAL", "LOAD_UPVALUE"} -> n < MaxStack
     [] i.op = "ARR_LITERAL" -> above >= i.a[2]
     [] i.op = "CLOSURE_NEW" -> above >= i.a[2]
     [] i.op \in {"STRUCT_LITERAL", "TUPLE_NEW"} -> above >= 2
     [] i.op = "UNION_CONSTRUCT" -> above >= 1
     [] i.op = "DUP" -> above >= 1 /\ n < MaxStack
     [] i.op \in {"POP", "STORE_LOCAL", "STORE_GLOBAL", "PRINT"} -> above >= 1 /\ (i.op = "PRINT" => held = 0)
     [] i.op = "SWAP" -> above >= 2
     [] i.op = "ROT3" -> above >= 3
     [] i.op = "ARR_PUSH" -> above >= 2 /\ Kind(Peek(S, 1)) = KArr /\ Len(S.heap[Peek(S, 1)].kids) < 2
     [] i.op \in {"ARR_POP", "ARR_LEN"} -> above >= 1 /\ Kind(Top(S)) = KArr /\ (i.op = "ARR_POP" => Len(S.heap[Top(S)].kids) > 0 /\ n < MaxStack)
     [] i.op = "ARR_GET" -> above >= 2 /\ Top(S) = 0 /\ Kind(Peek(S, 1)) = KArr /\ i.aux < Len(S.heap[Peek(S, 1)].kids)
     [] i.op = "ARR_SET" -> above >= 3 /\ Peek(S, 1) = 0 /\ Kind(Peek(S, 2)) = KArr /\ Len(S.heap[Peek(S, 2)].kids) > 0 /\ Top(S) # Peek(S, 2)
     [] i.op = "EQ" -> above >= 2
     [] i.op = "ADD" -> above >= 2 /\ Kind(Top(S)) = KStr /\ Kind(Peek(S, 1)) = KStr
     [] i.op = "STRUCT_GET" -> above >= 1 /\ Kind(Top(S)) = KStruct
     [] i.op = "TUPLE_GET" -> above >= 1 /\ Kind(Top(S)) = KTuple
     [] i.op = "UNION_FIELD" -> above >= 1 /\ Kind(Top(S)) = KUnion
     [] i.op = "CALL" -> above >= 1 /\ Len(S.frames) < MaxFrames /\ n + 1 <= MaxStack
     [] i.op = "CALL_INDIRECT" -> above >= 2 /\ Kind(Top(S)) = KClosure /\ Len(S.frames) < MaxFrames
     [] i.op = "RET" -> Len(S.frames) > 1
     [] OTHER -> FALSE

\* bug switches: the same instruction with one retain / release removed (vacuity check of the invariants)
Buggy(i, r) ==
   CASE Bug = "dup_no_retain" /\ i.op = "DUP" -> [r EXCEPT !.S.heap = S.heap]
     [] Bug = "load_no_retain" /\ i.op = "LOAD_LOCAL" -> [r EXCEPT !.S.heap = S.heap]
     [] Bug = "get_no_retain" /\ i.op = "STRUCT_GET" ->
           R("ok", Push(WithHeap(PopN(S, 1), Release(S.heap, Top(S))), S.heap[Top(S)].kids[i.a[1] + 1]))
     [] Bug = "store_no_release" /\ i.op = "STORE_LOCAL" -> [r EXCEPT !.S.heap = S.heap]      \* a leak only: invariants must still hold
     [] OTHER -> r

Step(i) ==
   /\ steps < MaxSteps /\ Len(S.frames) >= 1 /\ Enabled1(i)
   /\ LET addc == IF i.op = "ADD" THEN 1 + ((S.heap[Top(S)].c + S.heap[Peek(S, 1)].c) % 2) ELSE i.c     \* content of a concatenation (2 keys)
          same == {o \in DOMAIN S.heap : S.heap[o].k = KStr /\ S.heap[o].c = addc}
          res == IF i.op \in {"PUSH_STR", "ADD"} /\ same # {} THEN CHOOSE o \in same : TRUE ELSE nextid
          isalloc == (i.op \in {"ARR_LITERAL", "STRUCT_LITERAL", "TUPLE_NEW", "UNION_CONSTRUCT", "CLOSURE_NEW"})
                     \/ (i.op \in {"PUSH_STR", "ADD"} /\ same = {})
          aux == IF i.op = "CALL_INDIRECT" THEN 1 * 65536 + 2 ELSE i.aux
          r0 == Do(S, i.op, i.a, aux, nextid, res, addc)
          r == Buggy(i, r0) IN
      /\ r.ok = "ok"
      /\ (isalloc => Cardinality(DOMAIN S.heap) < MaxObjs)
      /\ SLen(r.S) <= MaxStack
      /\ S' = r.S
      /\ nextid' = IF isalloc THEN nextid + 1 ELSE nextid
      /\ freed' = freed \cup (DOMAIN S.heap \ DOMAIN r.S.heap)
      /\ held' = IF i.op = "PRINT" THEN Top(S) ELSE held
      /\ last' = i.op
   /\ steps' = steps + 1
\* the host releases the value of the PRINT trap
HostRel == /\ held # 0 /\ S' = HostRelease(S, held) /\ held' = 0 /\ freed' = freed \cup (DOMAIN S.heap \ DOMAIN S'.heap)
           /\ last' = "host_release" /\ UNCHANGED <<nextid, steps>>
HostRel0 == /\ last = "PRINT" /\ held = 0 /\ last' = "host_release" /\ UNCHANGED <<S, nextid, steps, freed, held>>
Next == (\E i \in Alphabet : Step(i)) \/ HostRel \/ HostRel0
Spec == Init /\ [][Next]_vars

\* a value handed to the host in a trap is still a reference: count it
HeldS == IF held > 0 THEN [S EXCEPT !.stack = Append(@, held)] ELSE S
InvRc == RcInv(HeldS)
InvNoDangling == NoDangling(HeldS)
InvFreeOnce == freed \cap DOMAIN S.heap = {}               \* an id that was freed is never live again
ActFreeOnce == [][freed \subseteq freed']_vars
\* leak freedom of the conventions except the named deviation: without closures every count is exact
ExactWithoutClosures == (\A o \in DOMAIN S.heap : S.heap[o].k # KClosure) => Surplus(HeldS) = {}
====
