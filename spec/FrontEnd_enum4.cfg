SPECIFICATION Spec
CONSTANTS
  Mode = "enum"
  MaxLen = 4
  Alphabet = {"(", ")", "{", "}", "id", "num", "op", "else", "fn", "shadow", "let", "assert", ","}
  Dev = {}
  Fuel = 0
  MaxMuts = 0
