INIT Init
NEXT Next
INVARIANT Stops
CONSTANTS
  MaxDepth = 1024
  MaxLen = 3
