---- MODULE NanoVM ----
(***************************************************************************)
(* The NanoVM (src/nanovm/vm.c, heap.c) at the level property C14 talks    *)
(* about: operand stack with the locals of every frame, call frames,       *)
(* globals, and the reference-counted heap.  A value is                    *)
(*     0     anything that is not a heap reference (int, bool, void, ...)  *)
(*     n > 0 a reference to heap object n                                  *)
(*    -1     a pointer to something that is not a live object (dangling)   *)
(* The state is one record S = [stack, frames, globals, heap]; heap maps   *)
(* object ids to [k (NanoValueTag), c (content key of a string), rc, kids].*)
(*                                                                         *)
(* Do(S, op, a, aux, newid, res, cnew) is the effect of one instruction on *)
(* S, transcribed opcode by opcode from vm_core_execute with the ownership *)
(* conventions of the code (LOAD_* retains, STORE_* releases the old       *)
(* value, containers take over the popped reference, strings are interned  *)
(* by content, release is recursive).  It is used twice: as the transition *)
(* relation of the model checked in "alphabet mode" (NanoVMAlpha.tla) and  *)
(* to judge every step of a trace recorded from the real VM                *)
(* (NanoVMTrace.tla).  Deliberate deviations of the code are modelled as   *)
(* the code behaves and named (none at present; the closure popped by      *)
(* CALL_INDIRECT used to be leaked, see known_findings: F30, fixed).       *)
(***************************************************************************)
EXTENDS Integers, Sequences, FiniteSets, TLC

KStr == 5   KArr == 7   KStruct == 8   KUnion == 10   KClosure == 11   KTuple == 12   KMap == 13
Obj(k, c, rc, kids) == [k |-> k, c |-> c, rc |-> rc, kids |-> kids]

Live(S) == DOMAIN S.heap
IsLive(S, v) == v > 0 /\ v \in DOMAIN S.heap
KindOf(S, v) == IF IsLive(S, v) THEN S.heap[v].k ELSE 0
SLen(S) == Len(S.stack)
Top(S) == S.stack[Len(S.stack)]
Peek(S, n) == S.stack[Len(S.stack) - n]
PopN(S, n) == [S EXCEPT !.stack = SubSeq(@, 1, Len(@) - n)]
Push(S, v) == [S EXCEPT !.stack = Append(@, v)]
WithHeap(S, h) == [S EXCEPT !.heap = h]
Frame(S) == S.frames[Len(S.frames)]

\* ------------------------------------------------------- reference counts
Retain(h, v) == IF v > 0 /\ v \in DOMAIN h THEN [h EXCEPT ![v].rc = @ + 1] ELSE h
RECURSIVE Release(_, _), ReleaseSeq(_, _, _)
Release(h, v) ==
   IF v <= 0 \/ v \notin DOMAIN h THEN h
   ELSE IF h[v].rc = 0 THEN h                          \* heap.c: "already freed or static"
   ELSE IF h[v].rc > 1 THEN [h EXCEPT ![v].rc = @ - 1]
   ELSE ReleaseSeq([i \in (DOMAIN h) \ {v} |-> h[i]], h[v].kids, 1)    \* freed; children released in order
ReleaseSeq(h, vs, i) == IF i > Len(vs) THEN h ELSE ReleaseSeq(Release(h, vs[i]), vs, i + 1)
RECURSIVE ReleaseDown(_, _, _)
ReleaseDown(h, vs, i) == IF i < 1 THEN h ELSE ReleaseDown(Release(h, vs[i]), vs, i - 1)   \* top of stack first (OP_RET)

\* ----------------------------------------------------------- invariants
Occ(seq, id) == Cardinality({i \in 1..Len(seq) : seq[i] = id})
InDeg(S, id) ==
     Occ(S.stack, id) + Occ(S.globals, id)
   + Cardinality({f \in 1..Len(S.frames) : S.frames[f].clo = id})
   + Cardinality(UNION {{<<o, i>> : i \in {j \in 1..Len(S.heap[o].kids) : S.heap[o].kids[j] = id}} : o \in DOMAIN S.heap})
\* every live object is counted at least as often as it is referenced (C14)
RcInv(S) == \A id \in DOMAIN S.heap : S.heap[id].rc >= InDeg(S, id)
AllVals(S) == {S.stack[i] : i \in 1..Len(S.stack)} \cup {S.globals[i] : i \in 1..Len(S.globals)}
              \cup {S.frames[i].clo : i \in 1..Len(S.frames)}
              \cup UNION {{S.heap[o].kids[i] : i \in 1..Len(S.heap[o].kids)} : o \in DOMAIN S.heap}
\* nothing reachable points at a freed object (C14: no dangling value)
NoDangling(S) == \A v \in AllVals(S) : v >= 0 /\ (v > 0 => v \in DOMAIN S.heap)
\* surplus counts are leaks, not unsafety: reported, never a violation by themselves
Surplus(S) == {id \in DOMAIN S.heap : S.heap[id].rc > InDeg(S, id)}

\* ------------------------------------------------------------ instructions
R(ok, S) == [ok |-> ok, S |-> S]
OKs(S) == R("ok", S)
Unmodelled(S) == R("unmodelled", S)
Trap(S) == R("trap", S)

PopRel(S, n) ==      \* pop n operands and release each, top first
   LET vs == SubSeq(S.stack, Len(S.stack) - n + 1, Len(S.stack)) IN WithHeap(PopN(S, n), ReleaseDown(S.heap, vs, n))
ScalarOp(S, n) == IF SLen(S) < n THEN Trap(S) ELSE OKs(Push(PopRel(S, n), 0))

\* an instruction whose result is a string: interned by content, so the result is either a live string that is
\* shared (count + 1) or a new object `res` with content key cnew.  The operands are released afterwards.
StringResult(S, n, res, cnew) ==
   IF SLen(S) < n THEN Trap(S)
   ELSE LET h1 == IF res \in DOMAIN S.heap THEN Retain(S.heap, res) ELSE (res :> Obj(KStr, cnew, 1, <<>>)) @@ S.heap
            vs == SubSeq(S.stack, Len(S.stack) - n + 1, Len(S.stack))
            h2 == ReleaseSeq(h1, vs, 1)                 \* vm.c releases a, then b
        IN OKs(Push(WithHeap(PopN(S, n), h2), res))

\* a container built from the n topmost values: they move into the object (no count changes)
AllocFromStack(S, kind, n, id) ==
   IF SLen(S) < n THEN Trap(S)
   ELSE LET kids == SubSeq(S.stack, Len(S.stack) - n + 1, Len(S.stack)) IN
        OKs(Push(WithHeap(PopN(S, n), (id :> Obj(kind, 0, 1, kids)) @@ S.heap), id))

\* STRUCT_GET / TUPLE_GET / UNION_FIELD k: pop the object, push a retained copy of field k, release the object
FieldGet(S, kind, k) ==
   IF SLen(S) < 1 THEN Trap(S)
   ELSE LET o == Top(S) IN
        IF KindOf(S, o) # kind THEN Trap(WithHeap(PopN(S, 1), Release(S.heap, o)))
        ELSE IF k + 1 > Len(S.heap[o].kids) THEN Trap(WithHeap(PopN(S, 1), Release(S.heap, o)))
        ELSE LET v == S.heap[o].kids[k + 1] IN
             OKs(Push(WithHeap(PopN(S, 1), Release(Retain(S.heap, v), o)), v))

EnterFrame(S, arity, nloc, clo) ==
   IF SLen(S) < arity THEN Trap(S)
   ELSE LET base == SLen(S) - arity
            S1 == [S EXCEPT !.stack = @ \o [i \in 1..(IF nloc > arity THEN nloc - arity ELSE 0) |-> 0],
                            !.frames = Append(@, [base |-> base, nloc |-> nloc, clo |-> clo])] IN OKs(S1)

DoRet(S) ==
   IF Len(S.frames) = 0 THEN Trap(S)
   ELSE LET f == Frame(S)
            hasres == SLen(S) > f.base + f.nloc
            res == IF hasres THEN Top(S) ELSE 0
            S1 == IF hasres THEN PopN(S, 1) ELSE S
            locals == SubSeq(S1.stack, f.base + 1, SLen(S1))
            h == Release(ReleaseDown(S1.heap, locals, Len(locals)), f.clo)     \* the frame owns the closure it was entered through
            S2 == [S1 EXCEPT !.stack = Append(SubSeq(@, 1, f.base), res), !.heap = h,
                             !.frames = SubSeq(@, 1, Len(@) - 1)] IN OKs(S2)

Do(S, op, a, aux, newid, res, cnew) ==
   CASE op \in {"NOP", "DEBUG_LINE", "JMP", "MATCH_TAG", "HALT"} -> OKs(S)
     [] op \in {"PUSH_I64", "PUSH_F64", "PUSH_BOOL", "PUSH_VOID", "PUSH_U8", "ENUM_VAL", "OPAQUE_NULL"} -> OKs(Push(S, 0))
     [] op = "PUSH_STR" -> StringResult(S, 0, res, cnew)
     [] op = "DUP" -> IF SLen(S) < 1 THEN OKs(Push(S, 0)) ELSE OKs(Push(WithHeap(S, Retain(S.heap, Top(S))), Top(S)))
     [] op = "POP" -> IF SLen(S) < 1 THEN OKs(S) ELSE OKs(PopRel(S, 1))
     [] op = "SWAP" -> IF SLen(S) < 2 THEN OKs(S)
                       ELSE OKs([S EXCEPT !.stack = SubSeq(@, 1, Len(@) - 2) \o <<Top(S), Peek(S, 1)>>])
     [] op = "ROT3" -> IF SLen(S) < 3 THEN OKs(S)
                       ELSE OKs([S EXCEPT !.stack = SubSeq(@, 1, Len(@) - 3) \o <<Peek(S, 1), Top(S), Peek(S, 2)>>])
     [] op = "LOAD_LOCAL" ->
          IF Len(S.frames) = 0 \/ Frame(S).base + a[1] + 1 > SLen(S) THEN Trap(S)
          ELSE LET v == S.stack[Frame(S).base + a[1] + 1] IN OKs(Push(WithHeap(S, Retain(S.heap, v)), v))
     [] op = "STORE_LOCAL" ->
          IF Len(S.frames) = 0 \/ Frame(S).base + a[1] + 1 > SLen(S) \/ SLen(S) < 1 THEN Trap(S)
          ELSE LET v == Top(S)
                   S1 == PopN(S, 1)
                   slot == Frame(S).base + a[1] + 1 IN
               IF slot > SLen(S1) THEN Unmodelled(S)      \* the popped operand was the slot itself (never generated)
               ELSE OKs([S1 EXCEPT !.heap = Release(S1.heap, S1.stack[slot]), !.stack[slot] = v])
     [] op = "LOAD_GLOBAL" ->
          LET v == IF a[1] + 1 <= Len(S.globals) THEN S.globals[a[1] + 1] ELSE 0 IN OKs(Push(WithHeap(S, Retain(S.heap, v)), v))
     [] op = "STORE_GLOBAL" ->
          IF SLen(S) < 1 THEN Trap(S)
          ELSE LET v == Top(S)
                   g == IF a[1] + 1 <= Len(S.globals) THEN S.globals
                        ELSE S.globals \o [i \in 1..(a[1] + 1 - Len(S.globals)) |-> 0]
                   S1 == PopN(S, 1) IN
               OKs([S1 EXCEPT !.heap = Release(S1.heap, g[a[1] + 1]), !.globals = [g EXCEPT ![a[1] + 1] = v]])
     [] op = "LOAD_UPVALUE" ->
          LET c == IF Len(S.frames) = 0 THEN 0 ELSE Frame(S).clo IN
          IF IsLive(S, c) /\ a[2] + 1 <= Len(S.heap[c].kids)
          THEN LET v == S.heap[c].kids[a[2] + 1] IN OKs(Push(WithHeap(S, Retain(S.heap, v)), v))
          ELSE OKs(Push(S, 0))
     [] op = "ADD" -> IF SLen(S) >= 2 /\ KindOf(S, Top(S)) = KStr /\ KindOf(S, Peek(S, 1)) = KStr THEN StringResult(S, 2, res, cnew)
                      ELSE IF SLen(S) >= 2 /\ (Top(S) # 0 \/ Peek(S, 1) # 0) THEN Unmodelled(S)     \* element-wise array arithmetic
                      ELSE ScalarOp(S, 2)
     [] op \in {"SUB", "MUL", "DIV", "MOD"} -> IF SLen(S) >= 2 /\ (Top(S) # 0 \/ Peek(S, 1) # 0) THEN Unmodelled(S) ELSE ScalarOp(S, 2)
     [] op \in {"EQ", "NE", "LT", "LE", "GT", "GE", "AND", "OR", "STR_CONTAINS", "STR_EQ"} -> ScalarOp(S, 2)
     [] op \in {"NEG", "NOT", "STR_LEN", "ARR_LEN", "UNION_TAG", "CAST_INT", "CAST_FLOAT", "CAST_BOOL", "OPAQUE_VALID"} -> ScalarOp(S, 1)
     [] op \in {"JMP_TRUE", "JMP_FALSE"} -> IF SLen(S) < 1 THEN OKs(S) ELSE OKs(PopRel(S, 1))
     [] op = "STR_CONCAT" -> IF SLen(S) >= 2 /\ KindOf(S, Top(S)) = KStr /\ KindOf(S, Peek(S, 1)) = KStr THEN StringResult(S, 2, res, cnew) ELSE Unmodelled(S)
     [] op \in {"STR_FROM_INT", "STR_FROM_FLOAT"} -> StringResult(S, 1, res, cnew)
     [] op = "CAST_STRING" -> IF SLen(S) >= 1 /\ KindOf(S, Top(S)) = KStr THEN OKs(S) ELSE StringResult(S, 1, res, cnew)
     [] op = "STR_CHAR_AT" -> StringResult(S, 2, res, cnew)
     [] op = "STR_SUBSTR" -> StringResult(S, 3, res, cnew)
     [] op = "ARR_NEW" -> AllocFromStack(S, KArr, 0, newid)
     [] op = "ARR_LITERAL" -> AllocFromStack(S, KArr, a[2], newid)
     [] op = "STRUCT_LITERAL" -> AllocFromStack(S, KStruct, a[2], newid)
     [] op = "STRUCT_NEW" -> AllocFromStack(S, KStruct, 0, newid)
     [] op = "TUPLE_NEW" -> AllocFromStack(S, KTuple, a[1], newid)
     [] op = "UNION_CONSTRUCT" -> AllocFromStack(S, KUnion, a[3], newid)
     [] op = "CLOSURE_NEW" -> AllocFromStack(S, KClosure, a[2], newid)
     [] op = "HM_NEW" -> AllocFromStack(S, KMap, 0, newid)
     [] op = "ARR_PUSH" ->
          IF SLen(S) < 2 THEN Trap(S)
          ELSE LET v == Top(S)  arr == Peek(S, 1) IN
               IF KindOf(S, arr) # KArr THEN Trap(PopRel(S, 2))
               ELSE OKs(Push([PopN(S, 2) EXCEPT !.heap[arr].kids = Append(@, v)], arr))      \* push retains, the handler releases: net 0
     [] op = "ARR_POP" ->
          IF SLen(S) < 1 THEN Trap(S)
          ELSE LET arr == Top(S) IN
               IF KindOf(S, arr) # KArr THEN Trap(PopRel(S, 1))
               ELSE IF Len(S.heap[arr].kids) = 0 THEN Trap(PopRel(S, 1))
               ELSE LET ks == S.heap[arr].kids IN
                    OKs(Push(Push([PopN(S, 1) EXCEPT !.heap[arr].kids = SubSeq(ks, 1, Len(ks) - 1)], ks[Len(ks)]), arr))
     [] op = "ARR_GET" ->
          IF SLen(S) < 2 THEN Trap(S)
          ELSE LET arr == Peek(S, 1) IN
               IF KindOf(S, arr) # KArr THEN Trap(WithHeap(PopN(S, 2), Release(S.heap, arr)))
               ELSE IF aux < 0 \/ aux >= Len(S.heap[arr].kids) THEN Trap(WithHeap(PopN(S, 2), Release(S.heap, arr)))
               ELSE LET v == S.heap[arr].kids[aux + 1] IN
                    OKs(Push(WithHeap(PopN(S, 2), Release(Retain(S.heap, v), arr)), v))
     [] op = "ARR_SET" ->
          IF SLen(S) < 3 THEN Trap(S)
          ELSE LET v == Top(S)  arr == Peek(S, 2) IN
               IF KindOf(S, arr) # KArr THEN Trap(WithHeap(PopN(S, 3), Release(Release(S.heap, arr), v)))
               ELSE IF aux < 0 \/ aux >= Len(S.heap[arr].kids) THEN Trap(WithHeap(PopN(S, 3), Release(Release(S.heap, arr), v)))
               ELSE LET old == S.heap[arr].kids[aux + 1]
                        h1 == Release(S.heap, old) IN
                    \* the array itself cannot be freed by releasing its element unless it is its own element
                    IF arr \notin DOMAIN h1 THEN Unmodelled(S)
                    ELSE OKs(Push([PopN(S, 3) EXCEPT !.heap = [h1 EXCEPT ![arr].kids[aux + 1] = v]], arr))
     [] op = "STRUCT_GET" -> FieldGet(S, KStruct, a[1])
     [] op = "TUPLE_GET" -> FieldGet(S, KTuple, a[1])
     [] op = "UNION_FIELD" -> FieldGet(S, KUnion, a[1])
     [] op = "STRUCT_SET" ->
          IF SLen(S) < 2 THEN Trap(S)
          ELSE LET v == Top(S)  o == Peek(S, 1) IN
               IF KindOf(S, o) # KStruct \/ a[1] + 1 > Len(S.heap[o].kids) THEN Trap(PopRel(S, 2))
               ELSE LET h1 == Release(S.heap, S.heap[o].kids[a[1] + 1]) IN
                    IF o \notin DOMAIN h1 THEN Unmodelled(S)
                    ELSE OKs(Push([PopN(S, 2) EXCEPT !.heap = [h1 EXCEPT ![o].kids[a[1] + 1] = v]], o))
     [] op = "CALL" -> IF aux < 0 THEN Trap(S) ELSE EnterFrame(S, aux \div 65536, aux % 65536, 0)
     [] op = "CALL_INDIRECT" ->
          IF SLen(S) < 1 THEN Trap(S)
          ELSE LET c == Top(S) IN
               IF KindOf(S, c) # KClosure \/ aux < 0 THEN Trap(PopN(S, 1))
               ELSE EnterFrame(PopN(S, 1), aux \div 65536, aux % 65536, c)       \* the popped reference moves into the frame (released by RET)
     [] op = "RET" -> DoRet(S)
     [] op \in {"PRINT", "PRINTLN", "ASSERT"} -> IF SLen(S) < 1 THEN OKs(S) ELSE OKs(PopN(S, 1))   \* the value travels to the host in the trap
     [] OTHER -> Unmodelled(S)

\* the host (vm_call_function) releases the value of a PRINT / ASSERT trap after using it
HostRelease(S, v) == WithHeap(S, Release(S.heap, v))
====
