INIT Init
NEXT Next
INVARIANTS DeSafe Emit
