\* C18 liveness on a reduced behaviour set (hostile, disconnect while printing, truncated payload, over-long, status).
SPECIFICATION Spec
CONSTANTS
  N = 3
  Suite = "c18l"
  Verify = TRUE
  CrcModel = "atomic"
  IgnoreSigpipe = TRUE
  Cap = 2
  Buffered = FALSE
  Gaps = "overlap"
  DropExit = FALSE
  FlushOnErr = TRUE
  KeepData = TRUE
  ExternalProg <- NoExternal
  Emit = FALSE
INVARIANTS TypeOK Isolation Transparency Available ReplyOK ActiveOK StatusOK
PROPERTIES GoodServed AllEnd
