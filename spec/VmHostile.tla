---- MODULE VmHostile ----
(***************************************************************************)
(* C13, verifier + VM part.  A module is a list of functions whose bodies  *)
(* are lists of abstract instructions with their encoded sizes, so that    *)
(* byte offsets and "jump into the middle of an instruction" exist in the  *)
(* model.  Verify transcribes src/nanoisa/verifier.c (verify_structure,    *)
(* verify_function: one linear sweep per function).  Execution is          *)
(* NanoVM!Do plus the control-flow opcodes; values that are not references *)
(* are abstracted, so both branches of a conditional jump are explored.    *)
(* TLC chooses every module of the hostile family in Init, verifies it and *)
(* executes it under an instruction budget; it checks                      *)
(*   VerifiedNoDecodeTrap  an accepted module never reports a decode /     *)
(*                         invalid-opcode error at an offset the sweep     *)
(*                         walked,                                         *)
(*   Bounds                stack, frames and ip stay inside their limits,  *)
(*   Heap                  RcInv and NoDangling hold whatever the code,    *)
(* and prints each module with the verifier's verdict and the set of       *)
(* outcomes, to be replayed on the real loader -> verifier -> VM (ASan).   *)
(***************************************************************************)
EXTENDS NanoVM, Json

CONSTANTS MaxLen,        \* instructions per hostile function body
          Fuel,          \* instruction budget
          MaxFrames,     \* VM_MAX_FRAMES of the model (the real limit is extracted and far larger)
          MaxStackM      \* state constraint on the operand stack

\* ---- abstract instructions: [op, a, sz]; sizes as encoded by isa.c (1 + operands) ----
In(op, a, sz) == [op |-> op, a |-> a, sz |-> sz]
Alphabet == {
   In("PUSH_I64", <<>>, 9), In("PUSH_STR", <<0>>, 5), In("PUSH_STR", <<7>>, 5),         \* 2nd: string index out of range
   In("POP", <<>>, 1), In("DUP", <<>>, 1), In("ADD", <<>>, 1),
   In("LOAD_LOCAL", <<0>>, 3), In("LOAD_LOCAL", <<2>>, 3), In("STORE_LOCAL", <<1>>, 3),    \* slot 2 = local_count: refused by the verifier
   In("ARR_LITERAL", <<1, 2>>, 4), In("ARR_GET", <<>>, 1), In("TUPLE_NEW", <<3>>, 3), In("TUPLE_GET", <<5>>, 3),
   In("CLOSURE_NEW", <<1, 2>>, 7), In("CALL_INDIRECT", <<>>, 1),
   In("CALL", <<1>>, 5), In("CALL", <<9>>, 5),                                             \* function 9 does not exist
   In("JMP", <<0>>, 5), In("JMP", <<-9>>, 5), In("JMP", <<3>>, 5), In("JMP_FALSE", <<6>>, 5),   \* to self, backward, into the middle, forward
   In("RET", <<>>, 1), In("PRINTLN", <<>>, 1)}

RECURSIVE Bodies(_)
Bodies(n) == IF n = 0 THEN {<<>>} ELSE LET B == Bodies(n - 1) IN B \cup {Append(b, i) : b \in {x \in B : Len(x) = n - 1}, i \in Alphabet}
\* function 1 is fixed: arity 2 (more than a caller may have pushed), one extra local
Callee == [arity |-> 2, nloc |-> 3, code |-> <<In("LOAD_LOCAL", <<0>>, 3), In("RET", <<>>, 1)>>]
NStrings == 2       \* "main", "f"

VARIABLES body, S, ip, fn, fuel, status, walked, verified, rets
vars == <<body, S, ip, fn, fuel, status, walked, verified, rets>>

Funcs == <<[arity |-> 0, nloc |-> 2, code |-> body], Callee>>
RECURSIVE Size(_)
Size(code) == IF code = <<>> THEN 0 ELSE Head(code).sz + Size(Tail(code))
RECURSIVE Offsets(_, _)       \* byte offset of every instruction boundary reached by the linear sweep
Offsets(code, at) == IF code = <<>> THEN {} ELSE {at} \cup Offsets(Tail(code), at + Head(code).sz)
RECURSIVE InstrAt(_, _, _)
InstrAt(code, at, want) == IF code = <<>> THEN In("?", <<>>, 0) ELSE IF at = want THEN Head(code) ELSE InstrAt(Tail(code), at + Head(code).sz, want)

\* ---- verifier.c ----
VerifyInstr(f, i, pos) ==
   LET end == Size(f.code) IN
   CASE i.op \in {"JMP", "JMP_TRUE", "JMP_FALSE"} -> pos + i.a[1] >= 0 /\ pos + i.a[1] <= end
     [] i.op = "CALL" -> i.a[1] < Len(Funcs)
     [] i.op = "CLOSURE_NEW" -> i.a[1] < Len(Funcs)
     [] i.op = "PUSH_STR" -> i.a[1] < NStrings
     [] i.op \in {"LOAD_LOCAL", "STORE_LOCAL"} -> i.a[1] < f.nloc
     [] OTHER -> TRUE
RECURSIVE VerifyFrom(_, _, _)
VerifyFrom(f, code, pos) == IF code = <<>> THEN TRUE ELSE VerifyInstr(f, Head(code), pos) /\ VerifyFrom(f, Tail(code), pos + Head(code).sz)
Verify == \A k \in 1..Len(Funcs) : VerifyFrom(Funcs[k], Funcs[k].code, 0)

\* ---- execution ----
S0 == [stack |-> <<0, 0>>, frames |-> <<[base |-> 0, nloc |-> 2, clo |-> 0]>>, globals |-> <<>>, heap |-> <<>>]
Init == /\ body \in Bodies(MaxLen) /\ body # <<>>
        /\ S = S0 /\ ip = 0 /\ fn = 1 /\ fuel = Fuel /\ status = "run" /\ walked = TRUE /\ rets = <<>>
        /\ verified = "?"

Code == Funcs[fn].code
End == Size(Code)
NewId == IF DOMAIN S.heap = {} THEN 1 ELSE 1 + (CHOOSE m \in DOMAIN S.heap : \A x \in DOMAIN S.heap : x <= m)
Finish(st) == status' = st /\ UNCHANGED <<body, S, ip, fn, fuel, walked, verified, rets>>

VerifyStep == /\ verified = "?" /\ verified' = (IF Verify THEN "yes" ELSE "no")
              /\ UNCHANGED <<body, S, ip, fn, fuel, status, walked, rets>>

\* a module the verifier refuses is never executed (nano_vm, nano_virt --run, and -- since the fix -- the daemon)
Refuse == verified = "no" /\ status = "run" /\ Finish("refused")
Exec ==
   /\ verified = "yes" /\ status = "run"
   /\ IF fuel = 0 THEN Finish("fuel")
      ELSE IF ip >= End THEN       \* fell off the end: implicit RET
           LET r == DoRet(S) IN
           IF Len(S.frames) <= 1 THEN Finish("ok")
           ELSE /\ S' = r.S /\ fn' = rets[Len(rets)].fn /\ ip' = rets[Len(rets)].ip /\ rets' = SubSeq(rets, 1, Len(rets) - 1)
                /\ fuel' = fuel - 1 /\ UNCHANGED <<body, status, walked, verified>>
      ELSE IF ip \notin Offsets(Code, 0) THEN      \* decoding from the middle of an instruction: anything may come out
           /\ status' \in {"err:decode", "err:opcode", "err:other", "ok"} /\ walked' = FALSE
           /\ UNCHANGED <<body, S, ip, fn, fuel, verified, rets>>
      ELSE LET i == InstrAt(Code, 0, ip) IN
           CASE i.op = "JMP" -> /\ ip' = ip + i.a[1] /\ fuel' = fuel - 1 /\ UNCHANGED <<body, S, fn, status, walked, verified, rets>>
             [] i.op \in {"JMP_TRUE", "JMP_FALSE"} ->
                  /\ S' = Do(S, i.op, i.a, 0, 0, 0, 0).S /\ ip' \in {ip + i.a[1], ip + i.sz} /\ fuel' = fuel - 1
                  /\ UNCHANGED <<body, fn, status, walked, verified, rets>>
             [] i.op = "CALL" ->
                  IF i.a[1] >= Len(Funcs) THEN Finish("err:function")
                  ELSE IF Len(S.frames) >= MaxFrames THEN Finish("err:depth")
                  ELSE LET cal == Funcs[i.a[1] + 1]
                           r == Do(S, "CALL", i.a, cal.arity * 65536 + cal.nloc, 0, 0, 0) IN
                       IF r.ok # "ok" THEN Finish("err:stack")          \* arity exceeds the operands present
                       ELSE /\ S' = r.S /\ rets' = Append(rets, [fn |-> fn, ip |-> ip + i.sz]) /\ fn' = i.a[1] + 1 /\ ip' = 0
                            /\ fuel' = fuel - 1 /\ UNCHANGED <<body, status, walked, verified>>
             [] i.op = "CALL_INDIRECT" ->
                  IF SLen(S) < 1 \/ KindOf(S, Top(S)) # KClosure THEN Finish("err:type")
                  ELSE IF Len(S.frames) >= MaxFrames THEN Finish("err:depth")
                  ELSE LET cal == Funcs[2]              \* every closure of the family is made for function 1
                           r == Do(S, "CALL_INDIRECT", i.a, cal.arity * 65536 + cal.nloc, 0, 0, 0) IN
                       IF r.ok # "ok" THEN Finish("err:stack")
                       ELSE /\ S' = r.S /\ rets' = Append(rets, [fn |-> fn, ip |-> ip + i.sz]) /\ fn' = 2 /\ ip' = 0
                            /\ fuel' = fuel - 1 /\ UNCHANGED <<body, status, walked, verified>>
             [] i.op = "RET" ->
                  IF Len(S.frames) <= 1 THEN Finish("ok")
                  ELSE /\ S' = DoRet(S).S /\ fn' = rets[Len(rets)].fn /\ ip' = rets[Len(rets)].ip /\ rets' = SubSeq(rets, 1, Len(rets) - 1)
                       /\ fuel' = fuel - 1 /\ UNCHANGED <<body, status, walked, verified>>
             [] OTHER ->
                  LET same == {o \in DOMAIN S.heap : S.heap[o].k = KStr /\ S.heap[o].c = 1 + (IF i.a = <<>> THEN 0 ELSE i.a[1])}
                      isstr == i.op = "PUSH_STR" \/ (i.op = "ADD" /\ SLen(S) >= 2 /\ KindOf(S, Top(S)) = KStr /\ KindOf(S, Peek(S, 1)) = KStr)
                      res == IF isstr /\ same # {} THEN CHOOSE o \in same : TRUE ELSE NewId
                      aux == IF i.op = "ARR_GET" THEN 0 ELSE 0
                      r == Do(S, i.op, i.a, aux, NewId, res, IF i.op = "PUSH_STR" THEN 1 + i.a[1] ELSE 9) IN
                  IF i.op = "PUSH_STR" /\ i.a[1] >= NStrings THEN      \* str_at returns NULL -> "" (never reached when verified)
                       /\ S' = Do(S, i.op, i.a, 0, NewId, res, 0).S /\ ip' = ip + i.sz /\ fuel' = fuel - 1
                       /\ UNCHANGED <<body, fn, status, walked, verified, rets>>
                  ELSE IF r.ok = "trap" THEN Finish("err:trap")
                  ELSE IF r.ok = "unmodelled" THEN Finish("unmodelled")
                  ELSE /\ S' = r.S /\ ip' = ip + i.sz /\ fuel' = fuel - 1
                       /\ UNCHANGED <<body, fn, status, walked, verified, rets>>
Report == /\ status \notin {"run", "reported"} /\ status' = "reported"
          /\ PrintT("@@J " \o ToJson([body |-> body, verified |-> verified, outcome |-> status, walked |-> walked]))
          /\ UNCHANGED <<body, S, ip, fn, fuel, walked, verified, rets>>
Next == VerifyStep \/ Refuse \/ Exec \/ Report
Spec == Init /\ [][Next]_vars

\* ---- properties ----
VerifiedNoDecodeTrap == (verified = "yes" /\ walked) => status \notin {"err:decode", "err:opcode"}
VerifiedIndices == verified = "yes" => status # "err:function"
Bounds == /\ Len(S.frames) <= MaxFrames /\ ip >= 0 /\ (status = "run" => ip <= End \/ ~walked)
          /\ \A f \in 1..Len(S.frames) : S.frames[f].base >= 0 /\ S.frames[f].base <= SLen(S)
Heap == RcInv(S) /\ NoDangling(S)
StackConstraint == SLen(S) <= MaxStackM
====
