\* C20 / NativeStr.tla: model check + generation, every state of one nl_string_t reachable in <= 7 steps (thorough)
\* from 13 constructor calls; one history per transition
SPECIFICATION Spec
VIEW View
CONSTANTS
  MaxLen = 7
  EmitMode = "edge"
  StopAtDev = TRUE
  AllowDev = TRUE
INVARIANTS LenLeCap NtRoom UtfSound
PROPERTY BytesFixed
