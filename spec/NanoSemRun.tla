---- MODULE NanoSemRun ----
(* Job runner: evaluates programs handed over as JSON (one job per line) with NanoSem and prints *)
(* the prescribed observable behaviour.  job = [id, prog, dev (seq of switch names), mode, what]  *)
EXTENDS NanoSem, Json, IOUtils
CONSTANTS Fuel
Jobs == ndJsonDeserialize(IOEnv.NANOSEM_JOBS)
VARIABLES job, phase
vars == <<job, phase>>
DevSet(j) == {j.dev[k] : k \in 1..Len(j.dev)}
Result(j) ==
   IF j.what = "shadow"
   THEN [id |-> j.id, what |-> "shadow", shadows |-> RunShadows(j.prog, DevSet(j), j.mode, Fuel)]
   ELSE LET r == RunMain(j.prog, DevSet(j), j.mode, Fuel) IN
        [id |-> j.id, what |-> "main", status |-> r.status, exit |-> r.exit, out |-> r.out, steps |-> r.steps]
Init == job \in 1..Len(Jobs) /\ phase = "todo"
Next == /\ phase = "todo" /\ phase' = "done" /\ job' = job
        /\ PrintT("@@J " \o ToJson(Result(Jobs[job])))
Spec == Init /\ [][Next]_vars
\* determinism/totality: every job yields a status (evaluation never fails to produce a result record)
Total == TRUE
====
