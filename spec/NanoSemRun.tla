---- MODULE NanoSemRun ----
(* Job runner: evaluates programs handed over as JSON (one job per line) with NanoSem and prints *)
(* the prescribed observable behaviour.  job = [id, prog, dev (seq of switch names), mode, what]  *)
EXTENDS NanoSem, NanoType, Json, IOUtils
CONSTANTS Fuel
Jobs == ndJsonDeserialize(IOEnv.NANOSEM_JOBS)
VARIABLES job, phase
vars == <<job, phase>>
DevSet(j) == {j.dev[k] : k \in 1..Len(j.dev)}
Result(j) ==
   IF j.what = "type"           \* static rules only: which rules does the program break?
   THEN LET v == Violates(j.prog) IN [id |-> j.id, what |-> "type", wt |-> (v = {}), violates |-> v]
   ELSE IF j.what = "sound"     \* type soundness on this program: WT => the run is not stuck (C04, model-level)
   THEN LET v == Violates(j.prog)
            r == RunMain(j.prog, DevSet(j), j.mode, Fuel) IN
        [id |-> j.id, what |-> "sound", wt |-> (v = {}), violates |-> v, status |-> r.status, exit |-> r.exit, out |-> r.out, steps |-> r.steps]
   ELSE IF j.what = "shadow"
   THEN [id |-> j.id, what |-> "shadow", shadows |-> RunShadows(j.prog, DevSet(j), j.mode, Fuel)]
   ELSE LET r == RunMain(j.prog, DevSet(j), j.mode, Fuel) IN
        [id |-> j.id, what |-> "main", status |-> r.status, exit |-> r.exit, out |-> r.out, steps |-> r.steps]
Init == job \in 1..Len(Jobs) /\ phase = "todo"
Next == /\ phase = "todo" /\ phase' = "done" /\ job' = job
        /\ PrintT("@@J " \o ToJson(Result(Jobs[job])))
Spec == Init /\ [][Next]_vars
\* type soundness of the specified language on the jobs given: a well-typed program never gets stuck
Stuck(st) == st \notin {"ok", "fuel", "fault:assert", "fault:bounds", "fault:div0", "fault:depth", "fault:sigfpe"}
Sound == \A k \in 1..Len(Jobs) : (phase = "todo" /\ job = k /\ Jobs[k].what = "sound") =>
            LET j == Jobs[k] IN WT(j.prog) => ~Stuck(RunMain(j.prog, DevSet(j), j.mode, Fuel).status)
====
