\* Sensitivity: fflush() only on the success path - the unterminated last line of a failing run never reaches the client: Transparency is expected to be VIOLATED.
SPECIFICATION Spec
CONSTANTS
  N = 3
  Suite = "c17p"
  Verify = TRUE
  CrcModel = "atomic"
  IgnoreSigpipe = TRUE
  Cap = 2
  Buffered = FALSE
  Gaps = "overlap"
  DropExit = FALSE
  FlushOnErr = FALSE
  KeepData = TRUE
  ExternalProg <- NoExternal
  Emit = FALSE
INVARIANTS TypeOK Isolation Transparency Available
