\* C13 (loader): every directory entry <type, off, sz> over 8-bit words, checks as written in nvm_format.c.
\* EXPECTED to violate ReadsInBounds: the counterexample is the wrapped `sec_offset + sec_size > size`.
SPECIFICATION Spec
CONSTANTS
  W = 8
  SecCheck = "asWritten"
  StrCheck = "asWritten"
  Family = "hostileSec"
  MaxBurst = 0
  MaxTail = 0
  MaxFaults = 0
  SampleMod = 1
  Full = FALSE
INVARIANTS TypeOK SizeAssumption ReadsInBounds
