SPECIFICATION Spec
CONSTANTS MaxLen = 4
 Vals = {1, 2}
 Route = "all"
INVARIANTS Same OneLibrary
CHECK_DEADLOCK FALSE
