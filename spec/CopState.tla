------------------------------- MODULE CopState -------------------------------
(* One C library for all extern calls of a run (C15).                                                       *)
(*                                                                                                        *)
(* External functions keep state inside the C library of the process that executes them (rounding mode,   *)
(* random generator seeds, umask, working directory, pending alarm ...).  In process there is one such    *)
(* state.  With --isolate-ffi the dispatcher of TRAP_EXTERN_CALL (vm.c) decides per call where it runs:    *)
(* the property "isolation does not change behaviour" holds for every program exactly when the routing     *)
(* does not depend on the call, i.e. when every extern call of the run is served by the same co-process.   *)
(* Route = "all" is the code as it is; Route = "bysig" is the deviation in which calls of some signature   *)
(* class stay in the VM process; Route = "respawn" a deviation in which the co-process is replaced         *)
(* between two calls without the program having crashed it.                                                *)
EXTENDS Naturals, Sequences, TLC
CONSTANTS MaxLen, Vals, Route
Sig == {"i", "f"}
Call == [op : {"set"}, sig : Sig, v : Vals] \cup [op : {"get"}, sig : Sig, v : {0}]
VARIABLES prog, pc, libIn, libVm, libCop, outIn, outIso
vars == <<prog, pc, libIn, libVm, libCop, outIn, outIso>>

SeqsUpTo(S, n) == UNION {[1..k -> S] : k \in 0..n}
Init == /\ prog \in SeqsUpTo(Call, MaxLen) /\ pc = 1
        /\ libIn = 0 /\ libVm = 0 /\ libCop = 0 /\ outIn = <<>> /\ outIso = <<>>

InCop(c) == CASE Route = "all" -> TRUE
              [] Route = "bysig" -> c.sig = "i"
              [] Route = "respawn" -> TRUE

Step == /\ pc <= Len(prog)
        /\ LET c == prog[pc] IN
           /\ pc' = pc + 1 /\ prog' = prog
           \* the reference run: everything in the program's own process
           /\ IF c.op = "set" THEN libIn' = c.v /\ outIn' = outIn ELSE libIn' = libIn /\ outIn' = Append(outIn, libIn)
           \* the isolated run
           /\ IF InCop(c)
              THEN /\ libVm' = libVm
                   /\ LET cur == IF Route = "respawn" /\ c.op = "get" THEN 0 ELSE libCop IN
                      IF c.op = "set" THEN libCop' = c.v /\ outIso' = outIso ELSE libCop' = cur /\ outIso' = Append(outIso, cur)
              ELSE /\ libCop' = libCop
                   /\ IF c.op = "set" THEN libVm' = c.v /\ outIso' = outIso ELSE libVm' = libVm /\ outIso' = Append(outIso, libVm)
Done == pc > Len(prog) /\ UNCHANGED vars
Next == Step \/ Done
Spec == Init /\ [][Next]_vars

Same == outIso = outIn                       \* C15 at the level of C-library state
OneLibrary == libVm = 0                      \* no extern call ever ran in the VM's own process
=============================================================================
