-------------------------------- MODULE NvmFormat --------------------------------
(* Property C10, first half: a module stored as .nvm bytes and loaded back is the   *)
(* same module.                                                                     *)
(*                                                                                  *)
(* M is the abstract module: string pool (built with AddString, which returns the   *)
(* index of an equal string instead of adding it again, like nvm_add_string), code  *)
(* bytes, function table, import table with parameter-type lists, debug entries,    *)
(* flags, entry point.  Every u32/u16 field is its little-endian byte list, so      *)
(* boundary values such as 0xFFFFFFFF need no wide arithmetic.                      *)
(*                                                                                  *)
(* Serialize(M) is byte exact (header, section directory, sections, CRC-32 of       *)
(* everything after the header); Deserialize mirrors nvm_deserialize stage by       *)
(* stage (size, magic/version/section count, checksum, directory, one case per      *)
(* section type, strings re-inserted through AddString).  Sizes and section type    *)
(* numbers are CONSTANTS extracted from nvm_format.h at check time.                 *)
(*                                                                                  *)
(* TLC checks Deserialize(Serialize(M)) = M and Serialize(Deserialize(Serialize(M)))*)
(* = Serialize(M) on the whole bounded module space and prints every module;        *)
(* `nvm_probe build` rebuilds each one with the real nvm_add_* API and reports what *)
(* the real serializer/loader do.  The replay oracle is the property (loaded =      *)
(* built, field by field; re-serialization identical); the bytes computed here      *)
(* are compared with the real ones only as "drift".  In the other direction real    *)
(* .nvm files are parsed by this Deserialize (configuration with RealFile set) and  *)
(* compared with the real loader's field dump, again as drift.                      *)
EXTENDS Integers, Sequences, FiniteSets, TLC, Json, Bitwise, SequencesExt

CONSTANTS HeaderSize, DirEntrySize, FnEntrySize, DebugEntrySize, ImportBaseSize, MaxSections, FormatVersion,
          Magic,                                                  \* <<'N','V','M',1>>
          SecStrings, SecCode, SecFunctions, SecDebug, SecImports, \* NvmSectionType numbers
          Deep,                                                   \* BOOLEAN: larger module space
          RealFile                                                \* "" or an ndjson file of {bytes: [...]} records

ASSUME HeaderSize >= 32 /\ DirEntrySize = 12 /\ FnEntrySize = 18 /\ DebugEntrySize = 8 /\ ImportBaseSize = 11

Byte == 0 .. 255
Take(s, n) == SubSeq(s, 1, n)
Drop(s, n) == SubSeq(s, n + 1, Len(s))
RECURSIVE Flat(_)
Flat(ss) == IF ss = <<>> THEN <<>> ELSE Head(ss) \o Flat(Tail(ss))

U16(n) == <<n % 256, n \div 256>>
U32(n) == <<n % 256, (n \div 256) % 256, (n \div 65536) % 256, n \div 16777216>>      \* 0 <= n < 2^31
Huge == -1                                                                            \* a u32 >= 2^31: larger than any size here
Val(bs) == IF Len(bs) = 4 /\ bs[4] >= 128 THEN Huge
           ELSE IF Len(bs) = 4 THEN bs[1] + 256 * bs[2] + 65536 * bs[3] + 16777216 * bs[4]
           ELSE bs[1] + 256 * bs[2]

(* ------------------------------------------------------------------- CRC-32 *)
\* reflected polynomial 0xEDB88320 on two 16-bit limbs <<high, low>> (TLC integers are 32-bit)
PolyHi == 60856
PolyLo == 33568
Shr1(c) == <<c[1] \div 2, (c[2] \div 2) + (IF (c[1] % 2) = 1 THEN 32768 ELSE 0)>>
Xor2(a, b) == <<a[1] ^^ b[1], a[2] ^^ b[2]>>
RECURSIVE TabEntry(_, _)
TabEntry(c, j) == IF j = 0 THEN c ELSE TabEntry(IF (c[2] % 2) = 1 THEN Xor2(Shr1(c), <<PolyHi, PolyLo>>) ELSE Shr1(c), j - 1)
CrcTable == [i \in 0 .. 255 |-> TabEntry(<<0, i>>, 8)]
Shr8(c) == <<c[1] \div 256, (c[2] \div 256) + ((c[1] % 256) * 256)>>
CrcStep(c, b) == Xor2(Shr8(c), CrcTable[(c[2] ^^ b) % 256])
Crc(bytes) == LET r == FoldLeft(CrcStep, <<65535, 65535>>, bytes)
                  hi == r[1] ^^ 65535  lo == r[2] ^^ 65535
              IN <<lo % 256, lo \div 256, hi % 256, hi \div 256>>                        \* as the stored u32
ASSUME Crc(<<49, 50, 51, 52, 53, 54, 55, 56, 57>>) = <<38, 57, 244, 203>>                 \* CRC-32("123456789") = 0xCBF43926

(* -------------------------------------------------------------- the module *)
\* nvm_add_string: the index of an equal string if there is one, else append
AddString(pool, s) == IF \E i \in DOMAIN pool : pool[i] = s
                      THEN [pool |-> pool, idx |-> (CHOOSE i \in DOMAIN pool : pool[i] = s) - 1]
                      ELSE [pool |-> Append(pool, s), idx |-> Len(pool)]
RECURSIVE BuildPool(_, _, _)
BuildPool(calls, pool, idxs) == IF calls = <<>> THEN [pool |-> pool, idxs |-> idxs]
                                ELSE LET a == AddString(pool, Head(calls)) IN BuildPool(Tail(calls), a.pool, Append(idxs, a.idx))
DupFree(pool) == \A i, j \in DOMAIN pool : i # j => pool[i] # pool[j]

Empty == [strings |-> <<>>, code |-> <<>>, functions |-> <<>>, imports |-> <<>>, debug |-> <<>>,
          flags |-> U32(0), entry |-> U32(0)]

(* ---------------------------------------------------------------- Serialize *)
StrSec(m) == Flat([i \in DOMAIN m.strings |-> U32(Len(m.strings[i])) \o m.strings[i]])
FnBytes(f) == f.name \o f.arity \o f.off \o f.len \o f.locals \o f.upvalues
FnSec(m)  == Flat([i \in DOMAIN m.functions |-> FnBytes(m.functions[i])])
DbgSec(m) == Flat([i \in DOMAIN m.debug |-> m.debug[i].off \o m.debug[i].line])
ImpBytes(e) == e.mod \o e.fn \o U16(Len(e.params)) \o e.ret \o e.params
ImpSec(m) == Flat([i \in DOMAIN m.imports |-> ImpBytes(m.imports[i])])

\* sections in the order nvm_serialize writes them; a section exists iff its table is non-empty
Sections(m) == SelectSeq(<<[type |-> SecStrings, data |-> StrSec(m)], [type |-> SecCode, data |-> m.code],
                           [type |-> SecFunctions, data |-> FnSec(m)], [type |-> SecDebug, data |-> DbgSec(m)],
                           [type |-> SecImports, data |-> ImpSec(m)]>>, LAMBDA s : s.data # <<>>)
RECURSIVE Directory(_, _)
Directory(secs, off) == IF secs = <<>> THEN <<>>
                        ELSE (U32(Head(secs).type) \o U32(off) \o U32(Len(Head(secs).data)))
                             \o Directory(Tail(secs), off + Len(Head(secs).data))
Serialize(m) ==
    LET secs == Sections(m)
        data0 == HeaderSize + Len(secs) * DirEntrySize
        body == Directory(secs, data0) \o Flat([i \in DOMAIN secs |-> secs[i].data])
        hasStr == secs # <<>> /\ secs[1].type = SecStrings
        head == Magic \o U32(FormatVersion) \o m.flags \o m.entry \o U32(Len(secs))
                \o U32(IF hasStr THEN data0 ELSE 0) \o U32(IF hasStr THEN Len(secs[1].data) ELSE 0) \o Crc(body)
    IN head \o [j \in 1 .. HeaderSize - Len(head) |-> 0] \o body

(* -------------------------------------------------------------- Deserialize *)
Fail == [ok |-> FALSE, m |-> Empty]

RECURSIVE ReadStrings(_, _)       \* while (pos + 4 <= size) { len; if (pos + len > size) break; add }
ReadStrings(sec, pool) ==
    IF Len(sec) < 4 THEN pool
    ELSE LET n == Val(Take(sec, 4)) IN
         IF n = Huge \/ 4 + n > Len(sec) THEN pool
         ELSE ReadStrings(Drop(sec, 4 + n), AddString(pool, SubSeq(sec, 5, 4 + n)).pool)
RECURSIVE ReadFns(_, _)
ReadFns(sec, acc) ==
    IF Len(sec) < FnEntrySize THEN acc
    ELSE ReadFns(Drop(sec, FnEntrySize),
                 Append(acc, [name |-> SubSeq(sec, 1, 4), arity |-> SubSeq(sec, 5, 6), off |-> SubSeq(sec, 7, 10),
                              len |-> SubSeq(sec, 11, 14), locals |-> SubSeq(sec, 15, 16), upvalues |-> SubSeq(sec, 17, 18)]))
RECURSIVE ReadDebug(_, _)
ReadDebug(sec, acc) ==
    IF Len(sec) < DebugEntrySize THEN acc
    ELSE ReadDebug(Drop(sec, DebugEntrySize), Append(acc, [off |-> SubSeq(sec, 1, 4), line |-> SubSeq(sec, 5, 8)]))
RECURSIVE ReadImports(_, _)
ReadImports(sec, acc) ==
    IF Len(sec) < ImportBaseSize THEN acc
    ELSE LET pc == Val(SubSeq(sec, 9, 10)) IN
         IF ImportBaseSize + pc > Len(sec) THEN acc
         ELSE ReadImports(Drop(sec, ImportBaseSize + pc),
                          Append(acc, [mod |-> SubSeq(sec, 1, 4), fn |-> SubSeq(sec, 5, 8), ret |-> SubSeq(sec, 11, 11),
                                       params |-> SubSeq(sec, 12, 11 + pc)]))

RECURSIVE LoadSections(_, _, _, _)
LoadSections(bs, i, nsec, m) ==
    IF i >= nsec THEN [ok |-> TRUE, m |-> m]
    ELSE LET d == HeaderSize + i * DirEntrySize
             type == Val(SubSeq(bs, d + 1, d + 4))
             off == Val(SubSeq(bs, d + 5, d + 8))
             size == Val(SubSeq(bs, d + 9, d + 12))
         IN IF off = Huge \/ size = Huge \/ off + size > Len(bs) THEN Fail
            ELSE LET sec == SubSeq(bs, off + 1, off + size) IN
                 LoadSections(bs, i + 1, nsec,
                     CASE type = SecStrings   -> [m EXCEPT !.strings = ReadStrings(sec, @)]
                       [] type = SecCode      -> [m EXCEPT !.code = @ \o sec]
                       [] type = SecFunctions -> [m EXCEPT !.functions = ReadFns(sec, @)]
                       [] type = SecDebug     -> [m EXCEPT !.debug = ReadDebug(sec, @)]
                       [] type = SecImports   -> [m EXCEPT !.imports = ReadImports(sec, @)]
                       [] OTHER               -> m)                                   \* unknown section: skipped

Deserialize(bs) ==
    IF Len(bs) < HeaderSize THEN Fail
    ELSE LET nsec == Val(SubSeq(bs, 17, 20)) IN
         IF Take(bs, 4) # Magic \/ Val(SubSeq(bs, 5, 8)) # FormatVersion \/ nsec = Huge \/ nsec > MaxSections THEN Fail
         ELSE IF Crc(Drop(bs, HeaderSize)) # SubSeq(bs, 29, 32) THEN Fail
         ELSE IF HeaderSize + nsec * DirEntrySize > Len(bs) THEN Fail
         ELSE LoadSections(bs, 0, nsec, [Empty EXCEPT !.flags = SubSeq(bs, 9, 12), !.entry = SubSeq(bs, 13, 16)])

(* ----------------------------------------------------------- the module space *)
\* (dummy arguments: TLC would otherwise evaluate these zero-arity constant definitions eagerly in every configuration)
MaxU32 == <<255, 255, 255, 255>>
StrAtoms(u_) == IF Deep THEN {<<>>, <<97>>, <<0>>, <<97, 98>>} ELSE {<<>>, <<97>>, <<0>>}
CallSeqs(u_) == UNION {[1 .. n -> StrAtoms(0)] : n \in 0 .. 3}                     \* add_string calls, repeats included
Codes(u_) == {<<>>, <<1, 2, 3, 4>>} \cup (IF Deep THEN {<<0>>} ELSE {})
F0 == [name |-> U32(0), arity |-> U16(0), off |-> U32(0), len |-> U32(0), locals |-> U16(0), upvalues |-> U16(0)]
F1 == [name |-> U32(1), arity |-> U16(65535), off |-> MaxU32, len |-> U32(1), locals |-> U16(1), upvalues |-> <<0, 128>>]
F2 == [name |-> MaxU32, arity |-> U16(258), off |-> U32(16909060), len |-> MaxU32, locals |-> U16(65535), upvalues |-> U16(513)]
FnTables(u_) == {<<>>, <<F0>>, <<F1>>, <<F0, F1>>} \cup (IF Deep THEN {<<F2>>} ELSE {})
I0 == [mod |-> U32(0), fn |-> U32(0), ret |-> <<0>>, params |-> <<>>]
I1 == [mod |-> U32(1), fn |-> MaxU32, ret |-> <<255>>, params |-> <<1>>]
I2 == [mod |-> U32(16909060), fn |-> U32(2), ret |-> <<5>>, params |-> <<5, 0>>]
ImpTables(u_) == {<<>>, <<I0>>, <<I1>>, <<I2>>, <<I1, I2>>, <<I0, I0>>} \cup (IF Deep THEN {<<I2, I1>>} ELSE {})
D0 == [off |-> U32(0), line |-> U32(0)]
D1 == [off |-> MaxU32, line |-> U32(16909060)]
DbgTables(u_) == {<<>>, <<D0>>, <<D0, D1>>} \cup (IF Deep THEN {<<D1>>} ELSE {})
Heads(u_) == {<<U32(0), U32(0)>>, <<U32(1), U32(1)>>, <<MaxU32, MaxU32>>} \cup (IF Deep THEN {<<U32(7), U32(16909060)>>} ELSE {})         \* <<flags, entry>>

Modules(u_) == {[calls |-> cs,
                 m |-> [strings |-> BuildPool(cs, <<>>, <<>>).pool, code |-> cd, functions |-> ft, imports |-> it, debug |-> dt,
                        flags |-> h[1], entry |-> h[2]]]
                : cs \in CallSeqs(0), cd \in Codes(0), ft \in FnTables(0), it \in ImpTables(0), dt \in DbgTables(0), h \in Heads(0)}

RealFiles(u_) == LET real == ndJsonDeserialize(RealFile) IN {[calls |-> <<>>, idx |-> i, bytes |-> real[i].bytes] : i \in DOMAIN real}

VARIABLES x,       \* the case: a module (with the add_string calls that built its pool) or a real file
          phase,   \* "new" -> "done"
          ser,     \* Serialize(x.m)
          back,    \* Deserialize(ser)
          again    \* Serialize(back.m)
vars == <<x, phase, ser, back, again>>

Emit(c, bytes) == [calls |-> c.calls, idxs |-> BuildPool(c.calls, <<>>, <<>>).idxs, m |-> c.m, bytes |-> bytes,
                   law |-> "deserialize(serialize(m)) = m field by field; serialize(deserialize(serialize(m))) = serialize(m)"]
EmitReal(c, d, re) == [idx |-> c.idx, ok |-> d.ok, m |-> d.m, reserialized_equal |-> d.ok /\ re = c.bytes]

Init == /\ x \in (IF RealFile = "" THEN Modules(0) ELSE RealFiles(0))
        /\ phase = "new" /\ ser = <<>> /\ back = Fail /\ again = <<>>
\* one step per case: serialize, load, serialize again (for a real file: load, serialize)
Check == /\ phase = "new"
         /\ ser' = IF RealFile = "" THEN Serialize(x.m) ELSE x.bytes
         /\ back' = Deserialize(ser')
         /\ again' = Serialize(back'.m)
         /\ PrintT("@@J " \o ToJson(IF RealFile = "" THEN Emit(x, ser') ELSE EmitReal(x, back', again')))
         /\ phase' = "done" /\ UNCHANGED x
Next == Check

(* ------------------------------------------------------------------ the laws *)
Generated == RealFile = "" /\ phase = "done"
PoolDupFree == Generated => DupFree(x.m.strings)
RoundTrip   == Generated => back = [ok |-> TRUE, m |-> x.m]
Idempotent  == Generated => again = ser
SizeLaw     == Generated => Len(ser) = HeaderSize + Len(Sections(x.m)) * DirEntrySize
                                       + Len(StrSec(x.m)) + Len(x.m.code) + Len(FnSec(x.m)) + Len(DbgSec(x.m)) + Len(ImpSec(x.m))
=============================================================================
