INIT Init
NEXT Next
CONSTANTS
  MaxDepth = 1024
  Fuel = 20000
