---- MODULE NanoType ----
(***************************************************************************)
(* The static rules of the core language (SPECIFICATION sections 3-6) as   *)
(* named predicates over the abstract syntax of NanoSem.tla.  Violates(p)  *)
(* is the set of rule names a program breaks; WT(p) == Violates(p) = {}.   *)
(* Rules: scope (unknown / out-of-scope name), operand (operand types of   *)
(* an operator), arity, argtype, lettype (initialiser vs declared type),   *)
(* immutable (set of a non-mut variable or a parameter), assign (set with  *)
(* a value of another type), cond (non-bool condition of if/while/assert), *)
(* rettype, retpath (missing return on some path), field, variant, struct, *)
(* call (callee is not a function), loopctl (break/continue outside loop), *)
(* unsafe (call of an extern function outside an unsafe block).            *)
(* Types are records [k, n, a]: k in int bool str void arr struct union    *)
(* enum tuple fn variant err.                                              *)
(***************************************************************************)
EXTENDS Integers, Sequences, FiniteSets, TLC, NanoTy, NanoTypeLib

LookupT(P, G, name) ==
   LET k == FindT(G, name) IN
   IF k # 0 THEN [ok |-> TRUE, t |-> G[k].t, m |-> G[k].m, local |-> TRUE]
   ELSE LET g == FindT(P.globals, name) IN
        IF g # 0 THEN [ok |-> TRUE, t |-> P.globals[g].tyS, m |-> P.globals[g].m, local |-> FALSE]
        ELSE LET f == FindT(P.funcs, name) IN
             IF f # 0 THEN [ok |-> TRUE, t |-> FnType(P.funcs[f]), m |-> 0, local |-> FALSE]
             ELSE [ok |-> FALSE, t |-> Err("scope"), m |-> 0, local |-> FALSE]

ArithOpsT == {"+", "-", "*", "/", "%"}
CmpOpsT == {"<", "<=", ">", ">="}
FirstErr(ts) == IF \E i \in 1..Len(ts) : IsErr(ts[i]) THEN ts[CHOOSE i \in 1..Len(ts) : IsErr(ts[i]) /\ \A j \in 1..(i - 1) : ~IsErr(ts[j])] ELSE TVoid
AnyErr(ts) == \E i \in 1..Len(ts) : IsErr(ts[i])

BuiltinsT == {"println", "print", "array_length", "at", "array_set", "array_push", "array_pop",
              "str_length", "int_to_string", "abs", "min", "max", "str_substring", "str_contains", "str_equals", "str_concat",
              "char_at", "string_from_char", "string_to_int",
              "map_new", "map_put", "map_get", "map_has", "map_size", "map_length", "map_remove"}
IsTypedMap(t) == t.k = "map" /\ MapKeyOk(t.a[1]) /\ MapKeyOk(t.a[2])
\* SPECIFICATION 3.4.2 "I treat these constants as integers": a value of an enum type is accepted wherever an int is
\* (operands of arithmetic and comparison, int parameters of builtins, int keys and values of maps)
IntLike(t) == t = TInt \/ t.k = "enum"
KeyOk(want, got) == want = got \/ (want = TInt /\ got.k = "enum")
BuiltinType(name, ts) ==
   LET n == Len(ts) IN
   CASE name \in {"println", "print"} -> IF n # 1 THEN Err("arity") ELSE TVoid      \* print accepts a value of any type (9.5)
     [] name = "array_length" -> IF n # 1 THEN Err("arity") ELSE IF ts[1].k = "arr" THEN TInt ELSE Err("argtype")
     [] name = "at" -> IF n # 2 THEN Err("arity") ELSE IF ts[1].k = "arr" /\ IntLike(ts[2]) /\ ts[1].a[1].k # "any" THEN ts[1].a[1] ELSE Err("argtype")
     [] name = "array_set" -> IF n # 3 THEN Err("arity") ELSE IF ts[1].k = "arr" /\ IntLike(ts[2]) /\ Compat(ts[1].a[1], ts[3]) THEN TVoid ELSE Err("argtype")
     [] name = "array_push" -> IF n # 2 THEN Err("arity") ELSE IF ts[1].k = "arr" /\ Compat(ts[1].a[1], ts[2]) THEN ts[1] ELSE Err("argtype")
     [] name = "array_pop" -> IF n # 1 THEN Err("arity") ELSE IF ts[1].k = "arr" /\ ts[1].a[1].k # "any" THEN ts[1].a[1] ELSE Err("argtype")
     [] name = "str_length" -> IF n # 1 THEN Err("arity") ELSE IF ts[1] = TStr THEN TInt ELSE Err("argtype")
     [] name = "int_to_string" -> IF n # 1 THEN Err("arity") ELSE IF IntLike(ts[1]) THEN TStr ELSE Err("argtype")
     [] name = "str_substring" -> IF n # 3 THEN Err("arity") ELSE IF ts[1] = TStr /\ IntLike(ts[2]) /\ IntLike(ts[3]) THEN TStr ELSE Err("argtype")
     [] name \in {"str_contains", "str_equals"} -> IF n # 2 THEN Err("arity") ELSE IF ts[1] = TStr /\ ts[2] = TStr THEN TBool ELSE Err("argtype")
     [] name = "str_concat" -> IF n # 2 THEN Err("arity") ELSE IF ts[1] = TStr /\ ts[2] = TStr THEN TStr ELSE Err("argtype")
     [] name = "char_at" -> IF n # 2 THEN Err("arity") ELSE IF ts[1] = TStr /\ IntLike(ts[2]) THEN TInt ELSE Err("argtype")
     [] name = "string_from_char" -> IF n # 1 THEN Err("arity") ELSE IF IntLike(ts[1]) THEN TStr ELSE Err("argtype")
     [] name = "string_to_int" -> IF n # 1 THEN Err("arity") ELSE IF ts[1] = TStr THEN TInt ELSE Err("argtype")
     [] name = "abs" -> IF n # 1 THEN Err("arity") ELSE IF IntLike(ts[1]) THEN TInt ELSE Err("argtype")
     [] name \in {"min", "max"} -> IF n # 2 THEN Err("arity") ELSE IF IntLike(ts[1]) /\ IntLike(ts[2]) THEN TInt ELSE Err("argtype")
     [] name = "map_new" -> IF n # 0 THEN Err("arity") ELSE TMap(TAny, TAny)
     [] name = "map_put" -> IF n # 3 THEN Err("arity") ELSE IF IsTypedMap(ts[1]) /\ KeyOk(ts[1].a[1], ts[2]) /\ KeyOk(ts[1].a[2], ts[3]) THEN TVoid ELSE Err("argtype")
     [] name = "map_get" -> IF n # 2 THEN Err("arity") ELSE IF IsTypedMap(ts[1]) /\ KeyOk(ts[1].a[1], ts[2]) THEN ts[1].a[2] ELSE Err("argtype")
     [] name = "map_has" -> IF n # 2 THEN Err("arity") ELSE IF IsTypedMap(ts[1]) /\ KeyOk(ts[1].a[1], ts[2]) THEN TBool ELSE Err("argtype")
     [] name = "map_remove" -> IF n # 2 THEN Err("arity") ELSE IF IsTypedMap(ts[1]) /\ KeyOk(ts[1].a[1], ts[2]) THEN TVoid ELSE Err("argtype")
     [] name \in {"map_size", "map_length"} -> IF n # 1 THEN Err("arity") ELSE IF ts[1].k = "map" THEN TInt ELSE Err("argtype")

UnionOfT(t) == IF t.k = "variant" THEN t.a[1] ELSE t.n
RECURSIVE TypeOf(_, _, _), TypesOf(_, _, _, _, _)
TypesOf(P, G, es, k, acc) == IF k > Len(es) THEN acc ELSE TypesOf(P, G, es, k + 1, Append(acc, TypeOf(P, G, es[k])))

TypeOf(P, G, e) ==
   CASE e.k = "int" -> TInt
     [] e.k = "float" -> TFloat
     [] e.k = "bool" -> TBool
     [] e.k = "str" -> TStr
     [] e.k = "var" -> LookupT(P, G, e.s).t
     [] e.k = "enum" -> LET p == FindEVT(P.enums, e.s, 1, 1) IN IF p[1] = 0 THEN Err("variant") ELSE Ty("enum", P.enums[p[1]].n, <<>>)
     [] e.k = "un" -> LET t == TypeOf(P, G, e.a[1]) IN
                      IF IsErr(t) THEN t
                      ELSE IF e.s = "-" THEN (IF IntLike(t) THEN TInt ELSE Err("operand"))
                      ELSE IF t = TBool THEN TBool ELSE Err("operand")
     [] e.k = "bin" -> LET l == TypeOf(P, G, e.a[1])  r == TypeOf(P, G, e.a[2]) IN
                      IF IsErr(l) THEN l ELSE IF IsErr(r) THEN r
                      ELSE IF e.s \in ArithOpsT THEN
                           (IF IntLike(l) /\ IntLike(r) THEN TInt ELSE IF l = TFloat /\ r = TFloat THEN TFloat
                            ELSE IF e.s = "+" /\ l = TStr /\ r = TStr THEN TStr ELSE Err("operand"))
                      ELSE IF e.s \in CmpOpsT THEN (IF (IntLike(l) /\ IntLike(r)) \/ (l = TFloat /\ r = TFloat) THEN TBool ELSE Err("operand"))
                      ELSE IF e.s \in {"==", "!="} THEN (IF (l = r /\ l.k \in {"int", "bool", "str", "enum", "float"}) \/ (IntLike(l) /\ IntLike(r)) THEN TBool ELSE Err("operand"))
                      ELSE IF e.s \in {"and", "or"} THEN (IF l = TBool /\ r = TBool THEN TBool ELSE Err("operand"))
                      ELSE Err("operand")
     [] e.k = "ifx" -> LET c == TypeOf(P, G, e.a[1])  a == TypeOf(P, G, e.a[2])  b == TypeOf(P, G, e.a[3]) IN
                      IF IsErr(c) THEN c ELSE IF c # TBool THEN Err("cond")
                      ELSE IF IsErr(a) THEN a ELSE IF IsErr(b) THEN b ELSE IF a = b THEN a ELSE Err("operand")
     [] e.k = "field" -> LET t == TypeOf(P, G, e.a[1]) IN
                      IF IsErr(t) THEN t
                      ELSE IF t.k = "struct" THEN
                           LET si == FindT(P.structs, t.n)
                               fi == IF si = 0 THEN 0 ELSE IndexOfT(P.structs[si].fields, e.s, 1) IN
                           IF fi = 0 THEN Err("field") ELSE P.structs[si].ftyS[fi]
                      ELSE IF t.k = "variant" THEN
                           LET p == FindUVT(P.unions, t.n, 1, 1)
                               fi == IF p[1] = 0 THEN 0 ELSE IndexOfT(P.unions[p[1]].variants[p[2]].fields, e.s, 1) IN
                           IF fi = 0 THEN Err("field") ELSE P.unions[p[1]].variants[p[2]].ftyS[fi]
                      ELSE Err("field")
     [] e.k = "tidx" -> LET t == TypeOf(P, G, e.a[1]) IN
                      IF IsErr(t) THEN t ELSE IF t.k # "tuple" \/ e.i[4] + 1 > Len(t.a) THEN Err("field") ELSE t.a[e.i[4] + 1]
     [] e.k = "slit" -> LET si == FindT(P.structs, e.s)
                            ts == TypesOf(P, G, e.a, 1, <<>>) IN
                      IF si = 0 THEN Err("struct")
                      ELSE IF AnyErr(ts) THEN FirstErr(ts)
                      ELSE LET d == P.structs[si] IN
                           IF Len(d.fields) # Len(e.f) \/ \E j \in 1..Len(e.f) : IndexOfT(d.fields, e.f[j], 1) = 0 THEN Err("field")
                           ELSE IF \E j \in 1..Len(e.f) : ~Compat(d.ftyS[IndexOfT(d.fields, e.f[j], 1)], ts[j]) THEN Err("operand")
                           ELSE Ty("struct", e.s, <<>>)
     [] e.k = "ulit" -> LET p == FindUVT(P.unions, e.s, 1, 1)
                            ts == TypesOf(P, G, e.a, 1, <<>>) IN
                      IF p[1] = 0 THEN Err("variant")
                      ELSE IF AnyErr(ts) THEN FirstErr(ts)
                      ELSE LET d == P.unions[p[1]].variants[p[2]] IN
                           IF Len(d.fields) # Len(e.f) \/ \E j \in 1..Len(e.f) : IndexOfT(d.fields, e.f[j], 1) = 0 THEN Err("field")
                           ELSE IF \E j \in 1..Len(e.f) : ~Compat(d.ftyS[IndexOfT(d.fields, e.f[j], 1)], ts[j]) THEN Err("operand")
                           ELSE Ty("variant", e.s, <<P.unions[p[1]].n>>)
     [] e.k = "alit" -> LET ts == TypesOf(P, G, e.a, 1, <<>>) IN
                      IF AnyErr(ts) THEN FirstErr(ts)
                      ELSE IF Len(ts) = 0 THEN TArr(TAny)
                      ELSE IF \A j \in 2..Len(ts) : ts[j] = ts[1] THEN TArr(ts[1])
                      \* the variants of one union are values of that union (3.4.3): [Msg.Quit {}, Msg.Move { .. }] is an array<Msg>
                      ELSE IF \A j \in 1..Len(ts) : ts[j].k \in {"variant", "union"} /\ UnionOfT(ts[j]) = UnionOfT(ts[1]) THEN TArr(Ty("union", UnionOfT(ts[1]), <<>>))
                      ELSE Err("operand")
     [] e.k = "tlit" -> LET ts == TypesOf(P, G, e.a, 1, <<>>) IN IF AnyErr(ts) THEN FirstErr(ts) ELSE Ty("tuple", "", ts)
     [] e.k = "call" ->
          LET ts == TypesOf(P, G, e.a, 1, <<>>)
              l == LookupT(P, G, e.s) IN
          IF AnyErr(ts) THEN FirstErr(ts)
          ELSE IF l.ok THEN
               (IF l.t.k # "fn" THEN Err("call")
                ELSE LET np == Len(l.t.a) - 1 IN
                     IF Len(ts) # np THEN Err("arity")
                     ELSE IF \E j \in 1..np : ~Compat(l.t.a[j], ts[j]) THEN Err("argtype") ELSE l.t.a[np + 1])
          ELSE IF FindT(P.externs, e.s) # 0 THEN
               LET x == P.externs[FindT(P.externs, e.s)] IN
               IF Len(ts) # Len(x.ptyS) THEN Err("arity")
               ELSE IF \E j \in 1..Len(ts) : ~Compat(x.ptyS[j], ts[j]) THEN Err("argtype") ELSE x.retS
          ELSE IF e.s \in BuiltinsT THEN BuiltinType(e.s, ts)
          ELSE IF e.s \in LibBuiltinsT THEN LibBuiltinType(e.s, ts)
          ELSE Err("scope")
     [] OTHER -> Err("expr")

\* ---- statements: result [G, errs, ret] (ret: the statement definitely returns) ----
CR(G, errs, ret) == [G |-> G, errs |-> errs, ret |-> ret]
ErrOf(t) == IF IsErr(t) THEN {t.n} ELSE {}
RECURSIVE Check(_, _, _, _, _), CheckSeq(_, _, _, _, _, _, _, _), CheckArms(_, _, _, _, _, _, _, _)
CheckSeq(P, G, stmts, k, rt, inloop, errs, ret) ==
   IF k > Len(stmts) THEN CR(G, errs, ret)
   ELSE LET r == Check(P, G, stmts[k], rt, inloop) IN CheckSeq(P, r.G, stmts, k + 1, rt, inloop, errs \cup r.errs, ret \/ r.ret)
Scoped(P, G, stmts, rt, inloop) == LET r == CheckSeq(P, G, stmts, 1, rt, inloop, {}, FALSE) IN CR(G, r.errs, r.ret)   \* block scope ends
CheckArms(P, G, arms, k, ut, rt, inloop, acc) ==
   IF k > Len(arms) THEN acc
   ELSE LET a == arms[k]
            p == FindUVT(P.unions, a.v, 1, 1)
            bad == IF p[1] = 0 \/ P.unions[p[1]].n # ut.n THEN {"variant"} ELSE {}
            vt == IF p[1] = 0 THEN Err("variant") ELSE Ty("variant", a.v, <<ut.n>>)
            r == Scoped(P, Append(G, [n |-> a.bind, t |-> vt, m |-> 0]), a.b, rt, inloop) IN
        CheckArms(P, G, arms, k + 1, ut, rt, inloop, CR(G, acc.errs \cup bad \cup r.errs, acc.ret /\ r.ret))

Check(P, G, s, rt, inloop) ==
   CASE s.k = "let" -> LET t == TypeOf(P, G, s.a[1]) IN
                       CR(Append(G, [n |-> s.s, t |-> s.tyS, m |-> s.m]), ErrOf(t) \cup (IF ~IsErr(t) /\ ~Compat(s.tyS, t) THEN {"lettype"} ELSE {}), FALSE)
     [] s.k = "set" -> LET t == TypeOf(P, G, s.a[1])
                           l == LookupT(P, G, s.s) IN
                       CR(G, ErrOf(t) \cup (IF ~l.ok THEN {"scope"} ELSE IF l.t.k = "fn" THEN {"immutable"} ELSE IF l.m = 0 THEN {"immutable"} ELSE {})
                                     \cup (IF l.ok /\ ~IsErr(t) /\ l.t.k # "fn" /\ ~Compat(l.t, t) THEN {"assign"} ELSE {}), FALSE)
     \* rule `unsafe`, as implemented (typechecker.c "requires unsafe block or unsafe module"): a call of an external function that
     \* stands as a statement of its own must be inside an unsafe block.  SPECIFICATION 6.4 uses external calls inside
     \* expressions without any unsafe block and EXTERN_FFI.md only plans explicit unsafe blocks, so nothing more is demanded.
     [] s.k = "expr" -> CR(G, ErrOf(TypeOf(P, G, s.a[1])) \cup
                             (IF s.a[1].k = "call" /\ FindT(P.externs, s.a[1].s) # 0 /\ ~LookupT(P, G, s.a[1].s).ok /\ FindT(G, "@unsafe") = 0 THEN {"unsafe"} ELSE {}), FALSE)
     [] s.k = "ret" -> IF Len(s.a) = 0 THEN CR(G, IF rt = TVoid THEN {} ELSE {"rettype"}, TRUE)
                       ELSE LET t == TypeOf(P, G, s.a[1]) IN CR(G, ErrOf(t) \cup (IF ~IsErr(t) /\ ~Compat(rt, t) THEN {"rettype"} ELSE {}), TRUE)
     [] s.k \in {"break", "continue"} -> CR(G, IF inloop THEN {} ELSE {"loopctl"}, FALSE)
     [] s.k = "assert" -> LET t == TypeOf(P, G, s.a[1]) IN CR(G, ErrOf(t) \cup (IF ~IsErr(t) /\ t # TBool THEN {"cond"} ELSE {}), FALSE)
     [] s.k = "if" -> LET t == TypeOf(P, G, s.a[1])
                          a == Scoped(P, G, s.b, rt, inloop)
                          b == Scoped(P, G, s.c, rt, inloop) IN
                      CR(G, ErrOf(t) \cup (IF ~IsErr(t) /\ t # TBool THEN {"cond"} ELSE {}) \cup a.errs \cup b.errs, a.ret /\ b.ret /\ Len(s.c) > 0)
     [] s.k = "block" -> Scoped(P, G, s.b, rt, inloop)
     [] s.k = "unsafe" -> LET r == CheckSeq(P, Append(G, [n |-> "@unsafe", t |-> TVoid, m |-> 0]), s.b, 1, rt, inloop, {}, FALSE) IN CR(G, r.errs, r.ret)
     [] s.k = "while" -> LET t == TypeOf(P, G, s.a[1])
                             b == Scoped(P, G, s.b, rt, TRUE) IN
                         CR(G, ErrOf(t) \cup (IF ~IsErr(t) /\ t # TBool THEN {"cond"} ELSE {}) \cup b.errs, FALSE)
     [] s.k = "for" -> LET lo == TypeOf(P, G, s.a[1])  hi == TypeOf(P, G, s.a[2])
                           b == Scoped(P, Append(G, [n |-> s.s, t |-> TInt, m |-> 0]), s.b, rt, TRUE) IN
                       CR(G, ErrOf(lo) \cup ErrOf(hi) \cup (IF (~IsErr(lo) /\ lo # TInt) \/ (~IsErr(hi) /\ hi # TInt) THEN {"operand"} ELSE {}) \cup b.errs, FALSE)
     [] s.k = "forin" -> LET t == TypeOf(P, G, s.a[1])
                             et == IF t.k = "arr" THEN t.a[1] ELSE Err("operand")
                             b == Scoped(P, Append(G, [n |-> s.s, t |-> et, m |-> 0]), s.b, rt, TRUE) IN
                         CR(G, ErrOf(t) \cup (IF ~IsErr(t) /\ t.k # "arr" THEN {"operand"} ELSE {}) \cup b.errs, FALSE)
     [] s.k = "match" -> LET t == TypeOf(P, G, s.a[1]) IN
                         IF IsErr(t) THEN CR(G, {t.n}, FALSE)
                         ELSE IF t.k # "union" THEN CR(G, {"operand"}, FALSE)
                         ELSE LET r == CheckArms(P, G, s.arms, 1, t, rt, inloop, CR(G, {}, TRUE))
                                  ui == FindT(P.unions, t.n)
                                  covered == {s.arms[j].v : j \in 1..Len(s.arms)}
                                  all == IF ui = 0 THEN {} ELSE {t.n \o "." \o P.unions[ui].variants[j].n : j \in 1..Len(P.unions[ui].variants)} IN
                              CR(G, r.errs, r.ret /\ all \subseteq covered)
     [] OTHER -> CR(G, {"stmt"}, FALSE)

FuncErrs(P, f) ==
   LET G0 == [k \in 1..Len(f.params) |-> [n |-> f.params[k], t |-> f.ptyS[k], m |-> 0]]
       r == CheckSeq(P, G0, f.body, 1, f.retS, FALSE, {}, FALSE) IN
   r.errs \cup (IF f.retS # TVoid /\ ~r.ret THEN {"retpath"} ELSE {})
GlobalErrs(P) == UNION {LET g == P.globals[k]
                            t == TypeOf([P EXCEPT !.globals = SubSeq(P.globals, 1, k - 1)], <<>>, g.init) IN
                        ErrOf(t) \cup (IF ~IsErr(t) /\ ~Compat(g.tyS, t) THEN {"lettype"} ELSE {}) : k \in 1..Len(P.globals)}
ShadowErrs(P) == UNION {CheckSeq(P, <<>>, P.shadows[k].b, 1, TVoid, FALSE, {}, FALSE).errs : k \in 1..Len(P.shadows)}
Violates(P) == GlobalErrs(P) \cup UNION {FuncErrs(P, P.funcs[k]) : k \in 1..Len(P.funcs)} \cup ShadowErrs(P)
               \cup (IF FindT(P.funcs, "main") = 0 THEN {"nomain"} ELSE {})
WT(P) == Violates(P) = {}
====
