---- MODULE Int64 ----
\* Two's-complement 64-bit integers as <<l3, l2, l1, l0>> : four 16-bit limbs, most significant first.
EXTENDS Integers, Sequences, TLC
I64B == 65536
I64Limb == 0 .. I64B - 1
I64Zero == <<0, 0, 0, 0>>
I64One  == <<0, 0, 0, 1>>
I64MinI == <<32768, 0, 0, 0>>
I64MaxI == <<32767, 65535, 65535, 65535>>
I64IsNeg(a) == a[1] >= 32768
\* unsigned add with carry, modulo 2^64
I64AddU(a, b) ==
  LET s0 == a[4] + b[4]                 c0 == s0 \div I64B
      s1 == a[3] + b[3] + c0            c1 == s1 \div I64B
      s2 == a[2] + b[2] + c1            c2 == s2 \div I64B
      s3 == a[1] + b[1] + c2
  IN <<s3 % I64B, s2 % I64B, s1 % I64B, s0 % I64B>>
I64Not(a) == <<I64B - 1 - a[1], I64B - 1 - a[2], I64B - 1 - a[3], I64B - 1 - a[4]>>
I64Neg(a) == I64AddU(I64Not(a), I64One)
I64Add(a, b) == I64AddU(a, b)
I64Sub(a, b) == I64AddU(a, I64Neg(b))
\* unsigned compare
I64LtU(a, b) ==
   \/ a[1] < b[1]
   \/ a[1] = b[1] /\ a[2] < b[2]
   \/ a[1] = b[1] /\ a[2] = b[2] /\ a[3] < b[3]
   \/ a[1] = b[1] /\ a[2] = b[2] /\ a[3] = b[3] /\ a[4] < b[4]
I64Lt(a, b) == IF I64IsNeg(a) # I64IsNeg(b) THEN I64IsNeg(a) ELSE I64LtU(a, b)
I64Le(a, b) == a = b \/ I64Lt(a, b)
\* multiplication modulo 2^64: schoolbook on limbs; partial products are < 2^32 so split each in two 16-bit halves
\* to stay inside TLC's 32-bit integers: p = x*y with x,y < 2^16 may reach 2^32-2^17+1 > 2^31 -> split x in bytes.
I64MulLimb(x, y) == \* returns <<hi, lo>> of x*y, all intermediate values < 2^31
  LET xh == x \div 256   xl == x % 256
      p1 == xl * y                      \* < 2^24
      p2 == xh * y                      \* < 2^24 ; contributes p2 * 256
      lo1 == p1 % I64B                     hi1 == p1 \div I64B
      t  == (p2 % 256) * 256            \* low part of p2*256 within 16 bits
      h2 == p2 \div 256                 \* high part
      s  == lo1 + t
  IN <<hi1 + h2 + (s \div I64B), (s % I64B)>>
\* accumulate into 4 limbs (index 4 = least significant); acc limbs may temporarily exceed I64B, normalise at the end
I64Norm(v) ==
  LET c0 == v[4] \div I64B  r0 == v[4] % I64B
      v1 == v[3] + c0    c1 == v1 \div I64B  r1 == v1 % I64B
      v2 == v[2] + c1    c2 == v2 \div I64B  r2 == v2 % I64B
      v3 == v[1] + c2
  IN <<v3 % I64B, r2, r1, r0>>
I64Mul(a, b) ==
  LET P(i, j) == I64MulLimb(a[i], b[j])     \* limb i has weight 4-i
      \* weight w = (4-i)+(4-j); keep w <= 3
      w0 == P(4,4)
      w1a == P(3,4) w1b == P(4,3)
      w2a == P(2,4) w2b == P(3,3) w2c == P(4,2)
      w3a == P(1,4) w3b == P(2,3) w3c == P(3,2) w3d == P(4,1)
  IN I64Norm(<< w3a[2] + w3b[2] + w3c[2] + w3d[2] + w2a[1] + w2b[1] + w2c[1],
             w2a[2] + w2b[2] + w2c[2] + w1a[1] + w1b[1],
             w1a[2] + w1b[2] + w0[1],
             w0[2] >>)
\* shifts for division
I64Shl1(a) == <<((a[1] * 2) % I64B) + (a[2] \div 32768), ((a[2] * 2) % I64B) + (a[3] \div 32768), ((a[3] * 2) % I64B) + (a[4] \div 32768), (a[4] * 2) % I64B>>
I64Bit(a, k) == \* k = 63 (msb) .. 0
  LET limb == a[4 - (k \div 16)] IN (limb \div (2 ^ (k % 16))) % 2
\* unsigned division by restoring long division, 64 iterations
RECURSIVE I64DivStep(_, _, _, _, _)
I64DivStep(n, d, q, r, k) ==
  IF k < 0 THEN <<q, r>>
  ELSE LET r1 == LET s == I64Shl1(r) IN <<s[1], s[2], s[3], s[4] + I64Bit(n, k)>>
           ge == ~I64LtU(r1, d)
           r2 == IF ge THEN I64Sub(r1, d) ELSE r1
           q1 == LET s == I64Shl1(q) IN <<s[1], s[2], s[3], s[4] + (IF ge THEN 1 ELSE 0)>>
       IN I64DivStep(n, d, q1, r2, k - 1)
I64DivModU(n, d) == I64DivStep(n, d, I64Zero, I64Zero, 63)
I64Abs(a) == IF I64IsNeg(a) THEN I64Neg(a) ELSE a       \* I64Abs(I64MinI) = I64MinI as unsigned 2^63: fine for unsigned division
\* truncating division (C semantics, wrapping for I64MinI / -1); d # 0
I64DivT(a, b) == LET qr == I64DivModU(I64Abs(a), I64Abs(b)) IN IF I64IsNeg(a) # I64IsNeg(b) THEN I64Neg(qr[1]) ELSE qr[1]
I64ModT(a, b) == LET qr == I64DivModU(I64Abs(a), I64Abs(b)) IN IF I64IsNeg(a) THEN I64Neg(qr[2]) ELSE qr[2]
\* floor division (Coq Z.div / Z.modulo)
I64DivF(a, b) == LET q == I64DivT(a, b) r == I64ModT(a, b) IN IF r # I64Zero /\ (I64IsNeg(r) # I64IsNeg(b)) THEN I64Sub(q, I64One) ELSE q
I64ModF(a, b) == LET r == I64ModT(a, b) IN IF r # I64Zero /\ (I64IsNeg(r) # I64IsNeg(b)) THEN I64Add(r, b) ELSE r
\* ---- additions ----
I64FromNat(n) == <<0, 0, (n \div I64B) % I64B, n % I64B>>             \* 0 <= n < 2^31
I64FromInt(n) == IF n >= 0 THEN I64FromNat(n) ELSE I64Neg(I64FromNat(-n))    \* |n| < 2^31
I64IsSmall(a) == (a[1] = 0 /\ a[2] = 0 /\ a[3] < 16384) \/ (a[1] = 65535 /\ a[2] = 65535 /\ a[3] >= 49152)   \* |a| < 2^30
I64ToInt(a) == IF a[1] = 0 THEN a[3] * I64B + a[4] ELSE (a[3] - I64B) * I64B + a[4]   \* only when I64IsSmall(a)
I64Gt(a, b) == I64Lt(b, a)
I64Ge(a, b) == I64Le(b, a)
====
