---------------------------- MODULE NativeStr ----------------------------
(***************************************************************************)
(* C20 -- the byte-string type of the native runtime (src/runtime/          *)
(* nl_string.c, nl_string_t = {data, length, capacity, is_utf8,             *)
(* null_terminated}; the generated prelude wraps it as bstr_new etc.).             *)
(*                                                                         *)
(* One string is in focus; its abstract state is the byte sequence plus     *)
(* capacity and the two flags.  The bytes of an nl_string_t never change     *)
(* after construction (the API is value-like), so the interesting state is   *)
(* the storage bookkeeping: capacity, terminator, the cached UTF-8 verdict.  *)
(* Operations that produce a new string (concat, substring, clone)           *)
(* prescribe the complete result in the entry (`r`); the probe compares it   *)
(* and frees it.  Same JSON shape and the same probe as NativeRT             *)
(* (family "str").  Every transition of the reachable graph (VIEW = state    *)
(* without history, <= MaxLen steps) is printed as one history.              *)
(*                                                                         *)
(* Not modelled: nl_string_byte_at (unchecked by contract),                  *)
(* nl_string_utf8_substring and lengths near SIZE_MAX (functional quirks,    *)
(* no memory access involved), malloc failure.                               *)
(***************************************************************************)
EXTENDS Integers, Sequences, FiniteSets, TLC, Json

CONSTANTS MaxLen, EmitMode, StopAtDev, AllowDev
VARIABLES bytes, cap, nt, utf, status, hist

vars == <<bytes, cap, nt, utf, status, hist>>
View == <<bytes, cap, nt, utf, status>>

\* ---- UTF-8 as nl_string.c reads it (utf8_sequence_length / is_utf8_continuation)
SeqLenOf(b) == IF b < 128 THEN 1 ELSE IF b >= 192 /\ b < 224 THEN 2 ELSE IF b >= 224 /\ b < 240 THEN 3
               ELSE IF b >= 240 /\ b < 248 THEN 4 ELSE 0
IsCont(b) == b >= 128 /\ b < 192

RECURSIVE Valid(_, _), Count(_, _), CharAt(_, _, _)
Valid(s, i) ==                     \* i: 1-based position of the next lead byte
    IF i > Len(s) THEN TRUE
    ELSE LET n == SeqLenOf(s[i]) IN
         IF n = 0 \/ i + n - 1 > Len(s) THEN FALSE
         ELSE IF \E j \in 1..(n - 1) : ~IsCont(s[i + j]) THEN FALSE
         ELSE Valid(s, i + n)
Count(s, i) == IF i > Len(s) THEN 0 ELSE 1 + Count(s, i + SeqLenOf(s[i]))
CodePoint(s, i) ==
    LET n == SeqLenOf(s[i]) IN
    IF n = 1 THEN s[i]
    ELSE IF n = 2 THEN (s[i] % 32) * 64 + (s[i + 1] % 64)
    ELSE IF n = 3 THEN (s[i] % 16) * 4096 + (s[i + 1] % 64) * 64 + (s[i + 2] % 64)
    ELSE (s[i] % 8) * 262144 + (s[i + 1] % 64) * 4096 + (s[i + 2] % 64) * 64 + (s[i + 3] % 64)
CharAt(s, i, k) == IF i > Len(s) THEN -1 ELSE IF k = 0 THEN CodePoint(s, i) ELSE CharAt(s, i + SeqLenOf(s[i]), k - 1)

Min(a, b) == IF a <= b THEN a ELSE b
Max(a, b) == IF a >= b THEN a ELSE b

\* ---- constructors
Ctors ==
    {[c |-> "new", b |-> x, n |-> 0] : x \in {<<>>, <<97>>, <<97, 98>>, <<195, 169, 97>>, <<255>>}}
    \cup {[c |-> "binary", b |-> x, n |-> 0] : x \in {<<>>, <<97, 0, 98>>, <<195>>, <<169>>, <<98, 195, 169>>}}
    \cup {[c |-> "cap", b |-> <<>>, n |-> n] : n \in {0, 1, 5}}

CtorState(k) ==
    CASE k.c = "new"    -> [bytes |-> k.b, cap |-> Len(k.b) + 1, nt |-> TRUE, utf |-> FALSE]
      [] k.c = "binary" -> [bytes |-> k.b, cap |-> Len(k.b), nt |-> FALSE, utf |-> FALSE]
      [] k.c = "cap"    -> [bytes |-> <<>>, cap |-> k.n, nt |-> FALSE, utf |-> TRUE]

NoStr == [bytes |-> <<>>, cap |-> 0, nt |-> 0, utf |-> 0, null |-> 1]
StrRec(b, c, n, u) == [bytes |-> b, cap |-> c, nt |-> (IF n THEN 1 ELSE 0), utf |-> (IF u THEN 1 ELSE 0), null |-> 0]

Entry(op, i, v, res, ret, dev, r) == [op |-> op, i |-> i, v |-> v, res |-> res, ret |-> ret, dev |-> dev, r |-> r]
SState == [len |-> Len(bytes'), cap |-> cap', nt |-> (IF nt' THEN 1 ELSE 0), utf |-> (IF utf' THEN 1 ELSE 0), bytes |-> bytes']

Emit(h) == PrintT("@@J " \o ToJson([family |-> "str", h |-> h]))
Commit(e) ==
    LET h2 == Append(hist, [e |-> e, s |-> SState]) IN
    /\ (e.dev # "") => AllowDev
    /\ hist' = h2
    /\ status' = IF e.op = "free" \/ (StopAtDev /\ e.dev # "") THEN "ended" ELSE "run"
    /\ (EmitMode = "edge") => Emit(h2)

Running == status = "run" /\ Len(hist) < MaxLen + 1
Same == UNCHANGED <<bytes, cap, nt, utf>>
n0 == Len(bytes)

\* nl_string_byte_at_safe(str, index, &out): index is a size_t, -1 stands for SIZE_MAX
ByteAtSafe(i) ==
    /\ Running /\ Same
    /\ Commit(IF i >= 0 /\ i < n0 THEN Entry("byte_at_safe", i, 0, "ok", bytes[i + 1], "", NoStr)
                                   ELSE Entry("byte_at_safe", i, 0, "fail", 0, "", NoStr))

Concat ==       \* nl_string_concat(s, s)
    /\ Running /\ Same
    /\ Commit(Entry("concat", 0, 0, "ok", 0, "", StrRec(bytes \o bytes, 2 * n0 + 1, TRUE, utf)))

Substring(st, ln) ==
    /\ Running /\ Same
    /\ Commit(Entry("substring", st, ln, "ok", 0, "",
              IF st >= n0 THEN StrRec(<<>>, 0, FALSE, TRUE)             \* nl_string_with_capacity(0)
              ELSE LET l2 == Min(ln, n0 - st)
                       b  == SubSeq(bytes, st + 1, st + l2)
                   IN StrRec(b, l2, FALSE, (IF utf THEN Valid(b, 1) ELSE FALSE))))

Validate ==
    /\ Running /\ utf' = Valid(bytes, 1) /\ UNCHANGED <<bytes, cap, nt>>
    /\ Commit(Entry("validate", 0, 0, "ok", (IF Valid(bytes, 1) THEN 1 ELSE 0), "", NoStr))

Utf8Length ==
    /\ Running /\ Same
    /\ Commit(Entry("utf8_length", 0, 0, "ok", (IF utf THEN Count(bytes, 1) ELSE -1), "", NoStr))

Utf8CharAt(k) ==
    /\ Running /\ Same /\ k >= 0
    /\ Commit(Entry("utf8_char_at", k, 0, "ok", (IF utf THEN CharAt(bytes, 1, k) ELSE -1), "", NoStr))

EnsureNT ==     \* nl_string_to_cstr / nl_string_ensure_null_terminated
    /\ Running
    /\ nt' = TRUE /\ cap' = (IF ~nt /\ n0 >= cap THEN n0 + 1 ELSE cap)
    /\ UNCHANGED <<bytes, utf>>
    /\ Commit(Entry("to_cstr", 0, 0, "ok", 0, "", NoStr))

Reserve(n) ==
    /\ Running
    /\ cap' = Max(cap, n) /\ UNCHANGED <<bytes, nt, utf>>
    /\ Commit(Entry("reserve", n, 0, "ok", 0, "", NoStr))

\* nl_string_shrink_to_fit: capacity == length => nothing; else realloc(data, length + nt).
\* For an empty string without terminator that is realloc(data, 0), which frees the block and
\* returns NULL: the code used to keep the dangling pointer (F-nlstring-shrink-to-zero, fixed in /repo).
Shrink ==
    /\ Running
    /\ LET newcap == n0 + (IF nt THEN 1 ELSE 0) IN
       /\ cap' = (IF cap = n0 THEN cap ELSE newcap)
       /\ UNCHANGED <<bytes, nt, utf>>
       /\ Commit(Entry("shrink", 0, 0, "ok", 0, "", NoStr))

Clone ==
    /\ Running /\ Same
    /\ Commit(Entry("clone", 0, 0, "ok", 0, "", StrRec(bytes, cap, nt, utf)))

Free ==
    /\ Running /\ Same
    /\ Commit(Entry("free", 0, 0, "ok", 0, "", NoStr))

Next ==
    \/ \E i \in {-1, 0, 1, n0 - 1, n0} : ByteAtSafe(i)
    \/ Concat
    \/ \E st \in {0, 1, n0, n0 + 1}, ln \in {0, 1, n0, n0 + 1} : Substring(st, ln)
    \/ Validate \/ Utf8Length
    \/ \E k \in {0, 1, 2, 3} : Utf8CharAt(k)
    \/ EnsureNT
    \/ \E n \in {0, cap, cap + 1, 2 * cap + 3} : Reserve(n)
    \/ Shrink \/ Clone \/ Free

Init ==
    \E k \in Ctors :
      LET s0 == CtorState(k) IN
      /\ bytes = s0.bytes /\ cap = s0.cap /\ nt = s0.nt /\ utf = s0.utf
      /\ status = "run"
      /\ hist = << [e |-> [op |-> "new", i |-> 0, v |-> 0, res |-> "ok", ret |-> 0, dev |-> "", r |-> NoStr,
                           c |-> k.c, b |-> k.b, n |-> k.n],
                    s |-> [len |-> Len(s0.bytes), cap |-> s0.cap, nt |-> (IF s0.nt THEN 1 ELSE 0),
                           utf |-> (IF s0.utf THEN 1 ELSE 0), bytes |-> s0.bytes]] >>

Spec == Init /\ [][Next]_vars

\* ---- invariants of the storage bookkeeping
LenLeCap == Len(bytes) <= cap \/ (Len(bytes) = 0 /\ cap = 0)
NtRoom   == nt => cap >= Len(bytes) + 1            \* room for the terminator whenever it is claimed
UtfSound == utf => Valid(bytes, 1)                 \* the cached verdict is never stale
BytesFixed == [][bytes' = bytes]_vars              \* value-like API: no operation changes the bytes
=============================================================================
