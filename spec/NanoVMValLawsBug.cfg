SPECIFICATION Spec
INVARIANTS OpsLaws AlphaLaws ProgLaws NoStuck
PROPERTY Terminates
