\* C11 codec cases.  The constants are supplied by the generated root module NanoISA_MC
\* (values extracted from the code under test at check time).
INIT Init
NEXT Next
CONSTANTS
  Table <- MC_Table
  Opcodes <- MC_Opcodes
  KindSize <- MC_KindSize
  MaxOperands <- MC_MaxOperands
  MaxInstrSize <- MC_MaxInstrSize
  Deep <- MC_Deep
INVARIANTS
  EnumEqualsTable
  TableSelfIndexed
  KindsKnown
  FitsMaxSize
  NamesUnique
  DecodeOfEncode
  PrefixesRefused
  EncodeOfDecode
  NonOpcodeRefused
