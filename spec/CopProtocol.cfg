INIT PInit
NEXT PNext
INVARIANTS NeverSignaled NoOrphan PrefixIntact OutcomeAllowed GarbledOnlyBySplice HealthySame Relaunched EmitOutcome EmitScript
