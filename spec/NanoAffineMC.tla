---- MODULE NanoAffineMC ----
(***************************************************************************)
(* Meta-property of the affine discipline (NanoAffine.tla, part 1): on     *)
(* every function body of a bounded space - all sequences of at most       *)
(* MaxLen units over the places Vars, a unit being an atomic command       *)
(* (new, put, use, con, mvo, move a to b, ret) or a compound one (if/else  *)
(* over small branches, loop over small bodies with break / continue /     *)
(* return, nested scope with shadowing) -                                  *)
(*   SoundInv  a body the static rules accept never touches a dead place   *)
(*             and never loses a live owned one, in any execution (any     *)
(*             branch outcomes, any iteration count <= MaxIter);           *)
(*   ExactInv  and the static rules blame exactly the places that can go   *)
(*             wrong, with the right kind (dead / lost), when every        *)
(*             branch outcome is possible.                                 *)
(* The bodies are generated inside TLC: a state is a body, Next appends a  *)
(* unit, so every prefix is checked as a body of its own.                  *)
(***************************************************************************)
EXTENDS NanoAffine
CONSTANTS Vars,        \* place names
          MaxLen,      \* units per body
          MaxIter,     \* iteration bound of the dynamic semantics
          Level,       \* universe of compound units: 0 small (one place inside them), 1 medium, 2 large
          Pre          \* 0: bodies start empty or with a resource parameter; 1: with one or two declared places
VARIABLES body, len
vars == <<body, len>>

Seq2(A) == {<<>>} \cup A \cup {x \o y : x \in A, y \in A}
Atoms ==
   {<<CNew(x, TRUE)>> : x \in Vars} \cup {<<CPut(x)>> : x \in Vars} \cup {<<CUse(x)>> : x \in Vars}
   \cup {<<CCon(x)>> : x \in Vars} \cup {<<CMvo(x)>> : x \in Vars}
   \cup {<<CMvo(p[1]), CNew(p[2], TRUE)>> : p \in {q \in Vars \X Vars : q[1] # q[2]}}       \* let y = x
   \cup {<<CRet>>}
X1 == CHOOSE x \in Vars : TRUE
\* branch bodies / loop bodies / nested scopes of the two universes
Br1 == {<<>>, <<CRet>>} \cup {<<CCon(x)>> : x \in Vars} \cup {<<CUse(x)>> : x \in Vars} \cup {<<CCon(X1), CRet>>, <<CMvo(X1)>>}
LoopAt1 == {<<CCon(X1)>>, <<CUse(X1)>>, <<CNew(X1, TRUE)>>, <<CPut(X1)>>, <<CBrk>>, <<CCnt>>, <<CRet>>}
BlkAt1 == {<<CNew(X1, TRUE)>>, <<CCon(X1)>>, <<CUse(X1)>>}
Br0 == {<<>>, <<CRet>>, <<CCon(X1)>>, <<CUse(X1)>>}
LoopAt0 == {<<CCon(X1)>>, <<CUse(X1)>>, <<CBrk>>}
BlkAt0 == {<<CNew(X1, TRUE)>>, <<CCon(X1)>>}
Br2 == Seq2({<<CCon(x)>> : x \in Vars} \cup {<<CUse(x)>> : x \in Vars} \cup {<<CNew(X1, TRUE)>>, <<CPut(X1)>>, <<CMvo(X1)>>, <<CRet>>})
LoopAt2 == LoopAt1 \cup {<<CCon(x)>> : x \in Vars} \cup {<<CMvo(X1)>>}
             \cup {<<CAlt(<<b1, b2>>)>> : b1 \in {<<CCon(X1)>>, <<CBrk>>, <<CCon(X1), CBrk>>, <<CCon(X1), CRet>>, <<CCnt>>}, b2 \in {<<>>, <<CUse(X1)>>}}
BlkAt2 == BlkAt1 \cup {<<CNew(x, TRUE)>> : x \in Vars} \cup {<<CCon(x)>> : x \in Vars} \cup {<<CRet>>, <<CMvo(X1)>>}
Compound ==
   IF Level = 0
   THEN {<<CAlt(<<b1, b2>>)>> : b1 \in Br0, b2 \in Br0}
        \cup {<<CLoop(<<>>, b)>> : b \in Seq2(LoopAt0)}
        \cup {<<CBlk(b)>> : b \in Seq2(BlkAt0)}
   ELSE IF Level = 1
   THEN {<<CAlt(<<b1, b2>>)>> : b1 \in Br1, b2 \in Br1}
        \cup {<<CLoop(pre, b)>> : pre \in {<<>>, <<CUse(X1)>>}, b \in Seq2(LoopAt1)}
        \cup {<<CBlk(b)>> : b \in Seq2(BlkAt1)}
   ELSE {<<CAlt(<<b1, b2>>)>> : b1 \in Br2, b2 \in Br2}
        \cup {<<CLoop(pre, b)>> : pre \in {<<>>, <<CUse(X1)>>}, b \in Seq2(LoopAt2)}
        \cup {<<CBlk(b)>> : b \in Seq2(BlkAt2)}
Units == Atoms \cup Compound

X2 == CHOOSE x \in Vars : x # X1
Preambles == IF Pre = 1
             THEN {<<CNew(X1, TRUE)>>, <<CNew(X1, TRUE), CNew(X2, TRUE)>>, <<CNew(X1, FALSE)>>, <<CNew(X1, FALSE), CNew(X2, TRUE)>>}
             ELSE {<<>>, <<CNew(X1, FALSE)>>}                        \* without / with a resource parameter
\* Level 2 (large compound units): one compound unit, then atoms
Init == len = 0 /\ body \in Preambles
Next == len < MaxLen /\ len' = len + 1 /\ \E u \in (IF Level = 2 /\ len > 0 THEN Atoms ELSE Units) : body' = body \o u
Spec == Init /\ [][Next]_vars

SoundInv == Sound(body, MaxIter)
ExactInv == Exact(body, MaxIter)
\* ---- the documents' own examples as bodies: what the rules must say about them (evaluated when TLC starts)
Nf == CNew("f", TRUE)   Ng == CNew("g", TRUE)   Uf == CUse("f")   Kf == CCon("f")   Kg == CCon("g")   Mf == CMvo("f")
ASSUME StaticRules(<<Nf, Uf, Uf, Kf>>) = {}                                              \* Guide step 3, Pattern 1
ASSUME StaticRules(<<Nf, Kf, Uf>>) = {"use_after_consume"}                                \* Guide Error 1
ASSUME StaticRules(<<Nf, Kf, Kf>>) = {"double_consume"}                                   \* Guide Error 2, Design Rule 1 bad2
ASSUME StaticRules(<<Nf, Uf, CRet>>) = {"leak"}                                           \* Guide Error 3, Design Rule 1 bad1
ASSUME StaticRules(<<Nf, CAlt(<<<<Kf>>, <<>>>>), CRet>>) = {"leak"}                       \* Guide Error 4 (conditional leak)
ASSUME StaticRules(<<Nf, CAlt(<<<<Uf>>, <<>>>>), Kf>>) = {}                               \* Guide Pattern 3
ASSUME StaticRules(<<Nf, CAlt(<<<<Kf, CRet>>, <<>>>>), Uf, Kf, CRet>>) = {}               \* Guide Pattern 4 (early return)
ASSUME StaticRules(<<Nf, CAlt(<<<<Uf, Kf, CRet>>, <<Kf, CRet>>>>)>>) = {}                 \* Guide `Close in All Branches`
ASSUME StaticRules(<<Nf, CLoop(<<>>, <<Uf>>), Kf>>) = {}                                  \* Guide Pattern 6 (loop that borrows)
ASSUME StaticRules(<<Nf, Mf, CNew("c.socket", TRUE), CUse("c.socket"), CCon("c.socket")>>) = {}   \* Guide Pattern 7, Design Rule 4
ASSUME StaticRules(<<Nf, Mf, Ng, Kg>>) = {}                                               \* Design Rule 3 good
ASSUME StaticRules(<<Nf, Mf, Ng, Kg, Kf>>) = {"use_after_move"}                           \* Design Rule 3: `(close f1) ERROR: f1 was moved`
ASSUME StaticRules(<<Nf, Mf, Ng, Kf>>) = {"use_after_move", "leak"}                       \* Design Rule 2 / Guide `let f2 = f1`
ASSUME StaticRules(<<Nf, Uf, Mf, CRet>>) = {}                                             \* Guide FAQ: a resource may be returned
ASSUME StaticRules(<<Nf, CLoop(<<>>, <<Kf>>), CRet>>) = {"consume_in_loop", "leak"}       \* consumed again by the next iteration
ASSUME StaticRules(<<CNew("f", FALSE), Uf>>) = {}                                         \* Design `fn close(f: FileHandle)`: the final consumer drops f
ASSUME StaticRules(<<CNew("f", FALSE), Kf, Kf>>) = {"double_consume"}
ASSUME DynErrs(<<Nf, Kf, Uf>>, 2) = {Er("use_dead", "f")} /\ DynErrs(<<Nf, CLoop(<<>>, <<Kf>>), CRet>>, 2) = {Er("consume_dead", "f"), Er("leak", "f")}
====
