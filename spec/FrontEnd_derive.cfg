SPECIFICATION Spec
CONSTANTS
  Mode = "derive"
  MaxLen = 0
  Alphabet = {"(", ")", "{", "}", "id", "num", "op", "else", "fn", "shadow", "let", "assert", ","}
  Dev = {}
  Fuel = 60
  MaxMuts = 2
