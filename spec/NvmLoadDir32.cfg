\* C13 (loader): boundary directory entries on the real machine (W = 32).  Every file is printed with the
\* model's verdict under the checks as written and under the repaired checks; the probe replays them.
SPECIFICATION Spec
CONSTANTS
  W = 32
  SecCheck = "safe"
  StrCheck = "safe"
  Family = "hostile32"
  MaxBurst = 0
  MaxTail = 0
  MaxFaults = 0
  SampleMod = 1
  Full = FALSE
INVARIANTS TypeOK SizeAssumption ReadsInBounds Terminates NeverUndefined AllOrNothing Staged
