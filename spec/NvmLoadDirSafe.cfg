\* C13 (loader): the same family with the repaired checks (hooks/fix-loader-section-bounds.patch): must hold.
SPECIFICATION Spec
CONSTANTS
  W = 8
  SecCheck = "safe"
  StrCheck = "safe"
  Family = "hostile"
  MaxBurst = 0
  MaxTail = 0
  MaxFaults = 0
  SampleMod = 1
  Full = FALSE
INVARIANTS TypeOK SizeAssumption ReadsInBounds ReadsInBoundsEnum Terminates NeverUndefined AllOrNothing Staged
