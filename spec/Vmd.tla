---- MODULE Vmd ----
\* C17 / C18: the nano_vmd daemon (src/nanovm/vmd_server.c) with well-formed and
\* misbehaving clients, every interleaving.
\*
\* Structure follows the code: one accept loop (Accept), one detached thread per
\* connection (Enter RecvHdr RecvPayload Deser* Verify ExecStep Flush ExecEnd
\* SendErr SendExit Pong StatusRead StatusSend CloseFd Cleanup), g_active_clients
\* changed only under its mutex (Enter, Cleanup), process-wide lazily initialised
\* CRC table of nvm_format.c (CrcCheck CrcFillEnd CrcReadEnd).
\*
\* Every server step is written as an operator over the *server* variables with
\* the input it consumes / the result of its write() as parameters
\* (S_RecvHdr(c, tok), S_Send(c, frame, ok) ...).  The closed system below
\* feeds them from the modelled wire; VmdTrace.tla feeds the same operators from
\* the H4 event log of the real daemon.
EXTENDS Integers, Sequences, FiniteSets, TLC, Json

CONSTANTS
    N,              \* number of clients
    Suite,          \* "c17": N well-formed exec clients x modules; "c18": one good client + (N-1) arbitrary others; "trace": used by VmdTrace
    Verify,         \* TRUE: bytecode verifier runs before execution (what C18 needs); FALSE: the daemon as it is at HEAD (F16)
    CrcModel,       \* "lazy": first-use initialisation in the client threads, step by step (as the code is);
                    \* "eager": table initialised before the accept loop (the repair); "atomic": CRC steps not modelled
    IgnoreSigpipe,  \* TRUE as in setup_signals(); FALSE = regression "SIGPIPE no longer ignored"
    Cap,            \* socket buffer capacity in frames (a full buffer blocks the writing session thread only)
    Buffered,       \* TRUE: output frames may carry any number of units (stdio buffering is not part of the property);
                    \* FALSE: one frame per unit (line-buffered stream, one println per unit) - fewer interleavings
    Gaps,           \* "all": every arrival schedule (for scenario generation); "overlap": only the most general one
    DropExit,       \* FALSE: the exit frame carries the standalone exit status (what C17 needs); TRUE: deviation switch
                    \* VMD_DROPS_EXIT - the daemon reports 0 for every run that completes, 1 for a failed one (finding F12b)
    FlushOnErr,     \* TRUE: fflush() of the session's stream after vm_execute() on every path (as the code is); FALSE:
                    \* regression "flush only when the run succeeded" - a buffered partial line of a failing run is lost
    KeepData,       \* TRUE: frames in `sent` carry their data (model checking); FALSE: only their type (trace validation
                    \* of long outputs: the content is compared when the frame is written, not kept)
    ExternalProg(_),\* observation of a module that is not one of the abstract ones (trace validation: measured by running
                    \* the real standalone nano_vm); unused in model checking
    Emit            \* TRUE: print one JSON scenario per initial state ("@@J ")

Clients == 1 .. N

\* ------------------------------------------------------------------ programs
\* Abstract modules with distinguishable output (each character is one output
\* unit; no two modules share a character).  Standalone(m) is what `nano_vm m`
\* yields; the concrete bytes of the corpus modules are measured at check time,
\* the shape (how many units, failing or not) is what the model needs.
ModNames == {"zero", "one", "two", "many", "fail", "failp", "tailp", "code"}
Standalone(m) ==
    CASE m = "zero" -> [out |-> "",    err |-> "",  exit |-> 0]
      [] m = "one"  -> [out |-> "a",   err |-> "",  exit |-> 0]
      [] m = "two"  -> [out |-> "gh",  err |-> "",  exit |-> 0]
      [] m = "many" -> [out |-> "bcd", err |-> "",  exit |-> 0]
      [] m = "fail" -> [out |-> "e",   err |-> "E", exit |-> 1]     \* run-time failure after some output
      [] m = "failp" -> [out |-> "pq", err |-> "P", exit |-> 1]     \* last unit has no trailing newline, then a run-time failure
      [] m = "tailp" -> [out |-> "rs", err |-> "",  exit |-> 0]     \* last unit has no trailing newline, then a normal end
      [] m = "code" -> [out |-> "f",   err |-> "",  exit |-> 3]     \* main returns non-zero (whatever standalone reports)
      [] OTHER      -> ExternalProg(m)
NoExternal(m) == [out |-> "", err |-> "", exit |-> 0]

\* The session's stream is line-buffered (setvbuf _IOLBF in socket_fopen): a unit that ends with a newline leaves the
\* stdio buffer at once, a unit without one (a partial line) stays there until more output completes the line or until
\* the explicit fflush() after vm_execute().  NoNl(m) = positions of the units of m that do not end with a newline.
NoNl(m) == IF m \in {"failp", "tailp"} THEN {2} ELSE {}

\* ------------------------------------------------------------------ client behaviours
GoodKinds   == {"exec", "ping", "status"}
Malformed   == {"connect_close", "garbage_short", "garbage", "badver", "toolong", "zerolen", "unktype",
                "hdronly", "trunc0", "trunc1", "truncm1", "notmodule", "hostile"}
Abandoning  == {"disc_before", "disc_mid", "disc_after"}        \* well-formed request, client walks away
AllKinds    == GoodKinds \cup Malformed \cup Abandoning
ExecKinds   == {"exec"} \cup Abandoning                         \* carry a good module

\* Several behaviours are the same thing to the server (it rejects the header before looking at anything else, or it
\* sees a short payload): model checking runs over one representative per class, the generator lists them all.
Rep(kind) == CASE kind \in {"garbage", "toolong"} -> "badver"
               [] kind = "trunc0"                 -> "hdronly"
               [] kind = "truncm1"                -> "trunc1"
               [] OTHER                           -> kind
RepKinds == {Rep(k) : k \in AllKinds}

\* wire tokens: uniformly shaped records
Tok(k, ver, type, len, full, class, part) ==
    [k |-> k, ver |-> ver, type |-> type, len |-> len, full |-> full, class |-> class, part |-> part]
Hdr(ver, type, len) == Tok("hdr", ver, type, len, TRUE, "-", "-")
PartialHdr          == Tok("hdr", "-", "-", "-", FALSE, "-", "-")
Pay(class, part)    == Tok("pay", "-", "-", "-", TRUE, class, part)
Eof                 == Tok("eof", "-", "-", "-", TRUE, "-", "-")

Request(kind) ==
    CASE kind \in ExecKinds       -> <<Hdr("ok", "exec", "n"), Pay("good", "all")>>
      [] kind = "ping"            -> <<Hdr("ok", "ping", "zero")>>
      [] kind = "status"          -> <<Hdr("ok", "status", "zero")>>
      [] kind = "connect_close"   -> <<>>
      [] kind = "garbage_short"   -> <<PartialHdr>>
      [] kind = "garbage"         -> <<Hdr("bad", "unknown", "over")>>    \* >= 8 bytes, first byte is not the protocol version
      [] kind = "badver"          -> <<Hdr("bad", "exec", "n")>>
      [] kind = "toolong"         -> <<Hdr("ok", "exec", "over")>>
      [] kind = "zerolen"         -> <<Hdr("ok", "exec", "zero")>>
      [] kind = "unktype"         -> <<Hdr("ok", "unknown", "zero")>>
      [] kind \in {"hdronly", "trunc0"} -> <<Hdr("ok", "exec", "n")>>
      [] kind = "trunc1"          -> <<Hdr("ok", "exec", "n"), Pay("good", "one")>>
      [] kind = "truncm1"         -> <<Hdr("ok", "exec", "n"), Pay("good", "allbut1")>>
      [] kind = "notmodule"       -> <<Hdr("ok", "exec", "n"), Pay("junk", "all")>>
      [] kind = "hostile"         -> <<Hdr("ok", "exec", "n"), Pay("hostile", "all")>>

KindOrder == <<"exec", "ping", "status", "connect_close", "garbage_short", "garbage", "badver", "toolong", "zerolen",
               "unktype", "hdronly", "trunc0", "trunc1", "truncm1", "notmodule", "hostile", "disc_before", "disc_mid", "disc_after">>
KindIndex(k) == CHOOSE i \in 1 .. Len(KindOrder) : KindOrder[i] = k
ASSUME {KindOrder[i] : i \in 1 .. Len(KindOrder)} = AllKinds

\* What the property allows as the end of a session, by behaviour (C18: "the
\* offending session ends with an error reply or a closed connection").
AllowedReply(kind) ==
    CASE kind = "exec"      -> {"exit"}
      [] kind = "ping"      -> {"pong"}
      [] kind = "status"    -> {"status"}
      [] kind \in Malformed -> {"error", "closed"}
      [] OTHER              -> {"exit", "error", "closed"}          \* abandoned sessions: whatever was sent went nowhere

VARIABLES
    kind, mod, order, gap,  \* scenario (chosen in Init, constant afterwards)
    cst, c2s, copen, nrecv, \* clients: state, tokens written so far, own end open, frames consumed
    sst, rpos, loaded,      \* session thread: program counter, tokens consumed, class of the payload it holds
    pos, flushed,           \* units the program has printed / units already sent as OUTPUT frames
    sent,                   \* frames the session thread wrote to its socket (with the result of the write)
    ndel,                   \* how many of them were delivered (writes fail from the moment the peer has closed, never before)
    sopen,                  \* server end of the connection open
    stat,                   \* value of g_active_clients read by a STATUS session
    up, active,             \* daemon process alive; g_active_clients
    crcflag, crcpc          \* crc32_initialized; per-thread position inside nvm_crc32()

clientvars == <<cst, c2s, copen, nrecv>>
servervars == <<sst, rpos, loaded, pos, flushed, sent, ndel, sopen, stat, up, active, crcflag, crcpc>>
scenvars   == <<kind, mod, order, gap>>
vars       == <<scenvars, clientvars, servervars>>

Frame(t, c, data, code, ok) == [t |-> t, owner |-> c, data |-> data, code |-> code, ok |-> ok]

\* ------------------------------------------------------------------ derived views
Delivered(c) == SubSeq(sent[c], 1, ndel[c])
Got(c)       == SubSeq(sent[c], 1, nrecv[c])
InFlight(c)  == ndel[c] - nrecv[c]
LastGotIs(c, t) == nrecv[c] >= 1 /\ sent[c][nrecv[c]].t = t
RECURSIVE Concat(_, _)
Concat(fs, t) == IF fs = <<>> THEN "" ELSE (IF Head(fs).t = t THEN Head(fs).data ELSE "") \o Concat(Tail(fs), t)
HasType(fs, t) == \E i \in 1 .. Len(fs) : fs[i].t = t
ExitOf(fs)   == LET i == CHOOSE i \in 1 .. Len(fs) : fs[i].t = "exit" IN fs[i].code
IsPrefix(s, t) == Len(s) <= Len(t) /\ SubSeq(t, 1, Len(s)) = s
ProgOf(c)    == Standalone(mod[c])
Served(c)    == CASE kind[c] = "exec"   -> LastGotIs(c, "exit")          \* the exit / pong / status frame is the last one of a session
                  [] kind[c] = "ping"   -> LastGotIs(c, "pong")
                  [] kind[c] = "status" -> LastGotIs(c, "status")
                  [] OTHER              -> FALSE
ReplyClass(fs) == IF HasType(fs, "exit") THEN "exit" ELSE IF HasType(fs, "err") THEN "error"
                  ELSE IF HasType(fs, "pong") THEN "pong" ELSE IF HasType(fs, "status") THEN "status" ELSE "closed"
ClientDone(c) == cst[c] \in {"closed", "refused"}

\* ------------------------------------------------------------------ scenario / Init
\* C18 suites: client N is the well-formed one, clients 1..N-1 are arbitrary others (malformed, abandoning, ping,
\* status); arrival order is free, and the others are symmetric, so only sorted assignments are explored.
Others(K) == {k \in [Clients -> K \cup {"exec"}] :
                 /\ k[N] = "exec" /\ \A c \in 1 .. N - 1 : k[c] # "exec"
                 /\ (Gaps = "all" \/ \A c \in 1 .. N - 2 : KindIndex(k[c]) <= KindIndex(k[c + 1]))}
SmallKinds == {"hostile", "disc_mid", "trunc1", "badver", "status", "zerolen"}
KindChoices ==
    CASE Suite \in {"c17", "c17q", "c17l", "c17x", "c17p", "crc"} -> [Clients -> {"exec"}]
      [] Suite = "c18"  -> Others(IF Gaps = "all" THEN AllKinds \ {"exec"} ELSE RepKinds \ {"exec"})
      [] Suite = "c18s" -> Others(SmallKinds)
      [] Suite = "c18l" -> Others({"hostile", "disc_mid", "trunc1", "status"})
      [] OTHER -> [Clients -> AllKinds]
\* With a free arrival order exec clients are interchangeable: only sorted module assignments are explored.
ModIndex(m) == CHOOSE i \in 1 .. 8 : <<"zero", "one", "two", "many", "fail", "failp", "tailp", "code">>[i] = m
Sorted(F) == IF Gaps = "all" THEN F ELSE {f \in F : \A c \in 1 .. N - 1 : ModIndex(f[c]) <= ModIndex(f[c + 1])}
ModChoices(k) ==
    IF Suite = "c17" THEN Sorted([Clients -> {"zero", "one", "many", "fail"}]) \cup Sorted([Clients -> {"many", "failp", "tailp"}])
                          \cup {[c \in Clients |-> "code"]}
    ELSE IF Suite = "c17q" THEN Sorted([Clients -> {"zero", "many", "fail"}]) \cup Sorted([Clients -> {"failp", "tailp"}])
                          \cup {[c \in Clients |-> "one"], [c \in Clients |-> "code"]}
    ELSE IF Suite = "c17p" THEN {[c \in Clients |-> "failp"]}
    ELSE IF Suite = "c17l" THEN Sorted([Clients -> {"one", "fail"}])
    ELSE IF Suite = "crc" THEN {[c \in Clients |-> "one"]}
    ELSE IF Suite = "c17x" THEN {[c \in Clients |-> "code"]}
    ELSE {[c \in Clients |-> IF k[c] \in ExecKinds THEN "two" ELSE "zero"]}
\* "after" schedules are sub-behaviours of "overlap" (a client may always arrive late), so model checking needs only
\* the all-overlap schedule; the generator configurations (Gaps = "all") enumerate both for replay.
GapChoices == IF Gaps = "all" THEN [1 .. N - 1 -> {"overlap", "after"}] ELSE {[i \in 1 .. N - 1 |-> "overlap"]}
Perms == {p \in [1 .. N -> Clients] : \A i, j \in 1 .. N : i # j => p[i] # p[j]}
OrderChoices == IF Gaps = "all" THEN Perms ELSE {<<>>}              \* <<>> = any arrival order

Scenario == [kinds    |-> [c \in Clients |-> kind[c]],
             mods     |-> [c \in Clients |-> mod[c]],
             order    |-> order,
             gaps     |-> [i \in 1 .. N - 1 |-> gap[i]],
             allowed  |-> [c \in Clients |-> AllowedReply(kind[c])],
             shape    |-> [c \in Clients |-> [units |-> Len(ProgOf(c).out), fails |-> ProgOf(c).err # ""]]]

Init ==
    /\ kind \in KindChoices
    /\ mod \in ModChoices(kind)
    /\ order \in OrderChoices
    /\ gap \in GapChoices
    /\ cst = [c \in Clients |-> "init"] /\ c2s = [c \in Clients |-> <<>>]
    /\ copen = [c \in Clients |-> FALSE] /\ nrecv = [c \in Clients |-> 0]
    /\ sst = [c \in Clients |-> "none"] /\ rpos = [c \in Clients |-> 0] /\ loaded = [c \in Clients |-> "-"]
    /\ pos = [c \in Clients |-> 0] /\ flushed = [c \in Clients |-> 0]
    /\ sent = [c \in Clients |-> <<>>] /\ ndel = [c \in Clients |-> 0] /\ sopen = [c \in Clients |-> FALSE] /\ stat = [c \in Clients |-> 0]
    /\ up = TRUE /\ active = 0
    /\ crcflag = (CrcModel # "lazy") /\ crcpc = [c \in Clients |-> "idle"]
    /\ (Emit => PrintT("@@J " \o ToJson(Scenario)))

\* ------------------------------------------------------------------ clients
\* Arrival schedule: order = <<>>: any; otherwise clients connect in the given order, and gap[i] = "after" makes the
\* (i+1)-th arrival wait until the i-th client has finished (sequential use of the daemon).
PosOf(c) == CHOOSE i \in 1 .. N : order[i] = c
MayArrive(c) == IF order = <<>> THEN TRUE
                ELSE IF PosOf(c) = 1 THEN TRUE
                ELSE LET p == order[PosOf(c) - 1] IN cst[p] # "init" /\ (gap[PosOf(c) - 1] = "after" => ClientDone(p))
Connect(c) ==
    /\ cst[c] = "init" /\ MayArrive(c)
    \* connect() and the write of the whole scripted request are one client step (the bytes sit in the socket buffer
    \* until the session thread reads them; nothing the server does depends on when they were written)
    /\ IF up THEN /\ cst' = [cst EXCEPT ![c] = "sent"] /\ copen' = [copen EXCEPT ![c] = TRUE]
                  /\ c2s' = [c2s EXCEPT ![c] = Request(kind[c])]
             ELSE cst' = [cst EXCEPT ![c] = "refused"] /\ UNCHANGED <<copen, c2s>>
    /\ UNCHANGED <<nrecv, scenvars, servervars>>
OutUnitsGot(c) == Len(Concat(Got(c), "out"))
SawEof(c) == ~sopen[c] /\ sst[c] \in {"closing", "done"} /\ InFlight(c) = 0
MayClose(c) ==
    CASE kind[c] \in GoodKinds                    -> cst[c] = "sent" /\ (Served(c) \/ SawEof(c) \/ ~up)
      [] kind[c] = "disc_before"                  -> cst[c] = "sent" /\ nrecv[c] = 0
      [] kind[c] = "disc_mid"                     -> cst[c] = "sent" /\ ((OutUnitsGot(c) >= 1 /\ ~LastGotIs(c, "exit")) \/ SawEof(c) \/ ~up)
      [] kind[c] = "disc_after"                   -> cst[c] = "sent" /\ ((OutUnitsGot(c) = Len(ProgOf(c).out) /\ ~LastGotIs(c, "exit")) \/ SawEof(c) \/ ~up)
      [] OTHER                                    -> cst[c] = "sent"       \* malformed: may hold the connection or drop it at any time
Close(c) ==
    /\ copen[c] /\ MayClose(c)
    /\ copen' = [copen EXCEPT ![c] = FALSE] /\ cst' = [cst EXCEPT ![c] = "closed"]
    /\ UNCHANGED <<c2s, nrecv, scenvars, servervars>>
WantsMore(c) == CASE kind[c] = "disc_before" -> FALSE
                  [] kind[c] = "disc_after"  -> OutUnitsGot(c) < Len(ProgOf(c).out)
                  [] OTHER -> TRUE
Recv(c) ==
    /\ copen[c] /\ InFlight(c) > 0 /\ WantsMore(c)
    /\ nrecv' = [nrecv EXCEPT ![c] = @ + 1]
    /\ UNCHANGED <<cst, c2s, copen, scenvars, servervars>>

\* ------------------------------------------------------------------ server: parametrised steps
\* S_Send: a write of one frame on session c's socket; ok = result of the write.
S_Send(c, f, ok) ==
    /\ sent' = [sent EXCEPT ![c] = Append(@, [f EXCEPT !.ok = ok])]
    /\ ndel' = [ndel EXCEPT ![c] = IF ok THEN @ + 1 ELSE @]
    /\ up' = (ok \/ IgnoreSigpipe)                                   \* EPIPE with SIGPIPE at default kills the process
S_Goto(c, st) == sst' = [sst EXCEPT ![c] = st]

S_Accept(c) ==      \* main thread: accept(), pthread_create()
    /\ up /\ sst[c] = "none"
    /\ S_Goto(c, "spawned") /\ sopen' = [sopen EXCEPT ![c] = TRUE]
    /\ UNCHANGED <<rpos, loaded, pos, flushed, sent, ndel, stat, up, active, crcflag, crcpc>>
S_Enter(c) ==       \* g_active_clients++ under the mutex
    /\ up /\ sst[c] = "spawned"
    /\ S_Goto(c, "hdr") /\ active' = active + 1
    /\ UNCHANGED <<rpos, loaded, pos, flushed, sent, ndel, sopen, stat, up, crcflag, crcpc>>
AfterHdr(t) ==
    IF t.k = "eof" \/ ~t.full \/ t.ver # "ok" \/ t.len = "over" THEN "cleanup"      \* vmd_msg_recv_header() fails: no reply
    ELSE CASE t.type = "ping"    -> "pong"
           [] t.type = "status"  -> "status_read"
           [] t.type = "exec"    -> IF t.len = "zero" THEN "err_size" ELSE "payload"
           [] OTHER              -> "err_type"
S_RecvHdr(c, t) ==
    /\ up /\ sst[c] = "hdr"
    /\ S_Goto(c, AfterHdr(t)) /\ rpos' = [rpos EXCEPT ![c] = IF t.k = "eof" THEN @ ELSE @ + 1]
    /\ UNCHANGED <<loaded, pos, flushed, sent, ndel, sopen, stat, up, active, crcflag, crcpc>>
S_RecvPayload(c, t) ==
    /\ up /\ sst[c] = "payload"
    /\ IF t.k = "pay" /\ t.part = "all"
       THEN S_Goto(c, "deser") /\ loaded' = [loaded EXCEPT ![c] = t.class]
       ELSE S_Goto(c, "err_payload") /\ UNCHANGED loaded
    /\ rpos' = [rpos EXCEPT ![c] = IF t.k = "eof" THEN @ ELSE @ + 1]
    /\ UNCHANGED <<pos, flushed, sent, ndel, sopen, stat, up, active, crcflag, crcpc>>
AfterDeser(c) == IF loaded[c] = "junk" THEN "err_format" ELSE "verify"
\* nvm_deserialize -> nvm_crc32 -> crc32_init, step by step
S_CrcCheck(c) ==    \* if (crc32_initialized) return;
    /\ up /\ sst[c] = "deser" /\ crcpc[c] = "idle" /\ CrcModel # "atomic"
    /\ crcpc' = [crcpc EXCEPT ![c] = IF crcflag THEN "read" ELSE "fill"]
    /\ UNCHANGED <<sst, rpos, loaded, pos, flushed, sent, ndel, sopen, stat, up, active, crcflag>>
S_CrcFillEnd(c) ==  \* for (...) crc32_table[i] = ...; crc32_initialized = true;   (being in "fill" = writing the table)
    /\ up /\ sst[c] = "deser" /\ crcpc[c] = "fill"
    /\ crcflag' = TRUE /\ crcpc' = [crcpc EXCEPT ![c] = "read"]
    /\ UNCHANGED <<sst, rpos, loaded, pos, flushed, sent, ndel, sopen, stat, up, active>>
S_CrcReadEnd(c) ==  \* checksum loop over the payload finished (being in "read" = reading the table)
    /\ up /\ sst[c] = "deser" /\ crcpc[c] = "read"
    /\ crcpc' = [crcpc EXCEPT ![c] = "done"] /\ S_Goto(c, AfterDeser(c))
    /\ UNCHANGED <<rpos, loaded, pos, flushed, sent, ndel, sopen, stat, up, active, crcflag>>
S_Deser(c, ok) ==   \* whole nvm_deserialize() as one step (CrcModel = "atomic", and trace validation)
    /\ up /\ sst[c] = "deser" /\ crcpc[c] = "idle"
    /\ ok = (loaded[c] # "junk")
    /\ S_Goto(c, AfterDeser(c))
    /\ UNCHANGED <<rpos, loaded, pos, flushed, sent, ndel, sopen, stat, up, active, crcflag, crcpc>>
S_Verify(c) ==      \* nvm_verify() before execution; with Verify = FALSE every module passes
    /\ up /\ sst[c] = "verify"
    /\ S_Goto(c, IF Verify /\ loaded[c] = "hostile" THEN "err_verify" ELSE "exec")
    /\ UNCHANGED <<rpos, loaded, pos, flushed, sent, ndel, sopen, stat, up, active, crcflag, crcpc>>
S_Crash(c) ==       \* executing an unverified hostile module: undefined behaviour, the process is gone
    /\ up /\ sst[c] = "exec" /\ loaded[c] = "hostile"
    /\ up' = FALSE
    /\ UNCHANGED <<sst, rpos, loaded, pos, flushed, sent, ndel, sopen, stat, active, crcflag, crcpc>>
S_ExecStep(c, k) == \* the program prints k more units into its stdio buffer
    /\ up /\ sst[c] = "exec" /\ loaded[c] = "good"
    /\ k >= 1 /\ pos[c] + k <= Len(ProgOf(c).out)
    /\ pos' = [pos EXCEPT ![c] = @ + k]
    /\ UNCHANGED <<sst, rpos, loaded, flushed, sent, ndel, sopen, stat, up, active, crcflag, crcpc>>
S_Flush(c, ok) ==   \* socket_write_cookie: everything buffered goes out as one OUTPUT frame
    /\ up /\ sst[c] \in {"exec", "flush"} /\ flushed[c] < pos[c]
    /\ S_Send(c, Frame("out", c, IF KeepData THEN SubSeq(ProgOf(c).out, flushed[c] + 1, pos[c]) ELSE "", 0, TRUE), ok)
    /\ flushed' = [flushed EXCEPT ![c] = pos[c]]
    /\ UNCHANGED <<sst, rpos, loaded, pos, sopen, stat, active, crcflag, crcpc>>
S_ExecEnd(c) ==     \* vm_execute() returns
    /\ up /\ sst[c] = "exec" /\ loaded[c] = "good" /\ pos[c] = Len(ProgOf(c).out)
    /\ S_Goto(c, "flush")
    /\ UNCHANGED <<rpos, loaded, pos, flushed, sent, ndel, sopen, stat, up, active, crcflag, crcpc>>
ErrStates == {"err_size", "err_type", "err_payload", "err_format", "err_verify"}
S_SendErr(c, ok) == \* protocol-level error reply, then the session ends
    /\ up /\ sst[c] \in ErrStates
    /\ S_Send(c, Frame("err", c, sst[c], 0, TRUE), ok) /\ S_Goto(c, "cleanup")
    /\ UNCHANGED <<rpos, loaded, pos, flushed, sopen, stat, active, crcflag, crcpc>>
S_SendRtErr(c, ok) ==   \* "Runtime error: ..." exactly as standalone prints it
    /\ up /\ sst[c] = "flush" /\ (flushed[c] = pos[c] \/ ~FlushOnErr) /\ ProgOf(c).err # ""
    /\ S_Send(c, Frame("err", c, IF KeepData THEN ProgOf(c).err ELSE "", 0, TRUE), ok) /\ S_Goto(c, "exit")
    /\ UNCHANGED <<rpos, loaded, pos, flushed, sopen, stat, active, crcflag, crcpc>>
ExitCode(c) == IF DropExit THEN (IF ProgOf(c).err = "" THEN 0 ELSE 1) ELSE ProgOf(c).exit
S_SendExit(c, ok) ==
    /\ up /\ ((sst[c] = "flush" /\ flushed[c] = pos[c] /\ ProgOf(c).err = "") \/ sst[c] = "exit")
    /\ S_Send(c, Frame("exit", c, "", ExitCode(c), TRUE), ok) /\ S_Goto(c, "cleanup")
    /\ UNCHANGED <<rpos, loaded, pos, flushed, sopen, stat, active, crcflag, crcpc>>
S_Pong(c, ok) ==
    /\ up /\ sst[c] = "pong"
    /\ S_Send(c, Frame("pong", c, "", 0, TRUE), ok) /\ S_Goto(c, "cleanup")
    /\ UNCHANGED <<rpos, loaded, pos, flushed, sopen, stat, active, crcflag, crcpc>>
S_StatusRead(c, n) ==   \* n = g_active_clients under the mutex
    /\ up /\ sst[c] = "status_read"
    /\ stat' = [stat EXCEPT ![c] = n] /\ S_Goto(c, "status_send")
    /\ UNCHANGED <<rpos, loaded, pos, flushed, sent, ndel, sopen, up, active, crcflag, crcpc>>
S_StatusSend(c, ok) ==
    /\ up /\ sst[c] = "status_send"
    /\ S_Send(c, Frame("status", c, "", stat[c], TRUE), ok) /\ S_Goto(c, "cleanup")
    /\ UNCHANGED <<rpos, loaded, pos, flushed, sopen, stat, active, crcflag, crcpc>>
S_CloseFd(c) ==     \* done: close(fd)
    /\ up /\ sst[c] = "cleanup"
    /\ S_Goto(c, "closing") /\ sopen' = [sopen EXCEPT ![c] = FALSE]
    /\ UNCHANGED <<rpos, loaded, pos, flushed, sent, ndel, stat, up, active, crcflag, crcpc>>
S_Cleanup(c) ==     \* g_active_clients-- under the mutex
    /\ up /\ sst[c] = "closing"
    /\ S_Goto(c, "done") /\ active' = active - 1
    /\ UNCHANGED <<rpos, loaded, pos, flushed, sent, ndel, sopen, stat, up, crcflag, crcpc>>

\* ------------------------------------------------------------------ server in the closed system
\* What a blocking read on session c's socket returns right now (NoTok = would block).
NoTok == Tok("none", "-", "-", "-", TRUE, "-", "-")
Readable(c) ==
    IF rpos[c] < Len(c2s[c])
    THEN LET t == c2s[c][rpos[c] + 1] IN
         IF (t.k = "hdr" /\ ~t.full) \/ (t.k = "pay" /\ t.part # "all")
         THEN (IF copen[c] THEN NoTok ELSE t)           \* incomplete message: read_all() blocks until the peer closes
         ELSE t
    ELSE IF copen[c] THEN NoTok ELSE Eof
WriteOk(c)  == copen[c]                                   \* peer still there (otherwise EPIPE)
MayWrite(c) == ~copen[c] \/ InFlight(c) < Cap             \* a full socket buffer blocks the writer

Accept(c)      == cst[c] # "init" /\ S_Accept(c) /\ UNCHANGED <<scenvars, clientvars>>
Enter(c)       == S_Enter(c) /\ UNCHANGED <<scenvars, clientvars>>
RecvHdr(c)     == sst[c] = "hdr" /\ Readable(c).k # "none" /\ S_RecvHdr(c, Readable(c)) /\ UNCHANGED <<scenvars, clientvars>>
RecvPayload(c) == sst[c] = "payload" /\ Readable(c).k # "none" /\ S_RecvPayload(c, Readable(c)) /\ UNCHANGED <<scenvars, clientvars>>
CrcCheck(c)    == S_CrcCheck(c) /\ UNCHANGED <<scenvars, clientvars>>
CrcFillEnd(c)  == S_CrcFillEnd(c) /\ UNCHANGED <<scenvars, clientvars>>
CrcReadEnd(c)  == S_CrcReadEnd(c) /\ UNCHANGED <<scenvars, clientvars>>
DeserStep(c)   == CrcModel = "atomic" /\ S_Deser(c, loaded[c] # "junk") /\ UNCHANGED <<scenvars, clientvars>>
VerifyStep(c)  == S_Verify(c) /\ UNCHANGED <<scenvars, clientvars>>
Crash(c)       == S_Crash(c) /\ UNCHANGED <<scenvars, clientvars>>
\* Buffered = FALSE is the stream as the code sets it up (line-buffered): a complete line is written before the program
\* goes on, a partial line is not written while the program runs; Buffered = TRUE allows any frame boundaries.
PartialPending(c) == pos[c] \in NoNl(mod[c])                     \* the unit printed last did not end with a newline
ExecStep(c)    == (Buffered \/ flushed[c] = pos[c] \/ PartialPending(c)) /\ S_ExecStep(c, 1) /\ UNCHANGED <<scenvars, clientvars>>
FlushNow(c)    == IF sst[c] = "flush" THEN (FlushOnErr \/ ProgOf(c).err = "")      \* the explicit fflush() after vm_execute()
                  ELSE (Buffered \/ ~PartialPending(c))                            \* stdio writes complete lines by itself
Flush(c)       == sst[c] \in {"exec", "flush"} /\ FlushNow(c) /\ MayWrite(c) /\ S_Flush(c, WriteOk(c)) /\ UNCHANGED <<scenvars, clientvars>>
ExecEnd(c)     == S_ExecEnd(c) /\ UNCHANGED <<scenvars, clientvars>>
SendErr(c)     == sst[c] \in ErrStates \cup {"flush"} /\ MayWrite(c) /\ (S_SendErr(c, WriteOk(c)) \/ S_SendRtErr(c, WriteOk(c))) /\ UNCHANGED <<scenvars, clientvars>>
SendExit(c)    == sst[c] \in {"flush", "exit"} /\ MayWrite(c) /\ S_SendExit(c, WriteOk(c)) /\ UNCHANGED <<scenvars, clientvars>>
Pong(c)        == sst[c] = "pong" /\ MayWrite(c) /\ S_Pong(c, WriteOk(c)) /\ UNCHANGED <<scenvars, clientvars>>
StatusRead(c)  == S_StatusRead(c, active) /\ UNCHANGED <<scenvars, clientvars>>
StatusSend(c)  == sst[c] = "status_send" /\ MayWrite(c) /\ S_StatusSend(c, WriteOk(c)) /\ UNCHANGED <<scenvars, clientvars>>
CloseFd(c)     == S_CloseFd(c) /\ UNCHANGED <<scenvars, clientvars>>
Cleanup(c)     == S_Cleanup(c) /\ UNCHANGED <<scenvars, clientvars>>

ClientStep(c) == Connect(c) \/ Close(c) \/ Recv(c)
ServerStep(c) == \/ Accept(c) \/ Enter(c) \/ RecvHdr(c) \/ RecvPayload(c)
                 \/ CrcCheck(c) \/ CrcFillEnd(c) \/ CrcReadEnd(c) \/ DeserStep(c)
                 \/ VerifyStep(c) \/ Crash(c) \/ ExecStep(c) \/ Flush(c) \/ ExecEnd(c)
                 \/ SendErr(c) \/ SendExit(c) \/ Pong(c) \/ StatusRead(c) \/ StatusSend(c)
                 \/ CloseFd(c) \/ Cleanup(c)
Next == \E c \in Clients : ClientStep(c) \/ ServerStep(c)
GenNext == FALSE /\ UNCHANGED vars         \* generator configurations: initial states only
Fair == \A c \in Clients : WF_vars(ClientStep(c)) /\ WF_vars(ServerStep(c))
Spec == Init /\ [][Next]_vars /\ Fair

\* ------------------------------------------------------------------ properties
\* C17 isolation: whatever was written on session c's socket belongs to session c,
\* and the OUTPUT frames are, in order, a prefix of the program's standalone output.
Isolation ==
    \A c \in Clients :
        /\ \A i \in 1 .. Len(sent[c]) : sent[c][i].owner = c
        /\ IsPrefix(Concat(sent[c], "out"), ProgOf(c).out)
        /\ IsPrefix(Concat(Got(c), "out"), ProgOf(c).out)
\* C17 transparency: once the exit frame has arrived, the client has seen exactly
\* the standalone output, error text and exit status.
Transparency ==
    \A c \in Clients :
        (kind[c] = "exec" /\ LastGotIs(c, "exit")) =>
            /\ Concat(Got(c), "out") = ProgOf(c).out
            /\ Concat(Got(c), "err") = ProgOf(c).err
            /\ ExitOf(Got(c)) = ProgOf(c).exit
            /\ \A i \in 1 .. nrecv[c] - 1 : sent[c][i].t # "exit"
\* C18
Available == up
ReplyOK   == \A c \in Clients : sst[c] = "done" => ReplyClass(sent[c]) \in AllowedReply(kind[c])
Entered   == {"hdr", "payload", "deser", "verify", "exec", "flush", "exit", "pong", "status_read", "status_send",
              "cleanup", "closing"} \cup ErrStates
ActiveOK  == active = Cardinality({c \in Clients : sst[c] \in Entered})
StatusOK  == \A c \in Clients : \A i \in 1 .. Len(sent[c]) :
                 sent[c][i].t = "status" => (sent[c][i].code >= 1 /\ sent[c][i].code <= N)
\* The design-level data race on crc32_table / crc32_initialized: one thread is
\* inside the initialisation loop while another one writes or reads the table.
NoCrcRace == \A c, d \in Clients : (c # d /\ crcpc[c] = "fill") => crcpc[d] \notin {"fill", "read"}
TypeOK    == /\ active \in 0 .. N /\ up \in BOOLEAN
             /\ \A c \in Clients : nrecv[c] <= ndel[c] /\ ndel[c] <= Len(sent[c])
             /\ \A c \in Clients : \A i \in 1 .. Len(sent[c]) : sent[c][i].ok = (i <= ndel[c]) /\ flushed[c] <= pos[c] /\ rpos[c] <= Len(c2s[c])
\* liveness (weak fairness on every client and every session thread)
GoodServed == \A c \in Clients : (kind[c] \in GoodKinds) => <>Served(c)
AllEnd     == \A c \in Clients : <>(sst[c] = "done" /\ ClientDone(c))
====
