SPECIFICATION Spec
CONSTANTS
  Kind = "wide"
