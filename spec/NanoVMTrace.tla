---- MODULE NanoVMTrace ----
(***************************************************************************)
(* Trace validation for C14 (and the VM part of C13): events recorded by   *)
(* hooks H1/H2 from the real NanoVM -- the full projected state before     *)
(* every instruction, at every return of the core to the host and after    *)
(* the host released a trap value -- are judged with the definitions of    *)
(* NanoVM.tla:                                                             *)
(*   - RcInv and NoDangling are evaluated on EVERY recorded state;         *)
(*   - a `badfree` / `badalloc` event (release of an object that is not    *)
(*     live, i.e. a double free) breaks FreeOnce;                          *)
(*   - for every instruction the recorded successor state is compared with *)
(*     NanoVM!Do (conformance of the step; a mismatch is reported as       *)
(*     `deviates`, opcodes the specification does not model as `unmodelled`*)
(*     -- neither is by itself a violation of C14).                        *)
(* Problems are printed as JSON records; the check goes on to the end of   *)
(* the trace so that every run in a concatenated trace file is judged.     *)
(***************************************************************************)
EXTENDS NanoVM, Json, IOUtils
Tr == ndJsonDeserialize(IOEnv.TRACE)
N == Len(Tr)
HeapOf(hl) == [id \in {hl[i].id : i \in 1..Len(hl)} |->
                 LET r == hl[CHOOSE i \in 1..Len(hl) : hl[i].id = id] IN Obj(r.k, r.c, r.rc, r.kids)]
HasS(ev) == ev.e \in {"op", "call", "ret_none", "ret_halt", "ret_trap", "ret_error", "ret_extern", "host_release", "host_extern"}
StateOf(ev) == [stack |-> ev.S.stack, frames |-> ev.S.frames, globals |-> ev.S.globals, heap |-> HeapOf(ev.S.heap)]
\* a value travelling to the host in a trap is still referenced: count it as a root
Rooted(ev) == LET s == StateOf(ev) IN IF ev.e = "ret_trap" /\ ev.val > 0 THEN [s EXCEPT !.stack = Append(@, ev.val)] ELSE s

VARIABLES l, stats, run, loopc
vars == <<l, stats, run, loopc>>
Zero == [events |-> 0, states |-> 0, steps |-> 0, conform |-> 0, deviates |-> 0, unmodelled |-> 0, rcinv |-> 0, dangling |-> 0, badfree |-> 0,
         surplus |-> 0, maxlive |-> 0]
Init == l = 1 /\ stats = Zero /\ run = "?" /\ loopc = <<>>
\* churn (C14, last sentence): in a run of the churn family the number of live objects at the loop's backward jump
\* must be the same in every iteration from the second one on
\* (loopc holds [ip, n] per backward jump; the counts are compared per loop, i.e. per jump instruction)
ChurnOK(cs) == \A p \in {cs[i].ip : i \in 1..Len(cs)} :
                  LET idx == {i \in 1..Len(cs) : cs[i].ip = p}
                      second == CHOOSE i \in idx : Cardinality({j \in idx : j < i}) = 1 IN
                  Cardinality(idx) < 3 \/ \A i \in idx : i > second => cs[i].n <= cs[second].n

MaxOf(set) == CHOOSE x \in set : \A y \in set : y <= x
StepClass(ev, nx) ==      \* judge instruction ev against the recorded successor state
   LET A == StateOf(ev)  P == StateOf(nx)
       new == DOMAIN P.heap \ DOMAIN A.heap
       newid == IF new = {} THEN 0 ELSE MaxOf(new)
       res == IF Len(P.stack) > 0 THEN P.stack[Len(P.stack)] ELSE 0
       cnew == IF res \in DOMAIN P.heap THEN P.heap[res].c ELSE 0
       r == Do(A, ev.op, ev.a, ev.aux, newid, res, cnew) IN
   IF r.ok = "unmodelled" THEN "unmodelled"
   ELSE IF r.S = P THEN "conform" ELSE "deviates"

Report(kind, ev, extra) == PrintT("@@J " \o ToJson([kind |-> kind, l |-> l, run |-> run, e |-> ev.e, op |-> IF ev.e = "op" THEN ev.op ELSE "", ip |-> IF ev.e = "op" THEN ev.ip ELSE 0, extra |-> extra]))

Next ==
   /\ l <= N
   /\ l' = l + 1
   /\ LET ev == Tr[l] IN
      IF ev.e = "Reset" THEN run' = ev.run /\ stats' = [stats EXCEPT !.events = @ + 1] /\ loopc' = <<>>
      ELSE IF ev.e = "EndRun" THEN
           /\ (IF ~ev.churn \/ ChurnOK(loopc) THEN TRUE ELSE Report("churn", ev, loopc))
           /\ stats' = [stats EXCEPT !.events = @ + 1] /\ UNCHANGED <<run, loopc>>
      ELSE IF ev.e \in {"badfree", "badalloc"} THEN
           /\ Report("badfree", ev, 0) /\ stats' = [stats EXCEPT !.events = @ + 1, !.badfree = @ + 1] /\ UNCHANGED <<run, loopc>>
      ELSE IF ~HasS(ev) THEN stats' = [stats EXCEPT !.events = @ + 1] /\ UNCHANGED <<run, loopc>>
      ELSE
        LET s == Rooted(ev)
            okrc == RcInv(s)
            okdang == NoDangling(s)
            hasnext == l < N /\ HasS(Tr[l + 1])
            cls == IF ev.e = "op" /\ hasnext THEN StepClass(ev, Tr[l + 1])
                   ELSE IF ev.e = "ret_trap" /\ hasnext /\ Tr[l + 1].e = "host_release"
                        THEN (IF HostRelease(StateOf(ev), ev.val) = StateOf(Tr[l + 1]) THEN "conform" ELSE "deviates")
                   ELSE "none" IN
        /\ (IF okrc THEN TRUE ELSE Report("rcinv", ev, [bad |-> {id \in DOMAIN s.heap : s.heap[id].rc < InDeg(s, id)}]))
        /\ (IF okdang THEN TRUE ELSE Report("dangling", ev, 0))
        /\ (IF cls # "deviates" THEN TRUE ELSE Report("deviates", ev, 0))
        /\ stats' = [stats EXCEPT !.events = @ + 1, !.states = @ + 1,
                                  !.steps = @ + (IF ev.e = "op" THEN 1 ELSE 0),
                                  !.conform = @ + (IF cls = "conform" THEN 1 ELSE 0),
                                  !.deviates = @ + (IF cls = "deviates" THEN 1 ELSE 0),
                                  !.unmodelled = @ + (IF cls = "unmodelled" THEN 1 ELSE 0),
                                  !.rcinv = @ + (IF okrc THEN 0 ELSE 1),
                                  !.dangling = @ + (IF okdang THEN 0 ELSE 1),
                                  !.surplus = @ + (IF Surplus(s) = {} THEN 0 ELSE 1),
                                  !.maxlive = IF Cardinality(DOMAIN s.heap) > @ THEN Cardinality(DOMAIN s.heap) ELSE @]
        /\ loopc' = IF ev.e = "op" /\ ev.op = "JMP" /\ ev.a[1] < 0 THEN Append(loopc, [ip |-> ev.fn * 100000 + ev.ip, n |-> Cardinality(DOMAIN s.heap)]) ELSE loopc
        /\ UNCHANGED run
Done == l > N /\ UNCHANGED vars
Spec == Init /\ [][Next]_vars
Post == PrintT("@@J " \o ToJson([kind |-> "summary", n |-> N, consumed |-> TLCGet("stats").diameter - 1]))
Summary == l > N => PrintT("@@J " \o ToJson([kind |-> "stats", stats |-> stats]))
====
