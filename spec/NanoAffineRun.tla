---- MODULE NanoAffineRun ----
(* Job runner: judges programs handed over as JSON (one job per line, the abstract syntax of NanoSem.tla with       *)
(* structured types and the `res` flag on every struct) with the affine discipline of NanoAffine.tla.             *)
(* job = [id, prog, rule]; rule = the rule a mutant is meant to break ("" for a seed).                            *)
(* answer = [id, violates, findings, witnessed]: witnessed = the rules among `violates` for which an execution of  *)
(* the program (conditions free, loops <= MaxIter iterations) really touches a dead place / loses a live one.      *)
EXTENDS NanoAffine, Json, IOUtils
CONSTANTS MaxIter
Jobs == ndJsonDeserialize(IOEnv.AFFINE_JOBS)
VARIABLES job, phase
vars == <<job, phase>>
Witnessed(P) ==
   LET fs == Findings(P)  ds == DynFindings(P, MaxIter) IN
   {s.r : s \in {q \in fs : \E d \in ds : d.fn = q.fn /\ d.x = q.x /\ DClass(d.r) = SClass(q.r)}}
Result(j) ==
   LET fs == Findings(j.prog) IN
   [id |-> j.id, rule |-> j.rule, violates |-> {d.r : d \in fs}, findings |-> fs, witnessed |-> Witnessed(j.prog)]
Init == job \in 1..Len(Jobs) /\ phase = "todo"
Next == /\ phase = "todo" /\ phase' = "done" /\ job' = job
        /\ PrintT("@@J " \o ToJson(Result(Jobs[job])))
Spec == Init /\ [][Next]_vars
\* the meta-property of NanoAffineMC.tla on the very programs that are judged: the static rules blame exactly the
\* places (per function) that can go wrong in some execution
ExactOnJobs == \A k \in 1..Len(Jobs) : (phase = "todo" /\ job = k) =>
   LET P == Jobs[k].prog IN
   {<<d.fn, SClass(d.r), d.x>> : d \in Findings(P)} = {<<d.fn, DClass(d.r), d.x>> : d \in DynFindings(P, MaxIter)}
====
