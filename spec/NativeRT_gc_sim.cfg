\* C20 / NativeRT.tla -- thorough: -simulate, random histories of 200 steps over 6 objects
\* The constants InitialCapacity and Growth are NOT in this file: harness/props/c20.py extracts them
\* from src/runtime/{dyn_array,list_int,list_string}.c and appends them (for a manual run add
\*   CONSTANTS InitialCapacity = 8  Growth = 2).
SPECIFICATION Spec

CONSTANTS
  Family = "gc"
  Kinds = {"int"}
  Prefills = {0}
  InitCaps = {0}
  Vals = {1}
  MaxLen = 200
  MaxObj = 6
  EmitMode = "final"
  StopAtDev = TRUE
  AllowAbort = FALSE
  AllowDev = FALSE
INVARIANTS TypeOK RcZeroIffFreed RcExact NoDangling FreedHasNoOwner
PROPERTIES FreeOnceProp
