\* Trace validation with the deviation switches on: bounds checks exactly as written in nvm_format.c
SPECIFICATION TSpec
CONSTANTS
  W = 32
  SecCheck = "asWritten"
  StrCheck = "asWritten"
  Family = "trace"
  MaxBurst = 0
  MaxTail = 0
  MaxFaults = 0
  SampleMod = 1
  Full = FALSE
INVARIANTS TypeOK Refused RefusedEarly AllOrNothing Staged Terminates
