\* C20 / NativeRT.tla -- quick: generation, ALL histories of <= 3 steps (no VIEW: every path)
\* The constants InitialCapacity and Growth are NOT in this file: harness/props/c20.py extracts them
\* from src/runtime/{dyn_array,list_int,list_string}.c and appends them (for a manual run add
\*   CONSTANTS InitialCapacity = 8  Growth = 2).
SPECIFICATION Spec

CONSTANTS
  Family = "dyn"
  Kinds = {"int", "struct"}
  Prefills = {7}
  InitCaps = {0}
  Vals = {1}
  MaxLen = 3
  MaxObj = 1
  EmitMode = "final"
  StopAtDev = TRUE
  AllowAbort = TRUE
  AllowDev = TRUE
INVARIANTS TypeOK LenLeCap CapFloor
PROPERTIES SeqLawProp CapLawProp CloneProp
