SPECIFICATION Spec
INVARIANTS Gate GateIff FailNamed FailExit RejectQuiet NoLateWork MissingWarn
PROPERTY Terminates
CONSTANTS
  MaxShadows = 3
  MaxAsserts = 2
