SPECIFICATION Spec
INVARIANTS InvRc InvNoDangling InvFreeOnce
PROPERTY ActFreeOnce
CONSTANTS
  MaxStack = 5
  MaxObjs = 3
  MaxSteps = 7
  MaxFrames = 2
  Bug = "none"
