SPECIFICATION TSpec
INVARIANT DepthOK
CONSTANTS
  Mode = "trace"
  MaxLen = 0
  Alphabet = {}
  Fuel = 0
  MaxMuts = 0
