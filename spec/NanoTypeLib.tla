---- MODULE NanoTypeLib ----
(* Static signatures of the standard library functions specified in NanoLib.tla (and of the higher-order  *)
(* functions filter / map / reduce specified in NanoSem.tla):                                             *)
(* LibBuiltinType(name, ts) = result type, or Err("arity") / Err("argtype").                              *)
(* The signatures are those of docs/STDLIB.md.  (The real checker knows the names and the arity of the    *)
(* functions it registers, but compares no argument type of a builtin: known finding F34.)                *)
EXTENDS Integers, Sequences, FiniteSets, TLC, NanoTy

TList(t) == Ty("list", "", <<t>>)              \* List<int>, List<string>
ListFnsT(p) == {p \o "_new", p \o "_with_capacity", p \o "_push", p \o "_pop", p \o "_get", p \o "_set", p \o "_insert",
                p \o "_remove", p \o "_length", p \o "_capacity", p \o "_is_empty", p \o "_clear", p \o "_free"}
CharFnsT == {"is_digit", "is_alpha", "is_alnum", "is_whitespace", "is_upper", "is_lower"}
HofT == {"filter", "map", "reduce"}
LibBuiltinsT == CharFnsT \cup {"digit_value", "char_to_lower", "char_to_upper", "cast_int", "cast_bool", "cast_string", "to_string",
                               "array_new", "array_slice", "array_remove_at"}
                \cup ListFnsT("list_int") \cup ListFnsT("list_string") \cup HofT

Castable(t) == t.k \in {"int", "bool", "str", "float", "enum"}        \* `value: any` of the conversion functions: the scalar types
IsIntT(t) == t = TInt \/ t.k = "enum"                                  \* 3.4.2: enum constants are integers

ListType(p, et, name, ts) ==
   LET n == Len(ts)
       op == SubSeq(name, Len(p) + 2, Len(name))
       lt == TList(et)
       A(k, res, ok) == IF n # k THEN Err("arity") ELSE IF ok THEN res ELSE Err("argtype") IN
   CASE op = "new" -> A(0, lt, TRUE)
     [] op = "with_capacity" -> A(1, lt, n = 1 /\ IsIntT(ts[1]))
     [] op = "push" -> A(2, TVoid, n = 2 /\ ts[1] = lt /\ Compat(et, ts[2]))
     [] op = "pop" -> A(1, et, n = 1 /\ ts[1] = lt)
     [] op = "get" -> A(2, et, n = 2 /\ ts[1] = lt /\ IsIntT(ts[2]))
     [] op = "set" -> A(3, TVoid, n = 3 /\ ts[1] = lt /\ IsIntT(ts[2]) /\ Compat(et, ts[3]))
     [] op = "insert" -> A(3, TVoid, n = 3 /\ ts[1] = lt /\ IsIntT(ts[2]) /\ Compat(et, ts[3]))
     [] op = "remove" -> A(2, TVoid, n = 2 /\ ts[1] = lt /\ IsIntT(ts[2]))
     [] op \in {"length", "capacity"} -> A(1, TInt, n = 1 /\ ts[1] = lt)
     [] op = "is_empty" -> A(1, TBool, n = 1 /\ ts[1] = lt)
     [] op \in {"clear", "free"} -> A(1, TVoid, n = 1 /\ ts[1] = lt)
     [] OTHER -> Err("scope")

LibBuiltinType(name, ts) ==
   LET n == Len(ts) IN
   CASE name \in CharFnsT -> IF n # 1 THEN Err("arity") ELSE IF IsIntT(ts[1]) THEN TBool ELSE Err("argtype")
     [] name \in {"digit_value", "char_to_lower", "char_to_upper"} -> IF n # 1 THEN Err("arity") ELSE IF IsIntT(ts[1]) THEN TInt ELSE Err("argtype")
     [] name = "cast_int" -> IF n # 1 THEN Err("arity") ELSE IF Castable(ts[1]) THEN TInt ELSE Err("argtype")
     [] name = "cast_bool" -> IF n # 1 THEN Err("arity") ELSE IF Castable(ts[1]) THEN TBool ELSE Err("argtype")
     [] name \in {"cast_string", "to_string"} -> IF n # 1 THEN Err("arity") ELSE IF Castable(ts[1]) THEN TStr ELSE Err("argtype")
     \* array_new(size: int, default: T) -> array<T>
     [] name = "array_new" -> IF n # 2 THEN Err("arity") ELSE IF IsIntT(ts[1]) /\ ts[2].k \notin {"void", "any"} THEN TArr(ts[2]) ELSE Err("argtype")
     \* array_slice(arr: array<T>, start: int, length: int) -> array<T>
     [] name = "array_slice" -> IF n # 3 THEN Err("arity") ELSE IF ts[1].k = "arr" /\ IsIntT(ts[2]) /\ IsIntT(ts[3]) THEN ts[1] ELSE Err("argtype")
     \* array_remove_at(arr: mut array<T>, index: int): the array itself (DYNAMIC_ARRAYS) / a statement (STDLIB)
     [] name = "array_remove_at" -> IF n # 2 THEN Err("arity") ELSE IF ts[1].k = "arr" /\ IsIntT(ts[2]) THEN ts[1] ELSE Err("argtype")
     \* filter(arr: array<T>, predicate: fn(T) -> bool) -> array<T>
     [] name = "filter" -> IF n # 2 THEN Err("arity")
                           ELSE IF ts[1].k = "arr" /\ ts[1].a[1].k # "any" /\ ts[2] = Ty("fn", "", <<ts[1].a[1], TBool>>) THEN ts[1] ELSE Err("argtype")
     \* map(arr: array<T>, f: fn(T) -> U) -> array<U>
     [] name = "map" -> IF n # 2 THEN Err("arity")
                        ELSE IF ts[1].k = "arr" /\ ts[1].a[1].k # "any" /\ ts[2].k = "fn" /\ Len(ts[2].a) = 2 /\ ts[2].a[1] = ts[1].a[1] /\ ts[2].a[2].k # "void"
                             THEN TArr(ts[2].a[2]) ELSE Err("argtype")
     \* reduce(arr: array<T>, init: U, f: fn(U, T) -> U) -> U
     [] name = "reduce" -> IF n # 3 THEN Err("arity")
                           ELSE IF ts[1].k = "arr" /\ ts[1].a[1].k # "any" /\ ts[3] = Ty("fn", "", <<ts[2], ts[1].a[1], ts[2]>>) THEN ts[2] ELSE Err("argtype")
     [] name \in ListFnsT("list_int") -> ListType("list_int", TInt, name, ts)
     [] name \in ListFnsT("list_string") -> ListType("list_string", TStr, name, ts)
     [] OTHER -> Err("scope")
====
