---- MODULE NanoTypeLib ----
(* Static signatures of the standard library functions specified in NanoLib.tla:                 *)
(* LibBuiltinType(name, ts) = result type, or Err("arity") / Err("argtype").                      *)
EXTENDS Integers, Sequences, FiniteSets, TLC, NanoTy

LibBuiltinsT == {}
LibBuiltinType(name, ts) == Err("scope")
====
