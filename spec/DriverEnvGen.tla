---- MODULE DriverEnvGen ----
\* C19 generation run: model-checks the configuration lattice of DriverEnv (ArtifactStable,
\* TypeOK over every configuration and every environment step) and prints the covering walks.
EXTENDS DriverEnv
ASSUME EmitWalks
====
