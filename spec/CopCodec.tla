---- MODULE CopCodec ----
\* Wire codec of the FFI co-process (C15): the value grammar of transferable types and
\* Ser(v, cap) / De(buf) transcribed statement by statement from
\*   src/nanovm/cop_protocol.c  cop_serialize_value / cop_deserialize_value.
\* 64-bit ints are four 16-bit limbs (most significant first), floats are their 8 bytes as they lie
\* in memory (little endian), 32-bit wire quantities are pairs <<hi16, lo16>> so that the code's
\* uint32_t additions can be written *as they are written in C* (wrapping) without leaving TLC's
\* 32-bit integers.
EXTENDS Integers, Sequences, FiniteSets, TLC, Json

CONSTANTS TagVoid, TagInt, TagFloat, TagBool, TagString, TagArray, TagOpaque,  \* extracted from isa.h through cop_probe --consts
          Mode,        \* "values" | "hostile" | "long"
          Big,         \* TRUE: larger bounded grammar (thorough tier)
          LongLens,    \* string lengths for Mode = "long" (extracted: around the request buffer, 65535, 65536 ...)
          Dev          \* deviation switches: what the unchanged code does where the property demands otherwise
                       \*   "DE_LEN_WRAP"        string bound check `pos + len > buf_size` evaluated in uint32_t (wraps)
                       \*   "DE_COUNT_UNBOUNDED" array count is not compared with the bytes that are left

VARIABLES v, buf
vars == <<v, buf>>

\* ------------------------------------------------------------------ values (uniformly shaped records)
Mk(t, l, b, et, xs) == [t |-> t, l |-> l, b |-> b, et |-> et, xs |-> xs]
VInt(l)     == Mk("int", l, <<>>, 0, <<>>)
VOpq(l)     == Mk("opaque", l, <<>>, 0, <<>>)
VFlt(b)     == Mk("float", <<>>, b, 0, <<>>)
VBool(x)    == Mk("bool", <<x>>, <<>>, 0, <<>>)          \* x \in {0, 1}
VStr(b)     == Mk("str", <<>>, b, 0, <<>>)
VVoid       == Mk("void", <<>>, <<>>, 0, <<>>)
VArr(et, xs) == Mk("arr", <<>>, <<>>, et, xs)

\* ------------------------------------------------------------------ 32-bit words as <<hi16, lo16>>
W32(n)        == <<n \div 65536, n % 65536>>                 \* n < 2^31
U32of(b)      == <<b[4] * 256 + b[3], b[2] * 256 + b[1]>>    \* four little-endian bytes
Add32(k, p)   == LET lo == p[2] + k IN <<(p[1] + (lo \div 65536)) % 65536, lo % 65536>>   \* uint32_t addition: wraps
Gt32(p, n)    == IF p[1] >= 32768 THEN TRUE ELSE p[1] * 65536 + p[2] > n                   \* p > n, n an ordinary int
Small32(p)    == p[1] < 16384                                 \* fits comfortably in a TLC int
ToInt(p)      == p[1] * 65536 + p[2]
LE16(x)       == <<x % 256, x \div 256>>
LE32(n)       == <<n % 256, (n \div 256) % 256, (n \div 65536) % 256, n \div 16777216>>
LE64(l)       == LE16(l[4]) \o LE16(l[3]) \o LE16(l[2]) \o LE16(l[1])
Limbs(b)      == <<b[8] * 256 + b[7], b[6] * 256 + b[5], b[4] * 256 + b[3], b[2] * 256 + b[1]>>

\* ------------------------------------------------------------------ cop_serialize_value
SFail  == [ok |-> FALSE, b |-> <<>>]                          \* the C function returns 0
SOk(b) == [ok |-> TRUE, b |-> b]
RECURSIVE Ser(_, _), SerElems(_, _, _, _)
Ser(x, cap) ==
  IF cap < 1 THEN SFail
  ELSE CASE x.t = "int"    -> IF 1 + 8 > cap THEN SFail ELSE SOk(<<TagInt>> \o LE64(x.l))
         [] x.t = "float"  -> IF 1 + 8 > cap THEN SFail ELSE SOk(<<TagFloat>> \o x.b)
         [] x.t = "bool"   -> IF 1 + 1 > cap THEN SFail ELSE SOk(<<TagBool, IF x.l[1] # 0 THEN 1 ELSE 0>>)
         [] x.t = "str"    -> IF 1 + 4 + Len(x.b) > cap THEN SFail ELSE SOk(<<TagString>> \o LE32(Len(x.b)) \o x.b)
         [] x.t = "opaque" -> IF 1 + 8 > cap THEN SFail ELSE SOk(<<TagOpaque>> \o LE64(x.l))
         [] x.t = "arr"    -> IF 1 + 5 > cap THEN SFail
                              ELSE SerElems(x.xs, 1, <<TagArray, x.et>> \o LE32(Len(x.xs)), cap)
         [] OTHER          -> SOk(<<TagVoid>>)
SerElems(xs, i, acc, cap) ==
  IF i > Len(xs) THEN SOk(acc)
  ELSE LET r == Ser(xs[i], cap - Len(acc)) IN
       IF ~r.ok THEN SFail ELSE SerElems(xs, i + 1, acc \o r.b, cap)

\* declarative size, independent of Ser
RECURSIVE Size(_), SumSizes(_, _)
Size(x) == CASE x.t \in {"int", "float", "opaque"} -> 9
             [] x.t = "bool" -> 2
             [] x.t = "str"  -> 5 + Len(x.b)
             [] x.t = "arr"  -> 6 + SumSizes(x.xs, 1)
             [] OTHER -> 1
SumSizes(xs, i) == IF i > Len(xs) THEN 0 ELSE Size(xs[i]) + SumSizes(xs, i + 1)

\* ------------------------------------------------------------------ cop_deserialize_value
\* result: n = bytes consumed (0 = refused), x = value, hz = hazard met on the way:
\*   "none"  - every read inside buf, allocation bounded by the bytes present
\*   "oob"   - the code reads beyond buf (the bound check `pos + len > buf_size` wrapped)
\*   "alloc" - the code allocates `count` elements although fewer than `count` bytes are left
Drop(s, k) == SubSeq(s, k + 1, Len(s))                        \* buf + k
DBad(hz)   == [n |-> 0, x |-> VVoid, hz |-> hz]
DOk(n, x)  == [n |-> n, x |-> x, hz |-> "none"]
Worse(a, b) == IF a # "none" THEN a ELSE b
RECURSIVE De(_), DeElems(_, _, _, _, _, _)
De(bf) ==
  IF Len(bf) < 1 THEN DBad("none")
  ELSE LET tag == bf[1] IN
    CASE tag = TagInt    -> IF 1 + 8 > Len(bf) THEN DBad("none") ELSE DOk(9, VInt(Limbs(SubSeq(bf, 2, 9))))
      [] tag = TagFloat  -> IF 1 + 8 > Len(bf) THEN DBad("none") ELSE DOk(9, VFlt(SubSeq(bf, 2, 9)))
      [] tag = TagBool   -> IF 1 + 1 > Len(bf) THEN DBad("none") ELSE DOk(2, VBool(IF bf[2] # 0 THEN 1 ELSE 0))
      [] tag = TagString -> IF 1 + 4 > Len(bf) THEN DBad("none")
                            ELSE LET len == U32of(SubSeq(bf, 2, 5)) IN
                                 IF "DE_LEN_WRAP" \notin Dev /\ Gt32(len, Len(bf) - 5) THEN DBad("none")   \* what the property needs
                                 ELSE IF Gt32(Add32(5, len), Len(bf)) THEN DBad("none") \* if (pos + len > buf_size) return 0;   (uint32_t)
                                 ELSE IF Gt32(len, Len(bf) - 5) THEN DBad("oob")        \* the check passed although len bytes are not there
                                 ELSE DOk(5 + ToInt(len), VStr(SubSeq(bf, 6, 5 + ToInt(len))))
      [] tag = TagOpaque -> IF 1 + 8 > Len(bf) THEN DBad("none") ELSE DOk(9, VOpq(Limbs(SubSeq(bf, 2, 9))))
      [] tag = TagArray  -> IF 1 + 5 > Len(bf) THEN DBad("none")
                            ELSE LET cnt == U32of(SubSeq(bf, 3, 6))
                                     hz0 == IF Gt32(cnt, Len(bf) - 6) THEN "alloc" ELSE "none"    \* vm_array_new(heap, etype, count)
                                 IN IF "DE_COUNT_UNBOUNDED" \notin Dev /\ hz0 = "alloc" THEN DBad("none") ELSE
                                    DeElems(bf, 6, 0, cnt, <<>>, [et |-> bf[2], hz |-> hz0])
      [] OTHER           -> DOk(1, VVoid)                     \* TAG_VOID and every unknown tag
DeElems(bf, pos, i, cnt, acc, c) ==
  IF ~Gt32(cnt, i) THEN [n |-> pos, x |-> VArr(c.et, acc), hz |-> c.hz]
  ELSE LET r == De(Drop(bf, pos)) IN
       IF r.n = 0 THEN DBad(Worse(c.hz, r.hz))
       ELSE DeElems(bf, pos + r.n, i + 1, cnt, Append(acc, r.x), [c EXCEPT !.hz = Worse(c.hz, r.hz)])

\* ------------------------------------------------------------------ bounded grammar
IntLimbs == {<<0, 0, 0, 0>>, <<0, 0, 0, 1>>, <<65535, 65535, 65535, 65535>>, <<32768, 0, 0, 0>>,
             <<32767, 65535, 65535, 65535>>, <<0, 0, 0, 255>>, <<0, 0, 0, 256>>, <<258, 772, 1286, 1800>>,
             <<0, 1, 0, 0>>, <<65535, 65535, 0, 0>>}
FloatBytes == {<<0, 0, 0, 0, 0, 0, 0, 0>>, <<0, 0, 0, 0, 0, 0, 0, 128>>,            \* +0 -0
               <<0, 0, 0, 0, 0, 0, 240, 63>>, <<24, 45, 68, 84, 251, 33, 9, 64>>,    \* 1.0  pi
               <<0, 0, 0, 0, 0, 0, 240, 127>>, <<0, 0, 0, 0, 0, 0, 240, 255>>,       \* +inf -inf
               <<0, 0, 0, 0, 0, 0, 248, 127>>, <<1, 0, 0, 0, 0, 0, 240, 127>>,       \* quiet NaN, signalling NaN with payload 1
               <<222, 173, 190, 239, 0, 0, 252, 255>>,                               \* negative NaN with payload
               <<1, 0, 0, 0, 0, 0, 0, 0>>, <<255, 255, 255, 255, 255, 255, 239, 127>>} \* least denormal, DBL_MAX
StrAlpha == IF Big THEN {0, 10, 97, 255} ELSE {0, 97, 255}
SeqsUpTo(S, n) == UNION {[1..k -> S] : k \in 0..n}
Strs(n)  == SeqsUpTo(StrAlpha, n)
OpqLimbs == {<<0, 0, 0, 0>>, <<0, 0, 32767, 65535>>, <<65535, 65535, 65535, 65535>>}
Ints   == {VInt(l) : l \in IntLimbs}
Floats == {VFlt(b) : b \in FloatBytes}
Bools  == {VBool(0), VBool(1)}
Opqs   == {VOpq(l) : l \in OpqLimbs}
Scalars == Ints \cup Floats \cup Bools \cup {VStr(b) : b \in Strs(3)} \cup Opqs \cup {VVoid}
AL == IF Big THEN 3 ELSE 2                                   \* array length bound
ShortStrs == {VStr(b) : b \in Strs(IF Big THEN 2 ELSE 1)}
Homog == {VArr(TagInt, xs) : xs \in SeqsUpTo(Ints, AL)} \cup {VArr(TagFloat, xs) : xs \in SeqsUpTo(Floats, AL)}
         \cup {VArr(TagBool, xs) : xs \in SeqsUpTo(Bools, AL + 1)} \cup {VArr(TagString, xs) : xs \in SeqsUpTo(ShortStrs, AL)}
         \cup {VArr(TagOpaque, xs) : xs \in SeqsUpTo(Opqs, AL)} \cup {VArr(TagVoid, xs) : xs \in SeqsUpTo({VVoid}, AL)}
OneOfEach == {VInt(<<0, 0, 0, 7>>), VFlt(<<0, 0, 0, 0, 0, 0, 248, 127>>), VBool(1), VStr(<<97, 0>>), VOpq(<<0, 0, 0, 9>>), VVoid}
Mixed == {VArr(et, xs) : et \in {TagInt, TagString, TagVoid, 99}, xs \in SeqsUpTo(OneOfEach, AL)}
A1small == {VArr(TagInt, <<>>), VArr(TagString, <<>>), VArr(TagArray, <<>>), VArr(TagInt, <<VInt(<<32768, 0, 0, 0>>)>>),
            VArr(TagString, <<VStr(<<>>), VStr(<<0, 255>>)>>), VArr(TagFloat, <<VFlt(<<1, 0, 0, 0, 0, 0, 240, 127>>)>>),
            VArr(TagBool, <<VBool(1), VBool(0), VBool(1)>>), VArr(TagVoid, <<VVoid>>), VArr(TagOpaque, <<VOpq(<<0, 0, 0, 1>>)>>)}
Nested2 == {VArr(TagArray, xs) : xs \in SeqsUpTo(A1small, AL)}
Nested3 == {VArr(TagArray, <<a, b>>) : a \in {VArr(TagArray, <<>>), VArr(TagArray, <<VArr(TagInt, <<>>), VArr(TagString, <<VStr(<<97>>)>>)>>)},
                                       b \in {VInt(<<0, 0, 0, 1>>), VArr(TagArray, <<VArr(TagArray, <<>>)>>)}}
Values == Scalars \cup Homog \cup Mixed \cup Nested2 \cup Nested3

\* long strings: contents are a fixed pattern of the index so that the probe can rebuild them from the length
Pat(i) == (i * 7 + 3) % 256
LongStr(n) == VStr([i \in 1..n |-> Pat(i)])
\* position-weighted checksum of a byte sequence, by halving (recursion depth log n: no deep Java stack)
RECURSIVE ByteSumR(_, _, _)
ByteSumR(s, lo, hi) == IF lo > hi THEN 0
                       ELSE IF lo = hi THEN (s[lo] * ((lo % 251) + 1)) % 65521
                       ELSE LET mid == (lo + hi) \div 2 IN (ByteSumR(s, lo, mid) + ByteSumR(s, mid + 1, hi)) % 65521
ByteSum(s) == ByteSumR(s, 1, Len(s))

\* hostile buffers: every byte string of a bounded shape (for the decoder's own safety)
LenBytes == IF Big THEN {0, 1, 2, 127, 128, 251, 255} ELSE {0, 1, 251, 255}
CntBytes == IF Big THEN {0, 1, 2, 3, 128, 255} ELSE {0, 1, 2, 255}
HostileBufs == SeqsUpTo({TagString, TagArray, 255, 0, 5}, 1) \cup
               {<<TagString>> \o l \o t : l \in [1..4 -> LenBytes], t \in SeqsUpTo({97}, IF Big THEN 3 ELSE 2)} \cup
               {<<TagArray, e>> \o l \o t : e \in {TagInt, 0}, l \in [1..4 -> CntBytes],
                                           t \in {<<>>, <<TagVoid>>, <<TagBool, 1>>, <<TagBool, 1, TagVoid>>, <<TagString, 255, 255, 255, 255>>,
                                                  <<TagArray, 0, 255, 255, 255, 255, 0>>}}

Init == \/ Mode = "values"  /\ v \in Values /\ buf = <<>>
        \/ Mode = "long"    /\ v \in {LongStr(n) : n \in LongLens} /\ buf = <<>>
        \/ Mode = "hostile" /\ v = VVoid /\ buf \in HostileBufs
Next == UNCHANGED vars

\* ------------------------------------------------------------------ checked properties
BigCap == 16777216
S == Ser(v, BigCap)
\* De(Ser(v)) = v, consuming exactly the bytes written
RoundTrip == Mode # "hostile" => /\ S.ok /\ LET d == De(S.b) IN d.n = Len(S.b) /\ d.x = v /\ d.hz = "none"
\* size law and: Ser fails iff size > cap  (all caps up to one beyond the size)
SizeLaw == Mode # "hostile" => Len(S.b) = Size(v)
CapLaw  == Mode = "values" => \A cap \in 0 .. Size(v) + 1 : Ser(v, cap).ok <=> (Size(v) <= cap)
CapLawLong == Mode = "long" => \A cap \in {0, 1, 4, 5, Size(v) - 1, Size(v), Size(v) + 1} : Ser(v, cap).ok <=> (Size(v) <= cap)
\* a prefix of an encoding is refused (no partial value is ever accepted as complete)
PrefixRefused == Mode = "values" => \A k \in 0 .. Len(S.b) - 1 : LET d == De(SubSeq(S.b, 1, k)) IN d.n = 0 /\ d.hz = "none"
\* decoder safety on hostile input: reads stay inside the buffer, allocation bounded by the input
DeSafe == Mode = "hostile" => De(buf).hz = "none"

\* ------------------------------------------------------------------ emission for the replay
Emit == CASE Mode = "values"  -> PrintT("@@J " \o ToJson([k |-> "val", v |-> v, ser |-> S.b, size |-> Size(v)]))
          [] Mode = "long"    -> PrintT("@@J " \o ToJson([k |-> "long", len |-> Len(v.b), size |-> Size(v), sum |-> ByteSum(S.b),
                                                         okcaps |-> {c \in {0, 1, 4, 5, Size(v) - 1, Size(v), Size(v) + 1} : Ser(v, c).ok}]))
          [] OTHER            -> LET d == De(buf) IN PrintT("@@J " \o ToJson([k |-> "hostile", buf |-> buf, n |-> d.n, hz |-> d.hz, x |-> d.x]))
====
