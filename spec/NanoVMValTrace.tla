---- MODULE NanoVMValTrace ----
(***************************************************************************)
(* Trace validation for C02 at instruction level: every step of a trace    *)
(* recorded by hook H7 (src/nanovm/verif_vmval.h) from the real NanoVM is   *)
(* judged with NanoVMVal!Step.                                             *)
(*                                                                         *)
(* Every trace line carries an observation of the machine state as a delta *)
(* against the previous line (changed stack slots, top frame, changed      *)
(* globals, new/changed/freed containers, ip, fn), so M -- the observed    *)
(* state at line l -- is known completely.  For the pair (line l, line     *)
(* l+1):  P = Step(M, instruction of line l) is what the specification     *)
(* prescribes, O = M updated with the observation of line l+1 is what the  *)
(* VM did; the whole of O (ip, fn, every stack slot, frames, globals,      *)
(* every live container) must satisfy P, and the kind of the next line     *)
(* (next instruction / return to host with which value / error with which  *)
(* code) must be the prescribed one.  The lines between instructions (host *)
(* set up a call, host released a value, host pushed an extern result,     *)
(* run ended) are judged the same way against the host's part.  M is then  *)
(* replaced by O, so every step is judged on its own.                      *)
(* Opcodes/operand domains without a specification are accepted, counted   *)
(* and reported by name.  Several runs are concatenated with Reset lines.  *)
(***************************************************************************)
EXTENDS NanoVMVal, Json, IOUtils
Tr == ndJsonDeserialize(IOEnv.TRACE)
N == Len(Tr)
MaxRep == 3           \* deviations reported per run (all are counted)

VARIABLES l, M, E, run, nrep, stats, cnt, uns
vars == <<l, M, E, run, nrep, stats, cnt, uns>>
EmptyEnv == [fns |-> <<>>, imps |-> <<>>, newid |-> 0]
ZeroStats == [lines |-> 0, runs |-> 0, steps |-> 0, conform |-> 0, deviates |-> 0, unspec |-> 0, nosucc |-> 0, host |-> 0, hostdev |-> 0, wild |-> 0]

HasObs(ev) == ev.e \in {"op", "fuel", "call", "ret_none", "ret_halt", "ret_trap", "ret_extern", "ret_error", "host_release", "host_extern"}

\* ------------------------------------------------ applying an observation
ObsFrames(S, ev) ==
   LET top == [fn |-> ev.fr[1], base |-> ev.fr[2], nloc |-> ev.fr[3], ret |-> ev.fr[4], clo |-> ev.fr[5]]
       unk == [fn |-> -1, base |-> -1, nloc |-> 0, ret |-> -1, clo |-> 0] IN
   IF ev.fc = 0 THEN <<>>
   ELSE IF ev.fc <= Len(S.frames) + 1 THEN Append(SubSeq(S.frames, 1, ev.fc - 1), top)
   ELSE Append(S.frames \o [i \in 1..(ev.fc - Len(S.frames) - 1) |-> unk], top)
ObsGlobals(S, ev) ==
   IF Len(ev.g) = 0 /\ ev.gc = Len(S.globals) THEN S.globals
   ELSE [i \in 1..ev.gc |-> IF \E j \in 1..Len(ev.g) : ev.g[j][1] = i - 1 THEN ev.g[CHOOSE j \in 1..Len(ev.g) : ev.g[j][1] = i - 1][2]
                             ELSE IF i <= Len(S.globals) THEN S.globals[i] ELSE VoidV]
ObsHeap(S, ev) ==
   IF Len(ev.h) = 0 /\ Len(ev.hf) = 0 THEN S.heap
   ELSE LET upd == {ev.h[j].id : j \in 1..Len(ev.h)}
            freed == {ev.hf[j] : j \in 1..Len(ev.hf)} IN
        [id \in ((DOMAIN S.heap) \cup upd) \ freed |->
           IF id \in upd THEN LET u == ev.h[CHOOSE j \in 1..Len(ev.h) : ev.h[j].id = id]
                                  old == IF id \in DOMAIN S.heap THEN S.heap[id].v ELSE <<>> IN
                              Obj(u.k, u.m[1], u.m[2], SubSeq(old, 1, u.from) \o u.v)
           ELSE S.heap[id]]
ApplyObs(S, ev) == [stack |-> SubSeq(S.stack, 1, ev.si) \o ev.sv, frames |-> ObsFrames(S, ev), globals |-> ObsGlobals(S, ev),
                    heap |-> ObsHeap(S, ev), ip |-> ev.ip, fn |-> ev.fn]
Updated(ev) == {ev.h[j].id : j \in 1..Len(ev.h)}
NewIds(S, ev) == {ev.h[j].id : j \in 1..Len(ev.h)} \ DOMAIN S.heap

\* --------------------------------------------------- prescribed vs observed
\* a hash map is a set of key/value pairs: the order of its entries in the trace is the VM's bucket order
PairSet(vs) == {<<vs[2 * i - 1], vs[2 * i]>> : i \in 1..(Len(vs) \div 2)}
PairsMatch(ps, os) == Len(ps) = Len(os) /\ (ps = os \/ PairSet(ps) = PairSet(os))      \* map contents are concrete values (never wildcards)
\* ids: the containers to compare -- those the instruction may touch and those the VM was seen to change; any other container is
\* the same object in P, O and the state before
HeapMatch(P, O, ids) == \A id \in (ids \cap DOMAIN O.heap) :
                           /\ id \in DOMAIN P.heap /\ P.heap[id].k = O.heap[id].k /\ P.heap[id].m = O.heap[id].m
                           /\ (IF O.heap[id].k = TMap THEN PairsMatch(P.heap[id].v, O.heap[id].v) ELSE SeqMatch(P.heap[id].v, O.heap[id].v))
Diff(P, O, heapToo, ids) ==
   IF P.ip # O.ip THEN "ip" ELSE IF P.fn # O.fn THEN "fn"
   ELSE IF Len(P.stack) # Len(O.stack) THEN "stack depth" ELSE IF ~SeqMatch(P.stack, O.stack) THEN "stack"
   ELSE IF P.frames # O.frames THEN "frames" ELSE IF ~SeqMatch(P.globals, O.globals) THEN "globals"
   ELSE IF heapToo /\ ~HeapMatch(P, O, ids) THEN "heap" ELSE ""
HasWild(P) == \E i \in 1..Len(P.stack) : P.stack[i].t >= 99

FnEnd(env, f) == IF f + 1 <= Len(env.fns) THEN env.fns[f + 1][3] + env.fns[f + 1][4] ELSE 0
Verdict(cls, what, exp) == [cls |-> cls, what |-> what, exp |-> exp]
NoExp == Unspec(EmptyState, "")

\* the instruction of line ev against the next line nx
JudgeOp(S, env, ev, nx) ==
   LET ids == NewIds(S, nx)
       e1 == [env EXCEPT !.newid = IF HasObs(nx) /\ Cardinality(ids) = 1 THEN CHOOSE x \in ids : TRUE ELSE 0]
       I == [op |-> ev.op, a |-> ev.a, len |-> ev.len, imm |-> ev.imm]
       x == Step(S, I, e1) IN
   IF ~HasObs(nx) THEN Verdict("nosucc", "", x)
   ELSE LET O == ApplyObs(S, nx)
            d == Diff(x.S, O, TRUE, Touched(S, e1) \cup Updated(nx)) IN
        CASE x.kind = "unspec" -> Verdict("unspec", x.why, x)
          [] x.kind = "ok" ->
               IF x.S.ip >= FnEnd(env, x.S.fn) THEN Verdict("unspec", "control leaves the function's code", x)
               ELSE IF nx.e \notin {"op", "fuel"} THEN Verdict("dev", "the core must go on with the next instruction but " \o nx.e, x)
               ELSE IF d # "" THEN Verdict("dev", d, x) ELSE Verdict("ok", "", x)
          [] x.kind = "done" -> IF nx.e # "ret_none" THEN Verdict("dev", "outermost RET must return to the host but " \o nx.e, x)
                                ELSE IF d # "" THEN Verdict("dev", d, x) ELSE Verdict("ok", "", x)
          [] x.kind = "halt" -> IF nx.e # "ret_halt" THEN Verdict("dev", "HALT must return to the host but " \o nx.e, x)
                                ELSE IF d # "" THEN Verdict("dev", d, x) ELSE Verdict("ok", "", x)
          [] x.kind = "trap" -> IF nx.e # "ret_error" THEN Verdict("dev", "must stop with an error but " \o nx.e, x)
                                ELSE IF nx.val # x.code THEN Verdict("dev", "error code", x) ELSE Verdict("ok", "", x)
          [] x.kind \in {"print", "assert"} ->
                                IF nx.e # "ret_trap" THEN Verdict("dev", "must hand a value to the host but " \o nx.e, x)
                                ELSE IF d # "" THEN Verdict("dev", d, x)
                                ELSE IF ~SeqMatch(x.tv, nx.tv) THEN Verdict("dev", "value handed to the host", x) ELSE Verdict("ok", "", x)
          [] x.kind = "extern" -> IF nx.e # "ret_extern" THEN Verdict("dev", "must hand the arguments to the host but " \o nx.e, x)
                                ELSE IF d # "" THEN Verdict("dev", d, x)
                                ELSE IF ~SeqMatch(x.tv, nx.tv) THEN Verdict("dev", "arguments handed to the host", x) ELSE Verdict("ok", "", x)

\* lines that are not instructions: the host's part (vm_call_function)
JudgeHost(S, env, ev, nx) ==
   IF nx.e = "call" THEN
        LET x == HostCall(S, env, nx.val)  d == Diff(x.S, ApplyObs(S, nx), TRUE, Updated(nx)) IN
        IF x.kind # "ok" THEN Verdict("hostunspec", x.why, x) ELSE IF d # "" THEN Verdict("hostdev", "host call: " \o d, x) ELSE Verdict("hostok", "", x)
   ELSE IF ev.e = "ret_trap" THEN
        (IF nx.e # "host_release" THEN Verdict("hostdev", "after a print/assert trap: " \o nx.e, Ok(S))
         ELSE LET d == Diff(S, ApplyObs(S, nx), TRUE, Updated(nx)) IN IF d # "" THEN Verdict("hostdev", "host release: " \o d, Ok(S)) ELSE Verdict("hostok", "", Ok(S)))
   ELSE IF ev.e = "ret_extern" THEN
        (IF nx.e = "end" THEN Verdict("hostok", "", Ok(S))
         ELSE IF nx.e # "host_extern" THEN Verdict("hostdev", "after an extern trap: " \o nx.e, Ok(S))
         ELSE LET x == Ok(Push(S, AnyV))  d == Diff(x.S, ApplyObs(S, nx), FALSE, {}) IN       \* the result and what it allocated are not specified
              IF d # "" THEN Verdict("hostdev", "extern result: " \o d, x) ELSE Verdict("hostok", "", x))
   ELSE IF ev.e \in {"host_release", "host_extern"} THEN
        (IF nx.e = "end" THEN Verdict("hostok", "", Ok(S))
         ELSE IF nx.e \notin {"op", "fuel"} THEN Verdict("hostdev", "core resumed: " \o nx.e, Ok(S))
         ELSE LET d == Diff(S, ApplyObs(S, nx), TRUE, Updated(nx)) IN IF d # "" THEN Verdict("hostdev", "core resumed: " \o d, Ok(S)) ELSE Verdict("hostok", "", Ok(S)))
   ELSE IF ev.e \in {"ret_none", "ret_halt"} THEN
        (IF nx.e # "end" \/ nx.kind # "ok" THEN Verdict("hostdev", "run must end normally", Ok(S))
         ELSE IF Depth(S) > 0 /\ nx.val # Top(S) THEN Verdict("hostdev", "result of the run is not the value on top of the stack", Ok(S))
         ELSE Verdict("hostok", "", Ok(S)))
   ELSE IF ev.e = "ret_error" THEN
        (IF nx.e # "end" \/ nx.kind # "error" \/ nx.code # ev.val THEN Verdict("hostdev", "run must end with the error of the trap", Ok(S)) ELSE Verdict("hostok", "", Ok(S)))
   ELSE Verdict("none", "", NoExp)

Window(seq) == SubSeq(seq, IF Len(seq) > 4 THEN Len(seq) - 3 ELSE 1, Len(seq))
Report(kind, ev, nx, v) ==
   PrintT("@@J " \o ToJson([kind |-> kind, run |-> run, l |-> l, what |-> v.what, e |-> ev.e,
        k |-> IF ev.e = "op" THEN ev.k ELSE 0, op |-> IF ev.e = "op" THEN ev.op ELSE "", a |-> IF ev.e = "op" THEN ev.a ELSE <<>>,
        ip |-> M.ip, fn |-> M.fn, depth |-> Depth(M), next |-> nx.e,
        pre |-> Window(M.stack),
        want |-> [kind |-> v.exp.kind, code |-> v.exp.code, ip |-> v.exp.S.ip, fn |-> v.exp.S.fn, depth |-> Depth(v.exp.S), stack |-> Window(v.exp.S.stack), tv |-> v.exp.tv],
        got |-> IF HasObs(nx) THEN LET O == ApplyObs(M, nx)  plain == nx.e \in {"op", "fuel"} IN
                     [ip |-> O.ip, fn |-> O.fn, depth |-> Depth(O), stack |-> Window(O.stack), val |-> IF plain THEN 0 ELSE nx.val, tv |-> IF plain THEN <<>> ELSE nx.tv]
                ELSE [ip |-> 0, fn |-> 0, depth |-> 0, stack |-> <<>>, val |-> 0, tv |-> <<>>]]))

Inc(f, key) == IF key \in DOMAIN f THEN [f EXCEPT ![key] = @ + 1] ELSE (key :> 1) @@ f

Init == l = 0 /\ M = EmptyState /\ E = EmptyEnv /\ run = "?" /\ nrep = 0 /\ stats = ZeroStats /\ cnt = <<>> /\ uns = <<>>
Next ==
   /\ l < N
   /\ l' = l + 1
   /\ LET ev == IF l = 0 THEN [e |-> "BOF"] ELSE Tr[l]
          nx == Tr[l + 1]
          v == IF ev.e = "op" THEN JudgeOp(M, E, ev, nx) ELSE JudgeHost(M, E, ev, nx)
          bad == v.cls \in {"dev", "hostdev"} IN
      /\ (IF bad /\ nrep < MaxRep THEN Report(IF v.cls = "dev" THEN "deviates" ELSE "host", ev, nx, v) ELSE TRUE)
      /\ (IF v.cls = "unspec" /\ (ev.op \o ": " \o v.what) \notin DOMAIN uns
          THEN PrintT("@@J " \o ToJson([kind |-> "unspec", run |-> run, l |-> l, k |-> ev.k, op |-> ev.op, why |-> v.what, ip |-> M.ip, fn |-> M.fn])) ELSE TRUE)
      /\ M' = IF HasObs(nx) THEN ApplyObs(M, nx) ELSE IF nx.e = "Reset" THEN EmptyState ELSE M
      /\ E' = IF nx.e = "mod" THEN [fns |-> nx.fns, imps |-> nx.imps, newid |-> 0] ELSE IF nx.e = "Reset" THEN EmptyEnv ELSE E
      /\ run' = IF nx.e = "Reset" THEN nx.run ELSE run
      /\ nrep' = IF nx.e = "Reset" THEN 0 ELSE IF bad THEN nrep + 1 ELSE nrep
      /\ stats' = [stats EXCEPT !.lines = @ + 1,
                                !.runs = @ + (IF nx.e = "Reset" THEN 1 ELSE 0),
                                !.steps = @ + (IF ev.e = "op" THEN 1 ELSE 0),
                                !.conform = @ + (IF v.cls = "ok" THEN 1 ELSE 0),
                                !.deviates = @ + (IF v.cls = "dev" THEN 1 ELSE 0),
                                !.unspec = @ + (IF v.cls = "unspec" THEN 1 ELSE 0),
                                !.nosucc = @ + (IF v.cls = "nosucc" THEN 1 ELSE 0),
                                !.host = @ + (IF v.cls \in {"hostok", "hostdev", "hostunspec"} THEN 1 ELSE 0),
                                !.hostdev = @ + (IF v.cls = "hostdev" THEN 1 ELSE 0),
                                !.wild = @ + (IF v.cls = "ok" /\ HasWild(v.exp.S) THEN 1 ELSE 0)]
      /\ cnt' = IF v.cls \in {"ok", "dev"} THEN Inc(cnt, ev.op) ELSE cnt
      /\ uns' = IF v.cls = "unspec" THEN Inc(uns, ev.op \o ": " \o v.what) ELSE uns
Spec == Init /\ [][Next]_vars
Summary == l = N => PrintT("@@J " \o ToJson([kind |-> "stats", stats |-> stats, cnt |-> cnt, uns |-> uns]))
Post == PrintT("@@J " \o ToJson([kind |-> "summary", n |-> N, consumed |-> TLCGet("stats").diameter - 1]))
====
