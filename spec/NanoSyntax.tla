---------------------------- MODULE NanoSyntax ----------------------------
\* C07 -- prefix and infix notation denote the same program.
\*
\* Expression trees of the core language (13 binary + 2 unary operators, literals, variables, field
\* access, tuple index, parenthesised calls), two printers (Prefix, Infix) and a reference parser for
\* the notation as SPECIFICATION.md 4.3 / 4.7 states it:
\*   * all infix operators have equal precedence and associate left to right;
\*   * postfix forms (.field, .index) bind tighter than any infix operator, and calls are atomic;
\*   * a unary operator applies to the operand that follows it;
\*   * "(" followed by an operator token opens the prefix form.
\* TLC checks Parse(Prefix(e)) = e /\ Parse(Infix(e)) = e (the notation is unambiguous on the printed
\* forms) for every generated tree and emits (prefix text, infix text, expected value) as JSON; the
\* harness compiles both spellings with the real compiler and compares the bytecode.
\*
\* Trees are generated *typed* (int / bool / struct P / struct O / tuple T) so that the real type
\* checker accepts every one of them; the tree itself carries no types (the parser must rebuild it).
\*
\* Deviation switch PARSE_POSTFIX_ON_LEFT (design finding F9): the parser `dev = TRUE` reads the right
\* operand of an infix operator and the operand of a unary operator *without* its postfix forms and
\* attaches a following ".f" to everything read so far -- what src/parser.c does on the unchanged
\* tree.  For every tree the spec also emits the prefix spelling of what that parser would read
\* (field `dev`, empty when the deviation does not change the tree): a bytecode mismatch is the known
\* finding only if the infix spelling compiles to exactly what that `dev` spelling compiles to.
EXTENDS Integers, Sequences, FiniteSets, TLC, Json

CONSTANTS Family,      \* "d2" | "t3" | "t3p" | "t2x" | "d3" | "comb" | "naive"
          IntAtoms,    \* operand alphabet of type int for the depth families, e.g. {"a", "2"}
          BoolAtoms,   \* operand alphabet of type bool, e.g. {"u", "true"}
          Emit,        \* TRUE: print one JSON record per tree
          CombSizes,   \* set of comb lengths for Family = "comb"
          Forms        \* postfix leaf forms for Family = "t3p": subset of {"fld", "tix", "chain", "call", "callfld", "neg", "lit"}

ArithOps == {"+", "-", "*", "/", "%"}
CmpOps   == {"<", "<=", ">", ">="}
EqOps    == {"==", "!="}
LogOps   == {"and", "or"}
BinOps   == ArithOps \cup CmpOps \cup EqOps \cup LogOps          \* the 13 infix operators
UnOps    == {"-", "not"}
ASSUME Cardinality(BinOps) = 13

IsBinTok(t) == t \in BinOps
IsUnTok(t)  == t \in UnOps
IsOpTok(t)  == IsBinTok(t) \/ IsUnTok(t)
IsIndexTok(t) == t \in {"0", "1"}

Atom(x)        == [k |-> "atom", x |-> x]
Bin(op, l, r)  == [k |-> "bin", op |-> op, l |-> l, r |-> r]
Un(op, e)      == [k |-> "un", op |-> op, e |-> e]
Fld(e, f)      == [k |-> "fld", e |-> e, f |-> f]
Tix(e, i)      == [k |-> "tix", e |-> e, i |-> i]
Call(fn, args) == [k |-> "call", fn |-> fn, args |-> args]

----------------------------------------------------------------------------
\* Typed generation.  One level: all trees whose root is a constructor over the given operand sets.
IntLevel(I, B, P, O, T) ==
       [k : {"bin"}, op : ArithOps, l : I, r : I]
  \cup [k : {"un"}, op : {"-"}, e : I]
  \cup [k : {"fld"}, e : P, f : {"x", "y"}]
  \cup [k : {"tix"}, e : T, i : {"0", "1"}]
  \cup {Call("f", <<x, y>>) : x \in I, y \in I}
  \cup {Call("h", <<x>>) : x \in I}
  \cup {Call("z", <<>>)}
BoolLevel(I, B, P, O, T) ==
       [k : {"bin"}, op : CmpOps \cup EqOps, l : I, r : I]
  \cup [k : {"bin"}, op : EqOps \cup LogOps, l : B, r : B]
  \cup [k : {"un"}, op : {"not"}, e : B]
  \cup [k : {"fld"}, e : P, f : {"b"}]
  \cup {Call("g", <<x>>) : x \in I}
PLevel(I, B, P, O, T) == [k : {"fld"}, e : O, f : {"p"}] \cup {Call("mk", <<x>>) : x \in I}

I0 == {Atom(x) : x \in IntAtoms}
B0 == {Atom(x) : x \in BoolAtoms}
P0 == {Atom("p")}
O0 == {Atom("o")}
T0 == {Atom("t")}
I1 == I0 \cup IntLevel(I0, B0, P0, O0, T0)
B1 == B0 \cup BoolLevel(I0, B0, P0, O0, T0)
P1 == P0 \cup PLevel(I0, B0, P0, O0, T0)
I2 == I1 \cup IntLevel(I1, B1, P1, O0, T0)
B2 == B1 \cup BoolLevel(I1, B1, P1, O0, T0)
P2 == P1 \cup PLevel(I1, B1, P1, O0, T0)
I3 == I2 \cup IntLevel(I2, B2, P2, O0, T0)
B3 == B2 \cup BoolLevel(I2, B2, P2, O0, T0)

\* Reduced levels for the depth-3 model check (no calls / tuple index / second field; the full depth-3
\* set has about 10^7 trees): arithmetic, unary, comparison and equality operators and one postfix form.
IntLevelR(I, P) == [k : {"bin"}, op : ArithOps, l : I, r : I] \cup [k : {"un"}, op : {"-"}, e : I] \cup [k : {"fld"}, e : P, f : {"x"}]
BoolLevelR(I, B, P) == [k : {"bin"}, op : CmpOps \cup EqOps, l : I, r : I] \cup [k : {"bin"}, op : EqOps \cup LogOps, l : B, r : B]
                       \cup [k : {"un"}, op : {"not"}, e : B] \cup [k : {"fld"}, e : P, f : {"b"}]
I1R == I0 \cup IntLevelR(I0, P0)
B1R == B0 \cup BoolLevelR(I0, B0, P0)
I2R == I1R \cup IntLevelR(I1R, P0)
B2R == B1R \cup BoolLevelR(I1R, B1R, P0)

\* Operator triples: every well-typed tree with exactly n operator nodes (unary or binary); the
\* leaves are holes, numbered afterwards from left to right so that every operand is a different
\* variable (a b c d / u v w s) and a swap of operands is visible in the code.
Hole(ty) == [k |-> "hole", ty |-> ty]
RECURSIVE OpTrees(_, _)
\* operand classes beyond int/bool (Family "t2x"): float arithmetic and comparison, string concatenation and equality
XTypes == IF Family = "t2x" THEN {"float", "str"} ELSE {}
FloatOps == {"+", "-", "*", "/"}
OpTrees(n, ty) ==
  IF n = 0 THEN {Hole(ty)}
  ELSE LET Split(lt, rt, ops) == UNION {[k : {"bin"}, op : ops, l : OpTrees(i, lt), r : OpTrees(n - 1 - i, rt)] : i \in 0..(n - 1)}
       IN CASE ty = "int" -> Split("int", "int", ArithOps) \cup [k : {"un"}, op : {"-"}, e : OpTrees(n - 1, "int")]
            [] ty = "float" -> Split("float", "float", FloatOps) \cup [k : {"un"}, op : {"-"}, e : OpTrees(n - 1, "float")]
            [] ty = "str" -> Split("str", "str", {"+"})
            [] OTHER -> Split("int", "int", CmpOps \cup EqOps) \cup Split("bool", "bool", EqOps \cup LogOps)
                        \cup [k : {"un"}, op : {"not"}, e : OpTrees(n - 1, "bool")]
                        \cup (IF "float" \in XTypes THEN Split("float", "float", CmpOps \cup EqOps) ELSE {})
                        \cup (IF "str" \in XTypes THEN Split("str", "str", EqOps) ELSE {})
IntNames   == <<"a", "b", "c", "d">>
BoolNames  == <<"u", "v", "w", "s">>
FloatNames == <<"fa", "fb", "fc", "fd">>
StrNames   == <<"sa", "sb", "sc", "sd">>
NameOf(ty, i) == CASE ty = "int" -> IntNames[i] [] ty = "bool" -> BoolNames[i] [] ty = "float" -> FloatNames[i] [] OTHER -> StrNames[i]
\* the operand a hole becomes under a leaf form; "var" where the form does not exist for the type
\*   fld / tix / chain   postfix on a variable            p.x   t.1   o.p.y   p.b
\*   call                parenthesised call               (h c)  (g c)
\*   callfld             postfix on a parenthesised call  (mk c).y  (mk c).b
\*   lit / neg           literals, negative literals      2  2.5  "k"  true   -3  -0.5
LeafForm(ty, form, i) ==
  CASE form = "fld"     -> IF ty = "int" THEN Fld(Atom("p"), "x") ELSE IF ty = "bool" THEN Fld(Atom("p"), "b") ELSE Atom(NameOf(ty, i))
    [] form = "tix"     -> IF ty = "int" THEN Tix(Atom("t"), "1") ELSE IF ty = "bool" THEN Fld(Atom("p"), "b") ELSE Atom(NameOf(ty, i))
    [] form = "chain"   -> IF ty = "int" THEN Fld(Fld(Atom("o"), "p"), "y") ELSE IF ty = "bool" THEN Fld(Atom("p"), "b") ELSE Atom(NameOf(ty, i))
    [] form = "call"    -> IF ty = "int" THEN Call("h", <<Atom(IntNames[i])>>) ELSE IF ty = "bool" THEN Call("g", <<Atom(IntNames[i])>>) ELSE Atom(NameOf(ty, i))
    [] form = "callfld" -> IF ty = "int" THEN Fld(Call("mk", <<Atom(IntNames[i])>>), "y")
                           ELSE IF ty = "bool" THEN Fld(Call("mk", <<Atom(IntNames[i])>>), "b") ELSE Atom(NameOf(ty, i))
    [] form = "lit"     -> Atom(CASE ty = "int" -> "2" [] ty = "float" -> "2.5" [] ty = "str" -> "\"k\"" [] OTHER -> "true")
    [] form = "neg"     -> Atom(CASE ty = "int" -> "-3" [] ty = "float" -> "-0.5" [] OTHER -> NameOf(ty, i))
    [] OTHER -> Atom(NameOf(ty, i))
\* Fill(e, i, pf): number the holes from i; the hole with number pf (0 = none) takes the leaf form.
RECURSIVE Fill(_, _, _, _)
Fill(e, i, pf, form) ==
  CASE e.k = "hole" -> [n |-> IF i = pf THEN LeafForm(e.ty, form, i) ELSE Atom(NameOf(e.ty, i)), i |-> i + 1]
    [] e.k = "un"  -> LET a == Fill(e.e, i, pf, form) IN [n |-> Un(e.op, a.n), i |-> a.i]
    [] e.k = "bin" -> LET a == Fill(e.l, i, pf, form)
                          b == Fill(e.r, a.i, pf, form) IN [n |-> Bin(e.op, a.n, b.n), i |-> b.i]
Holes3 == OpTrees(3, "int") \cup OpTrees(3, "bool") \cup OpTrees(2, "int") \cup OpTrees(2, "bool")
T3  == {Fill(e, 1, 0, "fld").n : e \in Holes3}
T3P == {Fill(e, 1, pf, form).n : e \in Holes3, pf \in 1..4, form \in Forms} \ T3
\* all operand classes, one or two operators, every hole once as a literal and once as a negative literal
Holes2X == UNION {OpTrees(k, ty) : k \in 1..2, ty \in {"int", "bool", "float", "str"}}
T2X == {Fill(e, 1, pf, form).n : e \in Holes2X, pf \in 0..3, form \in {"lit", "neg"}}

\* Deep combs (thorough): left comb a + b - a * b ... and right comb a + (b - (a * ...)), n operators.
OpCycle == <<"+", "-", "*", "+", "-">>
RECURSIVE LeftComb(_), RightComb(_)
Leaf(n) == Atom(IF (n % 2) = 0 THEN "a" ELSE "b")
LeftComb(n)  == IF n = 0 THEN Leaf(0) ELSE Bin(OpCycle[(n % 5) + 1], LeftComb(n - 1), Leaf(n))
RightComb(n) == IF n = 0 THEN Leaf(0) ELSE Bin(OpCycle[(n % 5) + 1], Leaf(n), RightComb(n - 1))

----------------------------------------------------------------------------
\* Printers.  Token sequences; Text() joins them the way a programmer would write them.
RECURSIVE Prefix(_), PrefixArgs(_, _)
PrefixArgs(as, i) == IF i > Len(as) THEN <<>> ELSE Prefix(as[i]) \o PrefixArgs(as, i + 1)
Prefix(e) == CASE e.k = "atom" -> <<e.x>>
               [] e.k = "bin"  -> <<"(", e.op>> \o Prefix(e.l) \o Prefix(e.r) \o <<")">>
               [] e.k = "un"   -> <<"(", e.op>> \o Prefix(e.e) \o <<")">>
               [] e.k = "fld"  -> Prefix(e.e) \o <<".", e.f>>          \* postfix on a primary: (mk a).x, o.p.x
               [] e.k = "tix"  -> Prefix(e.e) \o <<".", e.i>>
               [] e.k = "call" -> <<"(", e.fn>> \o PrefixArgs(e.args, 1) \o <<")">>

\* Naive = TRUE shows why the infix printer needs LeftmostFixed (appendix D of DESIGN.md):
\* "a + ( - a + a )" is the prefix form (- (a + a)).
Naive == Family = "naive"
RECURSIVE Infix(_), Operand(_), Postfixable(_), Paren(_), LeftmostFixed(_), CallArg(_), InfixArgs(_, _)
\* a parenthesised infix expression must not start with a unary operator token
Paren(e) == LET body == Infix(e) IN
            IF ~Naive /\ IsUnTok(body[1]) THEN <<"(">> \o LeftmostFixed(e) \o <<")">> ELSE <<"(">> \o body \o <<")">>
\* e in infix, with its leftmost unary sub-term written in prefix form
LeftmostFixed(e) == CASE e.k = "bin" -> LeftmostFixed(e.l) \o <<e.op>> \o Operand(e.r)
                      [] e.k = "un"  -> Prefix(e)
                      [] OTHER -> Infix(e)
Infix(e) == CASE e.k = "atom" -> <<e.x>>
              [] e.k = "bin"  -> Infix(e.l) \o <<e.op>> \o Operand(e.r)      \* the left operand may be an open chain
              [] e.k = "un"   -> <<e.op>> \o Operand(e.e)
              [] e.k = "fld"  -> Postfixable(e.e) \o <<".", e.f>>
              [] e.k = "tix"  -> Postfixable(e.e) \o <<".", e.i>>
              [] e.k = "call" -> <<"(", e.fn>> \o InfixArgs(e.args, 1) \o <<")">>
Operand(e)     == IF e.k = "bin" THEN Paren(e) ELSE Infix(e)                 \* right operands and unary operands
Postfixable(e) == IF e.k \in {"bin", "un"} THEN Paren(e) ELSE Infix(e)
\* spec 4.7: calls are always written in prefix notation; an argument that is itself an operation is
\* parenthesised, and never starts with "-" ("(f a -b)" would read as the single argument a - b).
CallArg(e) == CASE e.k = "bin" -> Paren(e)
                [] e.k = "un"  -> Prefix(e)
                [] OTHER -> Infix(e)
InfixArgs(as, i) == IF i > Len(as) THEN <<>> ELSE CallArg(as[i]) \o InfixArgs(as, i + 1)

NoSpace(x, y) == x = "(" \/ y = ")" \/ x = "." \/ y = "."
RECURSIVE TextFrom(_, _)
TextFrom(ts, i) == IF i > Len(ts) THEN ""
                   ELSE (IF i > 1 /\ ~NoSpace(ts[i - 1], ts[i]) THEN " " ELSE "") \o ts[i] \o TextFrom(ts, i + 1)
Text(ts) == TextFrom(ts, 1)
\* Spellings the lexical rules (SPECIFICATION 2.1, 2.4-2.6) make equivalent.  Tight: no blank around an infix
\* operator made of symbols -- except "-": a "-" followed by a digit is a sign (2.4), so "a -3" / "a-3" are not the
\* subtraction and are never printed.  Cmt: block comments and tabs as token separators.
SymOps == {"+", "*", "/", "%", "==", "!=", "<", "<=", ">", ">="}
TightAt(ts, i) == \/ ts[i] \in SymOps /\ ts[i - 1] # "("
                  \/ ts[i - 1] \in SymOps /\ (i = 2 \/ ts[i - 2] # "(")
RECURSIVE TightFrom(_, _), CmtFrom(_, _)
TightFrom(ts, i) == IF i > Len(ts) THEN ""
                    ELSE (IF i > 1 /\ ~NoSpace(ts[i - 1], ts[i]) /\ ~TightAt(ts, i) THEN " " ELSE "") \o ts[i] \o TightFrom(ts, i + 1)
CmtFrom(ts, i) == IF i > Len(ts) THEN ""
                  ELSE (IF i > 1 /\ ~NoSpace(ts[i - 1], ts[i])
                        THEN (IF IsOpTok(ts[i - 1]) THEN " /* c */ " ELSE IF (i % 2) = 0 THEN "\t" ELSE "  ") ELSE "")
                       \o ts[i] \o CmtFrom(ts, i + 1)
TextTight(ts) == TightFrom(ts, 1)
TextCmt(ts) == CmtFrom(ts, 1)

----------------------------------------------------------------------------
\* Reference parser; returns [n |-> node, p |-> next position].  dev = FALSE: the notation as specified.
\* dev = TRUE: deviation PARSE_POSTFIX_ON_LEFT.
Tok(ts, p) == IF p <= Len(ts) THEN ts[p] ELSE "EOF"
Bad == [k |-> "bad"]
PostNode(base, t) == IF IsIndexTok(t) THEN Tix(base, t) ELSE Fld(base, t)
RECURSIVE PExpr(_, _, _), POperand(_, _, _), PPostfix(_, _, _), PAtomic(_, _, _), PTail(_, _, _, _), PArgs(_, _, _, _)
PExpr(ts, p, dev) == LET a == POperand(ts, p, dev) IN PTail(ts, a.p, a.n, dev)
PTail(ts, p, left, dev) ==
   IF dev /\ Tok(ts, p) = "." THEN PTail(ts, p + 2, PostNode(left, Tok(ts, p + 1)), dev)
   ELSE IF IsBinTok(Tok(ts, p))
        THEN LET r == POperand(ts, p + 1, dev) IN PTail(ts, r.p, Bin(Tok(ts, p), left, r.n), dev)
        ELSE [n |-> left, p |-> p]
POperand(ts, p, dev) ==
   IF IsUnTok(Tok(ts, p))                     \* an operator in operand position is unary
   THEN LET o == POperand(ts, p + 1, dev) IN [n |-> Un(Tok(ts, p), o.n), p |-> o.p]
   ELSE LET a == PAtomic(ts, p, dev) IN IF dev THEN a ELSE PPostfix(ts, a.p, a.n)
PPostfix(ts, p, base) ==
   IF Tok(ts, p) = "." THEN PPostfix(ts, p + 2, PostNode(base, Tok(ts, p + 1))) ELSE [n |-> base, p |-> p]
PArgs(ts, p, acc, dev) ==
   IF Tok(ts, p) \in {")", "EOF"} THEN [n |-> acc, p |-> p + 1]
   ELSE LET a == PExpr(ts, p, dev) IN PArgs(ts, a.p, Append(acc, a.n), dev)
PAtomic(ts, p, dev) ==
   IF Tok(ts, p) = "(" THEN
        IF IsOpTok(Tok(ts, p + 1))                                   \* prefix form
        THEN LET as == PArgs(ts, p + 2, <<>>, dev) IN
             [n |-> IF Len(as.n) = 2 THEN Bin(Tok(ts, p + 1), as.n[1], as.n[2])
                    ELSE IF Len(as.n) = 1 THEN Un(Tok(ts, p + 1), as.n[1]) ELSE Bad, p |-> as.p]
        ELSE LET h == PExpr(ts, p + 1, dev) IN
             IF Tok(ts, h.p) = ")"
             THEN [n |-> IF h.n.k = "atom" THEN Call(h.n.x, <<>>) ELSE h.n, p |-> h.p + 1]   \* (z) is a call, (a + b) a grouping
             ELSE LET as == PArgs(ts, h.p, <<>>, dev) IN                                      \* (f x y)
                  [n |-> IF h.n.k = "atom" THEN Call(h.n.x, as.n) ELSE Bad, p |-> as.p]
   ELSE [n |-> Atom(Tok(ts, p)), p |-> p + 1]
Parse(ts)    == LET r == PExpr(ts, 1, FALSE) IN IF r.p = Len(ts) + 1 THEN r.n ELSE Bad
ParseDev(ts) == LET r == PExpr(ts, 1, TRUE) IN IF r.p = Len(ts) + 1 THEN r.n ELSE Bad

----------------------------------------------------------------------------
\* Expected value (the program fragment around the expression fixes the operands).  64-bit effects
\* cannot occur at these sizes; division truncates toward zero (DESIGN 5.1a); a division by zero
\* anywhere in the tree makes the case value-unspecified (d = TRUE).
VarInt  == [a |-> 7, b |-> 3, c |-> 2, d |-> 5]
VarBool == [u |-> TRUE, v |-> FALSE, w |-> TRUE, s |-> FALSE]
PVal == [x |-> 5, y |-> 11, b |-> FALSE]
OVal == [p |-> [x |-> 4, y |-> 9, b |-> TRUE]]
TVal == <<6, 13>>
Abs(x) == IF x < 0 THEN -x ELSE x
TDiv(x, y) == LET q == Abs(x) \div Abs(y) IN IF (x < 0) = (y < 0) THEN q ELSE -q
TMod(x, y) == x - y * TDiv(x, y)
AtomVal(x) == CASE x \in DOMAIN VarInt -> VarInt[x]
                [] x \in DOMAIN VarBool -> VarBool[x]
                [] x = "p" -> PVal [] x = "o" -> OVal [] x = "t" -> TVal
                [] x = "true" -> TRUE [] x = "false" -> FALSE
                [] x = "0" -> 0 [] x = "1" -> 1 [] x = "2" -> 2 [] x = "5" -> 5 [] x = "-3" -> -3
RECURSIVE Ev(_)
Ev(e) ==
  CASE e.k = "atom" -> [d |-> FALSE, v |-> AtomVal(e.x)]
    [] e.k = "un" -> LET a == Ev(e.e) IN
          [d |-> a.d, v |-> IF a.d THEN a.v ELSE IF e.op = "-" THEN -a.v ELSE ~a.v]
    [] e.k = "bin" -> LET a == Ev(e.l) b == Ev(e.r)
                          dz == a.d \/ b.d \/ (e.op \in {"/", "%"} /\ ~b.d /\ b.v = 0) IN
          [d |-> dz, v |-> IF dz THEN (IF e.op \in ArithOps THEN 0 ELSE FALSE)
                           ELSE CASE e.op = "+" -> a.v + b.v [] e.op = "-" -> a.v - b.v [] e.op = "*" -> a.v * b.v
                                  [] e.op = "/" -> TDiv(a.v, b.v) [] e.op = "%" -> TMod(a.v, b.v)
                                  [] e.op = "<" -> a.v < b.v [] e.op = "<=" -> a.v <= b.v
                                  [] e.op = ">" -> a.v > b.v [] e.op = ">=" -> a.v >= b.v
                                  [] e.op = "==" -> a.v = b.v [] e.op = "!=" -> a.v # b.v
                                  [] e.op = "and" -> a.v /\ b.v [] e.op = "or" -> a.v \/ b.v]
    [] e.k = "fld" -> LET a == Ev(e.e) IN
          [d |-> a.d, v |-> CASE e.f = "x" -> a.v.x [] e.f = "y" -> a.v.y [] e.f = "b" -> a.v.b [] e.f = "p" -> a.v.p]
    [] e.k = "tix" -> LET a == Ev(e.e) IN [d |-> a.d, v |-> IF e.i = "0" THEN a.v[1] ELSE a.v[2]]
    [] e.k = "call" ->
          CASE e.fn = "z" -> [d |-> FALSE, v |-> 8]
            [] e.fn = "h" -> LET a == Ev(e.args[1]) IN [d |-> a.d, v |-> a.v - 1]
            [] e.fn = "g" -> LET a == Ev(e.args[1]) IN [d |-> a.d, v |-> a.v > 2]
            [] e.fn = "mk" -> LET a == Ev(e.args[1]) IN [d |-> a.d, v |-> [x |-> a.v, y |-> a.v + 1, b |-> TRUE]]
            [] e.fn = "f" -> LET a == Ev(e.args[1]) b == Ev(e.args[2]) IN [d |-> a.d \/ b.d, v |-> (a.v * 3) + b.v]
RECURSIVE IsBoolTree(_)
IsBoolTree(e) == CASE e.k = "atom" -> e.x \in (DOMAIN VarBool) \cup {"true", "false"}
                   [] e.k = "un" -> e.op = "not"
                   [] e.k = "bin" -> e.op \notin ArithOps
                   [] e.k = "fld" -> e.f = "b"
                   [] e.k = "call" -> e.fn = "g"
                   [] OTHER -> FALSE
FloatToks == {"fa", "fb", "fc", "fd", "2.5", "-0.5"}
StrToks   == {"sa", "sb", "sc", "sd", "\"k\""}
RECURSIVE TyOf(_), HasX(_)
TyOf(e) == CASE e.k = "atom" -> IF e.x \in FloatToks THEN "float" ELSE IF e.x \in StrToks THEN "string"
                                ELSE IF e.x \in (DOMAIN VarBool) \cup {"true", "false"} THEN "bool" ELSE "int"
             [] e.k = "un" -> IF e.op = "not" THEN "bool" ELSE TyOf(e.e)
             [] e.k = "bin" -> IF e.op \in ArithOps THEN TyOf(e.l) ELSE "bool"
             [] e.k = "fld" -> IF e.f = "b" THEN "bool" ELSE "int"
             [] e.k = "call" -> IF e.fn = "g" THEN "bool" ELSE "int"
             [] OTHER -> "int"
\* floats and strings have no values in this spec: their trees are compared by bytecode only
HasX(e) == CASE e.k = "atom" -> e.x \in FloatToks \cup StrToks
             [] e.k = "un" -> HasX(e.e)
             [] e.k = "bin" -> HasX(e.l) \/ HasX(e.r)
             [] OTHER -> FALSE
ValText(e) == IF HasX(e) THEN "skip" ELSE LET r == Ev(e) IN
              IF r.d THEN "div0" ELSE IF IsBoolTree(e) THEN (IF r.v THEN "true" ELSE "false") ELSE ToString(r.v)

----------------------------------------------------------------------------
\* Where the infix spelling puts a postfix form directly after an infix operator ("right") or after a
\* unary operator ("unary"): the two shapes of finding F9, used only to label the emitted record.
IsPost(e) == e.k \in {"fld", "tix"}
RECURSIVE PostRight(_), PostUnary(_), AnyArg(_, _, _)
AnyArg(as, i, which) == IF i > Len(as) THEN FALSE
                        ELSE (IF which = "r" THEN PostRight(as[i]) ELSE PostUnary(as[i])) \/ AnyArg(as, i + 1, which)
PostRight(e) == CASE e.k = "bin" -> IsPost(e.r) \/ PostRight(e.l) \/ PostRight(e.r)
                  [] e.k = "un" -> PostRight(e.e)
                  [] e.k \in {"fld", "tix"} -> PostRight(e.e)
                  [] e.k = "call" -> AnyArg(e.args, 1, "r")
                  [] OTHER -> FALSE
PostUnary(e) == CASE e.k = "bin" -> PostUnary(e.l) \/ PostUnary(e.r)
                  [] e.k = "un" -> IsPost(e.e) \/ PostUnary(e.e)
                  [] e.k \in {"fld", "tix"} -> PostUnary(e.e)
                  [] e.k = "call" -> AnyArg(e.args, 1, "u")
                  [] OTHER -> FALSE
Shape(e) == IF PostRight(e) /\ PostUnary(e) THEN "both" ELSE IF PostRight(e) THEN "right"
            ELSE IF PostUnary(e) THEN "unary" ELSE "none"

Universe ==
  CASE Family = "d2" -> I2 \cup B2
    [] Family \in {"d3", "naive"} -> {}          \* see InitD3
    [] Family = "t3" -> T3
    [] Family = "t3p" -> T3P
    [] Family = "t2x" -> T2X
    [] Family = "comb" -> {Atom("a")}

VARIABLES e, n, ok
vars == <<e, n, ok>>
\* depth 3 is enumerated from its top node (TLC would need very long to normalise the set of ~10^6 deep
\* records; as initial-state disjuncts the trees are only fingerprinted)
InitD3 == \/ e \in I2R \cup B2R
          \/ \E op \in ArithOps, l \in I2R, r \in I2R : e = Bin(op, l, r)
          \/ \E x \in I2R : e = Un("-", x)
          \/ \E op \in CmpOps \cup EqOps, l \in I2R, r \in I2R : e = Bin(op, l, r)
          \/ \E op \in EqOps \cup LogOps, l \in B1R, r \in B2R : e = Bin(op, l, r)
          \/ \E op \in EqOps \cup LogOps, l \in B2R, r \in B1R : e = Bin(op, l, r)
          \/ \E x \in B2R : e = Un("not", x)
Init == /\ ok = "todo"
        /\ IF Family = "comb" THEN e = Atom("a") /\ n \in CombSizes \X {"L", "R"}
           ELSE IF Family = "d3" THEN InitD3 /\ n = <<0, "-">>
           ELSE IF Family = "naive" THEN (\E l \in I1R, r \in I2R : e = Bin("+", l, r)) /\ n = <<0, "-">>
           ELSE e \in Universe /\ n = <<0, "-">>
Tree == IF Family # "comb" THEN e ELSE IF n[2] = "L" THEN LeftComb(n[1]) ELSE RightComb(n[1])
Verdict(t) ==
  LET pre == Prefix(t)
      inf == Infix(t)
  IN IF Parse(pre) # t THEN "prefix-mismatch"
     ELSE IF Parse(inf) # t THEN "infix-mismatch"
     ELSE IF ParseDev(pre) # t THEN "dev-changes-prefix"      \* the deviation is about the infix spelling only
     ELSE "same"
Record(t) ==
  LET inf == Infix(t)
      dt  == ParseDev(inf)
  IN [fam |-> Family, ty |-> TyOf(t),
      prefix |-> Text(Prefix(t)), infix |-> Text(inf),
      tight |-> IF Family \in {"t3", "t2x"} THEN TextTight(inf) ELSE "",
      cmt |-> IF Family \in {"t3", "t2x"} THEN TextCmt(inf) ELSE "",
      pcmt |-> IF Family \in {"t3", "t2x"} THEN TextCmt(Prefix(t)) ELSE "",
      dev |-> IF dt = t THEN "" ELSE IF dt = Bad THEN "?" ELSE Text(Prefix(dt)),
      shape |-> Shape(t),
      val |-> IF Family = "comb" THEN "skip" ELSE ValText(t),
      n |-> n[1]]
Next == /\ ok = "todo"
        /\ ok' = Verdict(Tree)
        /\ IF Emit /\ ok' = "same" THEN PrintT("@@J " \o ToJson(Record(Tree))) ELSE TRUE
        /\ UNCHANGED <<e, n>>
Spec == Init /\ [][Next]_vars

\* The notation is unambiguous on everything the printers produce.
Unambiguous == ok \in {"todo", "same"}
=============================================================================
