--------------------------------- MODULE NanoISA ---------------------------------
(* Property C11, first half: the NanoISA instruction codec.                        *)
(*                                                                                 *)
(* Nothing about the instruction set is written down here.  The opcode table, the  *)
(* operand sizes and the set of opcode bytes are CONSTANTS that the check extracts *)
(* from the code under test every time it runs:                                    *)
(*   Table    - isa_get_info(b) for b = 0..255 (probe `isa_probe table`)           *)
(*   KindSize - isa_operand_size(k) for every operand kind                         *)
(*   Opcodes  - the enumerators of `NanoOpcode` in src/nanoisa/isa.h, sentinel     *)
(*              OP_COUNT excluded                                                  *)
(* An instruction is [op, args]; every operand is the little-endian byte list of   *)
(* its encoded form, so no arithmetic wider than a byte is needed.                 *)
(*                                                                                 *)
(* TLC (a) checks the consistency of the extracted constants, (b) checks the       *)
(* round-trip and refusal laws of Encode/Decode on every case of the case space,   *)
(* (c) prints every case as JSON; `isa_probe cases` replays them through the real  *)
(* isa_encode/isa_decode.  The oracle of the replay is the identity/refusal that   *)
(* the case prescribes (field `law`); the byte layout computed here (`bytes`) is   *)
(* compared with the real bytes only as "drift".                                   *)
EXTENDS Integers, Sequences, FiniteSets, TLC, Json

CONSTANTS Table,        \* [0..255 -> [valid : BOOLEAN, name : STRING, opcode : Int, byname : Int, kinds : Seq(STRING)]]
          Opcodes,      \* SUBSET 0..255
          KindSize,     \* [STRING -> Nat]
          MaxOperands,  \* MAX_OPERANDS
          MaxInstrSize, \* ISA_MAX_INSTRUCTION_SIZE
          Deep          \* BOOLEAN: thorough tier adds every single-bit operand pattern

Byte == 0 .. 255
Valid(b) == Table[b].valid
Kinds(b) == Table[b].kinds
Take(s, n) == SubSeq(s, 1, n)
Drop(s, n) == SubSeq(s, n + 1, Len(s))
Range(s) == {s[i] : i \in DOMAIN s}

RECURSIVE SumSizes(_)
SumSizes(ks) == IF ks = <<>> THEN 0 ELSE KindSize[Head(ks)] + SumSizes(Tail(ks))
InstrLen(b) == 1 + SumSizes(Kinds(b))

RECURSIVE Flat(_)
Flat(ss) == IF ss = <<>> THEN <<>> ELSE Head(ss) \o Flat(Tail(ss))

(* ------------------------------------------------------------------ the codec *)
WellFormed(i) == /\ i.op \in Byte /\ Valid(i.op)
                 /\ Len(i.args) = Len(Kinds(i.op))
                 /\ \A k \in DOMAIN i.args : Len(i.args[k]) = KindSize[Kinds(i.op)[k]]

\* isa_encode: refusal is the empty byte string (return value 0)
Encode(i) == IF ~(i.op \in Byte /\ Valid(i.op)) THEN <<>> ELSE <<i.op>> \o Flat(i.args)

Refused == [ok |-> FALSE, n |-> 0, op |-> 0, args |-> <<>>]

\* isa_decode walks the operand kinds and refuses at the first operand that does not fit
RECURSIVE ReadOps(_, _, _, _)
ReadOps(bs, ks, args, n) ==
    IF ks = <<>> THEN [ok |-> TRUE, args |-> args, n |-> n]
    ELSE LET sz == KindSize[Head(ks)] IN
         IF Len(bs) < sz THEN [ok |-> FALSE, args |-> <<>>, n |-> 0]
         ELSE ReadOps(Drop(bs, sz), Tail(ks), Append(args, Take(bs, sz)), n + sz)

Decode(bs) ==
    IF bs = <<>> THEN Refused
    ELSE IF ~Valid(bs[1]) THEN Refused
    ELSE LET r == ReadOps(Tail(bs), Kinds(bs[1]), <<>>, 1) IN
         IF r.ok THEN [ok |-> TRUE, n |-> r.n, op |-> bs[1], args |-> r.args] ELSE Refused

(* ------------------------------------------- consistency of the extracted data *)
KnownKinds == {"U8", "U16", "U32", "I32", "I64", "F64"}

\* what isa.h calls an opcode is exactly what the table decodes
EnumEqualsTable == Opcodes = {b \in Byte : Valid(b)}
\* the entry stored at index b describes opcode b, and the mnemonic finds its way back
\* (isa_opcode_by_name(name) = b: mnemonics are unique, which the text form needs)
TableSelfIndexed == \A b \in Byte : Valid(b) => Table[b].opcode = b /\ Table[b].byname = b
KindsKnown == \A b \in Byte : Valid(b) =>
                 /\ Len(Kinds(b)) <= MaxOperands
                 /\ \A k \in DOMAIN Kinds(b) : Kinds(b)[k] \in KnownKinds /\ KindSize[Kinds(b)[k]] > 0
FitsMaxSize == \A b \in Byte : Valid(b) => InstrLen(b) <= MaxInstrSize
NamesUnique == LET V == {b \in Byte : Valid(b)} IN Cardinality({Table[b].name : b \in V}) = Cardinality(V)

(* -------------------------------------------------------- operand patterns *)
Rep(x, n)  == [j \in 1 .. n |-> x]
Low(x, n)  == [j \in 1 .. n |-> IF j = 1 THEN x ELSE 0]
High(x, rest, n) == [j \in 1 .. n |-> IF j = n THEN x ELSE rest]
OneAt(k, x, n) == [j \in 1 .. n |-> IF j = k THEN x ELSE 0]
Ramp(n)    == [j \in 1 .. n |-> j]

\* 0, 1, 0x7F, 0x80, 0xFF, all ones (-1 / max unsigned), signed min, signed max, a byte-order witness, 256^k
Generic(n) == {Rep(0, n), Low(1, n), Low(127, n), Low(128, n), Low(255, n), Rep(255, n),
               High(128, 0, n), High(127, 255, n), Ramp(n)} \cup {OneAt(k, 1, n) : k \in 1 .. n}

\* IEEE-754 bit patterns (little-endian): 1.0, +inf, -inf, quiet NaN, negative quiet NaN, signalling NaN,
\* NaN with a payload, largest finite, smallest normal, largest subnormal, pi   (+0, -0.0, smallest subnormal are in Generic)
F64Special == { <<0, 0, 0, 0, 0, 0, 240, 63>>, <<0, 0, 0, 0, 0, 0, 240, 127>>, <<0, 0, 0, 0, 0, 0, 240, 255>>,
                <<0, 0, 0, 0, 0, 0, 248, 127>>, <<0, 0, 0, 0, 0, 0, 248, 255>>, <<1, 0, 0, 0, 0, 0, 240, 127>>,
                <<239, 190, 173, 222, 0, 0, 248, 127>>, <<255, 255, 255, 255, 255, 255, 239, 127>>,
                <<0, 0, 0, 0, 0, 0, 16, 0>>, <<255, 255, 255, 255, 255, 255, 15, 0>>,
                <<24, 45, 68, 84, 251, 33, 9, 64>> }

Bits == {1, 2, 4, 8, 16, 32, 64, 128}
SingleBits(n) == {OneAt(k, p, n) : k \in 1 .. n, p \in Bits} \cup {[j \in 1 .. n |-> IF j = k THEN 255 - p ELSE 255] : k \in 1 .. n, p \in Bits}

Patterns(kind) == LET n == KindSize[kind] IN
                  Generic(n) \cup (IF kind = "F64" /\ n = 8 THEN F64Special ELSE {})

\* the full product of the boundary patterns over the operand slots; in the deep tier additionally every
\* single-bit (and single-zero-bit) pattern in one slot while the other slots hold the byte-order witness
RECURSIVE Product(_)
Product(ks) == IF ks = <<>> THEN {<<>>}
               ELSE {<<p>> \o rest : p \in Patterns(Head(ks)), rest \in Product(Tail(ks))}
Walking(ks) == {[j \in DOMAIN ks |-> IF j = k THEN p ELSE Ramp(KindSize[ks[j]])] : k \in DOMAIN ks, p \in UNION {SingleBits(KindSize[ks[i]]) : i \in DOMAIN ks}}
WalkingOK(ks) == {a \in Walking(ks) : \A j \in DOMAIN ks : Len(a[j]) = KindSize[ks[j]]}
ArgSpace(ks) == Product(ks) \cup (IF Deep /\ ks # <<>> THEN WalkingOK(ks) ELSE {})

(* ------------------------------------------------------------- the case space *)
\* (the dummy argument keeps TLC from evaluating the case space eagerly in configurations that do not use it)
\* enc: an instruction; law: decode(encode(i)) = i, every proper prefix of encode(i) is refused
\* dec: a byte string that starts with an instruction followed by a tail; law: encode(decode(b)) = Take(b, n)
\* bad: a byte string whose first byte is not an opcode; law: decode refuses, encode of that opcode refuses
Tails == {<<>>, <<165, 90>>}
BadTails == {<<>>, Rep(0, 8), Rep(255, 8), Ramp(8)}
EncCases(u_) == UNION {{[t |-> "enc", op |-> b, args |-> a, bytes |-> <<>>] : a \in ArgSpace(Kinds(b))} : b \in {x \in Opcodes : Valid(x)}}
DecCases(u_) == UNION {{[t |-> "dec", op |-> b, args |-> a, bytes |-> (<<b>> \o Flat(a)) \o tl] : a \in ArgSpace(Kinds(b)), tl \in Tails}
                   : b \in {x \in Opcodes : Valid(x)}}
BadCases(u_) == {[t |-> "bad", op |-> b, args |-> <<>>, bytes |-> <<b>> \o tl] : b \in Byte \ Opcodes, tl \in BadTails}
Cases(u_) == EncCases(0) \cup DecCases(0) \cup BadCases(0)

VARIABLES kase, kst
vars == <<kase, kst>>

Instr(x) == [op |-> x.op, args |-> x.args]

\* what is printed for the replay: the case, the spec's own bytes (drift only) and the law it must obey
Emit(x) ==
    CASE x.t = "enc" -> [t |-> "enc", op |-> x.op, args |-> x.args, kinds |-> Kinds(x.op),
                         bytes |-> Encode(Instr(x)), n |-> Len(Encode(Instr(x))), law |-> "decode(encode(i))=i; prefixes refused"]
      [] x.t = "dec" -> [t |-> "dec", op |-> x.op, args |-> x.args, kinds |-> Kinds(x.op),
                         bytes |-> x.bytes, n |-> Decode(x.bytes).n, law |-> "encode(decode(b))=Take(b,n)"]
      [] x.t = "bad" -> [t |-> "bad", op |-> x.op, args |-> <<>>, kinds |-> <<>>,
                         bytes |-> x.bytes, n |-> 0, law |-> "refused"]

Init == kase \in Cases(0) /\ kst = "new"
Check == /\ kst = "new"
         /\ PrintT("@@J " \o ToJson(Emit(kase)))
         /\ kst' = "done" /\ UNCHANGED kase
Next == Check
Spec == Init /\ [][Next]_vars

(* ------------------------------------------------------------------- the laws *)
DecodeOfEncode ==
    kase.t = "enc" => LET e == Encode(Instr(kase)) d == Decode(e) IN
                   /\ WellFormed(Instr(kase)) /\ e # <<>>
                   /\ d.ok /\ d.n = Len(e) /\ d.op = kase.op /\ d.args = kase.args
PrefixesRefused ==
    kase.t = "enc" => LET e == Encode(Instr(kase)) IN \A k \in 0 .. Len(e) - 1 : ~Decode(Take(e, k)).ok
EncodeOfDecode ==
    kase.t = "dec" => LET d == Decode(kase.bytes) IN
                   /\ d.ok /\ d.n <= Len(kase.bytes)
                   /\ Encode([op |-> d.op, args |-> d.args]) = Take(kase.bytes, d.n)
                   /\ d.op = kase.op /\ d.args = kase.args
NonOpcodeRefused ==
    kase.t = "bad" => ~Decode(kase.bytes).ok /\ Encode([op |-> kase.op, args |-> <<>>]) = <<>>
=============================================================================
