---- MODULE DriverEnvTrace ----
\* C19 trace validation.  harness/props/c19.py executes the covering walks printed by DriverEnvGen
\* for every program and every tool (nano_virt --emit-nvm, nanoc_c -S, diagnostics of ill-formed
\* programs) and records one event per step: the action taken, the configuration reached and the
\* sha256 of what the tool produced there.  The recorded sequence is replayed through the
\* environment actions of DriverEnv: every step must be a legal environment step to exactly the
\* recorded configuration, and -- because every environment action leaves `artifact` unchanged --
\* the recorded sha must equal the artifact fixed by the first observation of the segment.
\*   {"e":"Reset","prog":..,"tool":..}                      starts the segment of one (program, tool)
\*   {"e":"obs","act":..,"v":..,"cfg":{..},"sha":..}        one observation
\* Nothing is re-stated here: a step is  IsEvent /\ EnvStep(..) of DriverEnv /\ bind the logged fields.
EXTENDS DriverEnv, IOUtils

VARIABLES i, started
Tr == ndJsonDeserialize(IOEnv.TRACE)
tvars == <<cfg, artifact, i, started>>

Is(name) == i <= Len(Tr) /\ Tr[i].e = name
Ev  == Tr[i]
Adv == i' = i + 1

TInit == /\ i = 1 /\ started = FALSE /\ TLCSet(1, 1)
         /\ cfg = [cwd |-> "", tmp |-> "", env |-> "", aslr |-> "", perturb |-> "", inv |-> "", decoy |-> "", rep |-> 0]
         /\ artifact = ""

TrReset == /\ Is("Reset") /\ Adv /\ started' = FALSE
           /\ UNCHANGED <<cfg, artifact>>

\* first observation of a walk: any configuration.  The first one of the segment fixes the
\* artifact; a later walk starts somewhere else in the (connected) configuration lattice, i.e.
\* after some sequence of environment steps, so the artifact is still the same.
TrStart == /\ Is("obs") /\ Ev.act = "Start" /\ Adv
           /\ cfg' = Ev.cfg
           /\ IF started THEN Ev.sha = artifact /\ UNCHANGED artifact
                         ELSE artifact' = Ev.sha
           /\ started' = TRUE

TrStep  == /\ Is("obs") /\ Ev.act # "Start" /\ started /\ Adv
           /\ EnvStep(Ev.act, Ev.v)          \* DriverEnv action: cfg changes, artifact does not
           /\ cfg' = Ev.cfg                  \* ... to exactly the recorded configuration
           /\ Ev.sha = artifact'             \* ... and the tool produced the same bytes
           /\ UNCHANGED started

TNext == TrReset \/ TrStart \/ TrStep
NotAccepted == i <= Len(Tr)
Reached == TLCSet(1, IF i > TLCGet(1) THEN i ELSE TLCGet(1))
Report  == PrintT("@@J " \o ToJson([k |-> "reached", i |-> TLCGet(1), n |-> Len(Tr)]))
====
