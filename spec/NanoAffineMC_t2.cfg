INIT Init
NEXT Next
INVARIANTS SoundInv ExactInv
CONSTANTS
  Vars = {"a", "b"}
  Level = 2
  MaxLen = 2
  MaxIter = 3
  Pre = 1
