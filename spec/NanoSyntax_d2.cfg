SPECIFICATION Spec
INVARIANT Unambiguous
CONSTANTS
  Family = "d2"
  IntAtoms = {"a", "b", "2", "-3"}
  BoolAtoms = {"u", "v", "false"}
  Emit = TRUE
  CombSizes = {}
  Forms = {"fld", "tix", "chain", "call"}
