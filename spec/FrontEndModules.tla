--------------------------- MODULE FrontEndModules ---------------------------
\* C09, import processing (src/module.c: process_imports / load_module_internal): the module graph dimension.
\*
\* Universe: three source files a (the root, has main), b, c; every file imports a subset of {a, b, c}
\* (self-loops, 2-cycles, 3-cycles, diamonds ...) and at most one file additionally imports a *special*
\* target: a missing file, a directory, or a file with a syntax error.  TLC enumerates all graphs.
\*
\* The loader is modelled as the depth-first walk module.c performs: a cache of module paths that are
\* being loaded or are loaded; an import of a loaded module is served from the cache; an import of a module
\* that is *still being loaded* is a circular import and fails with a diagnostic; a missing, unreadable or
\* ill-formed module fails the compilation.  The root file itself is not in the cache (it is entered again
\* as a module when a cycle leads back to it -- as in the code).
\* Deviation IMPORT_CYCLE_UNCHECKED (finding on the tree before the fix): the in-progress test looks at the
\* cached AST, which is not there yet, so the walk re-enters the module for ever: the invariant DepthBound
\* breaks (stack overflow of the real front end).
\* Properties: DepthBound, Terminates; the final verdict (accepted / rejected + reason) is the prescribed
\* outcome the harness compares the real front ends with (nano_virt and nanoc).
EXTENDS Integers, Sequences, FiniteSets, TLC, Json

CONSTANTS Dev,          \* subset of {"IMPORT_CYCLE_UNCHECKED"}
          Specials,     \* subset of {"missing", "dir", "bad"}
          MaxEdges      \* bound on the number of ordinary import edges (3 files: 9 = everything)

Files == {"a", "b", "c"}
Order == <<"a", "b", "c", "missing", "dir", "bad">>
Root  == "a"

VARIABLES imp,      \* file -> set of imported files
          spc,      \* <<from, special>> or <<"-", "-">>
          lstack,   \* loader stack: [f, todo]
          cache,    \* modules in the cache (being loaded or loaded)
          done,     \* modules completely loaded
          verdict   \* "run" | "accepted" | "rejected:<why>"
vars == <<imp, spc, lstack, cache, done, verdict>>

\* imports of a file in source order
RECURSIVE SeqFrom(_, _)
SeqFrom(S, i) == IF i > Len(Order) THEN <<>> ELSE (IF Order[i] \in S THEN <<Order[i]>> ELSE <<>>) \o SeqFrom(S, i + 1)
ImportsOf(f) == SeqFrom(imp[f] \cup (IF spc[1] = f THEN {spc[2]} ELSE {}), 1)
EdgeCount == Cardinality({<<f, g>> \in Files \X Files : g \in imp[f]})

Init == /\ imp \in [Files -> SUBSET Files]
        /\ EdgeCount <= MaxEdges
        /\ spc \in {<<"-", "-">>} \cup (Files \X Specials)
        /\ lstack = <<[f |-> Root, todo |-> ImportsOf(Root)]>>
        /\ cache = {} /\ done = {} /\ verdict = "run"

Top == lstack[Len(lstack)]
Reject(why) == verdict' = "rejected:" \o why /\ lstack' = <<>> /\ UNCHANGED <<imp, spc, cache, done>>
\* the next import statement of the file on top of the stack
Import ==
  /\ verdict = "run" /\ Len(lstack) > 0 /\ Len(Top.todo) > 0
  /\ LET t == Head(Top.todo)
         rest == [lstack EXCEPT ![Len(lstack)].todo = Tail(Top.todo)] IN
     CASE t = "missing" -> Reject("missing")                    \* "Module file ... not found"
       [] t = "dir"     -> Reject("unreadable")                 \* fopen succeeds on a directory; not a source file
       [] t = "bad"     -> Reject("syntax")                     \* "Failed to parse module"
       [] t \in done    -> lstack' = rest /\ UNCHANGED <<imp, spc, cache, done, verdict>>     \* served from the cache
       [] t \in cache /\ t \notin done ->                       \* still being loaded: circular import
            IF "IMPORT_CYCLE_UNCHECKED" \in Dev
            THEN lstack' = Append(rest, [f |-> t, todo |-> ImportsOf(t)]) /\ UNCHANGED <<imp, spc, cache, done, verdict>>
            ELSE Reject("cycle")
       [] OTHER -> /\ cache' = cache \cup {t}
                   /\ lstack' = Append(rest, [f |-> t, todo |-> ImportsOf(t)])
                   /\ UNCHANGED <<imp, spc, done, verdict>>
\* all imports of the top file are processed: it is type-checked and (unless it is the root) completely loaded
Return ==
  /\ verdict = "run" /\ Len(lstack) > 0 /\ Len(Top.todo) = 0
  /\ lstack' = SubSeq(lstack, 1, Len(lstack) - 1)
  /\ done' = IF Len(lstack) > 1 THEN done \cup {Top.f} ELSE done
  /\ verdict' = IF Len(lstack) = 1 THEN "accepted" ELSE "run"
  /\ UNCHANGED <<imp, spc, cache>>
\* features of the graph itself (independent of the order in which the loader meets them): is a cycle reachable
\* from the root, is the special target reachable
RECURSIVE ReachFrom(_, _)
ReachFrom(S, k) == IF k = 0 THEN S ELSE ReachFrom(S \cup UNION {imp[f] : f \in S}, k - 1)
Reachable == ReachFrom({Root}, 3)
RECURSIVE Desc(_, _)
Desc(S, k) == IF k = 0 THEN S ELSE Desc(S \cup UNION {imp[f] : f \in S}, k - 1)
HasCycle == \E f \in Reachable : f \in Desc(imp[f], 3)
SpecialReachable == spc[1] \in Reachable
Emit == /\ verdict # "run" /\ verdict # "emitted"
        /\ PrintT("@@J " \o ToJson([a |-> SeqFrom(imp["a"], 1), b |-> SeqFrom(imp["b"], 1), c |-> SeqFrom(imp["c"], 1),
                                    sfrom |-> spc[1], special |-> spc[2], expect |-> verdict,
                                    cycle |-> HasCycle, sreach |-> SpecialReachable]))
        /\ verdict' = "emitted" /\ UNCHANGED <<imp, spc, lstack, cache, done>>
Next == Import \/ Return \/ Emit
Spec == Init /\ [][Next]_vars /\ WF_vars(Next)

\* the walk never nests deeper than: root + every file once (+ the root once more as a module)
DepthBound == Len(lstack) <= Cardinality(Files) + 1
\* a module is entered at most once
CacheOnce == done \subseteq cache
Terminates == <>(verdict = "emitted")
=============================================================================
