---- MODULE NanoLibTable ----
(***************************************************************************)
(* C02, library part: the case table.  TLC enumerates (function, argument  *)
(* tuple, store) over boundary values, applies NanoLib!LibApply and prints  *)
(* one record per case: the prescribed result value, the store afterwards   *)
(* or the status (fault:<kind> / unspecified:<what>).  The harness           *)
(* (harness/props/c02_lib.py) replays the table on native, NanoVM (both     *)
(* runners) and the compile-time evaluator.  Extra cases (seeded random     *)
(* argument tuples of the thorough tier) arrive as JSON lines in the file   *)
(* named by the environment variable NANOLIB_JOBS and are treated alike.    *)
(* Invariant Sane: a prescribed result is well formed (model check of the   *)
(* specification itself on every case).                                     *)
(***************************************************************************)
EXTENDS NanoSem, Json, IOUtils
CONSTANTS Deep          \* FALSE: quick alphabets, TRUE: thorough

N(k) == I64FromInt(k)
Vi(k) == VInt(I64FromInt(k))
Two32 == <<0, 1, 0, 0>>
Wide(k) == VInt(I64Add(Two32, I64FromInt(k)))            \* 2^32 + k: equal to k modulo 2^32
NegWide(k) == VInt(I64Add(I64Neg(Two32), I64FromInt(k))) \* -2^32 + k
VMax == VInt(I64MaxI)
VMin == VInt(I64MinI)

Case(fn, args, cells) == [fn |-> fn, args |-> args, cells |-> cells]
ArrCell(et, vals) == [kind |-> "arr", et |-> et, v |-> vals]
ListCell(et, vals) == [kind |-> "list", et |-> et, v |-> vals]
Prod2(A, B, Op(_, _)) == [k \in 1..(Len(A) * Len(B)) |-> Op(A[((k - 1) \div Len(B)) + 1], B[((k - 1) % Len(B)) + 1])]
Prod3(A, B, C, Op(_, _, _)) ==
   [k \in 1..(Len(A) * Len(B) * Len(C)) |-> Op(A[((k - 1) \div (Len(B) * Len(C))) + 1], B[(((k - 1) \div Len(C)) % Len(B)) + 1], C[((k - 1) % Len(C)) + 1])]
RECURSIVE Flat(_)
Flat(ss) == IF Len(ss) = 0 THEN <<>> ELSE ss[1] \o Flat(Tail(ss))

\* ---- characters: every code 0..255, the neighbours of the byte range, values equal to a class member modulo 2^8 / 2^16 / 2^32
CharFns == <<"is_digit", "is_alpha", "is_alnum", "is_whitespace", "is_upper", "is_lower", "digit_value", "char_to_lower", "char_to_upper">>
Bytes == [k \in 1..256 |-> Vi(k - 1)]
CharExtra == <<Vi(-1), Vi(-48), Vi(-65), Vi(-97), Vi(256), Vi(256 + 48), Vi(256 + 65), Vi(256 + 97), Vi(256 + 32), Vi(65536 + 48), Vi(65536 + 65),
               Vi(65536 + 97), Vi(65536 + 9), Vi(1000000), Vi(2147483647), Wide(48), Wide(57), Wide(65), Wide(90), Wide(97), Wide(122), Wide(32),
               Wide(9), Wide(10), Wide(13), NegWide(48), NegWide(65), NegWide(97), VInt(<<0, 0, 32768, 0>>), VMax, VMin>>
\* thorough tier: the next kilobyte above the byte range, and every byte value shifted by 2^32 and by -2^32
CharDeep == [k \in 1..1100 |-> Vi(255 + k)] \o [k \in 1..256 |-> Wide(k - 1)] \o [k \in 1..256 |-> NegWide(k - 1)] \o [k \in 1..140 |-> Vi(0 - k)]
CharArgs == Bytes \o CharExtra \o (IF Deep THEN CharDeep ELSE <<>>)
CharCases == Prod2(CharFns, CharArgs, LAMBDA f, a : Case(f, <<a>>, <<>>))

\* ---- conversions
IntArgs == <<Vi(0), Vi(1), Vi(-1), Vi(2), Vi(42), Vi(-100), Vi(255), Vi(256), Vi(65535), Vi(65536), Vi(2147483647), VInt(<<0, 0, 32768, 0>>), Wide(0), Wide(1),
             VInt(<<32, 0, 0, 1>>), VInt(<<32, 0, 0, 0>>), VInt(<<65503, 65535, 65535, 65535>>), VInt(<<16384, 0, 0, 1>>), VMax, VMin, VInt(<<32768, 0, 0, 1>>)>>
BoolArgs == <<VBool(TRUE), VBool(FALSE)>>
StrArgs == <<"", "0", "1", "42", "-100", "+5", " 42", "  7", "42 ", "12abc", "abc", "true", "false", "True", "-", "+", "-0", "007", "-007", "--5", "+-5", "- 5",
             "9223372036854775807", "9223372036854775808", "-9223372036854775808", "-9223372036854775809", "922337203685477580", "9223372036854775800",
             "9223372036854775810", "99999999999999999999", "-99999999999999999999", "18446744073709551616", "18446744073709551617", "1e3", "3.14", "0x10",
             "hello", " ", "x", "1 2", "a1">>
StrVals == [k \in 1..Len(StrArgs) |-> VStr(StrArgs[k])]
ConvFns == <<"cast_int", "cast_bool", "cast_string", "to_string">>
ConvCases == Prod2(ConvFns, IntArgs \o BoolArgs \o StrVals, LAMBDA f, a : Case(f, <<a>>, <<>>))
             \o [k \in 1..Len(StrVals) |-> Case("string_to_int", <<StrVals[k]>>, <<>>)]

\* ---- arrays
A0 == <<>>
A1 == <<Vi(10)>>
A5 == <<Vi(10), Vi(20), Vi(30), Vi(40), Vi(50)>>
S3 == <<VStr("a"), VStr("bb"), VStr("")>>
B2 == <<VBool(TRUE), VBool(FALSE)>>
ArrCells == <<ArrCell("int", A0), ArrCell("int", A1), ArrCell("int", A5), ArrCell("str", S3)>> \o (IF Deep THEN <<ArrCell("bool", B2)>> ELSE <<>>)
Idx(c) == LET L == Len(c.v) IN
          <<Vi(-1), Vi(0), Vi(L - 1), Vi(L), Wide(0), VMin, VMax>> \o (IF Deep THEN <<Vi(1), Vi(2), Vi(L + 1), Vi(L - 2), Wide(1), Wide(L - 1), NegWide(0), Vi(-2)>> ELSE <<>>)
Lens(c) == LET L == Len(c.v) IN
           <<Vi(0), Vi(1), Vi(L), Vi(L + 1), Wide(1), VMax, Vi(-1)>> \o (IF Deep THEN <<Vi(2), Vi(L - 1), Vi(3), Wide(0), VMin, VInt(<<16384, 0, 0, 0>>)>> ELSE <<>>)
Starts(c) == LET L == Len(c.v) IN
             <<Vi(0), Vi(1), Vi(L - 1), Vi(L), Vi(L + 1), Wide(1), Vi(-1)>> \o (IF Deep THEN <<Vi(2), Wide(0), VMax, VMin, VInt(<<16384, 0, 0, 0>>)>> ELSE <<>>)
A1Ref == [t |-> "arr", i |-> L0, s |-> "", f |-> <<>>, r |-> 1]
SliceCases == Flat([k \in 1..Len(ArrCells) |-> Prod2(Starts(ArrCells[k]), Lens(ArrCells[k]), LAMBDA s, l : Case("array_slice", <<A1Ref, s, l>>, <<ArrCells[k]>>))])
RemoveCases == Flat([k \in 1..Len(ArrCells) |-> [j \in 1..Len(Idx(ArrCells[k])) |-> Case("array_remove_at", <<A1Ref, Idx(ArrCells[k])[j]>>, <<ArrCells[k]>>)]])
NewSizes == <<Vi(0), Vi(1), Vi(2), Vi(7)>> \o (IF Deep THEN <<Vi(3), Vi(100), Vi(1000)>> ELSE <<>>)
NegSizes == <<Vi(-1), VMin>> \o (IF Deep THEN <<Vi(-2), NegWide(3), NegWide(0)>> ELSE <<>>)
NewDefaults == <<Vi(0), Vi(-5), VMax, VStr(""), VStr("ab"), VBool(TRUE), VBool(FALSE)>>
NewCases == Prod2(NewSizes, NewDefaults, LAMBDA n, d : Case("array_new", <<n, d>>, <<>>))
            \o Prod2(NegSizes, <<Vi(0), VStr("ab"), VBool(TRUE)>>, LAMBDA n, d : Case("array_new", <<n, d>>, <<>>))

\* ---- lists
L1Ref(et) == [t |-> "list", i |-> L0, s |-> et, f |-> <<>>, r |-> 1]
ListCellsOf(et) == IF et = "int" THEN <<ListCell("int", <<>>), ListCell("int", <<Vi(7)>>), ListCell("int", <<Vi(10), Vi(20), Vi(30)>>),
                                         ListCell("int", <<VMin, Vi(0), VMax, Vi(-1)>>)>>
                   ELSE <<ListCell("str", <<>>), ListCell("str", <<VStr("x")>>), ListCell("str", S3)>>
NewElem(et) == (IF et = "int" THEN <<Vi(99)>> ELSE <<VStr("zz")>>) \o (IF ~Deep THEN <<>> ELSE IF et = "int" THEN <<VMin>> ELSE <<VStr("")>>)
ListCasesOf(p, et) ==
   LET cs == ListCellsOf(et)
       ref == L1Ref(et) IN
   <<Case(p \o "_new", <<>>, <<>>)>>
   \o [k \in 1..6 |-> Case(p \o "_with_capacity", <<(<<Vi(0), Vi(1), Vi(8), Vi(100), Vi(-1), VMin>>)[k]>>, <<>>)]
   \o Flat([k \in 1..Len(cs) |->
        <<Case(p \o "_pop", <<ref>>, <<cs[k]>>), Case(p \o "_length", <<ref>>, <<cs[k]>>), Case(p \o "_is_empty", <<ref>>, <<cs[k]>>),
          Case(p \o "_capacity", <<ref>>, <<cs[k]>>), Case(p \o "_clear", <<ref>>, <<cs[k]>>), Case(p \o "_free", <<ref>>, <<cs[k]>>)>>
        \o [j \in 1..Len(NewElem(et)) |-> Case(p \o "_push", <<ref, NewElem(et)[j]>>, <<cs[k]>>)]
        \o [j \in 1..Len(Idx(cs[k])) |-> Case(p \o "_get", <<ref, Idx(cs[k])[j]>>, <<cs[k]>>)]
        \o [j \in 1..Len(Idx(cs[k])) |-> Case(p \o "_remove", <<ref, Idx(cs[k])[j]>>, <<cs[k]>>)]
        \o Prod2(Idx(cs[k]), NewElem(et), LAMBDA ix, x : Case(p \o "_set", <<ref, ix, x>>, <<cs[k]>>))
        \o Prod2(Idx(cs[k]), NewElem(et), LAMBDA ix, x : Case(p \o "_insert", <<ref, ix, x>>, <<cs[k]>>))])
ListCases == ListCasesOf("list_int", "int") \o ListCasesOf("list_string", "str")

\* ---- the string / math builtins that NanoSem.tla specifies itself (STDLIB "String Operations", "Character Access", "Basic Math"):
\* the same table, evaluated through NanoSem!Builtin
Punct == " !#$%&'()*+,-./0123456789:;<=>?@ABCDEFGHIJKLMNOPQRSTUVWXYZ[]^_`abcdefghijklmnopqrstuvwxyz{|}~"     \* printable ASCII without the quote and the backslash
Strs == <<"", "a", "ab", "abc", "ba", "aab", "Hello, World!", Punct>> \o (IF Deep THEN <<"b", "abab", " a ", "0", "ABC">> ELSE <<>>)
Sv == [k \in 1..Len(Strs) |-> VStr(Strs[k])]
CharAtCases == [k \in 1..Len(Punct) |-> Case("char_at", <<VStr(Punct), Vi(k - 1)>>, <<>>)]
               \o Flat([k \in 1..Len(Strs) |-> LET L == Len(Strs[k]) IN
                        [j \in 1..6 |-> Case("char_at", <<Sv[k], (<<Vi(0), Vi(L - 1), Vi(L), Vi(-1), Wide(0), VMax>>)[j]>>, <<>>)]])
FromCharCases == [k \in 1..95 |-> Case("string_from_char", <<Vi(31 + k)>>, <<>>)]
                 \o [k \in 1..9 |-> Case("string_from_char", <<(<<Vi(0), Vi(10), Vi(31), Vi(127), Vi(200), Vi(256 + 65), Vi(-1), Wide(65), VMin>>)[k]>>, <<>>)]
Str1Cases == [k \in 1..Len(Sv) |-> Case("str_length", <<Sv[k]>>, <<>>)]
Str2Cases == Prod3(<<"str_concat", "str_equals", "str_contains">>, Sv, Sv, LAMBDA f, x, y : Case(f, <<x, y>>, <<>>))
SubCases == Flat([k \in 1..Len(Strs) |-> LET L == Len(Strs[k]) IN
                 Prod2(<<Vi(0), Vi(1), Vi(L - 1), Vi(L), Vi(L + 1), Vi(-1)>>, <<Vi(0), Vi(1), Vi(L), Vi(L + 1), Vi(1000), Vi(-1)>>,
                       LAMBDA st, ln : Case("str_substring", <<Sv[k], st, ln>>, <<>>))])
MathArgs == <<Vi(0), Vi(1), Vi(-1), Vi(7), Vi(-7), VMax, VMin, VInt(<<32768, 0, 0, 1>>), Wide(0)>>
MathCases == [k \in 1..Len(IntArgs) |-> Case("int_to_string", <<IntArgs[k]>>, <<>>)]
             \o [k \in 1..Len(MathArgs) |-> Case("abs", <<MathArgs[k]>>, <<>>)]
             \o Prod3(<<"min", "max">>, MathArgs, MathArgs, LAMBDA f, x, y : Case(f, <<x, y>>, <<>>))
SemCases == CharAtCases \o FromCharCases \o Str1Cases \o Str2Cases \o SubCases \o MathCases

Raw == CharCases \o ConvCases \o NewCases \o SliceCases \o RemoveCases \o ListCases \o SemCases
Jobs == ndJsonDeserialize(IOEnv.NANOLIB_JOBS)          \* extra cases [id, fn, args, cells] (may be empty)
\* every case is built exactly once (in Init) and travels in the state variable c
Tagged(all, k) == [id |-> all[k].fn \o "~" \o ToString(k), fn |-> all[k].fn, args |-> all[k].args, cells |-> all[k].cells]

C0 == Ctx([funcs |-> <<>>, structs |-> <<>>, enums |-> <<>>, unions |-> <<>>, globals |-> <<>>, shadows |-> <<>>, externs |-> <<>>], {}, "spec", FALSE)
InLib(fn) == fn \in LibBuiltins \cup LibOverrides
Apply(x) == LET store == [j \in 1..Len(x.cells) |-> x.cells[j].v] IN
            IF InLib(x.fn) THEN LibApply(x.fn, x.args, store)
            ELSE LET r == Builtin(C0, x.fn, x.args, [NewState(1000) EXCEPT !.store = store]) IN     \* a builtin NanoSem specifies itself
                 [ok |-> r.st.status, v |-> r.v, store |-> r.st.store]
\* alts: what the case gives under each deviation switch that changes it (attribution of a mismatch to a listed finding)
Alt(x, sw) == LibDev(sw, x.fn, x.args, [j \in 1..Len(x.cells) |-> x.cells[j].v])
SwSeq == <<"VM_SLICE_START_END", "VM_REMOVE_AT_UNCHECKED", "INTERP_CHAR_ARG_32BIT", "LIST_INDEX_32BIT", "VM_CAST_BOOL_STRING_TRUE",
           "INTERP_CAST_BOOL_STRING_LITERAL", "ARRAY_NEW_NEGATIVE_EMPTY">>
Rec(x) == LET r == Apply(x) IN
          [id |-> x.id, fn |-> x.fn, args |-> x.args, cells |-> x.cells, ok |-> r.ok, v |-> r.v, cells2 |-> r.store,
           alts |-> IF ~InLib(x.fn) THEN <<>> ELSE SelectSeq([j \in 1..Len(SwSeq) |-> LET d == Alt(x, SwSeq[j]) IN [sw |-> SwSeq[j], ok |-> d.ok, v |-> d.v, cells2 |-> d.store]],
                              LAMBDA d : d.ok # r.ok \/ d.v # r.v \/ d.cells2 # r.store)]

VARIABLES c, phase
vars == <<c, phase>>
\* (a constant definition: TLC evaluates it once; a LET inside Init was re-evaluated for every element)
AllTagged == LET all == Raw IN {Tagged(all, k) : k \in 1..Len(all)}
JobSet == LET jobs == Jobs IN {jobs[k] : k \in 1..Len(jobs)}
Init == /\ (c \in AllTagged \/ c \in JobSet)
        /\ phase = "todo"
Next == /\ phase = "todo" /\ phase' = "done" /\ c' = c
        /\ PrintT("@@J " \o ToJson(Rec(c)))
Spec == Init /\ [][Next]_vars

\* ---- the specification is well formed on every case of the table
Statuses == {"ok"}
GoodStatus(s) == s = "ok" \/ StartsWith(s, "fault:") \/ StartsWith(s, "unspecified:")
WellFormed(v, store) ==
   /\ v.t \in {"int", "bool", "str", "arr", "list", "void"}
   /\ (v.t \in {"arr", "list"} => v.r \in 1..Len(store))
   /\ (v.t = "bool" => v.i \in {I64Zero, I64One})
Sane == phase = "todo" =>
   LET r == Apply(c) IN
   /\ GoodStatus(r.ok)                                              \* no case of the table is ill-typed (stuck)
   /\ (r.ok = "ok" => WellFormed(r.v, r.store))
   /\ (r.ok # "ok" => r.store = [j \in 1..Len(c.cells) |-> c.cells[j].v])      \* a fault leaves the store untouched
   /\ Len(r.store) >= Len(c.cells)                                  \* cells are never dropped
   /\ \A j \in 1..Len(r.store) : \A e \in 1..Len(r.store[j]) : r.store[j][e].t \in {"int", "bool", "str", "freed"}
====
