---- MODULE NanoVal ----
(***************************************************************************)
(* Values of the reference semantics (NanoSem.tla) and the helper          *)
(* operators on them that the library specification (NanoLib.tla) shares   *)
(* with the evaluator: uniformly shaped records [t, i, s, f, r]; integers  *)
(* are four 16-bit limbs (module Int64) because TLC integers are 32-bit.   *)
(***************************************************************************)
EXTENDS Integers, Sequences, FiniteSets, TLC, Int64

L0 == <<0, 0, 0, 0>>
VInt(l)        == [t |-> "int",    i |-> l,  s |-> "", f |-> <<>>, r |-> 0]
VBool(b)       == [t |-> "bool",   i |-> IF b THEN I64One ELSE I64Zero, s |-> "", f |-> <<>>, r |-> 0]
VStr(x)        == [t |-> "str",    i |-> L0, s |-> x,  f |-> <<>>, r |-> 0]
VArr(ref)      == [t |-> "arr",    i |-> L0, s |-> "", f |-> <<>>, r |-> ref]
VStruct(n, fs) == [t |-> "struct", i |-> L0, s |-> n,  f |-> fs,   r |-> 0]
VUnion(n, fs)  == [t |-> "union",  i |-> L0, s |-> n,  f |-> fs,   r |-> 0]   \* s = "Union.Variant"
VTuple(fs)     == [t |-> "tuple",  i |-> L0, s |-> "", f |-> fs,   r |-> 0]
VFn(n)         == [t |-> "fn",     i |-> L0, s |-> n,  f |-> <<>>, r |-> 0]
VVoid          == [t |-> "void",   i |-> L0, s |-> "", f |-> <<>>, r |-> 0]
\* HashMap<K,V> (3.4.6, STDLIB "HashMap Operations"): a reference to a store cell holding the entries <<key, value>> in
\* insertion order (the order is not observable: map_keys / map_values are not specified here); s = the value type
\* ("int" / "str") once the declaring let has fixed it - map_get of a missing key gives that type's default
VMap(ref, vt)  == [t |-> "map",    i |-> L0, s |-> vt, f |-> <<>>, r |-> ref]
EndsWith(x, suf) == Len(x) >= Len(suf) /\ SubSeq(x, Len(x) - Len(suf) + 1, Len(x)) = suf
MapValTy(tyname) == IF EndsWith(tyname, " int>") THEN "int" ELSE IF EndsWith(tyname, " string>") THEN "str" ELSE ""
\* floats: only literals that are multiples of 1/64 of moderate size (exact in IEEE double), carried as 64 * value;
\* they can be stored, passed and compared, never computed with or printed (C01 excludes printed floats)
VFloat(l)      == [t |-> "float",  i |-> l,  s |-> "", f |-> <<>>, r |-> 0]
IsTrue(v) == v.i[4] = 1

\* structural equality of first-order values (== on ints, bools, strings; enums are ints)
ValEq(a, b) == a.t = b.t /\ a.i = b.i /\ a.s = b.s

\* decimal rendering (int_to_string); small values through TLC's ToString, wide ones by long division
RECURSIVE DecU(_)
DecU(a) == IF a[1] = 0 /\ a[2] = 0 /\ a[3] < 16384 THEN ToString(a[3] * 65536 + a[4])
           ELSE LET qr == I64DivModU(a, <<0, 0, 0, 10>>) IN DecU(qr[1]) \o ToString(qr[2][4])
Dec(a) == IF I64IsNeg(a) THEN "-" \o DecU(I64Neg(a)) ELSE DecU(a)   \* Neg(MinI) = MinI read as unsigned 2^63: correct


\* printable ASCII, code 32 .. 126 (the corpus only uses these characters)
Ascii == " !\"#$%&'()*+,-./0123456789:;<=>?@ABCDEFGHIJKLMNOPQRSTUVWXYZ[\\]^_`abcdefghijklmnopqrstuvwxyz{|}~"
CharCode(c) == IF c = "\t" THEN 9 ELSE IF c = "\n" THEN 10 ELSE
               LET hits == {k \in 1..Len(Ascii) : SubSeq(Ascii, k, k) = c} IN IF hits = {} THEN 0 ELSE 31 + CHOOSE k \in hits : TRUE
Contains(h, n) == n = "" \/ \E k \in 1..(Len(h) - Len(n) + 1) : SubSeq(h, k, k + Len(n) - 1) = n
IsDigitStr(x) == x # "" /\ \A k \in 1..Len(x) : CharCode(SubSeq(x, k, k)) >= 48 /\ CharCode(SubSeq(x, k, k)) <= 57
RECURSIVE ParseU(_, _, _)
ParseU(x, k, acc) == IF k > Len(x) THEN acc
                     ELSE ParseU(x, k + 1, I64Add(I64Mul(acc, <<0, 0, 0, 10>>), <<0, 0, 0, CharCode(SubSeq(x, k, k)) - 48>>))

\* ---- additions for the library specification (NanoLib.tla); nothing above is changed ----
\* List<int> / List<string> (STDLIB "List Operations"): a reference to a store cell holding the elements in order, like an
\* array; s = the element kind ("int" / "str").  A freed list's cell holds the single tombstone VFreed.
VList(ref, et) == [t |-> "list",  i |-> L0, s |-> et, f |-> <<>>, r |-> ref]
VFreed         == [t |-> "freed", i |-> L0, s |-> "", f |-> <<>>, r |-> 0]
\* one-character string of a printable ASCII code (32 .. 126)
CharOf(code) == SubSeq(Ascii, code - 31, code - 31)
StartsWith(x, pre) == Len(x) >= Len(pre) /\ SubSeq(x, 1, Len(pre)) = pre

====
