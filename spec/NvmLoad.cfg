\* C12: every fault of the catalogue against the model image (real machine, W = 32)
SPECIFICATION Spec
CONSTANTS
  W = 32
  SecCheck = "asWritten"
  StrCheck = "asWritten"
  Family = "faults"
  MaxBurst = 32
  MaxTail = 8
  MaxFaults = 1
  SampleMod = 23
  Full = FALSE
INVARIANTS TypeOK Refused RefusedEarly GoodLoads AllOrNothing Staged ReadsInBounds Terminates NeverUndefined SizeAssumption
