---- MODULE NanoVMValLaws ----
(***************************************************************************)
(* Laws of the value-level NanoVM specification (NanoVMVal.tla), checked   *)
(* exhaustively by TLC so that the specification is not only a trace       *)
(* oracle.  Three parts, selected by the variable `part`:                  *)
(*  "ops"   every arithmetic / comparison / logic instruction on every     *)
(*          ordered pair of 27 boundary operands, executed through Step:   *)
(*          algebraic laws (commutativity, SUB = ADD o NEG, the division   *)
(*          identity with truncation, x/0 = 0, MIN/-1 = MIN, x%-1 = 0,     *)
(*          trichotomy, LT/GT duality, EQ/NE, NOT o NOT), stack effect     *)
(*          (two operands replaced by one, ip advanced by the length),     *)
(*          conditional jumps agree with the comparison, the decimal       *)
(*          string of an int has 1..20 bytes and the sign in front.        *)
(*  "alpha" every instruction sequence of <= MaxSteps instructions from an *)
(*          alphabet of AlphaN instructions: values stay well-formed,      *)
(*          frames stay inside the stack, references stay inside the heap; *)
(*          and in every reachable state the CALL/RET law: calling f and   *)
(*          returning r from it leaves depth - arity + 1 slots, r on top,  *)
(*          the caller's slots, frames, ip + len(CALL) and fn untouched.   *)
(*  "prog"  the specification as an interpreter of a hand-assembled module *)
(*          (recursive factorial, a counting loop with a backward jump,    *)
(*          main adding both) for N in 0..MaxN: every ip reached is the    *)
(*          address of an instruction of the current function, the depth   *)
(*          after every return is the depth before the call - arity + 1,   *)
(*          and the result is N! + N(N-1)/2.                               *)
(***************************************************************************)
EXTENDS NanoVMVal
CONSTANTS MaxSteps, MaxN, Bug
\* vacuity control: with Bug # "none" the laws are evaluated on a deliberately wrong variant of Step and must fail
StepL(s, I, env) ==
   LET r == Step(s, I, env) IN
   IF Bug = "ret_keeps_a_local" /\ I.op = "RET" /\ r.kind = "ok" /\ Fr(s).nloc > 0
   THEN [r EXCEPT !.S.stack = SubSeq(s.stack, 1, Fr(s).base + 1) \o <<Top(r.S)>>]
   ELSE IF Bug = "lt_swapped_when_both_negative" /\ I.op = "LT" /\ r.kind = "ok" /\ Depth(s) >= 2 /\ IsNegInt(Top(s)) /\ IsNegInt(Peek(s, 1))
   THEN [r EXCEPT !.S.stack = SubSeq(r.S.stack, 1, Depth(r.S) - 1) \o <<BoolV(I64Lt(Top(s).n, Peek(s, 1).n))>>]
   ELSE IF Bug = "backward_jump_off_by_one" /\ I.op = "JMP" /\ I.a[1] < 0
   THEN [r EXCEPT !.S.ip = @ + 1]
   ELSE r

Boundary == <<
   <<0, 0, 0, 0>>, <<0, 0, 0, 1>>, <<65535, 65535, 65535, 65535>>, <<0, 0, 0, 2>>, <<65535, 65535, 65535, 65534>>, <<0, 0, 0, 7>>,
   <<65535, 65535, 65535, 65529>>, <<0, 0, 0, 10>>, <<65535, 65535, 65535, 65526>>, <<0, 0, 0, 255>>, <<0, 0, 0, 256>>, <<0, 0, 0, 65535>>,
   <<0, 0, 1, 0>>, <<0, 0, 32767, 65535>>, <<0, 0, 32768, 0>>, <<65535, 65535, 32768, 0>>, <<0, 0, 65535, 65535>>, <<0, 1, 0, 0>>, <<0, 1, 0, 1>>,
   <<65535, 65534, 65535, 65535>>, <<16384, 0, 0, 0>>, <<49152, 0, 0, 0>>, <<32767, 65535, 65535, 65535>>, <<32768, 0, 0, 0>>, <<32768, 0, 0, 1>>,
   <<0, 0, 46340, 62260>>, <<65535, 65535, 19195, 3276>> >>
NB == Len(Boundary)

Ins(op, a, len) == [op |-> op, a |-> a, len |-> len, imm |-> VoidV]
PushI(n) == [op |-> "PUSH_I64", a |-> <<0>>, len |-> 9, imm |-> IntV(n)]
PushS(bytes) == [op |-> "PUSH_STR", a |-> <<0>>, len |-> 5, imm |-> StrV(bytes)]
Op0(op) == Ins(op, <<>>, 1)

VARIABLES part, S, n, ai, bi, ghost
vars == <<part, S, n, ai, bi, ghost>>

\* ===================================================================== ops
Fns2 == << <<0, 2, 0, 1000, 0>>, <<2, 3, 1000, 1000, 0>> >>
Env0 == [fns |-> Fns2, imps |-> <<>>, newid |-> 0]
Base0 == [stack |-> <<VoidV, VoidV>>, frames |-> <<[fn |-> 0, base |-> 0, nloc |-> 2, ret |-> 0, clo |-> 0]>>, globals |-> <<>>, heap |-> <<>>, ip |-> 100, fn |-> 0]
With(vs) == [Base0 EXCEPT !.stack = @ \o vs]
RECURSIVE RunSeq(_, _)
RunSeq(s, is) == IF Len(is) = 0 THEN s ELSE LET r == StepL(s, is[1], Env0) IN IF r.kind # "ok" THEN [s EXCEPT !.ip = -1] ELSE RunSeq(r.S, Tail(is))
R1(vs, op) == StepL(With(vs), Op0(op), Env0)
ResOf(vs, is) == LET s == RunSeq(With(vs), is) IN IF s.ip = -1 \/ Depth(s) # 3 THEN VoidV ELSE Top(s)
A == Boundary[ai]
B == Boundary[bi]
BinR(op, x, y) == ResOf(<<IntV(x), IntV(y)>>, <<Op0(op)>>)
T == BoolV(TRUE)
F == BoolV(FALSE)
OpsLaws == (part = "ops" /\ n = 2) =>
   \* stack effect of every binary instruction: kind ok, two operands replaced by one value, ip advanced by one byte, nothing else touched
   /\ \A op \in {"ADD", "SUB", "MUL", "DIV", "MOD", "EQ", "NE", "LT", "LE", "GT", "GE", "AND", "OR"} :
         LET r == R1(<<IntV(A), IntV(B)>>, op) IN
         /\ r.kind = "ok" /\ Depth(r.S) = 3 /\ r.S.ip = 101 /\ r.S.fn = 0 /\ r.S.frames = Base0.frames /\ SubSeq(r.S.stack, 1, 2) = Base0.stack
         /\ Top(r.S).t = (IF op \in {"ADD", "SUB", "MUL", "DIV", "MOD"} THEN TInt ELSE TBool)
   /\ BinR("ADD", A, B) = BinR("ADD", B, A)
   /\ BinR("MUL", A, B) = BinR("MUL", B, A)
   /\ BinR("SUB", A, B) = ResOf(<<IntV(A), IntV(B)>>, <<Op0("NEG"), Op0("ADD")>>)                       \* a - b = a + (-b)
   /\ ResOf(<<IntV(A)>>, <<Op0("NEG"), Op0("NEG")>>) = IntV(A)
   /\ (B # I64Zero => I64Add(I64Mul(BinR("DIV", A, B).n, B), BinR("MOD", A, B).n) = A)
   /\ (B # I64Zero /\ BinR("MOD", A, B).n # I64Zero => I64IsNeg(BinR("MOD", A, B).n) = I64IsNeg(A))        \* remainder has the sign of the dividend
   /\ (B # I64Zero => LET m == BinR("MOD", A, B).n IN I64LtU(I64Abs(m), I64Abs(B)))
   /\ BinR("DIV", A, I64Zero) = IntV(I64Zero) /\ BinR("MOD", A, I64Zero) = IntV(I64Zero)                   \* NANOISA.md: division by zero produces 0
   /\ BinR("DIV", I64MinI, I64FromInt(-1)) = IntV(I64MinI) /\ BinR("MOD", A, I64FromInt(-1)) = IntV(I64Zero)
   /\ BinR("DIV", A, I64One) = IntV(A) /\ BinR("MUL", A, I64One) = IntV(A) /\ BinR("ADD", A, I64Zero) = IntV(A)
   /\ BinR("LT", A, B) = BinR("GT", B, A) /\ BinR("LE", A, B) = BinR("GE", B, A)
   /\ BinR("LE", A, B) = ResOf(<<IntV(A), IntV(B)>>, <<Op0("GT"), Op0("NOT")>>)
   /\ BinR("NE", A, B) = ResOf(<<IntV(A), IntV(B)>>, <<Op0("EQ"), Op0("NOT")>>)
   /\ Cardinality({op \in {"LT", "EQ", "GT"} : BinR(op, A, B) = T}) = 1                                 \* trichotomy
   /\ (BinR("EQ", A, B) = T) = (A = B)
   /\ (BinR("LT", A, B) = T) = I64Lt(A, B)
   /\ BinR("AND", A, B) = BoolV(A # I64Zero /\ B # I64Zero) /\ BinR("OR", A, B) = BoolV(A # I64Zero \/ B # I64Zero)
   \* a conditional jump taken on the outcome of a comparison: target = address of the jump + offset, else the next instruction
   /\ LET r == RunSeq(With(<<IntV(A), IntV(B)>>), <<Op0("LT"), Ins("JMP_FALSE", <<40>>, 5)>>) IN
         r.ip = (IF I64Lt(A, B) THEN 106 ELSE 141) /\ Depth(r) = 2
   /\ LET r == RunSeq(With(<<IntV(A), IntV(B)>>), <<Op0("GE"), Ins("JMP_TRUE", <<-7>>, 5)>>) IN
         r.ip = (IF I64Lt(A, B) THEN 106 ELSE 94) /\ Depth(r) = 2
   \* the enum operand of arithmetic counts as its integer
   /\ ResOf(<<Val(TEnum, A, <<>>, 0, 0), IntV(B)>>, <<Op0("ADD")>>) = BinR("ADD", A, B)
   /\ ResOf(<<Val(TEnum, A, <<>>, 0, 0), IntV(A)>>, <<Op0("EQ")>>) = T
   \* decimal rendering
   /\ LET s == ResOf(<<IntV(A)>>, <<Op0("CAST_STRING")>>) IN
         /\ s.t = TStr /\ Len(s.s) \in 1..20 /\ StrLen(s) = Len(s.s) /\ (s.s[1] = 45) = I64IsNeg(A)
         /\ \A i \in 1..Len(s.s) : s.s[i] \in 48..57 \/ (i = 1 /\ s.s[i] = 45)
         /\ (Len(s.s) > 1 /\ s.s[1] # 45 => s.s[1] # 48)
   /\ ResOf(<<IntV(A)>>, <<Op0("CAST_STRING"), Op0("STR_LEN")>>).t = TInt
   /\ ResOf(<<IntV(A), IntV(B)>>, <<Op0("CAST_STRING"), Op0("SWAP"), Op0("CAST_STRING"), Op0("SWAP"), Op0("STR_EQ")>>) = BoolV(A = B)  \* rendering is injective
   /\ ResOf(<<IntV(A), IntV(B)>>, <<Op0("CAST_STRING"), Op0("SWAP"), Op0("CAST_STRING"), Op0("ADD"), Op0("STR_LEN")>>).n
        = I64Add(ResOf(<<IntV(A)>>, <<Op0("CAST_STRING"), Op0("STR_LEN")>>).n, ResOf(<<IntV(B)>>, <<Op0("CAST_STRING"), Op0("STR_LEN")>>).n)

\* =================================================================== alpha
Alphabet == <<
   PushI(I64Zero), PushI(I64One), PushI(I64FromInt(-1)), PushI(I64MinI), Ins("PUSH_BOOL", <<1>>, 2), PushS(<<97, 98>>), Op0("PUSH_VOID"),
   Op0("DUP"), Op0("POP"), Op0("SWAP"), Op0("ROT3"),
   Ins("LOAD_LOCAL", <<0>>, 3), Ins("LOAD_LOCAL", <<1>>, 3), Ins("STORE_LOCAL", <<0>>, 3), Ins("STORE_LOCAL", <<1>>, 3),
   Ins("LOAD_GLOBAL", <<0>>, 5), Ins("STORE_GLOBAL", <<0>>, 5), Ins("STORE_GLOBAL", <<1>>, 5),
   Op0("ADD"), Op0("SUB"), Op0("DIV"), Op0("NEG"), Op0("LT"), Op0("EQ"), Op0("NOT"), Op0("CAST_STRING"), Op0("STR_LEN"),
   Ins("ARR_LITERAL", <<1, 2>>, 4), Op0("ARR_PUSH"), Op0("ARR_GET"), Op0("ARR_SET"), Op0("ARR_LEN"), Op0("ARR_POP"),
   Ins("STRUCT_LITERAL", <<0, 2>>, 7), Ins("STRUCT_GET", <<1>>, 3), Ins("STRUCT_SET", <<0>>, 3),
   Ins("TUPLE_NEW", <<2>>, 3), Ins("TUPLE_GET", <<0>>, 3),
   Ins("UNION_CONSTRUCT", <<0, 1, 1>>, 9), Op0("UNION_TAG"), Ins("UNION_FIELD", <<0>>, 3), Ins("MATCH_TAG", <<1, 20>>, 7),
   Ins("CALL", <<1>>, 5), Op0("RET"), Ins("JMP_FALSE", <<30>>, 5), Ins("JMP", <<-12>>, 5) >>
AlphaN == Len(Alphabet)
MaxId(h) == IF DOMAIN h = {} THEN 0 ELSE CHOOSE x \in DOMAIN h : \A y \in DOMAIN h : y <= x
EnvOf(s) == [Env0 EXCEPT !.newid = MaxId(s.heap) + 1]
GoodLimbs(v) == \A i \in 1..4 : v.n[i] \in 0..65535
GoodVal(s, v) ==
   /\ v.t \in {TVoid, TInt, TBool, TStr, TArr, TStruct, TUnion, TTuple, TEnum}           \* no wildcard and no pseudo value ever enters the state
   /\ GoodLimbs(v)
   /\ (v.t = TStr => v.o = 0 /\ StrLen(v) = Len(v.s))
   /\ (v.t \in {TArr, TStruct, TUnion, TTuple} => v.o \in DOMAIN s.heap /\ s.heap[v.o].k = v.t)
   /\ (v.t \notin {TArr, TStruct, TUnion, TTuple} => v.o = 0)
GoodState(s) ==
   /\ \A i \in 1..Len(s.stack) : GoodVal(s, s.stack[i])
   /\ \A i \in 1..Len(s.globals) : GoodVal(s, s.globals[i])
   /\ \A id \in DOMAIN s.heap : \A i \in 1..Len(s.heap[id].v) : GoodVal(s, s.heap[id].v[i])
   /\ \A i \in 1..Len(s.frames) : /\ s.frames[i].base + s.frames[i].nloc <= Len(s.stack)
                                  /\ (i > 1 => s.frames[i].base >= s.frames[i - 1].base + s.frames[i - 1].nloc)
                                  /\ s.frames[i].fn \in 0..(Len(Fns2) - 1) /\ s.frames[i].nloc = Fns2[s.frames[i].fn + 1][2]
   /\ Len(s.frames) >= 1 /\ s.fn = s.frames[Len(s.frames)].fn
\* CALL f; ...; RET r: depth - arity + 1 slots, r on top, caller untouched
CallRetLaw(s) ==
   \A f \in 0..(Len(Fns2) - 1) :
      LET call == Ins("CALL", <<f>>, 5)
          c == StepL(s, call, EnvOf(s))
          arity == Fns2[f + 1][1] IN
      c.kind = "ok" =>
         /\ Depth(c.S) = Depth(s) - arity + Fns2[f + 1][2] /\ c.S.ip = Fns2[f + 1][3] /\ c.S.fn = f
         /\ \A i \in 1..arity : c.S.stack[Fr(c.S).base + i] = s.stack[Depth(s) - arity + i]               \* argument i is local i-1
         /\ \A i \in (arity + 1)..Fns2[f + 1][2] : c.S.stack[Fr(c.S).base + i] = VoidV
         /\ LET r == StepL(Push(c.S, IntV(<<0, 0, 0, 7>>)), Op0("RET"), EnvOf(s)) IN
            /\ r.kind = "ok" /\ Depth(r.S) = Depth(s) - arity + 1 /\ Top(r.S) = IntV(<<0, 0, 0, 7>>)
            /\ SubSeq(r.S.stack, 1, Depth(s) - arity) = SubSeq(s.stack, 1, Depth(s) - arity)
            /\ r.S.frames = s.frames /\ r.S.ip = s.ip + 5 /\ r.S.fn = s.fn /\ r.S.globals = s.globals
         /\ LET r == StepL(c.S, Op0("RET"), EnvOf(s)) IN r.kind = "ok" /\ Top(r.S) = VoidV /\ Depth(r.S) = Depth(s) - arity + 1     \* no result: void
AlphaLaws == part = "alpha" => GoodState(S) /\ CallRetLaw(S)

\* ==================================================================== prog
\* function 0: fact(x) = if x <= 1 then 1 else x * fact(x - 1)      function 1: sum(x) = 0 + 1 + .. + (x-1) by a loop      function 2: main
FactCode == << Ins("LOAD_LOCAL", <<0>>, 3), PushI(I64One), Op0("LE"), Ins("JMP_FALSE", <<15>>, 5), PushI(I64One), Op0("RET"),
               Ins("LOAD_LOCAL", <<0>>, 3), Ins("LOAD_LOCAL", <<0>>, 3), PushI(I64One), Op0("SUB"), Ins("CALL", <<0>>, 5), Op0("MUL"), Op0("RET") >>
SumCode ==  << PushI(I64Zero), Ins("STORE_LOCAL", <<1>>, 3), PushI(I64Zero), Ins("STORE_LOCAL", <<2>>, 3),
               Ins("LOAD_LOCAL", <<1>>, 3), Ins("LOAD_LOCAL", <<0>>, 3), Op0("LT"), Ins("JMP_FALSE", <<36>>, 5),
               Ins("LOAD_LOCAL", <<2>>, 3), Ins("LOAD_LOCAL", <<1>>, 3), Op0("ADD"), Ins("STORE_LOCAL", <<2>>, 3),
               Ins("LOAD_LOCAL", <<1>>, 3), PushI(I64One), Op0("ADD"), Ins("STORE_LOCAL", <<1>>, 3),
               Ins("JMP", <<-38>>, 5), Ins("LOAD_LOCAL", <<2>>, 3), Op0("RET") >>
MainCode(k) == << PushI(I64FromNat(k)), Ins("CALL", <<0>>, 5), PushI(I64FromNat(k)), Ins("CALL", <<1>>, 5), Op0("ADD"), Op0("RET") >>
RECURSIVE CodeLen(_)
CodeLen(c) == IF Len(c) = 0 THEN 0 ELSE c[1].len + CodeLen(Tail(c))
RECURSIVE Fetch(_, _)
Fetch(c, off) == IF Len(c) = 0 THEN Ins("?", <<>>, 0) ELSE IF off = 0 THEN c[1] ELSE IF off < c[1].len THEN Ins("?", <<>>, 0) ELSE Fetch(Tail(c), off - c[1].len)
FactOff == 0   SumOff == CodeLen(FactCode)   MainOff == SumOff + CodeLen(SumCode)
PFns(k) == << <<1, 1, FactOff, CodeLen(FactCode), 0>>, <<1, 3, SumOff, CodeLen(SumCode), 0>>, <<0, 0, MainOff, CodeLen(MainCode(k)), 0>> >>
PEnv(k) == [fns |-> PFns(k), imps |-> <<>>, newid |-> 0]
PCode(k, f) == IF f = 0 THEN FactCode ELSE IF f = 1 THEN SumCode ELSE MainCode(k)
PFetch(k, s) == Fetch(PCode(k, s.fn), s.ip - PFns(k)[s.fn + 1][3])
RECURSIVE Fact(_)
Fact(k) == IF k <= 1 THEN 1 ELSE k * Fact(k - 1)
ProgLaws == part = "prog" =>
   /\ (S.ip >= 0 => PFetch(n, S).op # "?")                           \* every ip reached addresses an instruction of the current function
   /\ (S.ip = -2 => Depth(S) = 1 /\ Top(S) = IntV(I64FromNat(Fact(n) + (n * (n - 1)) \div 2)))     \* ip -2: main returned
   /\ S.ip # -3                                                      \* ip -3: a return left a depth other than (depth at the call) - arity + 1
   /\ Depth(S) <= 64

\* ============================================================== behaviour
Init == \/ /\ part = "ops" /\ ai = 1 /\ bi = 1 /\ S = Base0 /\ n = 0 /\ ghost = <<>>        \* the pairs are chosen in two steps so that TLC's workers share them
        \/ /\ part = "alpha" /\ ai = 1 /\ bi = 1 /\ S = Base0 /\ n = 0 /\ ghost = <<>>
        \/ /\ part = "prog" /\ ai = 1 /\ bi = 1 /\ n \in 0..MaxN /\ ghost = <<>>
           /\ S = [stack |-> <<>>, frames |-> <<[fn |-> 2, base |-> 0, nloc |-> 0, ret |-> 0, clo |-> 0]>>, globals |-> <<>>, heap |-> <<>>, ip |-> MainOff, fn |-> 2]
AlphaStep == /\ part = "alpha" /\ n < MaxSteps
             /\ \E i \in 1..AlphaN : LET r == StepL(S, Alphabet[i], EnvOf(S)) IN r.kind = "ok" /\ Depth(r.S) <= 6 /\ S' = r.S
             /\ n' = n + 1 /\ UNCHANGED <<part, ai, bi, ghost>>
ProgStep == /\ part = "prog" /\ S.ip >= 0
            /\ LET I == PFetch(n, S)
                   r == StepL(S, I, PEnv(n)) IN
               /\ I.op # "?"
               /\ IF r.kind = "done" THEN S' = [r.S EXCEPT !.ip = -2] /\ ghost' = ghost
                  ELSE IF r.kind # "ok" THEN S' = [S EXCEPT !.ip = -4] /\ ghost' = ghost
                  ELSE IF I.op = "CALL" THEN S' = r.S /\ ghost' = Append(ghost, Depth(S) - PFns(n)[I.a[1] + 1][1] + 1)
                  ELSE IF I.op = "RET" THEN /\ S' = IF Depth(r.S) = ghost[Len(ghost)] THEN r.S ELSE [r.S EXCEPT !.ip = -3]
                                            /\ ghost' = SubSeq(ghost, 1, Len(ghost) - 1)
                  ELSE S' = r.S /\ ghost' = ghost
            /\ UNCHANGED <<part, n, ai, bi>>
OpsStep == /\ part = "ops" /\ n < 2 /\ n' = n + 1
           /\ (IF n = 0 THEN ai' \in 1..NB /\ bi' = bi ELSE bi' \in 1..NB /\ ai' = ai)
           /\ UNCHANGED <<part, S, ghost>>
Next == AlphaStep \/ ProgStep \/ OpsStep
Spec == Init /\ [][Next]_vars /\ WF_vars(ProgStep)
NoStuck == part = "prog" => S.ip # -4                \* the interpreter never meets a trap or an unspecified step in this module
Terminates == <>(part = "prog" => S.ip = -2)
====
