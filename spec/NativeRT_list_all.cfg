\* C20 / NativeRT.tla -- quick: generation, ALL histories of <= 3 steps
\* The constants InitialCapacity and Growth are NOT in this file: harness/props/c20.py extracts them
\* from src/runtime/{dyn_array,list_int,list_string}.c and appends them (for a manual run add
\*   CONSTANTS InitialCapacity = 8  Growth = 2).
SPECIFICATION Spec

CONSTANTS
  Family = "list"
  Kinds = {"list_int"}
  Prefills = {7}
  InitCaps = {0}
  Vals = {1}
  MaxLen = 3
  MaxObj = 1
  EmitMode = "final"
  StopAtDev = TRUE
  AllowAbort = TRUE
  AllowDev = TRUE
INVARIANTS TypeOK LenLeCap
PROPERTIES SeqLawProp CapLawProp
