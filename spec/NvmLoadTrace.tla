---------------------------- MODULE NvmLoadTrace ----------------------------
\* Trace validation for the loader: the stage events that hook H3 records inside the
\* real nvm_deserialize (load, hdr_ok, crc_ok, dir_ok, section, reject, done) are replayed
\* through the actions of NvmLoad on the very bytes the loader was given (the harness
\* writes them into the Reset event that precedes every load).  Nothing is re-stated
\* here: a logged event is accepted iff NvmLoad!Load can take a step that emits it, so
\*   - the decisions of the code (header valid? checksum equal? directory fits? section
\*     in bounds?) must be the predicates D_Size, D_Header, D_Crc, D_Dir, SecOk of the spec
\*     evaluated on those bytes,
\*   - the order must be one the spec admits (no section before crc_ok and dir_ok,
\*     nothing after reject/done),
\*   - the checksum the code computed must be the CRC-32 of the whole body,
\*   - the module it returns must have the contents the spec derives,
\* and every invariant of NvmLoad (Refused, RefusedEarly, AllOrNothing, Staged,
\* ReadsInBounds ...) is evaluated by TLC in every state of the replay.
\*
\* Many loads are concatenated in one file.  A load the spec cannot follow is
\* reported ("rejected" record with the position, what was logged and what the spec
\* was able to do) and the replay resumes at the next Reset, so one run yields a
\* verdict per load.  With SecCheck/StrCheck = "asWritten" the spec follows the code
\* into its undefined state (out-of-bounds read): such loads are reported as
\* "undefined" records; they are how a known finding is recognised.
EXTENDS NvmLoad, IOUtils

Tr == ndJsonDeserialize(IOEnv.TRACE)

VARIABLES l,          \* next line of the log
          cur,        \* id of the load being replayed
          naccepted,  \* loads followed to their end
          nrejected,  \* loads the spec could not follow
          verdict     \* "run" | "end"
tvars == <<l, cur, naccepted, nrejected, verdict>>

IsReset(k) == k <= Len(Tr) /\ Tr[k].e = "Reset"
NextReset(k) == IF \E j \in k..Len(Tr) : IsReset(j)
                THEN CHOOSE j \in k..Len(Tr) : IsReset(j) /\ \A i \in k..(j - 1) : ~IsReset(i)
                ELSE Len(Tr) + 1
LoadOver == stage \in {"done", "reject", "undefined"} \/ cur = ""

TInit == /\ InitCommon(<<>>) /\ l = 1 /\ cur = "" /\ naccepted = 0 /\ nrejected = 0 /\ verdict = "run"

ResetVars(f, g) == /\ file' = f /\ good' = g
                   /\ stage' = "start" /\ checked' = {} /\ next' = 0 /\ mod' = NoMod /\ reads' = {}
                   /\ result' = "pending" /\ ret' = NoMod /\ ev' = <<>> /\ fault' = <<>> /\ nonterm' = FALSE
                   /\ pick' = NoPick
BeginLoad(t) == /\ ResetVars(t.bytes, IF t.damaged THEN <<>> ELSE t.bytes)     \* Damaged == file # good
                /\ cur' = t.id

\* the previous load is complete (or ended in the model's undefined state, i.e. the real
\* loader is allowed to have crashed there) and the next line starts a new one
TrReset == /\ verdict = "run" /\ IsReset(l) /\ LoadOver
           /\ (stage = "undefined" => PrintT("@@J " \o ToJson([k |-> "undefined", id |-> cur, l |-> l])))
           /\ BeginLoad(Tr[l])
           /\ l' = l + 1 /\ naccepted' = naccepted + (IF cur = "" THEN 0 ELSE 1)
           /\ UNCHANGED <<nrejected, verdict>>

Matches(m, t) ==
    /\ m.e = t.e
    /\ CASE m.e = "load"    -> Wd(t.size) = m.size
         [] m.e = "hdr_ok"  -> Wd(t.nsec) = m.size
         [] m.e = "crc_ok"  -> t.crc = Crc(BodyOf(file))
         [] m.e = "dir_ok"  -> Wd(t.dir_end) = m.size
         [] m.e = "section" -> /\ t.i = m.i /\ t.off = m.off /\ t.size = m.size
                               /\ (m.type = 65535 \/ t.type = m.type)
         [] m.e = "reject"  -> t.stage = m.stage
         [] m.e = "done"    -> /\ t.strings = Len(mod.strings) /\ t.functions = Len(mod.fns)
                               /\ t.code = Len(mod.code)
         [] OTHER           -> FALSE

\* one logged event = one step of the specification that emits exactly that event
TrEvent == /\ verdict = "run" /\ l <= Len(Tr) /\ ~IsReset(l) /\ cur # ""
           /\ Load
           /\ Len(ev') = Len(ev) + 1
           /\ Matches(ev'[Len(ev')], Tr[l])
           /\ l' = l + 1 /\ UNCHANGED <<cur, naccepted, nrejected, verdict>>
\* steps of the specification without an event (header read, allocation)
TrSilent == /\ verdict = "run" /\ cur # "" /\ Load /\ ev' = ev /\ UNCHANGED tvars

TrEnd == /\ verdict = "run" /\ l = Len(Tr) + 1 /\ LoadOver
         /\ verdict' = "end" /\ naccepted' = naccepted + (IF cur = "" THEN 0 ELSE 1)
         /\ (stage = "undefined" => PrintT("@@J " \o ToJson([k |-> "undefined", id |-> cur, l |-> l])))
         /\ PrintT("@@J " \o ToJson([k |-> "end", accepted |-> naccepted', rejected |-> nrejected, lines |-> Len(Tr)]))
         /\ UNCHANGED <<l, cur, nrejected>> /\ UNCHANGED vars

\* once the specification is in its undefined state (an out-of-bounds read has happened) the
\* real loader may do anything: whatever else it logs for this load is accepted
TrChaos == /\ verdict = "run" /\ stage = "undefined" /\ l <= Len(Tr) /\ ~IsReset(l) /\ cur # ""
           /\ l' = l + 1 /\ UNCHANGED <<cur, naccepted, nrejected, verdict>> /\ UNCHANGED vars

Follow == TrReset \/ TrEvent \/ TrSilent \/ TrChaos \/ TrEnd

\* what the specification could do from here (for the report)
CouldDo == {a \in {"ReadHeader", "ValidateHeader", "CheckCrc", "CheckDir", "Alloc", "Section", "Done", "none"} :
              CASE a = "ReadHeader" -> stage = "loaded"
                [] a = "ValidateHeader" -> stage = "hdr"
                [] a = "CheckCrc" -> stage = "checks" /\ "crc" \notin checked
                [] a = "CheckDir" -> stage = "checks" /\ "dir" \notin checked
                [] a = "Alloc" -> stage = "checks" /\ checked = {"crc", "dir"}
                [] a = "Section" -> stage = "sections" /\ next < mod.nsec
                [] a = "Done" -> stage = "sections" /\ next = mod.nsec
                [] OTHER -> stage \in {"done", "reject", "undefined", "start"}}
Logged(k) == IF k > Len(Tr) THEN "<end of log>"
             ELSE IF IsReset(k) THEN "Reset " \o Tr[k].id
             ELSE ToJson(Tr[k])

\* the specification cannot follow the log: report, skip to the next load
TrStuck == /\ verdict = "run" /\ ~ENABLED Follow
           /\ PrintT("@@J " \o ToJson([k |-> "rejected", id |-> cur, l |-> l, logged |-> Logged(l),
                                        spec_stage |-> stage, spec_events |-> [n \in 1..Len(ev) |-> ev[n].e],
                                        spec_last_reject |-> IF Len(ev) > 0 THEN ev[Len(ev)].stage ELSE "",
                                        spec_could |-> CouldDo,
                                        decisions |-> IF Len(file) >= HeaderSize
                                                      THEN [size |-> TRUE, header |-> D_Header(file),
                                                            crc |-> IF D_Header(file) THEN D_Crc(file) ELSE FALSE,
                                                            dir |-> IF D_Header(file) THEN D_Dir(file) ELSE FALSE]
                                                      ELSE [size |-> FALSE, header |-> FALSE, crc |-> FALSE, dir |-> FALSE]]))
           /\ l' = IF IsReset(l) THEN l ELSE NextReset(l)      \* an unfinished load: give it up, keep the Reset
           /\ cur' = "" /\ nrejected' = nrejected + 1
           /\ ResetVars(<<>>, <<>>)
           /\ UNCHANGED <<naccepted, verdict>>

TNext == Follow \/ TrStuck
TSpec == TInit /\ [][TNext]_<<vars, tvars>>

=============================================================================
