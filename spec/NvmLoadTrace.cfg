\* Trace validation against the property-conforming specification (repaired bounds checks)
SPECIFICATION TSpec
CONSTANTS
  W = 32
  SecCheck = "safe"
  StrCheck = "safe"
  Family = "trace"
  MaxBurst = 0
  MaxTail = 0
  MaxFaults = 0
  SampleMod = 1
  Full = FALSE
INVARIANTS TypeOK Refused RefusedEarly AllOrNothing Staged ReadsInBounds Terminates NeverUndefined
