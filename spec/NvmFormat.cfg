\* C10 format round trip.  Sizes and section numbers are appended by harness/props/c10.py
\* (extracted from src/nanoisa/nvm_format.h); Magic comes from the generated root module NvmFormat_MC.
INIT Init
NEXT Next
CONSTANTS
  Magic <- MC_Magic
INVARIANTS
  PoolDupFree
  RoundTrip
  Idempotent
  SizeLaw
