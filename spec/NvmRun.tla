---------------------------------- MODULE NvmRun ----------------------------------
(* Property C10, second half: the three ways of running a compiled module           *)
(*   run     - nano_virt p.nano --run        (module in memory)                      *)
(*   vmfile  - nano_vm p.nvm                 (module stored in a file)               *)
(*   wrapper - the executable of nano_virt p.nano -o w (module embedded)            *)
(* derive what the process shows from the VM's result in one and the same way.      *)
(*                                                                                  *)
(* A Driver-style fragment: each runner is the action sequence                      *)
(*   Load -> Init (the module's __init__, once) -> Main -> Exit.                    *)
(* The VM result of a program is [status, tag, val, init, main]:                    *)
(*   status  "ok" | "error"      (vm_execute returned VM_OK or not)                 *)
(*   tag     "int" | "other"     (tag of the value main returned)                   *)
(*   val     main's 64-bit result as 8 little-endian bytes                          *)
(*   init    number of output chunks written by __init__ (global initialisers)      *)
(*   main    number of output chunks written by main                                *)
(* The prescription (all three runners, no deviation):                              *)
(*   stdout      = the init chunks once, then the main chunks                       *)
(*   exit status = 1 if status = "error"; else the low byte of val if tag = "int"   *)
(*                 (exit((int)v) keeps v mod 256); else 0.                          *)
(* Dev holds the deviations of the unchanged tree that are listed as known          *)
(* findings; Outcome(r, p, Dev) is what the tree then does.                         *)
EXTENDS Integers, Sequences, FiniteSets, TLC, Json

CONSTANTS Dev,        \* SUBSET DevNames
          Programs    \* sequence of [name, status, tag, val, init, main] declared by the corpus (see corpus/c10/*.nano headers)

DevNames == {"NANOVM_DROPS_EXIT",     \* nano_vm maps every successful run to exit status 0
             "WRAPPER_INIT_TWICE"}    \* the wrapper calls __init__ itself and then vm_execute calls it again
ASSUME Dev \subseteq DevNames
Runners == {"run", "vmfile", "wrapper"}

VARIABLES runner, prog, pc, out, exit
vars == <<runner, prog, pc, out, exit>>

\* boundary results for the model check: every low byte is covered by {0,1,7,255} x sign/high-byte patterns
Rep(b, n) == [j \in 1 .. n |-> b]
ModelVals == {Rep(0, 8), <<1>> \o Rep(0, 7), <<7>> \o Rep(0, 7), <<255>> \o Rep(0, 7), <<0, 1>> \o Rep(0, 6), Rep(255, 8),
              <<0>> \o Rep(255, 7), <<44, 1>> \o Rep(0, 6), Rep(0, 7) \o <<128>>, Rep(255, 7) \o <<127>>, <<0, 0, 0, 0, 1, 0, 0, 0>>}
ModelPrograms == {[name |-> "model", status |-> s, tag |-> t, val |-> v, init |-> i, main |-> 1]
                  : s \in {"ok", "error"}, t \in {"int", "other"}, v \in ModelVals, i \in {0, 1}}
AllPrograms == ModelPrograms \cup {Programs[k] : k \in DOMAIN Programs}

ExitOf(p) == IF p.status = "error" THEN 1 ELSE IF p.tag = "int" THEN p.val[1] ELSE 0
Chunks(kind, n) == [j \in 1 .. n |-> kind]

Init == /\ runner \in Runners /\ prog \in AllPrograms
        /\ pc = "load" /\ out = <<>> /\ exit = -1
Load == pc = "load" /\ pc' = "init" /\ UNCHANGED <<runner, prog, out, exit>>
\* __init__ runs before main; the wrapper deviation runs it a second time
RunInit == /\ pc = "init"
           /\ out' = out \o Chunks("init", prog.init)
                         \o (IF runner = "wrapper" /\ "WRAPPER_INIT_TWICE" \in Dev THEN Chunks("init", prog.init) ELSE <<>>)
           /\ pc' = "main" /\ UNCHANGED <<runner, prog, exit>>
RunMain == /\ pc = "main"
           /\ out' = out \o Chunks("main", prog.main)
           /\ pc' = "exit" /\ UNCHANGED <<runner, prog, exit>>
Exit == /\ pc = "exit"
        /\ exit' = IF runner = "vmfile" /\ "NANOVM_DROPS_EXIT" \in Dev
                   THEN (IF prog.status = "error" THEN 1 ELSE 0)
                   ELSE ExitOf(prog)
        /\ PrintT("@@J " \o ToJson([runner |-> runner, name |-> prog.name, exit |-> exit', out |-> out,
                                     want_exit |-> ExitOf(prog), want_out |-> Chunks("init", prog.init) \o Chunks("main", prog.main)]))
        /\ pc' = "done" /\ UNCHANGED <<runner, prog, out>>
Next == Load \/ RunInit \/ RunMain \/ Exit
Spec == Init /\ [][Next]_vars

\* the three runners are observationally the same and follow the prescription (true for Dev = {})
SameAsPrescribed == pc = "done" => exit = ExitOf(prog) /\ out = Chunks("init", prog.init) \o Chunks("main", prog.main)
ExitIsByte == pc = "done" => exit \in 0 .. 255
=============================================================================
