INIT Init
NEXT Next
INVARIANT CharLaws
INVARIANT ClassSizes
INVARIANT ConvLaws
INVARIANT BoolLaws
INVARIANT StrLaws
INVARIANT SeqLaws
INVARIANT WideLaws
CONSTANTS
  MaxLen = 3
  Deep = FALSE
