INIT Init
NEXT Next
INVARIANTS SoundInv ExactInv
CONSTANTS
  Vars = {"a", "b"}
  Level = 1
  MaxLen = 2
  MaxIter = 2
  Pre = 0
