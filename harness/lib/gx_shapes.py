"""Syntactic shapes of programs: the predicates the findings of known_findings.d/GX.json are tied to (a finding explains a
disagreement only in a program of its shape), and the names of the generator's idiom variants that produce such shapes
(Gen(features={"avoid": ...}) keeps away from them so that what lies behind a listed finding is still reached).
The predicates look at the abstract syntax only; they decide nothing about behaviour."""
import re


def exprs(node):
    if isinstance(node, dict):
        if "k" in node and "i" in node and "f" in node and "arms" not in node:
            yield node
        for v in node.values():
            yield from exprs(v)
    elif isinstance(node, list):
        for v in node:
            yield from exprs(v)


def stmts(node):
    if isinstance(node, dict):
        if "k" in node and "arms" in node:
            yield node
        for v in node.values():
            yield from stmts(v)
    elif isinstance(node, list):
        for v in node:
            yield from stmts(v)


def lets(p):
    return [s for s in stmts(p) if s["k"] == "let"]


def calls(p, *names):
    return [e for e in exprs(p) if e["k"] == "call" and e["s"] in names]


def all_types(p):
    """every type string written in the program, with the position it is written in"""
    for st in p["structs"]:
        for t in st["ftys"]: yield "field", t
    for u in p["unions"]:
        for v in u["variants"]:
            for t in v["ftys"]: yield "field", t
    for g in p["globals"]: yield "global", g["t"]
    for f in p["funcs"]:
        for t in f["ptys"]: yield "param", t
        yield "ret", f["ret"]
    for l in lets(p): yield "let", l["t"]


SCALAR_ELEMS = ("int", "string", "bool", "float")
ENUMS = lambda p: {e["n"] for e in p["enums"]}
STRUCTS = lambda p: {s["n"] for s in p["structs"]}
UNIONS = lambda p: {u["n"] for u in p["unions"]}


def static_type(p, e):
    """a rough static type of an expression (name of the declared type), good enough to tell an enum-typed operand"""
    if e["k"] == "enum": return e["s"].split(".")[0]
    if e["k"] == "var":
        for l in lets(p):
            if l["s"] == e["s"]: return l["t"]
        for f in p["funcs"]:
            if e["s"] in f["params"]: return f["ptys"][f["params"].index(e["s"])]
        for g in p["globals"]:
            if g["n"] == e["s"]: return g["t"]
    if e["k"] == "field":
        for st in p["structs"]:
            if e["s"] in st["fields"]: return st["ftys"][st["fields"].index(e["s"])]
    if e["k"] == "call":
        for f in p["funcs"]:
            if f["n"] == e["s"]: return f["ret"]
    return ""


def fn_sig(p, e):
    """(parameter types, result type) of the function an expression of function type names"""
    if e["k"] == "var":
        for f in p["funcs"]:
            if f["n"] == e["s"]: return f["ptys"], f["ret"]
        for l in lets(p):
            if l["s"] == e["s"] and l["t"].startswith("fn(") and l["a"]:
                return fn_sig(p, l["a"][0])
    return None


def _map_changes_type(p):
    for c in calls(p, "map"):
        if len(c["a"]) == 2:
            sg = fn_sig(p, c["a"][1])
            if sg and len(sg[0]) == 1 and sg[0][0] != sg[1]:
                return True
    return False


VM_LIST_OPS = ("new", "push", "get", "set", "length")
CMP = ("<", "<=", ">", ">=", "==", "!=")

SHAPES = {
    # an array literal with at least one element whose element type is not int / float / bool / string
    "array_literal_of_non_scalars": lambda p: any(e["k"] == "alit" and e["a"] and (e["s"] not in SCALAR_ELEMS or e["a"][0]["k"] in ("alit", "slit", "ulit", "tlit", "enum")) for e in exprs(p)),
    "array_literal_of_arrays": lambda p: any(e["k"] == "alit" and e["a"] and e["a"][0]["k"] == "alit" for e in exprs(p)),
    "array_of_unions": lambda p: any(re.match(r"array<(%s)>" % "|".join(sorted(UNIONS(p)) or ["-"]), t) for _, t in all_types(p)),
    # a tuple type as the type of a parameter, a struct / variant field, a global or an array element
    "tuple_type_outside_locals": lambda p: any((pos in ("param", "field", "global") and t.startswith("(")) or "array<(" in t for pos, t in all_types(p)),
    "global_of_struct_type": lambda p: any(g["t"] in STRUCTS(p) for g in p["globals"]),
    "map_changes_element_type": _map_changes_type,
    "strlen_in_comparison": lambda p: any(e["k"] == "bin" and e["s"] in CMP and any(a["k"] == "call" and a["s"] == "str_length" for a in e["a"]) for e in exprs(p))
                                      or any(st["k"] == "for" and any(a["k"] == "call" and a["s"] == "str_length" for a in st["a"]) for st in stmts(p)),
    "list_ops_beyond_vm": lambda p: any(e["k"] == "call" and re.match(r"list_(int|string)_(\w+)$", e["s"]) and re.match(r"list_(int|string)_(\w+)$", e["s"]).group(2) not in VM_LIST_OPS for e in exprs(p)),
    "enum_to_string": lambda p: any(static_type(p, c["a"][0]) in ENUMS(p) for c in calls(p, "int_to_string", "cast_string", "to_string") if c["a"]),
}

# idiom variants of lib/gen_gx.py that produce the shapes above
AVOIDABLE = ("matrix_literal", "struct_array_literal", "enum_array_literal", "unions2_array_of_unions", "nested_tuple_array", "tuple_field", "nested_tuple_field",
             "global_struct", "global_tuple", "tuple_param", "map_changes_type", "list_more_ops", "strlen_loop_bound", "enum_to_string")
