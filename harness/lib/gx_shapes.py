"""Syntactic shapes of programs: the predicates the findings of known_findings.d/GX.json are tied to (a finding explains a
disagreement only in a program of its shape), and the names of the generator's idiom variants that produce such shapes
(Gen(features={"avoid": ...}) keeps away from them so that what lies behind a listed finding is still reached).
The predicates look at the abstract syntax only; they decide nothing about behaviour."""
import re


def exprs(node):
    if isinstance(node, dict):
        if "k" in node and "i" in node and "f" in node and "arms" not in node:
            yield node
        for v in node.values():
            yield from exprs(v)
    elif isinstance(node, list):
        for v in node:
            yield from exprs(v)


def stmts(node):
    if isinstance(node, dict):
        if "k" in node and "arms" in node:
            yield node
        for v in node.values():
            yield from stmts(v)
    elif isinstance(node, list):
        for v in node:
            yield from stmts(v)


def lets(p):
    return [s for s in stmts(p) if s["k"] == "let"]


def calls(p, *names):
    return [e for e in exprs(p) if e["k"] == "call" and e["s"] in names]


def all_types(p):
    """every type string written in the program, with the position it is written in"""
    for st in p["structs"]:
        for t in st["ftys"]: yield "field", t
    for u in p["unions"]:
        for v in u["variants"]:
            for t in v["ftys"]: yield "field", t
    for g in p["globals"]: yield "global", g["t"]
    for f in p["funcs"]:
        for t in f["ptys"]: yield "param", t
        yield "ret", f["ret"]
    for l in lets(p): yield "let", l["t"]


SCALAR_ELEMS = ("int", "string", "bool", "float")
ENUMS = lambda p: {e["n"] for e in p["enums"]}
STRUCTS = lambda p: {s["n"] for s in p["structs"]}
UNIONS = lambda p: {u["n"] for u in p["unions"]}


def static_type(p, e):
    """a rough static type of an expression (name of the declared type), good enough to tell an enum-typed operand"""
    if e["k"] == "enum": return e["s"].split(".")[0]
    if e["k"] == "var":
        for l in lets(p):
            if l["s"] == e["s"]: return l["t"]
        for f in p["funcs"]:
            if e["s"] in f["params"]: return f["ptys"][f["params"].index(e["s"])]
        for g in p["globals"]:
            if g["n"] == e["s"]: return g["t"]
    if e["k"] == "field":
        for st in p["structs"]:
            if e["s"] in st["fields"]: return st["ftys"][st["fields"].index(e["s"])]
    if e["k"] == "call":
        for f in p["funcs"]:
            if f["n"] == e["s"]: return f["ret"]
    return ""


def fn_sig(p, e):
    """(parameter types, result type) of the function an expression of function type names"""
    if e["k"] == "var":
        for f in p["funcs"]:
            if f["n"] == e["s"]: return f["ptys"], f["ret"]
        for l in lets(p):
            if l["s"] == e["s"] and l["t"].startswith("fn(") and l["a"]:
                return fn_sig(p, l["a"][0])
    return None


def _map_changes_type(p):
    for c in calls(p, "map"):
        if len(c["a"]) == 2:
            sg = fn_sig(p, c["a"][1])
            if sg and len(sg[0]) == 1 and sg[0][0] != sg[1]:
                return True
    return False


VM_LIST_OPS = ("new", "push", "get", "set", "length")
CMP = ("<", "<=", ">", ">=", "==", "!=")

SHAPES = {
    # an array literal with at least one element whose element type is not int / float / bool / string
    "array_literal_of_non_scalars": lambda p: any(e["k"] == "alit" and e["a"] and (e["s"] not in SCALAR_ELEMS or e["a"][0]["k"] in ("alit", "slit", "ulit", "tlit", "enum")) for e in exprs(p)),
    "array_literal_of_arrays": lambda p: any(e["k"] == "alit" and e["a"] and e["a"][0]["k"] == "alit" for e in exprs(p)),
    "array_of_unions": lambda p: any(re.match(r"array<(%s)>" % "|".join(sorted(UNIONS(p)) or ["-"]), t) for _, t in all_types(p)),
    # a tuple type as the type of a parameter, a struct / variant field, a global or an array element
    "tuple_type_outside_locals": lambda p: any((pos in ("param", "field", "global") and t.startswith("(")) or "array<(" in t for pos, t in all_types(p)),
    "global_of_struct_type": lambda p: any(g["t"] in STRUCTS(p) for g in p["globals"]),
    "map_changes_element_type": _map_changes_type,
    "strlen_in_comparison": lambda p: any(e["k"] == "bin" and e["s"] in CMP and any(a["k"] == "call" and a["s"] == "str_length" for a in e["a"]) for e in exprs(p))
                                      or any(st["k"] == "for" and any(a["k"] == "call" and a["s"] == "str_length" for a in st["a"]) for st in stmts(p)),
    "list_ops_beyond_vm": lambda p: any(e["k"] == "call" and re.match(r"list_(int|string)_(\w+)$", e["s"]) and re.match(r"list_(int|string)_(\w+)$", e["s"]).group(2) not in VM_LIST_OPS for e in exprs(p)),
    "enum_to_string": lambda p: any(static_type(p, c["a"][0]) in ENUMS(p) for c in calls(p, "int_to_string", "cast_string", "to_string") if c["a"]),
}



def _arm_lets(p):
    for st in stmts(p):
        if st["k"] == "match":
            for arm in st["arms"]:
                yield from lets(arm["b"])


def _cmp_of_two_enum_types(p):
    en = ENUMS(p)
    for e in exprs(p):
        if e["k"] == "bin" and e["s"] in CMP:
            a, b = static_type(p, e["a"][0]), static_type(p, e["a"][1])
            if a in en and b in en and a != b:
                return True
    return False


def _binders(p):
    """(name, declared type or kind) of every binder"""
    for g in p["globals"]: yield g["n"], g["t"]
    for f in p["funcs"]:
        for n, t in zip(f["params"], f["ptys"]): yield n, t
    for st in stmts(p):
        if st["k"] == "let": yield st["s"], st["t"]
        elif st["k"] in ("for", "forin"): yield st["s"], "<loop>"
        elif st["k"] == "match":
            for arm in st["arms"]: yield arm["bind"], "<variant>"


def _name_bound_with_two_types(p):
    seen = {}
    for n, t in _binders(p):
        if n in seen and seen[n] != t:
            return True
        seen.setdefault(n, t)
    return False


NON_SCALAR_ARRAY = re.compile(r"array<(?!int>|string>|bool>|float>)")

SHAPES.update({
    "comparison_of_two_enum_types": _cmp_of_two_enum_types,
    "array_of_enum_type": lambda p: any(re.search(r"array<(%s)>" % "|".join(sorted(ENUMS(p)) or ["-"]), t) for _, t in all_types(p)),
    "function_typed_let_in_match_arm": lambda p: any(l["t"].startswith("fn(") for l in _arm_lets(p)),
    "name_bound_with_two_types": _name_bound_with_two_types,
    # a local of type string initialised from a field of a struct / variant or an element of a tuple
    "string_let_from_field_or_tuple": lambda p: any(l["t"] == "string" and l["a"] and l["a"][0]["k"] in ("field", "tidx") for l in lets(p)),
    # a function whose result is a union with a string field
    "function_returns_union_with_string_field": lambda p: any(f["ret"] == u["n"] and any("string" in v["ftys"] for v in u["variants"]) for f in p["funcs"] for u in p["unions"]),
    "string_self_assignment": lambda p: any(st["k"] == "set" and st["a"][0]["k"] == "var" and st["a"][0]["s"] == st["s"] and static_type(p, st["a"][0]) == "string" for st in stmts(p)),
    "array_type_with_non_scalar_elements": lambda p: any(NON_SCALAR_ARRAY.search(t) for _, t in all_types(p)),
})

# the shapes props/c04.py ties the F36-* findings to (same predicates, for programs met through the generator)
SHAPES.update({
    # (- -371), or (- G) where G is a constant global whose initialiser is a negative literal (the constant is pasted in)
    "neg_of_negative_literal": lambda p: any(e["k"] == "un" and e["s"] == "-" and ((e["a"][0]["k"] == "int" and e["a"][0]["i"][0] >= 32768) or
                                             (e["a"][0]["k"] == "var" and any(g["n"] == e["a"][0]["s"] and not g["m"] and g["init"]["k"] == "int" and g["init"]["i"][0] >= 32768 for g in p["globals"])))
                                             for e in exprs(p)),
    "literal_arithmetic": lambda p: any(e["k"] == "bin" and e["s"] in ("+", "-", "*") and all(a["k"] == "int" for a in e["a"]) for e in exprs(p)),
    "self_comparison": lambda p: any(e["k"] == "bin" and e["s"] in CMP and e["a"][0] == e["a"][1] for e in exprs(p)),
    "let_mentions_own_name": lambda p: any(any(e["k"] == "var" and e["s"] == l["s"] for e in exprs(l["a"])) for l in lets(p)),
})

ARITH = ("+", "-", "*", "/", "%")


def _strlen_under_operator(p):
    """str_length as an operand (possibly through further arithmetic) of an arithmetic or comparison operator"""
    def has(e):
        return (e["k"] == "call" and e["s"] == "str_length") or (e["k"] in ("bin", "un") and e["s"] in ARITH and any(has(a) for a in e["a"]))
    return any(e["k"] == "bin" and e["s"] in ARITH + CMP and any(has(a) for a in e["a"]) for e in exprs(p))


def _substring_start_past_end(p):
    """str_substring whose start is a literal at or beyond the length of a literal string, or any non-literal operand"""
    for c in calls(p, "str_substring"):
        if len(c["a"]) == 3:
            s0, a0 = c["a"][0], c["a"][1]
            if s0["k"] != "str" or a0["k"] != "int" or a0["i"][3] >= len(s0["s"]):
                return True
    return False


SHAPES.update({
    "array_set_and_array_push": lambda p: bool(calls(p, "array_set")) and bool(calls(p, "array_push", "filter", "map", "array_slice", "array_remove_at")),
    "global_initialised_by_call": lambda p: any(any(e["k"] == "call" and any(f["n"] == e["s"] for f in p["funcs"]) for e in exprs(g["init"])) for g in p["globals"]),
    "tuple_with_composite_element": lambda p: any(re.search(r"\b(%s)\b|\(|array<" % "|".join(sorted(STRUCTS(p) | UNIONS(p)) or ["-"]), t[1:]) for _, t in all_types(p) if t.startswith("(")),
    "strlen_under_operator": _strlen_under_operator,
    "substring_start_past_end": _substring_start_past_end,
    # a conversion to string in a program that has enum values (an int variable initialised from an enum value keeps the enum tag on the NanoVM)
    "to_string_and_enum_values": lambda p: bool(calls(p, "int_to_string", "cast_string", "to_string")) and any(e["k"] == "enum" for e in exprs(p)),
})

# idiom variants of lib/gen_gx.py that produce the shapes above
AVOIDABLE = ("matrix_literal", "struct_array_literal", "enum_array_literal", "unions2_array_of_unions", "nested_tuple_array", "tuple_field", "nested_tuple_field",
             "global_struct", "global_tuple", "tuple_param", "map_changes_type", "strlen_loop_bound", "enum_to_string", "compare_two_enums", "enum_array", "global_init_call", "nested_tuple_in_tuple", "tuple_of_struct")
