"""Single-point rule-violating mutations of well-typed programs (AST form) for C05 / C04.
Each mutant carries the static rule it is *meant* to break; whether it really does is decided by NanoType.tla (TLC)."""
import copy, random
from .nano_ast import *


def _lit_other(ty_hint):
    """a literal whose type differs from ty_hint ('int' | 'bool' | 'string' | other)"""
    return S("zq") if ty_hint == "int" else I(7)


def _paths_exprs(node, path=()):
    """yield (path, expr) for every expression node under a statement/expression tree"""
    if isinstance(node, dict):
        if "k" in node and "i" in node and "f" in node:        # expression node
            yield path, node
            for j, ch in enumerate(node["a"]):
                yield from _paths_exprs(ch, path + ("a", j))
        elif "k" in node and "arms" in node:                      # statement node
            for j, ch in enumerate(node["a"]):
                yield from _paths_exprs(ch, path + ("a", j))
            for key in ("b", "c"):
                for j, ch in enumerate(node[key]):
                    yield from _paths_exprs(ch, path + (key, j))
            for ai, arm in enumerate(node["arms"]):
                for j, ch in enumerate(arm["b"]):
                    yield from _paths_exprs(ch, path + ("arms", ai, "b", j))


def _stmt_lists(fn):
    """yield (path to list, list) for every statement list of a function"""
    def walk(lst, path):
        yield path, lst
        for j, s in enumerate(lst):
            for key in ("b", "c"):
                if s[key]:
                    yield from walk(s[key], path + (j, key))
            for ai, arm in enumerate(s["arms"]):
                yield from walk(arm["b"], path + (j, "arms", ai, "b"))
    yield from walk(fn["body"], ())


def _get(root, path):
    for k in path:
        root = root[k]
    return root


def _set(root, path, val):
    for k in path[:-1]:
        root = root[k]
    root[path[-1]] = val


def mutants(p, rnd, per_op=4):
    """-> list of dict(prog, rule, what)"""
    out = []

    def emit(q, rule, what):
        out.append({"prog": q, "rule": rule, "what": what})
    user_fns = {f["n"]: f for f in p["funcs"]}
    for fi, fn in enumerate(p["funcs"]):
        if fn["n"] in ("t", "tb"):
            continue
        sites = []
        for si, st in enumerate(fn["body"]):
            for path, e in _paths_exprs(st, ("funcs", fi, "body", si)):
                sites.append((path, e))
        by_op = {}
        for path, e in sites:
            k = e["k"]
            if k == "bin" and e["s"] in ("+", "-", "*", "/", "%", "<", "<=", ">", ">="):
                by_op.setdefault("operand", []).append((path, e))
            if k == "bin" and e["s"] in ("and", "or"):
                by_op.setdefault("operand_bool", []).append((path, e))
            if k == "un":
                by_op.setdefault("operand_un", []).append((path, e))
            if k == "call" and e["a"]:
                by_op.setdefault("argtype", []).append((path, e)); by_op.setdefault("arity_drop", []).append((path, e))
            if k == "call":
                by_op.setdefault("arity_dup", []).append((path, e))
            if k == "var":
                by_op.setdefault("unknown", []).append((path, e))
            if k == "field":
                by_op.setdefault("field", []).append((path, e))
            if k == "enum":
                by_op.setdefault("variant_enum", []).append((path, e))
            if k == "ulit":
                by_op.setdefault("variant_union", []).append((path, e))
            if k == "tidx":
                by_op.setdefault("tupleidx", []).append((path, e))
        for op, lst in by_op.items():
            for path, e in (rnd.sample(lst, per_op) if len(lst) > per_op else lst):
                q = copy.deepcopy(p)
                n = _get(q, path)
                where = "%s at %s" % (fn["n"], "/".join(map(str, path[3:])))
                if op == "operand":
                    side = rnd.randrange(2); n["a"][side] = S("zq") if n["s"] != "+" or True else n["a"][side]
                    if n["s"] == "+":          # (+ "zq" <int>) : operand types differ
                        other = n["a"][1 - side]
                        if other["k"] == "str": n["a"][side] = I(7)
                    emit(q, "operand", "operand of %s replaced by a literal of another type in %s" % (n["s"], where))
                elif op == "operand_bool":
                    n["a"][rnd.randrange(2)] = I(1); emit(q, "operand", "operand of %s replaced by an int in %s" % (n["s"], where))
                elif op == "operand_un":
                    n["a"][0] = S("zq"); emit(q, "operand", "operand of unary %s replaced by a string in %s" % (n["s"], where))
                elif op == "argtype":
                    j = rnd.randrange(len(n["a"]))
                    a = n["a"][j]
                    n["a"][j] = I(7) if a["k"] in ("str", "slit", "ulit", "alit", "tlit", "bool") or (a["k"] == "var") and False else S("zq")
                    if n["s"] in ("println", "print"):
                        n["a"][j] = TLit([I(1), I(2)])
                    emit(q, "argtype", "argument %d of %s replaced by a value of another type in %s" % (j, n["s"], where))
                elif op == "arity_drop":
                    n["a"].pop(); emit(q, "arity", "last argument of %s dropped in %s" % (n["s"], where))
                elif op == "arity_dup":
                    n["a"].append(copy.deepcopy(n["a"][-1]) if n["a"] else I(1)); emit(q, "arity", "extra argument for %s in %s" % (n["s"], where))
                elif op == "unknown":
                    n["s"] = "nosuch_qz"; emit(q, "scope", "variable renamed to an unknown name in %s" % where)
                elif op == "field":
                    n["s"] = "nofield_qz"; emit(q, "field", "unknown field in %s" % where)
                elif op == "variant_enum":
                    n["s"] = n["s"].split(".")[0] + ".Nosuch"; emit(q, "variant", "unknown enum variant in %s" % where)
                elif op == "variant_union":
                    n["s"] = n["s"].split(".")[0] + ".Nosuch"; emit(q, "variant", "unknown union variant in %s" % where)
                elif op == "tupleidx":
                    n["i"] = [0, 0, 0, 9]; emit(q, "field", "tuple index out of range in %s" % where)
        # statement-level mutations
        lists = list(_stmt_lists(fn))
        declared = set(fn["params"]) | {g["n"] for g in p["globals"]}
        for lp, lst in lists:
            for s in lst:
                if s["k"] == "let": declared.add(s["s"])
        conds, lets, rets, blocks = [], [], [], []
        for lp, lst in lists:
            for j, s in enumerate(lst):
                if s["k"] in ("if", "while", "assert"): conds.append((lp, j))
                if s["k"] == "let": lets.append((lp, j))
                if s["k"] == "ret" and s["a"]: rets.append((lp, j))
                if s["k"] in ("if", "while", "for") and any(x["k"] == "let" for x in s["b"]): blocks.append((lp, j))
        base = ("funcs", fi, "body")
        for lp, j in (rnd.sample(conds, per_op) if len(conds) > per_op else conds):
            q = copy.deepcopy(p); s = _get(q, base + lp)[j]; s["a"][0] = I(1)
            emit(q, "cond", "condition of %s replaced by an int in %s" % (s["k"], fn["n"]))
        for lp, j in (rnd.sample(lets, per_op) if len(lets) > per_op else lets):
            q = copy.deepcopy(p); lst = _get(q, base + lp); s = lst[j]
            s["a"][0] = I(7) if s["t"] != "int" else S("zq")
            emit(q, "lettype", "initialiser of let %s: %s replaced by a value of another type in %s" % (s["s"], s["t"], fn["n"]))
            if not s["m"] and s["t"] in ("int", "bool", "string"):
                q = copy.deepcopy(p); lst = _get(q, base + lp); s = lst[j]
                lst.insert(j + 1, Set(s["s"], {"int": I(3), "bool": B(True), "string": S("w")}[s["t"]]))
                emit(q, "immutable", "set of immutable variable %s in %s" % (s["s"], fn["n"]))
        if fn["params"]:
            k = rnd.randrange(len(fn["params"]))
            if fn["ptys"][k] in ("int", "bool", "string"):
                q = copy.deepcopy(p); f2 = q["funcs"][fi]
                f2["body"].insert(0, Set(fn["params"][k], {"int": I(3), "bool": B(True), "string": S("w")}[fn["ptys"][k]]))
                emit(q, "immutable", "set of parameter %s in %s" % (fn["params"][k], fn["n"]))
        for lp, j in (rnd.sample(rets, per_op) if len(rets) > per_op else rets):
            q = copy.deepcopy(p); s = _get(q, base + lp)[j]
            s["a"][0] = S("zq") if fn["ret"] != "string" else I(7)
            emit(q, "rettype", "return value replaced by a value of another type in %s" % fn["n"])
        if fn["ret"] != "void" and fn["body"] and fn["body"][-1]["k"] == "ret":
            q = copy.deepcopy(p); q["funcs"][fi]["body"].pop()
            emit(q, "retpath", "final return of %s removed" % fn["n"])
        for lp, j in (rnd.sample(blocks, per_op) if len(blocks) > per_op else blocks):
            s = _get(p, base + lp)[j]
            inner = [x for x in s["b"] if x["k"] == "let"][0]
            # the name must not be visible after the block by another declaration
            others = sum(1 for lp2, lst2 in lists for x in lst2 if x["k"] == "let" and x["s"] == inner["s"])
            if others == 1 and inner["s"] not in fn["params"] and inner["s"] not in {g["n"] for g in p["globals"]} and inner["s"] not in user_fns:
                q = copy.deepcopy(p); lst = _get(q, base + lp)
                lst.insert(j + 1, Let("zzq_after", inner["t"], V(inner["s"])))
                emit(q, "scope", "block-local %s used after its block in %s" % (inner["s"], fn["n"]))
        # the variable of a for loop is immutable (5.4): a set inside the body breaks the rule whatever other variables are called
        for lp, lst in lists:
            for j, st_ in enumerate(lst):
                if st_["k"] in ("for", "forin") and (st_["k"] == "for" or True):
                    q = copy.deepcopy(p); q_st = _get(q, base + lp)[j]
                    if st_["k"] == "for":
                        q_st["b"].insert(0, Set(st_["s"], Bin("+", V(st_["s"]), I(1))))
                        emit(q, "immutable", "set of for-loop variable %s in %s" % (st_["s"], fn["n"]))
        # a match arm naming a variant the union does not have
        for lp, lst in lists:
            for j, st_ in enumerate(lst):
                if st_["k"] == "match" and st_["arms"]:
                    q = copy.deepcopy(p); arm = _get(q, base + lp)[j]["arms"][-1]
                    arm["v"] = arm["v"].split(".")[0] + ".Nosuch"
                    emit(q, "variant", "match arm names an unknown variant in %s" % fn["n"])
        # external calls outside an unsafe context
        for lp, lst in lists:
            for j, st_ in enumerate(lst):
                if st_["k"] == "unsafe":
                    q = copy.deepcopy(p); _get(q, base + lp)[j]["k"] = "block"
                    emit(q, "unsafe", "unsafe block turned into a plain block in %s" % fn["n"])
        if p.get("externs") and fn["n"] == "main":
            ex = p["externs"][0]
            q = copy.deepcopy(p); q["funcs"][fi]["body"].insert(1 if q["funcs"][fi]["body"] and q["funcs"][fi]["body"][0]["k"] == "expr" else 0,
                                                              Ex(Call(ex["n"], *[I(72) for _ in ex["params"]])))
            emit(q, "unsafe", "statement-level call of extern %s outside unsafe in main" % ex["n"])
            q = copy.deepcopy(p); q["funcs"][fi]["body"].append(Ex(Call(ex["n"], *[I(72) for _ in ex["params"]]))) if False else None
        # a local of this function used in main
        if fn["n"] != "main":
            mine = [s for lp, lst in lists for s in lst if s["k"] == "let"]
            main_i = [i for i, f in enumerate(p["funcs"]) if f["n"] == "main"]
            if mine and main_i:
                s = rnd.choice(mine)
                main_decl = {x["s"] for lp2, lst2 in _stmt_lists(p["funcs"][main_i[0]]) for x in lst2 if x["k"] == "let"}
                if s["s"] not in main_decl and s["s"] not in {g["n"] for g in p["globals"]} and s["s"] not in user_fns:
                    q = copy.deepcopy(p); q["funcs"][main_i[0]]["body"].insert(0, Let("zzq_other", s["t"], V(s["s"])))
                    emit(q, "scope", "local %s of %s used in main" % (s["s"], fn["n"]))
    # the same expression-level mutations inside shadow blocks: they are part of the program and subject to the same rules
    for k, sh in enumerate(p.get("shadows", [])):
        sites = []
        for si, st in enumerate(sh["b"]):
            for path, e in _paths_exprs(st, ("shadows", k, "b", si)):
                sites.append((path, e))
        cand = [(path, e) for path, e in sites if e["k"] == "call" and e["a"] and e["s"] not in ("println", "print")]
        for path, e in (rnd.sample(cand, 2) if len(cand) > 2 else cand):
            q = copy.deepcopy(p); n = _get(q, path)
            j = rnd.randrange(len(n["a"])); a = n["a"][j]
            n["a"][j] = I(7) if a["k"] in ("str", "slit", "ulit", "alit", "tlit", "bool") else S("zq")
            emit(q, "argtype", "argument %d of %s replaced by a value of another type in shadow block of %s" % (j, n["s"], sh["fn"]))
            q = copy.deepcopy(p); n = _get(q, path); n["a"].append(copy.deepcopy(n["a"][-1]))
            emit(q, "arity", "extra argument for %s in shadow block of %s" % (n["s"], sh["fn"]))
        vars_ = [(path, e) for path, e in sites if e["k"] == "var"]
        for path, e in (rnd.sample(vars_, 1) if len(vars_) > 1 else vars_):
            q = copy.deepcopy(p); _get(q, path)["s"] = "nosuch_qz"
            emit(q, "scope", "variable renamed to an unknown name in shadow block of %s" % sh["fn"])
        asserts = [si for si, st in enumerate(sh["b"]) if st["k"] == "assert"]
        for si in asserts[:1]:
            q = copy.deepcopy(p); q["shadows"][k]["b"][si]["a"][0] = I(1)
            emit(q, "cond", "condition of assert replaced by an int in shadow block of %s" % sh["fn"])
        lets = [si for si, st in enumerate(sh["b"]) if st["k"] == "let" and st["t"] in ("int", "bool", "string")]
        for si in lets[:1]:
            q = copy.deepcopy(p); st = q["shadows"][k]["b"][si]; st["a"][0] = I(7) if st["t"] != "int" else S("zq")
            emit(q, "lettype", "initialiser of let %s: %s replaced by a value of another type in shadow block of %s" % (st["s"], st["t"], sh["fn"]))
    return out
