"""Abstract syntax of the nanolang core language as used by NanoSem.tla:
builders, JSON form (uniform node shapes, see spec/NanoSem.tla) and the
pretty-printer to .nano source text (prefix or infix operator style).

Nothing here decides behaviour; the printer is the inverse of the parser that
property C07 is about, so it only uses the documented notation.
"""
from .common import int_to_limbs

L0 = [0, 0, 0, 0]


def E(k, s="", i=None, a=(), f=()):
    return {"k": k, "s": s, "i": list(i) if i is not None else L0, "a": list(a), "f": list(f)}


def I(n): return E("int", i=int_to_limbs(n))
def F(sixtyfourths):
    """float literal k/64 (exact in binary); carried as the integer k"""
    return E("float", "%.6f" % (sixtyfourths / 64.0) if sixtyfourths % 64 else "%d.0" % (sixtyfourths // 64), i=int_to_limbs(sixtyfourths))
def B(b): return E("bool", "true" if b else "false")
def S(s): return E("str", s)
def V(n): return E("var", n)
def Bin(op, l, r): return E("bin", op, a=[l, r])
def Un(op, e): return E("un", op, a=[e])
def Call(f, *args): return E("call", f, a=list(args))
def Field(e, n): return E("field", n, a=[e])
def TIdx(e, i): return E("tidx", i=[0, 0, 0, i], a=[e])
def SLit(name, fields): return E("slit", name, a=[v for _, v in fields], f=[k for k, _ in fields])
def ULit(full, fields): return E("ulit", full, a=[v for _, v in fields], f=[k for k, _ in fields])
def ALit(ty, elems): return E("alit", ty, a=list(elems))
def TLit(elems): return E("tlit", a=list(elems))
def IfX(c, t, e): return E("ifx", a=[c, t, e])
def Enum(full): return E("enum", full)


def St(k, s="", a=(), b=(), c=(), arms=(), t="", m=0):
    return {"k": k, "s": s, "a": list(a), "b": list(b), "c": list(c),
            "arms": [{"v": v, "bind": bd, "b": list(body)} for v, bd, body in arms], "t": t, "m": m}


def Let(n, ty, e, mut=False): return St("let", n, a=[e], t=ty, m=1 if mut else 0)
def Set(n, e): return St("set", n, a=[e])
def If(c, th, el=()): return St("if", a=[c], b=th, c=el)
def While(c, body): return St("while", a=[c], b=body)
def For(v, lo, hi, body): return St("for", v, a=[lo, hi], b=body)
def ForIn(v, arr, body): return St("forin", v, a=[arr], b=body)
def Break(): return St("break")
def Continue(): return St("continue")
def Ret(e=None): return St("ret", a=[e] if e is not None else [])
def Ex(e): return St("expr", a=[e])
def Assert(e): return St("assert", a=[e])
def Match(e, arms): return St("match", a=[e], arms=arms)
def Block(body): return St("block", b=body)
def Unsafe(body): return St("unsafe", b=body)
def Println(e): return Ex(Call("println", e))
def Print(e): return Ex(Call("print", e))


def Func(name, params, ret, body):
    """params: list of (name, type)"""
    return {"n": name, "params": [p for p, _ in params], "ptys": [t for _, t in params], "ret": ret, "body": list(body)}


def Extern(name, params, ret):
    return {"n": name, "params": [p for p, _ in params], "ptys": [t for _, t in params], "ret": ret}


def Program(funcs, structs=(), enums=(), unions=(), globals_=(), shadows=(), externs=(), resources=()):
    """structs: [(name, [(field, type)])]; enums: [(name, [(variant, value)])];
    unions: [(name, [(variant, [(field, type)])])]; globals_: [(name, type, mut, init)];
    shadows: [(fn, [stmts])]; resources: names of the structs declared `resource struct` (affine types,
    spec/NanoAffine.tla) - such an entry carries "res": True, every other entry is unchanged"""
    res = set(resources)
    return {
        "structs": [dict({"n": n, "fields": [f for f, _ in fs], "ftys": [t for _, t in fs]}, **({"res": True} if n in res else {}))
                    for n, fs in structs],
        "enums": [{"n": n, "variants": [{"n": v, "v": int_to_limbs(x)} for v, x in vs]} for n, vs in enums],
        "unions": [{"n": n, "variants": [{"n": v, "fields": [f for f, _ in fs], "ftys": [t for _, t in fs]}
                                         for v, fs in vs]} for n, vs in unions],
        "globals": [{"n": n, "t": t, "m": 1 if m else 0, "init": init} for n, t, m, init in globals_],
        "funcs": list(funcs),
        "shadows": [{"fn": f, "b": list(b)} for f, b in shadows],
        "externs": list(externs),
    }


# ------------------------------------------------------------------ printer
from .common import limbs_to_int


def _str_lit(s):
    out = ['"']
    for ch in s:
        if ch == '"': out.append('\\"')
        elif ch == "\\": out.append("\\\\")
        elif ch == "\n": out.append("\\n")
        elif ch == "\t": out.append("\\t")
        else: out.append(ch)
    out.append('"')
    return "".join(out)


def pe(e, style="prefix"):
    k = e["k"]
    if k == "int":
        n = limbs_to_int(e["i"])
        if n == -(1 << 63):
            return "(- -9223372036854775807 1)"
        return str(n)
    if k == "bool": return e["s"]
    if k == "float": return e["s"] if not e["s"].startswith("-") else "(- 0.0 %s)" % e["s"][1:]
    if k == "str": return _str_lit(e["s"])
    if k == "var": return e["s"]
    if k == "enum": return e["s"]
    if k == "bin":
        if style == "infix":
            return "(%s %s %s)" % (pe(e["a"][0], style), e["s"], pe(e["a"][1], style))
        return "(%s %s %s)" % (e["s"], pe(e["a"][0], style), pe(e["a"][1], style))
    if k == "un":
        return "(%s %s)" % (e["s"], pe(e["a"][0], style))
    if k == "call":
        return "(" + " ".join([e["s"]] + [pe(x, style) for x in e["a"]]) + ")"
    if k == "field":
        return "%s.%s" % (_postfix_base(e["a"][0], style), e["s"])
    if k == "tidx":
        return "%s.%d" % (_postfix_base(e["a"][0], style), e["i"][3])
    if k == "slit":
        return "%s { %s }" % (e["s"], ", ".join("%s: %s" % (f, pe(v, style)) for f, v in zip(e["f"], e["a"])))
    if k == "ulit":
        return "%s { %s }" % (e["s"], ", ".join("%s: %s" % (f, pe(v, style)) for f, v in zip(e["f"], e["a"])))
    if k == "alit":
        return "[" + ", ".join(pe(x, style) for x in e["a"]) + "]"
    if k == "tlit":
        return "(" + ", ".join(pe(x, style) for x in e["a"]) + ")"
    if k == "ifx":
        return "if %s { %s } else { %s }" % (pe(e["a"][0], style), pe(e["a"][1], style), pe(e["a"][2], style))   # SPECIFICATION 4.8
    raise ValueError(k)


def _postfix_base(e, style):
    if e["k"] in ("var", "field", "tidx"):
        return pe(e, style)
    return pe(e, style) if e["k"] in ("call", "bin", "un") else "(" + pe(e, style) + ")"


def ps(s, ind, style):
    pad = "    " * ind
    k = s["k"]

    def blk(b):
        return "{\n" + "".join(ps(x, ind + 1, style) for x in b) + pad + "}"
    if k == "let":
        return "%slet %s%s: %s = %s\n" % (pad, "mut " if s["m"] else "", s["s"], s["t"], pe(s["a"][0], style))
    if k == "set": return "%sset %s %s\n" % (pad, s["s"], pe(s["a"][0], style))
    if k == "expr": return "%s%s\n" % (pad, pe(s["a"][0], style))
    if k == "ret": return "%sreturn%s\n" % (pad, " " + pe(s["a"][0], style) if s["a"] else "")
    if k == "break": return pad + "break\n"
    if k == "continue": return pad + "continue\n"
    if k == "assert": return "%sassert %s\n" % (pad, pe(s["a"][0], style))
    if k == "if":
        r = "%sif %s %s" % (pad, pe(s["a"][0], style), blk(s["b"]))
        if s["c"]:
            r += " else " + blk(s["c"])
        return r + "\n"
    if k == "block": return pad + blk(s["b"]) + "\n"
    if k == "unsafe": return pad + "unsafe " + blk(s["b"]) + "\n"
    if k == "while": return "%swhile %s %s\n" % (pad, pe(s["a"][0], style), blk(s["b"]))
    if k == "for":
        return "%sfor %s in (range %s %s) %s\n" % (pad, s["s"], pe(s["a"][0], style), pe(s["a"][1], style), blk(s["b"]))
    if k == "forin":
        return "%sfor %s in %s %s\n" % (pad, s["s"], pe(s["a"][0], style), blk(s["b"]))
    if k == "match":
        arms = []
        for arm in s["arms"]:
            arms.append("%s    %s(%s) => %s" % (pad, arm["v"].split(".")[-1], arm["bind"],
                                                 "{\n" + "".join(ps(x, ind + 2, style) for x in arm["b"]) + pad + "    }"))
        return "%smatch %s {\n%s\n%s}\n" % (pad, pe(s["a"][0], style), ",\n".join(arms), pad)
    raise ValueError(k)


def pretty(p, style="prefix", default_shadows=True):
    out = []
    for ex in p.get("externs", []):
        out.append("extern fn %s(%s) -> %s\n" % (ex["n"], ", ".join("%s: %s" % (a, t) for a, t in zip(ex["params"], ex["ptys"])), ex["ret"]))
    late = set(p.get("late_structs", ()))          # structs with fields of union type are declared after the unions (the front end needs the order)
    for st in [x for x in p["structs"] if x["n"] not in late]:
        out.append("%sstruct %s {\n%s\n}\n" % ("resource " if st.get("res") else "", st["n"],
                                                 ",\n".join("    %s: %s" % (f, t) for f, t in zip(st["fields"], st["ftys"]))))
    for en in p["enums"]:
        out.append("enum %s {\n%s\n}\n" % (en["n"], ",\n".join("    %s = %d" % (v["n"], limbs_to_int(v["v"])) for v in en["variants"])))
    for un in p["unions"]:
        vs = []
        for v in un["variants"]:
            vs.append("    %s { %s }" % (v["n"], ", ".join("%s: %s" % (f, t) for f, t in zip(v["fields"], v["ftys"]))))
        out.append("union %s {\n%s\n}\n" % (un["n"], ",\n".join(vs)))
    for st in [x for x in p["structs"] if x["n"] in late]:
        out.append("struct %s {\n%s\n}\n" % (st["n"], ",\n".join("    %s: %s" % (f, t) for f, t in zip(st["fields"], st["ftys"]))))
    for g in p["globals"]:
        out.append("let %s%s: %s = %s\n" % ("mut " if g["m"] else "", g["n"], g["t"], pe(g["init"], style)))
    shadowed = {sh["fn"] for sh in p["shadows"]}
    for fn in p["funcs"]:
        out.append("fn %s(%s) -> %s {\n%s}\n" % (
            fn["n"], ", ".join("%s: %s" % (a, t) for a, t in zip(fn["params"], fn["ptys"])), fn["ret"],
            "".join(ps(x, 1, style) for x in fn["body"])))
        for sh in p["shadows"]:
            if sh["fn"] == fn["n"]:
                out.append("shadow %s {\n%s}\n" % (fn["n"], "".join(ps(x, 1, style) for x in sh["b"])))
        if default_shadows and fn["n"] not in shadowed:
            out.append("shadow %s {\n    assert true\n}\n" % fn["n"])
    return "\n".join(out)


def render_out(events):
    """Spec output events -> bytes the program must write to stdout."""
    out = []
    for ev in events:
        if ev["t"] == "int": s = str(limbs_to_int(ev["i"]))
        elif ev["t"] == "bool": s = "true" if ev["i"][3] == 1 else "false"
        elif ev["t"] == "str": s = ev["s"]
        elif ev["t"] == "void": s = "void"          # reachable only under a deviation switch (the evaluator's and the VM's text for the void value)
        else: s = "<%s>" % ev["t"]          # the text of void / composite values is not specified: runs printing them are never compared (sem_common.prescribe)
        out.append(s + ("\n" if ev["nl"] else ""))
    return "".join(out)


# ------------------------------------------------------------------ structured types (for NanoType.tla)
def parse_type(s, p):
    """type string -> record [k, n, a] as used by spec/NanoType.tla"""
    s = s.strip()
    T = lambda k, n="", a=(): {"k": k, "n": n, "a": list(a)}
    if s == "int": return T("int")
    if s == "bool": return T("bool")
    if s == "float": return T("float")
    if s == "string": return T("str")
    if s == "void": return T("void")
    if s.startswith("array<") and s.endswith(">"):
        return T("arr", "", [parse_type(s[6:-1], p)])
    if s.startswith("List<") and s.endswith(">"):          # dynamic lists (spec/NanoLib.tla, NanoTypeLib.tla: TList)
        return T("list", "", [parse_type(s[5:-1], p)])
    if s.startswith("HashMap<") and s.endswith(">"):
        return T("map", "", [parse_type(x, p) for x in _split_top(s[8:-1])])
    if s.startswith("fn("):
        depth, i = 0, 2
        for i in range(2, len(s)):
            if s[i] == "(": depth += 1
            elif s[i] == ")":
                depth -= 1
                if depth == 0: break
        params = _split_top(s[3:i])
        ret = s[i + 1:].strip()
        assert ret.startswith("->")
        return T("fn", "", [parse_type(x, p) for x in params] + [parse_type(ret[2:], p)])
    if s.startswith("(") and s.endswith(")"):
        return T("tuple", "", [parse_type(x, p) for x in _split_top(s[1:-1])])
    if any(st["n"] == s for st in p["structs"]): return T("struct", s)
    if any(u["n"] == s for u in p["unions"]): return T("union", s)
    if any(e["n"] == s for e in p["enums"]): return T("enum", s)
    return T("struct", s)          # unknown name: no such struct (rule `struct`)


def _split_top(s):
    out, depth, cur = [], 0, ""
    prev = ""
    for ch in s:
        if ch in "(<": depth += 1
        if ch in ")>" and not (ch == ">" and prev == "-"): depth -= 1          # the arrow of a function type is not a bracket
        prev = ch
        if ch == "," and depth == 0:
            out.append(cur); cur = ""
        else:
            cur += ch
    if cur.strip():
        out.append(cur)
    return out


def annotate_types(p):
    """add the structured type fields NanoType.tla reads (tyS, ptyS, retS, ftyS); returns p"""
    for st in p["structs"]:
        st["ftyS"] = [parse_type(t, p) for t in st["ftys"]]
    for u in p["unions"]:
        for v in u["variants"]:
            v["ftyS"] = [parse_type(t, p) for t in v["ftys"]]
    for g in p["globals"]:
        g["tyS"] = parse_type(g["t"], p)

    def walk(stmts):
        for s in stmts:
            s["tyS"] = parse_type(s["t"], p) if s["k"] == "let" else {"k": "void", "n": "", "a": []}
            walk(s["b"]); walk(s["c"])
            for arm in s["arms"]:
                walk(arm["b"])
    p.setdefault("externs", [])
    for f in p["externs"]:
        f["ptyS"] = [parse_type(t, p) for t in f["ptys"]]
        f["retS"] = parse_type(f["ret"], p)
    for f in p["funcs"]:
        f["ptyS"] = [parse_type(t, p) for t in f["ptys"]]
        f["retS"] = parse_type(f["ret"], p)
        walk(f["body"])
    for sh in p["shadows"]:
        walk(sh["b"])
    return p
