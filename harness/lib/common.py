"""Common infrastructure for the nanolang verification checks.

Everything here is glue: scratch directories, builds of /repo's working tree,
TLC invocation, evidence files, known-findings bookkeeping.  No oracle lives
in this file: expected behaviour always comes out of TLC (see DESIGN.md).
"""
import atexit
import glob
import hashlib
import json
import os
import re
import shutil
import signal
import subprocess
import sys
import time

VERIF = os.path.dirname(os.path.dirname(os.path.dirname(os.path.abspath(__file__))))
REPO = os.environ.get("VERIF_REPO", "/repo")
SPEC = os.path.join(VERIF, "spec")
PROBES = os.path.join(VERIF, "probes")
STANDINS = os.path.join(VERIF, "standins")
# evidence describes runs against /repo itself; a developer run against another tree (VERIF_REPO) keeps its evidence apart
EVIDENCE = os.path.join(VERIF, "evidence") if REPO == "/repo" else os.environ.get("VERIF_EVIDENCE", "/var/tmp/nlverif.evidence.other")
OUT = os.path.join(VERIF, "out")          # replay artifacts (git-ignored)
GUARD = "NANOLANG_VERIF"
NCPU = int(os.environ.get("VERIF_JOBS", os.cpu_count() or 4))

BASE_CFLAGS = "-Wall -Wextra -std=c99 -g -Isrc -D_GNU_SOURCE"   # repo CFLAGS minus -Werror
VARIANTS = {
    "plain": dict(cflags=BASE_CFLAGS + " -D" + GUARD, ldflags=""),
    "nohook": dict(cflags=BASE_CFLAGS, ldflags=""),
    "asan": dict(cflags=BASE_CFLAGS + " -D" + GUARD +
                 " -fsanitize=address,undefined -fno-omit-frame-pointer -fno-sanitize-recover=undefined",
                 ldflags="-fsanitize=address,undefined"),
    "tsan": dict(cflags=BASE_CFLAGS + " -D" + GUARD + " -fsanitize=thread -fno-omit-frame-pointer",
                 ldflags="-fsanitize=thread"),
}


def log(*a):
    print("[verif]", *a, file=sys.stderr, flush=True)


class InfraError(Exception):
    """The machinery itself failed (build, TLC crash ...): never a VIOLATION."""


def sh(cmd, cwd=None, env=None, timeout=600, check=True, input=None, binary=False):
    e = dict(os.environ)
    if env:
        e.update(env)
    p = subprocess.run(cmd, cwd=cwd, env=e, timeout=timeout, input=input,
                       stdout=subprocess.PIPE, stderr=subprocess.PIPE,
                       shell=isinstance(cmd, str))
    if check and p.returncode != 0:
        raise InfraError("command failed (%d): %s\n%s\n%s" % (
            p.returncode, cmd if isinstance(cmd, str) else " ".join(cmd),
            p.stdout.decode(errors="replace")[-3000:], p.stderr.decode(errors="replace")[-3000:]))
    if binary:
        return p
    p.stdout = p.stdout.decode(errors="replace")
    p.stderr = p.stderr.decode(errors="replace")
    return p


class Ctx:
    """One check invocation: scratch dir, builds, evidence, verdicts."""

    def __init__(self, prop, tier="quick", seed=None, keep=False):
        self.prop = prop
        self.tier = tier
        self.seed = int(seed if seed is not None else os.environ.get("VERIF_SEED", "1"))
        base = os.environ.get("VERIF_SCRATCH", "/var/tmp")
        self.scratch = os.path.join(base, "nlverif.%s.%d" % (prop, os.getpid()))
        shutil.rmtree(self.scratch, ignore_errors=True)
        os.makedirs(self.scratch)
        self.tmp = os.path.join(self.scratch, "tmp")
        os.makedirs(self.tmp)
        self.keep = keep or bool(os.environ.get("VERIF_KEEP"))
        self.t0 = time.time()
        self._builds = {}
        self.violations = []      # list of dict(what, replay)
        self.known_hits = {}      # finding id -> text
        self.coverage = {}
        self.assumptions = []
        self.tlc_runs = []
        atexit.register(self.cleanup)
        for s in (signal.SIGTERM, signal.SIGINT):
            signal.signal(s, lambda *_: sys.exit(3))

    # ------------------------------------------------------------------ fs
    def cleanup(self):
        if not self.keep:
            shutil.rmtree(self.scratch, ignore_errors=True)

    def dir(self, name):
        d = os.path.join(self.scratch, name)
        os.makedirs(d, exist_ok=True)
        return d

    def save_replay(self, name, content=None, src=None):
        """Persist a replay artifact under /verif/out/<prop>/ and return its path."""
        d = os.path.join(OUT, self.prop)
        os.makedirs(d, exist_ok=True)
        path = os.path.join(d, name)
        if src is not None:
            if os.path.isdir(src):
                shutil.rmtree(path, ignore_errors=True)
                shutil.copytree(src, path)
            else:
                shutil.copy(src, path)
        else:
            mode = "wb" if isinstance(content, bytes) else "w"
            with open(path, mode) as f:
                f.write(content)
        return path

    # --------------------------------------------------------------- builds
    def env(self, extra=None):
        e = {"TMPDIR": self.tmp, "ASAN_OPTIONS": "detect_leaks=0:abort_on_error=1",
             "UBSAN_OPTIONS": "halt_on_error=1:abort_on_error=1:print_stacktrace=1"}
        if extra:
            e.update(extra)
        return e

    def build(self, variant="plain", targets=("nano_virt", "nano_vm", "nano_cop", "nano_vmd"), nanoc=False):
        """rsync /repo's working tree into the scratch dir and build it there."""
        key = variant
        tree = os.path.join(self.scratch, "src." + variant)
        if key not in self._builds:
            t = time.time()
            sh(["rsync", "-a", "--exclude", ".git", "--exclude", "/obj", "--exclude", "/bin",
                "--exclude", "/build", REPO + "/", tree + "/"])
            os.makedirs(os.path.join(tree, "bin"), exist_ok=True)
            self._builds[key] = dict(tree=tree, targets=set())
            log("copied tree for", variant, "%.1fs" % (time.time() - t))
        b = self._builds[key]
        want = list(targets) + (["bin/nanoc_c"] if nanoc else [])
        need = [x for x in want if x not in b["targets"]]
        if need:
            t = time.time()
            v = VARIANTS[variant]
            cmd = ["make", "-f", "Makefile.gnu", "-j%d" % NCPU] + need + [
                "CFLAGS=" + v["cflags"], "LDFLAGS=-lm -rdynamic " + v["ldflags"]]
            p = sh(cmd, cwd=tree, env=self.env(), timeout=900, check=False)
            if p.returncode != 0:
                raise InfraError("build failed (%s):\n%s\n%s" % (variant, p.stdout[-2000:], p.stderr[-4000:]))
            b["targets"].update(need)
            log("built", variant, need, "%.1fs" % (time.time() - t))
        return tree

    def objects(self, tree, with_vmd=False):
        objs = []
        for o in sorted(glob.glob(os.path.join(tree, "obj", "**", "*.o"), recursive=True)):
            rel = os.path.relpath(o, os.path.join(tree, "obj"))
            if rel in ("main.o", "nanovm/main.o", "nanovm/vmd_main.o", "nanovm/cop_main.o", "nanovirt/main.o"):
                continue
            if rel.startswith(("build_bootstrap", "nano_modules")):
                continue
            if not with_vmd and rel in ("nanovm/vmd_server.o", "nanovm/vmd_client.o", "nanovm/vmd_protocol.o"):
                continue
            objs.append(o)
        return objs

    def probe(self, name, variant="plain", extra_src=(), with_vmd=False, libs=()):
        """Compile /verif/probes/<name>.c against the objects built from /repo."""
        tree = self.build(variant)
        out = os.path.join(tree, "bin", name)
        if os.path.exists(out):
            return out
        v = VARIANTS[variant]
        cmd = ["cc"] + v["cflags"].replace("-std=c99", "-std=gnu99").split() + ["-Wno-unused-parameter",
               "-I" + os.path.join(tree, "src"), "-I" + PROBES, "-o", out,
               os.path.join(PROBES, name + ".c")] + list(extra_src) + self.objects(tree, with_vmd) + \
              ["-lm", "-rdynamic", "-lpthread"] + v["ldflags"].split() + list(libs)
        sh(cmd, cwd=tree, timeout=300)
        return out

    # ------------------------------------------------------------- verdicts
    def violation(self, what, replay):
        self.violations.append(dict(what=what, replay=replay))
        print("VIOLATION property=%s replay=%s" % (self.prop, replay), flush=True)
        log("violation:", what)

    def known(self, fid, text):
        if fid not in self.known_hits:
            self.known_hits[fid] = text
            print("KNOWN-FINDING: property=%s %s: %s" % (self.prop, fid, text), flush=True)

    def _validate_evidence(self, path):
        """validate the evidence file against the published schema (tooling venv has jsonschema)"""
        schema = "/root/.vp/EVIDENCE.schema.json"
        if not (os.path.exists(schema) and shutil.which("python3-vt")):
            return
        code = ("import json,jsonschema,sys\n"
                "jsonschema.validate(json.load(open(sys.argv[1])), json.load(open(sys.argv[2])))")
        p = subprocess.run(["python3-vt", "-c", code, path, schema], stdout=subprocess.PIPE, stderr=subprocess.PIPE)
        if p.returncode != 0:
            raise InfraError("evidence file does not validate: " + p.stderr.decode(errors="replace")[-600:])

    def finish(self, level, coverage, assumptions=()):
        cov = dict(coverage)
        if self.tlc_runs:
            cov.setdefault("tlc_runs", self.tlc_runs)
        cov.setdefault("known_findings_hit", sorted(self.known_hits))
        ev = dict(property_id=self.prop, tier=self.tier, seed=self.seed, level=level,
                  coverage=cov, assumptions=list(assumptions) + self.assumptions,
                  wall_s=round(time.time() - self.t0, 2), violations=len(self.violations))
        os.makedirs(EVIDENCE, exist_ok=True)
        with open(os.path.join(EVIDENCE, self.prop + ".json"), "w") as f:
            json.dump(ev, f, indent=1, sort_keys=True, default=str)
            f.write("\n")
        self._validate_evidence(os.path.join(EVIDENCE, self.prop + ".json"))
        log("done", self.prop, "violations=%d" % len(self.violations), "wall=%.1fs" % ev["wall_s"])
        return 1 if self.violations else 0


# ---------------------------------------------------------------------- TLC
TLC_JAR = "/opt/veriftools/tla/tla2tools.jar:/opt/veriftools/tla/CommunityModules-deps.jar"


class TlcResult:
    def __init__(self):
        self.rc = None
        self.out = ""
        self.generated = 0
        self.distinct = 0
        self.depth = 0
        self.violated = None       # name of violated invariant/property, or None
        self.trace = []            # list of state texts of the counterexample
        self.records = []          # JSON records printed by the spec ("@@J " prefix)
        self.coverage = {}         # action -> [taken, generated]
        self.wall = 0.0


def tlc(ctx, module, cfg=None, workers=None, timeout=600, xss="256m", xmx="12g", env=None,
        simulate=None, depth=None, extra=(), constants=None, deadlock=False, coverage=False,
        dfs_queue=False, cwd_files=()):
    """Run TLC on spec/<module>.tla with spec/<cfg>.cfg in a private work dir.

    constants: dict name -> TLA+ text; written to a generated cfg that copies the given cfg
    and appends CONSTANT lines (so that values extracted from the code reach the model).
    Returns TlcResult; raises InfraError when TLC itself failed (parse error, crash).
    A property violation is *not* an exception: r.violated names it.
    """
    work = ctx.dir("tlc.%s.%d" % (cfg or module, len(ctx.tlc_runs)))
    for f in glob.glob(os.path.join(SPEC, "*.tla")):
        shutil.copy(f, work)
    for f in cwd_files:
        shutil.copy(f, work)
    cfgname = cfg or module
    src_cfg = os.path.join(SPEC, cfgname + ".cfg")
    text = open(src_cfg).read() if os.path.exists(src_cfg) else ""
    if constants:
        text += "\nCONSTANTS\n" + "".join("  %s = %s\n" % (k, v) for k, v in constants.items())
    with open(os.path.join(work, "run.cfg"), "w") as f:
        f.write(text)
    w = workers or NCPU
    jopts = "-Xss%s -Xmx%s -XX:+UseParallelGC -Djava.io.tmpdir=%s" % (xss, xmx, ctx.tmp)
    if dfs_queue:
        jopts += " -Dtlc2.tool.queue.IStateQueue=StateDeque"
    cmd = ["java"] + jopts.split() + ["-cp", TLC_JAR, "tlc2.TLC", "-workers", str(w),
           "-metadir", os.path.join(work, "meta"), "-config", "run.cfg", "-noGenerateSpecTE"]
    if not deadlock:
        cmd.append("-deadlock")     # -deadlock switches deadlock checking OFF
    if coverage:
        cmd += ["-coverage", "1"]
    if simulate:
        cmd += ["-simulate", "num=%d" % simulate]
        if depth:
            cmd += ["-depth", str(depth)]
        cmd += ["-seed", str(ctx.seed)]
    cmd += list(extra) + [module + ".tla"]
    e = dict(os.environ)
    e.update(ctx.env(env))
    e.pop("JAVA_TOOL_OPTIONS", None)
    t = time.time()
    try:
        p = subprocess.run(cmd, cwd=work, env=e, timeout=timeout, stdout=subprocess.PIPE, stderr=subprocess.STDOUT)
    except subprocess.TimeoutExpired as ex:
        raise InfraError("TLC timed out after %ds: %s %s" % (timeout, module, cfgname))
    r = TlcResult()
    r.wall = time.time() - t
    r.rc = p.returncode
    r.out = p.stdout.decode(errors="replace")
    r.work = work
    for line in r.out.splitlines():
        if line.startswith("@@J "):
            try:
                r.records.append(json.loads(line[4:]))
            except ValueError:
                pass
        elif line.startswith('"@@J '):       # PrintT of a string prints the quotes
            try:
                r.records.append(json.loads(json.loads(line)[4:]))
            except ValueError:
                pass
    m = re.findall(r"(\d+) states generated, (\d+) distinct states found", r.out)
    if m:
        r.generated, r.distinct = int(m[-1][0]), int(m[-1][1])
    m = re.search(r"The depth of the complete state graph search is (\d+)", r.out)
    if m:
        r.depth = int(m.group(1))
    m = re.search(r"Invariant (\S+) is violated", r.out)
    if m:
        r.violated = m.group(1)
    elif re.search(r"Temporal properties were violated|Action property .* is violated", r.out):
        mm = re.search(r"Action property (\S+) is violated", r.out)
        r.violated = mm.group(1) if mm else "temporal"
    elif "Deadlock reached" in r.out:
        r.violated = "Deadlock"
    elif re.search(r"Assumption .* is false", r.out):
        r.violated = "ASSUME"
    elif re.search(r"The postcondition .*is false|Error: The postcondition", r.out, re.I):
        r.violated = "POSTCONDITION"
    if r.violated:
        r.trace = re.findall(r"(State \d+:.*?)(?=\nState \d+:|\n\d+ states generated|\nThe number of states|\Z)", r.out, re.S)
    for mm in re.finditer(r"<(\w+) line \d+, col \d+ to line \d+, col \d+ of module (\w+)>: (\d+):(\d+)", r.out):
        r.coverage[mm.group(1)] = [int(mm.group(3)), int(mm.group(4))]
    ok_rcs = (0, 10, 11, 12, 13)
    if r.rc not in ok_rcs and not r.violated:
        raise InfraError("TLC failed rc=%s on %s/%s:\n%s" % (r.rc, module, cfgname, r.out[-4000:]))
    if r.rc == 0 and "Model checking completed. No error has been found" not in r.out and not simulate \
            and "Finished computing initial states" not in r.out:
        pass
    ctx.tlc_runs.append(dict(module=module, cfg=cfgname, generated=r.generated, distinct=r.distinct,
                             depth=r.depth, wall_s=round(r.wall, 1), violated=r.violated,
                             mode="simulate" if simulate else "bfs",
                             actions={k: v for k, v in list(r.coverage.items())[:60]}))
    log("tlc %s/%s: %d generated, %d distinct, %.1fs%s" % (module, cfgname, r.generated, r.distinct, r.wall,
                                                            " VIOLATED " + r.violated if r.violated else ""))
    return r


# --------------------------------------------------------------- TLA+ values
def tla(v):
    """Python value -> TLA+ expression text (for generated constants / modules)."""
    if isinstance(v, bool):
        return "TRUE" if v else "FALSE"
    if isinstance(v, int):
        return str(v)
    if isinstance(v, str):
        return '"' + v.replace("\\", "\\\\").replace('"', '\\"') + '"'
    if isinstance(v, (list, tuple)):
        return "<<" + ", ".join(tla(x) for x in v) + ">>"
    if isinstance(v, (set, frozenset)):
        return "{" + ", ".join(tla(x) for x in sorted(v, key=repr)) + "}"
    if isinstance(v, dict):
        if not v:
            return "<<>>"
        if all(isinstance(k, str) for k in v):
            return "[" + ", ".join("%s |-> %s" % (k, tla(x)) for k, x in v.items()) + "]"
        return "(" + " @@ ".join("(%s :> %s)" % (tla(k), tla(x)) for k, x in v.items()) + ")"
    raise TypeError(type(v))


def write_module(path, name, body, extends=("Integers", "Sequences")):
    with open(path, "w") as f:
        f.write("---- MODULE %s ----\nEXTENDS %s\n%s\n====\n" % (name, ", ".join(extends), body))


# ---------------------------------------------------------- known findings
def load_findings():
    out = []
    p = os.path.join(VERIF, "known_findings.json")
    if os.path.exists(p):
        out += json.load(open(p)).get("findings", [])
    for q in sorted(glob.glob(os.path.join(VERIF, "known_findings.d", "*.json"))):
        out += json.load(open(q)).get("findings", [])
    return out


def findings_for(prop):
    return [f for f in load_findings() if prop in f.get("properties", [f.get("property")])
            and f.get("status", "known") == "known"]


def sha(b):
    if isinstance(b, str):
        b = b.encode()
    return hashlib.sha256(b).hexdigest()[:16]


def limbs_to_int(l):
    """four 16-bit limbs (most significant first) -> signed 64-bit Python int"""
    u = (l[0] << 48) | (l[1] << 32) | (l[2] << 16) | l[3]
    return u - (1 << 64) if u >= (1 << 63) else u


def int_to_limbs(v):
    u = v & ((1 << 64) - 1)
    return [(u >> 48) & 0xFFFF, (u >> 32) & 0xFFFF, (u >> 16) & 0xFFFF, u & 0xFFFF]


def parallel_map(fn, items, jobs=None):
    from concurrent.futures import ThreadPoolExecutor
    with ThreadPoolExecutor(max_workers=jobs or NCPU) as ex:
        return list(ex.map(fn, items))
