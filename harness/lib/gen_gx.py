"""Feature extensions of the seeded program generator (lib/gen_prog.py): a wider universe of types and idioms.

Every feature is off by default; with all of them off Gen draws exactly the random numbers it drew before (the hooks in
gen_prog.py test `self.gx` before any draw).  A feature adds declarations (structs / unions / enums / helper functions /
globals) and *idioms*: small statement groups around one construct, placed by the base generator wherever it places a
statement (inside loops, match arms, functions with early returns ...), so that constructs meet in combinations.
As everywhere in this generator: the programs are only proposed; NanoType / NanoSem (TLC) decide whether a program is
well typed, what it prints and whether its run is inside defined behaviour.
"""
from .nano_ast import *

GX_FEATURES = ("unions2", "nested", "strings", "lists", "lib", "ctrl", "globals", "recursion", "enums2", "wide")

AAI, AP, AB, ATP, AMSG, ACOL = "array<array<int>>", "array<Point>", "array<bool>", "array<(int, string)>", "array<Msg>", "array<Color>"
LI, LS = "List<int>", "List<string>"


class _Pure:
    def __init__(self, g): self.g = g
    def __enter__(self):
        self.saved = self.g.impure_ok; self.g.impure_ok = False
    def __exit__(self, *a):
        self.g.impure_ok = self.saved


class GxCore:
    """state, types, literals and expressions of the added types"""

    def gx_init(self):
        f = self.feat
        self.gx = [x for x in GX_FEATURES if f.get(x)]
        self.gx_types = set()
        self.gx_helpers = []          # helper functions the features need: emitted by program()
        self.gx_rate = 0.0
        if not self.gx:
            return
        r = self.r
        self.gx_rate = 0.30 if len(self.gx) == 1 else 0.42
        self.gx_avoid = set(f.get("avoid", ()))          # names of idiom variants not to generate (shapes of listed findings)
        if f.get("unions2"):
            self.unions = self.unions + [
                ("Msg", [("Quit", []), ("Move", [("x", "int"), ("y", "int")]), ("Write", [("tag", "string")]),
                         ("Rgb", [("r", "int"), ("g", "int"), ("b", "int")])]),
                ("Res", [("Ok", [("v", "int"), ("tag", "string")]), ("Bad", [("tag", "string"), ("code", "int"), ("ok", "bool")]),
                         ("Pt", [("p", "Point")])])]
            self.structs = self.structs + [("Holder", [("m", "Msg"), ("n", "int"), ("s", "Shape")])]
            self.gx_types |= {"Msg", "Res", "Holder", AMSG}
        if f.get("nested"):
            self.structs = self.structs + [("Deep", [("pts", "array<int>"), ("inner", "Rec"), ("n", "int")]),
                                           ("Deeper", [("d", "Deep"), ("name", "string"), ("ps", AP)])]
            self.gx_tupfield = r.random() < 0.12 and "tuple_field" not in self.gx_avoid
            if self.gx_tupfield:
                self.structs = self.structs + [("TupHolder", [("k", "int"), ("pr", "(int, string)")])]
                self.gx_types.add("TupHolder")
            self.gx_types |= {"Deep", "Deeper", AAI, AP, AB}
            if "nested_tuple_array" not in self.gx_avoid:
                self.gx_types.add(ATP)
        if f.get("enums2"):
            self.enums = self.enums + [("Lvl", [("Low", 10), ("Mid", 20), ("High", 35)])]
            self.structs = self.structs + [("Px", [("c", "Color"), ("l", "Lvl"), ("n", "int")])]
            self.gx_types |= {"Lvl", "Px"} | (set() if "enum_array" in self.gx_avoid else {ACOL})
        if f.get("lists"):
            self.gx_types |= {LI, LS}

    def pure(self):
        return _Pure(self)

    def pint(self, sc, d=1):
        with self.pure():
            return self.expr("int", sc, d)

    def pstr(self, sc, d=1):
        with self.pure():
            return self.expr("string", sc, d)

    def pbool(self, sc, d=1):
        with self.pure():
            return self.expr("bool", sc, d)

    def vars_of(self, sc, ty, mutable=None):
        return [v for v in sc.all() if v[1] == ty and (mutable is None or v[2] == mutable)
                and (self.impure_ok or v[0] not in self.mut_globals)]

    def declare(self, sc, prefix, ty, init, mut=False):
        """let <fresh>: ty = init, registered in the scope; -> (name, statement)"""
        n = self.fresh(prefix)
        sc.vars.append((n, ty, mut))
        return n, Let(n, ty, init, mut)

    def variants(self, uname):
        return [u for u in self.unions if u[0] == uname][0][1]

    def struct_fields(self, sname):
        return [s for s in self.structs if s[0] == sname][0][1]

    # ------------------------------------------------------------------ literals / expressions of the added types
    def gx_lit(self, ty, sc, d):
        r = self.r
        e = lambda t: self.expr(t, sc, d - 1)
        if ty in ("Msg", "Res"):
            vn, fs = r.choice(self.variants(ty))
            vals = self.multi(*[(lambda t=t: self.expr(t, sc, d - 1)) for _, t in fs]) if fs else []
            return ULit("%s.%s" % (ty, vn), list(zip([f for f, _ in fs], vals)))
        if ty in ("Holder", "Deep", "Deeper", "Px", "TupHolder"):
            fs = self.struct_fields(ty)
            vals = self.multi(*[(lambda t=t: self.expr(t, sc, d - 1)) for _, t in fs])
            return SLit(ty, list(zip([f for f, _ in fs], vals)))
        if ty == "Lvl":
            return Enum("Lvl." + r.choice(["Low", "Mid", "High"]))
        if ty.startswith("array<"):
            et = ty[6:-1]
            n = r.randint(1, 3)
            if (ty == AP and "struct_array_literal" in self.gx_avoid) or (ty == AAI and "matrix_literal" in self.gx_avoid) or \
                    (ty == ACOL and "enum_array_literal" in self.gx_avoid) or (ty == AMSG and "unions2_array_of_unions" in self.gx_avoid):
                return ALit(et, [])          # the empty literal only: elements come by array_push
            return ALit(et, self.multi(*[(lambda: self.expr(et, sc, d - 1)) for _ in range(n)]))
        if ty == LI: return Call("list_int_new")
        if ty == LS: return Call("list_string_new")
        raise ValueError(ty)

    def gx_expr(self, ty, sc, d):
        r = self.r
        vs = self.vars_of(sc, ty)
        if ty in (LI, LS):                      # lists are references with a life time: only existing ones are handed on
            return V(r.choice(vs)[0]) if vs else self.gx_lit(ty, sc, d)
        if vs and (d <= 0 or r.random() < 0.55):
            return V(r.choice(vs)[0])
        if ty == "Msg" and self.impure_ok and d > 0 and r.random() < 0.3 and "gx_mkmsg" in self.gx_helper_names():
            return Call("gx_mkmsg", I(r.randint(0, 4)))
        if ty == AP and self.impure_ok and d > 0 and r.random() < 0.5 and "gx_pts" in self.gx_helper_names():
            return Call("gx_pts", I(r.randint(0, 4)))
        if ty == AAI and self.impure_ok and d > 0 and r.random() < 0.5 and "gx_matrix" in self.gx_helper_names():
            return Call("gx_matrix", I(r.randint(0, 3)), I(r.randint(1, 3)))
        if ty == "Deeper" and self.impure_ok and d > 0 and r.random() < 0.5 and "gx_deep" in self.gx_helper_names():
            return Call("gx_deep", I(r.randint(0, 3)))
        return self.gx_lit(ty, sc, max(d, 1))

    def gx_helper_names(self):
        return {f["n"] for f in self.gx_helpers}

    def gx_scalar(self, ty, sc, d):
        """an int / bool / string expression that reads one of the added kinds of value (or None)"""
        r = self.r
        f = self.feat
        opts = []
        if ty == "int":
            if f.get("nested"):
                for v in self.vars_of(sc, "Deeper"): opts.append(lambda v=v: Field(Field(Field(Field(V(v[0]), "d"), "inner"), "p"), r.choice(["x", "y"])))
                for v in self.vars_of(sc, "Deep"): opts.append(lambda v=v: r.choice([Field(V(v[0]), "n"), Call("array_length", Field(V(v[0]), "pts")), Field(Field(Field(V(v[0]), "inner"), "p"), "x")]))
                for v in self.vars_of(sc, AP) + self.vars_of(sc, AAI): opts.append(lambda v=v: Call("array_length", V(v[0])))
            if f.get("unions2"):
                for v in self.vars_of(sc, "Holder"): opts.append(lambda v=v: Field(V(v[0]), "n"))
            if f.get("enums2"):
                opts.append(lambda: Bin("+", Enum("Lvl." + r.choice(["Low", "Mid", "High"])), I(0)))
                opts.append(lambda: Bin(r.choice(["+", "-", "*", "%"]), Enum(r.choice(["Color.Blue", "Lvl.High", "Lvl.Mid"])), I(r.randint(1, 7))))
                for v in self.vars_of(sc, "Px"): opts.append(lambda v=v: r.choice([Field(V(v[0]), "n"), Bin("*", Field(V(v[0]), r.choice(["c", "l"])), I(r.randint(1, 3)))]))
                for v in self.vars_of(sc, "Lvl") + self.vars_of(sc, "Color"): opts.append(lambda v=v: Bin("+", V(v[0]), I(r.randint(0, 3))))
            if f.get("strings"):
                opts.append(lambda: Call("str_length", self.expr("string", sc, d - 1)))
            if f.get("lib"):
                opts.append(lambda: Call(r.choice(["char_to_upper", "char_to_lower", "digit_value"]), I(r.choice([48, 57, 65, 90, 97, 122, 32, 0, 200, -1, 64, 91]))))
                opts.append(lambda: Call("cast_int", r.choice([B(True), B(False), S("12"), S("-7"), S("0"), I(r.randint(-5, 99))])))
            if f.get("lists"):
                for v in self.vars_of(sc, LI): opts.append(lambda v=v: Call("list_int_length", V(v[0])))
                for v in self.vars_of(sc, LS): opts.append(lambda v=v: Call("list_string_length", V(v[0])))
        elif ty == "bool":
            if f.get("enums2"):
                opts.append(lambda: Bin(r.choice(["<", "<=", ">", ">=", "==", "!="]), Enum("Lvl." + r.choice(["Low", "Mid", "High"])), Enum("Lvl." + r.choice(["Low", "Mid", "High"]))))
                for v in self.vars_of(sc, "Color"): opts.append(lambda v=v: Bin(r.choice(["<", ">=", "=="]), V(v[0]), Enum("Color." + r.choice(["Red", "Green", "Blue"]))))
            if f.get("lib"):
                opts.append(lambda: Call(r.choice(["is_digit", "is_alpha", "is_alnum", "is_whitespace", "is_upper", "is_lower"]), I(r.choice([48, 57, 65, 90, 97, 122, 32, 9, 10, 0, 47, 58, 127, 128, 255, 256, -1]))))
                opts.append(lambda: Call("cast_bool", r.choice([I(0), I(1), I(-3), S(""), S("x"), B(True)])))
            if f.get("strings"):
                opts.append(lambda: Call("str_equals", *self.multi(lambda: self.expr("string", sc, d - 1), lambda: self.expr("string", sc, d - 1))))
            if f.get("lists"):
                for v in self.vars_of(sc, LI): opts.append(lambda v=v: Call("list_int_is_empty", V(v[0])))
        elif ty == "string":
            if f.get("nested"):
                for v in self.vars_of(sc, "Deeper"): opts.append(lambda v=v: r.choice([Field(V(v[0]), "name"), Field(Field(Field(V(v[0]), "d"), "inner"), "tag")]))
            if f.get("strings"):
                opts.append(lambda: S(r.choice(["a\tb", "l1\nl2", "q\"q", "b\\s", "", " ", "\\n", "tab\t", "\"", "x\\\\y"])))
                opts.append(lambda: Call("str_concat", *self.multi(lambda: self.expr("string", sc, d - 1), lambda: self.expr("string", sc, d - 1))))
                opts.append(lambda: Call("string_from_char", I(r.choice([32, 48, 65, 97, 126, 34, 92, 35, 59]))))
            if f.get("lib"):
                opts.append(lambda: Call(r.choice(["cast_string", "to_string"]), r.choice([I(r.randint(-9, 99)), B(True), B(False), S("s"), I(2 ** 40)])))
            if f.get("enums2") and "enum_to_string" not in self.gx_avoid:
                opts.append(lambda: Call("int_to_string", Enum(r.choice(["Color.Blue", "Lvl.Mid", "Color.Red"]))))
        if f.get("ctrl") and d > 0 and "if_expression" not in self.gx_avoid:       # SPECIFICATION 4.8: if as an expression
            opts.append(lambda: IfX(self.pbool(sc, 1), self.expr(ty, sc, d - 1), self.expr(ty, sc, d - 1)))
        if not opts:
            return None
        return r.choice(opts)()


def _prints(*es):
    return [Println(e) for e in es]


class GxIdioms:
    """statement idioms; every method ix_<feature>_<name>(sc, depth, inloop, ret) returns a list of statements or None"""

    def gx_stmt(self, sc, depth, inloop, ret):
        r = self.r
        feat = r.choice(self.gx)
        names = sorted(n for n in dir(self) if n.startswith("ix_%s_" % feat) and n[3:] not in self.gx_avoid)
        if not names:
            return None
        for _ in range(3):
            out = getattr(self, r.choice(names))(sc, depth, inloop, ret)
            if out:
                return out
        return None

    def show(self, e, ty, sc):
        """statements that print the printable leaves of the value of the (pure, duplicable) expression e"""
        if ty in ("int", "bool", "string", "Color", "Lvl"):
            return [Println(e)]
        if ty == "Point":
            return _prints(Field(e, "x"), Field(e, "y"))
        if ty == "Rec":
            return _prints(Field(e, "tag"), Field(Field(e, "p"), "y"), Field(e, "ok"))
        if ty == "(int, string)":
            return _prints(TIdx(e, 0), TIdx(e, 1))
        if ty in ("array<int>", "array<string>", AB) and e["k"] == "var" and "for_in_array" not in self.gx_avoid and self.r.random() < 0.3:
            x = self.fresh("e")
            return [Println(Call("array_length", e)), ForIn(x, e, [Println(V(x))])]
        if ty in ("array<int>", "array<string>", AB, ACOL):
            n = self.fresh("n")
            i = self.fresh("i")
            return [Let(n, "int", Call("array_length", e)), Println(V(n)), For(i, I(0), V(n), [Println(Call("at", e, V(i)))])]
        if ty == AP:
            i, p = self.fresh("i"), self.fresh("q")
            return [For(i, I(0), Call("array_length", e), [Let(p, "Point", Call("at", e, V(i))), Println(Field(V(p), "x")), Println(Field(V(p), "y"))])]
        if ty == AAI:
            i, j, row = self.fresh("i"), self.fresh("j"), self.fresh("row")
            return [Println(Call("array_length", e)),
                    For(i, I(0), Call("array_length", e), [Let(row, "array<int>", Call("at", e, V(i))),
                                                            For(j, I(0), Call("array_length", V(row)), [Println(Call("at", V(row), V(j)))])])]
        if ty == "Deep":
            return _prints(Field(e, "n"), Call("array_length", Field(e, "pts")), Field(Field(e, "inner"), "tag"), Field(Field(Field(e, "inner"), "p"), "x"))
        if ty == "Deeper":
            return _prints(Field(e, "name"), Field(Field(e, "d"), "n"), Field(Field(Field(Field(e, "d"), "inner"), "p"), "y"),
                           Call("array_length", Field(e, "ps")), Call("array_length", Field(Field(e, "d"), "pts")))
        if ty == "Px":
            return _prints(Field(e, "c"), Field(e, "l"), Field(e, "n"))
        if ty in ("Msg", "Res", "Shape"):
            return [self.match_show(e, ty, sc)]
        if ty == "Holder":
            return [Println(Field(e, "n")), self.match_show(Field(e, "m"), "Msg", sc), self.match_show(Field(e, "s"), "Shape", sc)]
        if ty == "TupHolder":
            return _prints(Field(e, "k"), TIdx(Field(e, "pr"), 0), TIdx(Field(e, "pr"), 1))
        return [Println(S("<" + ty + ">"))]

    def match_show(self, e, uname, sc, extra=None, bind=None):
        """match e { every variant => print its fields (in a random order) }"""
        r = self.r
        arms = []
        for vn, fs in self.variants(uname):
            b = bind or self.fresh("m")
            body = []
            order = list(fs)
            r.shuffle(order)
            for fn_, ft in order:
                body += self.show(Field(V(b), fn_), ft, sc)
            if not body:
                body = [Println(S(vn))]
            if extra:
                body += extra(vn, b)
            arms.append(("%s.%s" % (uname, vn), b, body))
        return Match(e, arms)

    # ================================================================== unions2
    def ix_unions2_let_match(self, sc, depth, inloop, ret):
        ty = self.r.choice(["Msg", "Res", "Msg"])
        with self.pure():
            n, st = self.declare(sc, "uv", ty, self.gx_lit(ty, sc, 2), self.r.random() < 0.4)
        return [st, self.match_show(V(n), ty, sc)]

    def ix_unions2_call_helpers(self, sc, depth, inloop, ret):
        r = self.r
        if not self.impure_ok: return None
        k = I(r.randint(0, 4))
        c = r.random()
        if c < 0.35:
            n, st = self.declare(sc, "uv", "Msg", Call("gx_mkmsg", k))
            return [st, Println(Call("gx_showmsg", V(n)))]
        if c < 0.6:
            return [Println(Call("gx_msgcode", Call("gx_mkmsg", k)))]
        if c < 0.8:
            with self.pure():
                return [Println(Call("gx_showmsg", self.gx_lit("Msg", sc, 1)))]
        n, st = self.declare(sc, "rs", "Res", Call("gx_mkres", k, self.pstr(sc)))
        return [st, self.match_show(V(n), "Res", sc)]

    def ix_unions2_holder(self, sc, depth, inloop, ret):
        with self.pure():
            n, st = self.declare(sc, "h", "Holder", self.gx_lit("Holder", sc, 2))
        out = [st]
        c = self.r.random()
        if c < 0.5:
            out += self.show(V(n), "Holder", sc)
        else:       # the union field first copied into a local
            m, st2 = self.declare(sc, "uv", "Msg", Field(V(n), "m"))
            out += [st2, self.match_show(V(m), "Msg", sc), Println(Field(V(n), "n"))]
        return out

    def ix_unions2_set_union(self, sc, depth, inloop, ret):
        ty = self.r.choice(["Msg", "Res"])
        with self.pure():
            n, st = self.declare(sc, "uv", ty, self.gx_lit(ty, sc, 1), True)
            st2 = Set(n, self.gx_lit(ty, sc, 1))
        return [st, self.match_show(V(n), ty, sc), st2, self.match_show(V(n), ty, sc)]

    def ix_unions2_match_in_loop(self, sc, depth, inloop, ret):
        """a match inside a counted loop whose arms use break / continue / update an accumulator"""
        r = self.r
        if not self.impure_ok: return None
        acc, st0 = self.declare(sc, "acc", "int", I(0), True)
        i = self.fresh("i")
        u = self.fresh("uv")

        def extra(vn, b):
            c = r.random()
            if c < 0.25: return [Set(acc, Bin("+", V(acc), I(r.randint(1, 9))))]
            if c < 0.4: return [Continue()]
            if c < 0.5: return [Break()]
            return []
        body = [Let(u, "Msg", Call("gx_mkmsg", V(i))), self.match_show(V(u), "Msg", sc, extra=extra), Set(acc, Bin("+", V(acc), I(100)))]
        return [st0, For(i, I(0), I(r.randint(1, 5)), body), Println(V(acc))]

    def ix_unions2_array_of_unions(self, sc, depth, inloop, ret):
        with self.pure():
            n, st = self.declare(sc, "us", AMSG, self.gx_lit(AMSG, sc, 2))
        return [st, Println(Call("array_length", V(n)))]

    def ix_unions2_shared_field_names(self, sc, depth, inloop, ret):
        """a Point, a Rec and variants with fields of the same names side by side"""
        r = self.r
        x, y = I(r.randint(-5, 50)), I(r.randint(-5, 50))
        p, s1 = self.declare(sc, "pt", "Point", SLit("Point", [("x", I(r.randint(0, 9))), ("y", I(r.randint(10, 19)))]))
        u, s2 = self.declare(sc, "uv", "Msg", ULit("Msg.Move", [("x", x), ("y", y)]))
        w, s3 = self.declare(sc, "rs", "Res", r.choice([ULit("Res.Bad", [("tag", S("bad")), ("code", I(r.randint(0, 99))), ("ok", B(r.random() < 0.5))]),
                                                        ULit("Res.Ok", [("v", I(r.randint(0, 99))), ("tag", S("fine"))]),
                                                        ULit("Res.Pt", [("p", V(p))])]))
        return [s1, s2, s3, self.match_show(V(u), "Msg", sc), self.match_show(V(w), "Res", sc), Println(Field(V(p), "x")), Println(Field(V(p), "y"))]

    # ================================================================== nested
    def ix_nested_matrix(self, sc, depth, inloop, ret):
        r = self.r
        rows, cols = r.randint(0, 3), r.randint(0, 3)
        if r.random() < 0.35 and rows > 0 and cols > 0 and "matrix_literal" not in self.gx_avoid:
            with self.pure():
                lit = ALit("array<int>", [ALit("int", [I(self.small()) for _ in range(r.randint(1, cols))]) for _ in range(rows)])
            g, st = self.declare(sc, "g", AAI, lit, r.random() < 0.5)
            out = [st]
        else:
            g = self.fresh("g"); sc.vars.append((g, AAI, True))
            i, j, row = self.fresh("i"), self.fresh("j"), self.fresh("row")
            out = [Let(g, AAI, ALit("array<int>", []), True),
                   For(i, I(0), I(rows), [Let(row, "array<int>", ALit("int", []), True),
                                          For(j, I(0), I(cols), [Set(row, Call("array_push", V(row), Bin("+", Bin("*", V(i), I(10)), V(j))))]),
                                          Set(g, Call("array_push", V(g), V(row)))])]
        c = r.random()
        if c < 0.5:
            out += self.show(V(g), AAI, sc)
        elif c < 0.8 and self.impure_ok and "gx_msum" in self.gx_helper_names():
            out += [Println(Call("gx_msum", V(g)))]
        else:
            out += [Println(Call("array_length", V(g)))]
        return out

    def ix_nested_row_alias(self, sc, depth, inloop, ret):
        """a row taken out of a matrix is the row itself (reference semantics of arrays): a change through it shows in the matrix"""
        gs = self.vars_of(sc, AAI)
        if not gs: return None
        g = self.r.choice(gs)[0]
        row, r2 = self.fresh("row"), self.fresh("row")
        return [If(Bin(">", Call("array_length", V(g)), I(0)),
                   [Let(row, "array<int>", Call("at", V(g), I(0)), True), Ex(Call("array_push", V(row), I(self.r.randint(100, 999)))),
                    Let(r2, "array<int>", Call("at", V(g), I(0))), Println(Call("array_length", V(r2))), Println(Call("at", V(r2), Bin("-", Call("array_length", V(r2)), I(1))))], [])]

    def ix_nested_points(self, sc, depth, inloop, ret):
        r = self.r
        n = r.randint(0, 4)
        c = r.random()
        if c < 0.3 and n > 0 and "struct_array_literal" not in self.gx_avoid:
            with self.pure():
                ps, st = self.declare(sc, "ps", AP, ALit("Point", [self.lit("Point", sc, 1) for _ in range(n)]), True)
            out = [st]
        elif c < 0.6 and self.impure_ok and "gx_pts" in self.gx_helper_names():
            ps, st = self.declare(sc, "ps", AP, Call("gx_pts", I(n)), True)
            out = [st]
        else:
            ps = self.fresh("ps"); sc.vars.append((ps, AP, True))
            i = self.fresh("i")
            out = [Let(ps, AP, ALit("Point", []), True),
                   For(i, I(0), I(n), [Set(ps, Call("array_push", V(ps), SLit("Point", [("x", V(i)), ("y", Bin("*", V(i), V(i)))])))])]
        c = r.random()
        if c < 0.4:
            out += self.show(V(ps), AP, sc)
        elif c < 0.6 and n > 0:
            with self.pure():
                out += [Ex(Call("array_set", V(ps), I(r.randint(0, n - 1)), self.lit("Point", sc, 1)))] + self.show(V(ps), AP, sc)
        elif c < 0.8 and self.impure_ok and "gx_sumpts" in self.gx_helper_names():
            out += [Println(Call("gx_sumpts", V(ps)))]
        else:
            out += [Println(Call("array_length", V(ps)))]
        return out

    def ix_nested_deep(self, sc, depth, inloop, ret):
        r = self.r
        ty = r.choice(["Deep", "Deeper"])
        with self.pure():
            if ty == "Deeper" and (r.random() < 0.5 or "struct_array_literal" in self.gx_avoid):
                ps = self.vars_of(sc, AP)
                psx = V(r.choice(ps)[0]) if ps else ALit("Point", [])
                dv = SLit("Deeper", [("d", self.gx_lit("Deep", sc, 2)), ("name", self.pstr(sc)), ("ps", psx)])
            else:
                dv = self.gx_lit(ty, sc, 3)
            n, st = self.declare(sc, "dp", ty, dv)
        out = [st] + self.show(V(n), ty, sc)
        if ty == "Deeper" and r.random() < 0.5:      # a copy of an inner struct, an element of an array three levels down
            k, st2 = self.declare(sc, "dq", "Deep", Field(V(n), "d"))
            out += [st2, If(Bin(">", Call("array_length", Field(V(k), "pts")), I(0)), [Println(Call("at", Field(V(k), "pts"), I(0)))], [])]
        return out

    def ix_nested_field_array_push(self, sc, depth, inloop, ret):
        """the array inside a struct is the array itself: pushing through one copy of the struct shows through the other"""
        ds = self.vars_of(sc, "Deep")
        if not ds: return None
        d = self.r.choice(ds)[0]
        a, st = self.declare(sc, "fa", "array<int>", Field(V(d), "pts"), True)
        return [st, Ex(Call("array_push", V(a), I(self.r.randint(0, 99)))), Println(Call("array_length", Field(V(d), "pts"))), Println(Call("array_length", V(a)))]

    def ix_nested_tuple_array(self, sc, depth, inloop, ret):
        r = self.r
        with self.pure():
            n, st = self.declare(sc, "ts", ATP, ALit("(int, string)", [self.lit("(int, string)", sc, 1) for _ in range(r.randint(1, 3))]))
        t = self.fresh("tp")
        return [st, Println(Call("array_length", V(n))), Let(t, "(int, string)", Call("at", V(n), I(0))), Println(TIdx(V(t), 0)), Println(TIdx(V(t), 1))]

    def ix_nested_bool_array(self, sc, depth, inloop, ret):
        r = self.r
        with self.pure():
            n, st = self.declare(sc, "bs", AB, ALit("bool", [self.pbool(sc) for _ in range(r.randint(1, 4))]), True)
        out = [st, Ex(Call("array_push", V(n), B(r.random() < 0.5)))] + self.show(V(n), AB, sc)
        return out

    def ix_nested_tuple_field(self, sc, depth, inloop, ret):
        if not getattr(self, "gx_tupfield", False): return None
        with self.pure():
            n, st = self.declare(sc, "th", "TupHolder", self.gx_lit("TupHolder", sc, 2))
        return [st] + self.show(V(n), "TupHolder", sc)

    def ix_nested_string_rows(self, sc, depth, inloop, ret):
        """array<string> built by push in a loop, read back, replaced element by element"""
        r = self.r
        a = self.fresh("sa"); sc.vars.append((a, "array<string>", True))
        i = self.fresh("i")
        n = r.randint(0, 4)
        out = [Let(a, "array<string>", ALit("string", []), True),
               For(i, I(0), I(n), [Set(a, Call("array_push", V(a), Bin("+", S(r.choice(["r", "", "row-"])), Call("int_to_string", V(i)))))])]
        if n > 0 and r.random() < 0.5:
            out.append(Ex(Call("array_set", V(a), I(r.randint(0, n - 1)), self.pstr(sc))))
        return out + self.show(V(a), "array<string>", sc)

    def ix_nested_tuples(self, sc, depth, inloop, ret):
        """tuples of three elements, a tuple inside a tuple, a tuple holding a struct"""
        r = self.r
        c = r.random()
        with self.pure():
            if c < 0.35:
                n, st = self.declare(sc, "t3", "(int, string, bool)", TLit([self.pint(sc), self.pstr(sc), self.pbool(sc)]))
                return [st, Println(TIdx(V(n), 0)), Println(TIdx(V(n), 1)), Println(TIdx(V(n), 2))]
            if c < 0.7 and "nested_tuple_in_tuple" not in self.gx_avoid:
                n, st = self.declare(sc, "tt", "((int, string), int)", TLit([TLit([self.pint(sc), self.pstr(sc)]), self.pint(sc)]))
                i, st2 = self.declare(sc, "ti", "(int, string)", TIdx(V(n), 0))
                return [st, Println(TIdx(V(n), 1)), st2, Println(TIdx(V(i), 1)), Println(TIdx(V(i), 0))]      # (tt.0.0 would lex as the float 0.0)
            if "tuple_of_struct" in self.gx_avoid: return None
            n, st = self.declare(sc, "tp", "(Point, int)", TLit([self.lit("Point", sc, 1), self.pint(sc)]))
            p, st2 = self.declare(sc, "tq", "Point", TIdx(V(n), 0))
            return [st, st2, Println(Field(V(p), "y")), Println(TIdx(V(n), 1))]

    def ix_nested_helpers_roundtrip(self, sc, depth, inloop, ret):
        """nested values through calls: a matrix made by one function summed by another, points made, changed and summed"""
        if not self.impure_ok or "gx_matrix" not in self.gx_helper_names(): return None
        r = self.r
        c = r.random()
        if c < 0.4:
            return [Println(Call("gx_msum", Call("gx_matrix", I(r.randint(0, 3)), I(r.randint(0, 3)))))]
        if c < 0.7:
            return [Println(Call("gx_sumpts", Call("gx_pts", I(r.randint(0, 5)))))]
        n, st = self.declare(sc, "dp", "Deeper", Call("gx_deep", I(r.randint(0, 4))))
        return [st] + self.show(V(n), "Deeper", sc) + [Println(Call("gx_sumpts", Field(V(n), "ps")))]

    # ================================================================== strings
    def ix_strings_maps(self, sc, depth, inloop, ret):
        """HashMap<string, string> / <string, int> with keys and values that need escapes, the empty key, a missing key"""
        r = self.r
        vty = r.choice(["string", "int"])
        mty = "HashMap<string, %s>" % vty
        m, st = self.declare(sc, "sm", mty, Call("map_new"))
        keys = r.sample(self.ESC, 3)
        val = (lambda: S(r.choice(self.ESC))) if vty == "string" else (lambda: I(r.randint(-5, 99)))
        out = [st] + [Ex(Call("map_put", V(m), S(k), val())) for k in keys] + [Ex(Call("map_put", V(m), S(keys[0]), val()))]
        out += [Println(Call("map_size", V(m))), Println(Call("map_get", V(m), S(keys[1]))), Println(Call("map_has", V(m), S(keys[2]))),
                Println(Call("map_get", V(m), S("missing"))), Println(Call("map_has", V(m), S(keys[0] + "x")))]
        if r.random() < 0.5:
            out += [Ex(Call("map_remove", V(m), S(keys[1]))), Println(Call("map_size", V(m))), Println(Call("map_has", V(m), S(keys[1])))]
        return out

    ESC = ["a\tb", "l1\nl2", "say \"hi\"", "c:\\dir", "", " ", "\\", "\t", "end\n", "\"", "mix\t\"\\\n."]

    def ix_strings_escapes(self, sc, depth, inloop, ret):
        r = self.r
        s = r.choice(self.ESC)
        n, st = self.declare(sc, "es", "string", S(s))
        out = [st, Println(Call("str_length", V(n))), Println(V(n))]
        if s:
            k = r.randint(0, len(s) - 1)
            out.append(Println(Call("char_at", V(n), I(k))))
            out.append(Println(Call("str_contains", V(n), S(s[k:k + 1]))))
            out.append(Println(Bin("==", V(n), S(s))))
            out.append(Println(Call("str_length", Call("str_substring", V(n), I(k), I(r.randint(0, 3))))))
        out.append(Println(Bin("+", Bin("+", S("["), V(n)), S("]"))))
        return out

    def ix_strings_long(self, sc, depth, inloop, ret):
        """a long string built by repeated concatenation"""
        r = self.r
        piece = r.choice(["abcdefghij", "xy", "0123456789abcdef", "-", "nano lang "])
        times = r.choice([0, 1, 7, 31, 40]) if len(piece) > 2 else r.choice([0, 1, 150, 310])
        acc = self.fresh("ls"); sc.vars.append((acc, "string", True))
        i = self.fresh("i")
        out = [Let(acc, "string", S(""), True), For(i, I(0), I(times), [Set(acc, Bin("+", V(acc), S(piece)))]), Println(Call("str_length", V(acc)))]
        total = len(piece) * times
        if total > 0:
            a = r.choice([0, total - 1, total // 2, max(0, total - 3)])
            out.append(Println(Call("char_at", V(acc), I(a))))
            out.append(Println(Call("str_substring", V(acc), I(a), I(r.choice([0, 1, 5, total])))))
            out.append(Println(Call("str_contains", V(acc), S(piece[-1] + piece[0]))))
            out.append(Println(Bin("==", V(acc), Bin("+", V(acc), S("")))))
        if total <= 400 and r.random() < 0.4:
            out.append(Println(V(acc)))
        return out

    def ix_strings_builtins(self, sc, depth, inloop, ret):
        r = self.r
        with self.pure():
            s, st = self.declare(sc, "sv", "string", self.expr("string", sc, 2))
        L = self.fresh("n")
        out = [st, Let(L, "int", Call("str_length", V(s))), Println(V(L))]
        guarded = [Println(Call("char_at", V(s), I(0))), Println(Call("char_at", V(s), Bin("-", V(L), I(1)))),
                   Println(Call("str_substring", V(s), I(0), V(L))), Println(Call("str_substring", V(s), Bin("-", V(L), I(1)), I(r.choice([1, 2, 100])))),
                   Println(Call("string_from_char", Call("char_at", V(s), I(0)))) if "string_from_char_any" in self.gx_avoid else Println(Call("char_at", V(s), Bin("/", V(L), I(2))))]
        r.shuffle(guarded)
        out.append(If(Bin(">", V(L), I(0)), guarded[:r.randint(1, 4)], [Println(S("empty"))]))
        out.append(Println(Call("str_substring", V(s), V(L), I(0))))
        out.append(Println(Call("str_contains", V(s), self.pstr(sc, 0))))
        out.append(Println(Call("str_equals", V(s), Call("str_concat", V(s), S("")))))
        if r.random() < 0.5:
            out.append(Println(Call("string_to_int", r.choice([S("0"), S("42"), S("-17"), S("007"), S("123456789012345678"), Call("int_to_string", self.pint(sc))]))))
        return out

    def ix_strings_compare(self, sc, depth, inloop, ret):
        a, b = self.pstr(sc, 2), self.pstr(sc, 2)
        x, s1 = self.declare(sc, "sa", "string", a)
        y, s2 = self.declare(sc, "sb", "string", b)
        return [s1, s2, Println(Bin("==", V(x), V(y))), Println(Bin("!=", V(x), V(y))), Println(Call("str_equals", V(x), V(y))),
                Println(Bin("==", Bin("+", V(x), V(y)), Call("str_concat", V(x), V(y)))), Println(Call("str_contains", Bin("+", V(x), V(y)), V(y)))]

    def ix_strings_int_roundtrip(self, sc, depth, inloop, ret):
        v = self.r.choice([0, 7, -7, 1000000, 2 ** 31, -2 ** 31, 2 ** 53 + 1, 99999999999999999, -99999999999999999])
        n, st = self.declare(sc, "ri", "int", I(v))
        s, st2 = self.declare(sc, "rs", "string", Call("int_to_string", V(n)))
        return [st, st2, Println(V(s)), Println(Call("str_length", V(s))), Println(Bin("==", Call("string_to_int", V(s)), V(n)))]

    # ================================================================== lists
    def ix_lists_int(self, sc, depth, inloop, ret):
        r = self.r
        l = self.fresh("li"); sc.vars.append((l, LI, False))
        n = r.randint(0, 5)
        i = self.fresh("i")
        out = [Let(l, LI, r.choice([Call("list_int_new"), Call("list_int_new"), Call("list_int_with_capacity", I(r.choice([0, 1, 4, 100])))])),
               For(i, I(0), I(n), [Ex(Call("list_int_push", V(l), Bin("*", V(i), I(r.randint(1, 9)))))]),
               Println(Call("list_int_length", V(l))), Println(Call("list_int_is_empty", V(l)))]
        size = n
        for _ in range(r.randint(1, 5)):
            c = r.random()
            basic = "list_more_ops" in self.gx_avoid
            if c < 0.25 and size > 0:
                out.append(Println(Call("list_int_get", V(l), I(r.randint(0, size - 1)))))
            elif c < 0.4 and size > 0:
                out.append(Ex(Call("list_int_set", V(l), I(r.randint(0, size - 1)), self.pint(sc))))
            elif c < 0.5 and size > 0 and not basic:
                out.append(Println(Call("list_int_pop", V(l)))); size -= 1
            elif c < 0.62 and not basic:
                out.append(Ex(Call("list_int_insert", V(l), I(r.randint(0, size)), self.pint(sc)))); size += 1
            elif c < 0.72 and size > 0 and not basic:
                out.append(Ex(Call("list_int_remove", V(l), I(r.randint(0, size - 1))))); size -= 1
            elif c < 0.78 and not basic:
                out.append(Ex(Call("list_int_clear", V(l)))); size = 0
            else:
                out.append(Ex(Call("list_int_push", V(l), self.pint(sc)))); size += 1
        j = self.fresh("j")
        out += [Println(Call("list_int_length", V(l))), For(j, I(0), Call("list_int_length", V(l)), [Println(Call("list_int_get", V(l), V(j)))])]
        return out

    def ix_lists_string(self, sc, depth, inloop, ret):
        r = self.r
        l = self.fresh("lst"); sc.vars.append((l, LS, False))
        n = r.randint(0, 4)
        i = self.fresh("i")
        out = [Let(l, LS, Call("list_string_new")),
               For(i, I(0), I(n), [Ex(Call("list_string_push", V(l), Bin("+", S(r.choice(["e", "", "it-"])), Call("int_to_string", V(i)))))]),
               Println(Call("list_string_length", V(l)))]
        size = n
        basic = "list_more_ops" in self.gx_avoid
        for _ in range(r.randint(1, 4)):
            c = r.random()
            if c < 0.3 and size > 0:
                out.append(Println(Call("list_string_get", V(l), I(r.randint(0, size - 1)))))
            elif c < 0.45 and size > 0:
                out.append(Ex(Call("list_string_set", V(l), I(r.randint(0, size - 1)), self.pstr(sc))))
            elif c < 0.55 and size > 0 and not basic:
                out.append(Println(Call("list_string_pop", V(l)))); size -= 1
            elif c < 0.65 and not basic:
                out.append(Ex(Call("list_string_insert", V(l), I(r.randint(0, size)), self.pstr(sc)))); size += 1
            elif c < 0.75 and size > 0 and not basic:
                out.append(Ex(Call("list_string_remove", V(l), I(r.randint(0, size - 1))))); size -= 1
            else:
                out.append(Ex(Call("list_string_push", V(l), self.pstr(sc)))); size += 1
        j = self.fresh("j")
        acc = self.fresh("cat")
        out += [Let(acc, "string", S(""), True), For(j, I(0), Call("list_string_length", V(l)), [Set(acc, Bin("+", Bin("+", V(acc), Call("list_string_get", V(l), V(j))), S("|")))]),
                Println(V(acc)), Println(Call("list_string_is_empty", V(l)))]
        return out

    def ix_lists_pass(self, sc, depth, inloop, ret):
        """a list handed to a function that changes it (lists are references)"""
        if not self.impure_ok: return None
        ls = self.vars_of(sc, LI)
        if not ls: return None
        l = self.r.choice(ls)[0]
        return [Println(Call("gx_listsum", V(l))), Ex(Call("gx_listfill", V(l), I(self.r.randint(0, 3)))), Println(Call("gx_listsum", V(l))), Println(Call("list_int_length", V(l)))]

    # ================================================================== lib
    def ix_lib_chars(self, sc, depth, inloop, ret):
        r = self.r
        s, st = self.declare(sc, "cs", "string", S(r.choice(["aZ9 _", "Hello, World 42!", "x", "09azAZ", "tab\there", "~`@[{"])))
        i, c = self.fresh("i"), self.fresh("ch")
        fns = r.sample(["is_digit", "is_alpha", "is_alnum", "is_whitespace", "is_upper", "is_lower"], r.randint(1, 3))
        maps = r.sample(["char_to_upper", "char_to_lower", "digit_value"], r.randint(1, 2))
        body = [Let(c, "int", Call("char_at", V(s), V(i)))] + [Println(Call(f, V(c))) for f in fns] + [Println(Call(f, V(c))) for f in maps]
        if "strlen_loop_bound" in self.gx_avoid:
            n = self.fresh("n")
            return [st, Let(n, "int", Call("str_length", V(s))), For(i, I(0), V(n), body)]
        return [st, For(i, I(0), Call("str_length", V(s)), body)]

    def ix_lib_casts(self, sc, depth, inloop, ret):
        r = self.r
        out = []
        for _ in range(r.randint(2, 5)):
            c = r.random()
            if c < 0.25: out.append(Println(Call("cast_int", r.choice([B(True), B(False), S("12"), S("-7"), S(""), S("abc"), S("0"), self.pint(sc)]))))
            elif c < 0.5: out.append(Println(Call("cast_bool", r.choice([I(0), I(1), I(-3), S(""), S("x"), S("false"), self.pbool(sc), self.pint(sc)]))))
            elif c < 0.75: out.append(Println(Call(r.choice(["cast_string", "to_string"]), r.choice([self.pint(sc), self.pbool(sc), self.pstr(sc), I(-2 ** 63 + 1)]))))
            else: out.append(Println(Call("str_length", Call("cast_string", self.pint(sc)))))
        return out

    def ix_lib_array_fns(self, sc, depth, inloop, ret):
        r = self.r
        et = r.choice(["int", "int", "string", "bool"])
        aty = "array<%s>" % et
        n = r.randint(0, 5)
        dflt = {"int": self.pint(sc), "string": self.pstr(sc), "bool": self.pbool(sc)}[et]
        c = r.random()
        if c < 0.35:
            a, st = self.declare(sc, "an", aty, Call("array_new", I(n), dflt), True)
        else:
            with self.pure():
                n = r.randint(1, 5)
                a, st = self.declare(sc, "al", aty, ALit(et, [self.expr(et, sc, 1) for _ in range(n)]), True)
        out = [st, Println(Call("array_length", V(a)))]
        if r.random() < 0.6:
            s0 = r.randint(0, n); ln = r.randint(0, n + 2)
            b, st2 = self.declare(sc, "sl", aty, Call("array_slice", V(a), I(s0), I(ln)))
            out += [st2] + self.show(V(b), aty, sc)
        if n > 0 and r.random() < 0.6:
            out += [Set(a, Call("array_remove_at", V(a), I(r.randint(0, n - 1))))] + self.show(V(a), aty, sc)
            n -= 1
        if n > 0 and r.random() < 0.4:
            out += [Ex(Call("array_set", V(a), I(r.randint(0, n - 1)), dflt)), Println(Call("at", V(a), I(n - 1)))]
        return out

    def ix_lib_hof(self, sc, depth, inloop, ret):
        r = self.r
        if not self.impure_ok: return None
        et = r.choice(["int", "int", "string"])
        aty = "array<%s>" % et
        with self.pure():
            a, st = self.declare(sc, "ha", aty, ALit(et, [self.expr(et, sc, 1) for _ in range(r.randint(0, 5))]) if r.random() < 0.8 or et != "int"
                                 else Call("array_new", I(r.randint(0, 4)), I(r.randint(-3, 9))))
        out = [st]
        c = r.random()
        if et == "int":
            if c < 0.3:
                b, s2 = self.declare(sc, "hf", aty, Call("filter", V(a), V(r.choice(["gx_even", "gx_pos"]))))
                out += [s2] + self.show(V(b), aty, sc)
            elif c < 0.55:
                b, s2 = self.declare(sc, "hm", aty, Call("map", V(a), V(r.choice(["gx_sq", "gx_neg"]))))
                out += [s2] + self.show(V(b), aty, sc)
            elif c < 0.7 and "map_changes_type" not in self.gx_avoid:
                b, s2 = self.declare(sc, "hs", "array<string>", Call("map", V(a), V("gx_tos")))
                out += [s2] + self.show(V(b), "array<string>", sc)
            elif c < 0.9:
                out.append(Println(Call("reduce", V(a), self.pint(sc), V(r.choice(["gx_add", "gx_maxf"])))))
            else:        # a pipeline
                out.append(Println(Call("reduce", Call("map", Call("filter", V(a), V("gx_even")), V("gx_sq")), I(0), V("gx_add"))))
        else:
            if c < 0.35:
                b, s2 = self.declare(sc, "hf", aty, Call("filter", V(a), V("gx_long")))
                out += [s2] + self.show(V(b), aty, sc)
            elif c < 0.55:
                b, s2 = self.declare(sc, "hm", aty, Call("map", V(a), V("gx_bang")))
                out += [s2] + self.show(V(b), aty, sc)
            elif c < 0.7 and "map_changes_type" not in self.gx_avoid:
                b, s2 = self.declare(sc, "hl", "array<int>", Call("map", V(a), V("gx_len")))
                out += [s2] + self.show(V(b), "array<int>", sc)
            elif c < 0.85:
                out.append(Println(Call("reduce", V(a), self.pstr(sc), V("gx_cat"))))
            elif "reduce_changes_type" not in self.gx_avoid:
                out.append(Println(Call("reduce", V(a), I(0), V("gx_acclen"))))
        return out

    def ix_lib_hof_fnvalue_local(self, sc, depth, inloop, ret):
        """the function argument of map / filter comes from a local of function type"""
        if not self.impure_ok: return None
        r = self.r
        f, s1 = self.declare(sc, "fv", "fn(int) -> int", V(r.choice(["gx_sq", "gx_neg"])))
        with self.pure():
            a, s2 = self.declare(sc, "ha", "array<int>", ALit("int", [self.pint(sc) for _ in range(r.randint(1, 4))]))
        b, s3 = self.declare(sc, "hm", "array<int>", Call("map", V(a), V(f)))
        return [s1, s2, s3] + self.show(V(b), "array<int>", sc) + [Println(Call(f, I(r.randint(-4, 12))))]

    # ================================================================== ctrl
    def gx_leaf(self, sc, inloop, ret, tag):
        """a leaf of a control-flow nest: a print, and sometimes a jump out of the nest"""
        r = self.r
        out = [Println(S(tag))] if r.random() < 0.7 else [Println(self.pint(sc))]
        c = r.random()
        if c < 0.18 and inloop: out.append(Break())
        elif c < 0.36 and inloop: out.append(Continue())
        elif c < 0.5 and ret is not None:
            with self.pure():
                out.append(Ret(self.expr(ret, sc, 1)))
        return out

    def gx_nest(self, sc, levels, inloop, ret, tag):
        r = self.r
        if levels <= 0:
            return self.gx_leaf(sc, inloop, ret, tag)
        kind = r.choice(["if", "while", "for", "forin", "match", "block"])
        pre = [Println(S(tag + kind[0]))] if r.random() < 0.4 else []
        post = [Println(S(tag + "."))] if r.random() < 0.5 else []
        if kind == "if":
            cond = self.pbool(sc, 2)
            th = self.gx_nest(Scope_(sc), levels - 1, inloop, ret, tag + "t")
            el = self.gx_nest(Scope_(sc), levels - 1, inloop, ret, tag + "e") if r.random() < 0.6 else []
            return pre + [If(cond, th, el)] + post
        if kind == "block":
            return pre + [If(B(True), self.gx_nest(Scope_(sc), levels - 1, inloop, ret, tag + "b"), [])] + post
        if kind == "while":
            k = self.fresh("k")
            sc.vars.append((k, "int", False))
            body = [Set(k, Bin("+", V(k), I(1)))] + self.gx_nest(Scope_(sc), levels - 1, True, ret, tag + "w")
            return pre + [Let(k, "int", I(0), True), While(Bin("<", V(k), I(r.choice([0, 1, 2, 3]))), body)] + post
        if kind == "for":
            i = self.fresh("i")
            bsc = Scope_(sc); bsc.vars.append((i, "int", False))
            lo = r.randint(-1, 2)
            return pre + [For(i, I(lo), I(lo + r.choice([0, 1, 2, 4])), self.gx_nest(bsc, levels - 1, True, ret, tag + "f"))] + post
        if kind == "forin":
            x = self.fresh("e")
            bsc = Scope_(sc); bsc.vars.append((x, "int", False))
            with self.pure():
                arr = ALit("int", [I(self.small()) for _ in range(r.choice([1, 1, 2, 3]))])
            a, st = self.declare(sc, "fa", "array<int>", arr)
            return pre + [st, ForIn(x, V(a), [Println(V(x))] + self.gx_nest(bsc, levels - 1, True, ret, tag + "n"))] + post
        with self.pure():
            u, st = self.declare(sc, "sh", "Shape", self.lit("Shape", sc, 1))
        arms = []
        for vn, fs in self.unions[0][1]:
            b = self.fresh("m")
            arms.append(("Shape." + vn, b, ([Println(Field(V(b), fs[0][0]))] if fs else []) + self.gx_nest(Scope_(sc), levels - 1, inloop, ret, tag + vn[0])))
        return pre + [st, Match(V(u), arms)] + post

    def ix_ctrl_nest(self, sc, depth, inloop, ret):
        if depth <= 0: return None
        return self.gx_nest(sc, self.r.randint(2, 4), inloop, ret, self.fresh("c"))

    def ix_ctrl_loop_counts(self, sc, depth, inloop, ret):
        """the same body under loops of 0, 1 and many iterations of every kind"""
        r = self.r
        acc, st = self.declare(sc, "acc", "int", I(0), True)
        out = [st]
        for n in r.sample([0, 1, r.randint(2, 6)], 3):
            kind = r.choice(["for", "while", "forin"])
            step = Set(acc, Bin("+", Bin("*", V(acc), I(3)), I(n + 1)))
            jump = [If(Bin("==", Bin("%", V(acc), I(r.randint(2, 5))), I(0)), [r.choice([Break(), Continue()])], [])] if r.random() < 0.4 else []
            if kind == "for":
                out.append(For(self.fresh("i"), I(0), I(n), [step] + jump))
            elif kind == "while":
                k = self.fresh("k"); sc.vars.append((k, "int", False))
                out += [Let(k, "int", I(0), True), While(Bin("<", V(k), I(n)), [Set(k, Bin("+", V(k), I(1))), step] + jump)]
            elif n > 0:
                a, s2 = self.declare(sc, "fa", "array<int>", ALit("int", [I(j) for j in range(n)]))
                out += [s2, ForIn(self.fresh("e"), V(a), [step] + jump)]
            out.append(Println(V(acc)))
        return out

    def ix_ctrl_shadow(self, sc, depth, inloop, ret):
        """a name that is already bound (global, parameter, local, loop variable, match binder) bound again by another kind of binder"""
        r = self.r
        cands = [v for v in sc.all() if v[1] in ("int", "string") and not v[0].startswith("k") and (self.impure_ok or v[0] not in self.mut_globals)
                 and all(w[0] != v[0] for w in sc.vars)]          # bound in an outer scope (or global), not in this very block
        if not cands: return None
        v = r.choice(cands)
        name, ty = v[0], v[1]
        before = [Println(V(name))]
        kind = r.choice(["let_same", "let_other", "for", "forin", "match", "param"])
        if kind == "let_same":
            with self.pure():
                inner = [Let(name, ty, I(r.randint(100, 199)) if ty == "int" else S("inner")), Println(V(name))]
            mid = [If(self.pbool(sc), inner, [Println(S("skip"))])] if r.random() < 0.5 else [If(B(True), inner, [])]
        elif kind == "let_other":
            oty = "string" if ty == "int" else "int"
            inner = [Let(name, oty, S("other") if oty == "string" else I(r.randint(200, 299))), Println(V(name))]
            mid = [If(Bin("==", I(1), I(1)), inner, [])]
        elif kind == "for":
            mid = [For(name, I(r.randint(0, 2)), I(r.randint(2, 4)), [Println(V(name))])]
        elif kind == "forin":
            a, st = self.declare(sc, "fa", "array<int>", ALit("int", [I(r.randint(300, 399)), I(r.randint(400, 499))]))
            mid = [st, ForIn(name, V(a), [Println(V(name))])]
        elif kind == "match":
            with self.pure():
                u, st = self.declare(sc, "sh", "Shape", self.lit("Shape", sc, 1))
            arms = [("Shape." + vn, name, [Println(Field(V(name), fs[0][0])) if fs else Println(S(vn))]) for vn, fs in self.unions[0][1]]
            mid = [st, Match(V(u), arms)]
        else:
            if not self.impure_ok or ty != "int": return None
            mid = [Println(Call("t", Bin("+", V(name), I(1))))]       # t's parameter x; the argument reads the outer binding
        return before + mid + [Println(V(name))]

    def ix_ctrl_early_return_fn(self, sc, depth, inloop, ret):
        if not self.impure_ok or "gx_early" not in self.gx_helper_names(): return None
        r = self.r
        return [Println(Call("gx_early", I(r.randint(-2, 9)), I(r.randint(0, 5))))]

    # ================================================================== globals
    def ix_globals_update(self, sc, depth, inloop, ret):
        """update a mutable global (of any supported type) and read it back"""
        r = self.r
        if not self.impure_ok: return None
        gs = [g for g in getattr(self, "gx_globals", []) if g[2]]
        if not gs: return None
        n, ty, _ = r.choice(gs)
        if any(v[0] == n and v[1] != ty for v in sc.all()): return None
        with self.pure():
            if ty == "int": up = Set(n, Bin("+", V(n), I(r.randint(1, 9))))
            elif ty == "string": up = Set(n, Bin("+", V(n), S(r.choice(["x", "yz", ""]))))
            elif ty == "bool": up = Set(n, Un("not", V(n)))
            elif ty == "Point": up = Set(n, SLit("Point", [("x", Bin("+", Field(V(n), "x"), I(1))), ("y", Field(V(n), "y"))]))
            elif ty == "array<int>": up = Set(n, Call("array_push", V(n), I(r.randint(0, 99))))
            elif ty == "array<string>": up = Set(n, Call("array_push", V(n), S(r.choice(["p", "q"]))))
            elif ty == "(int, string)": up = Set(n, TLit([Bin("+", TIdx(V(n), 0), I(1)), TIdx(V(n), 1)]))
            else: return None
        rd = {"int": lambda: [Println(V(n))], "string": lambda: [Println(V(n))], "bool": lambda: [Println(V(n))],
              "Point": lambda: [Println(Field(V(n), "x"))], "array<int>": lambda: [Println(Call("array_length", V(n)))],
              "array<string>": lambda: [Println(Call("array_length", V(n))), Println(Call("at", V(n), I(0)))],
              "(int, string)": lambda: [Println(TIdx(V(n), 0)), Println(TIdx(V(n), 1))]}[ty]
        return rd() + [up] + rd()

    def ix_globals_via_helpers(self, sc, depth, inloop, ret):
        if not self.impure_ok or "gx_gbump" not in self.gx_helper_names(): return None
        return [Println(Call("gx_gbump", I(self.r.randint(0, 9)))), Println(Call("gx_gshow"))]

    # ================================================================== recursion
    def ix_recursion_call(self, sc, depth, inloop, ret):
        r = self.r
        if not self.impure_ok: return None
        c = r.random()
        if c < 0.2: return [Println(Call("gx_is_even", I(r.randint(0, 9))))]
        if c < 0.35: return [Println(Call("gx_ping", I(r.randint(0, 5))))]
        if c < 0.5:
            with self.pure():
                a, st = self.declare(sc, "ra", "array<int>", ALit("int", [self.pint(sc) for _ in range(r.randint(0, 5))]))
            return [st, Println(Call("gx_sumfrom", V(a), I(0)))]
        if c < 0.65:
            b, st = self.declare(sc, "rb", "array<int>", Call("gx_build", ALit("int", []), I(r.randint(0, 5))))
            return [st] + self.show(V(b), "array<int>", sc)
        if c < 0.8: return [Println(Call("gx_rev", self.pstr(sc, 2)))]
        if c < 0.9 and self.feat.get("maps") is not None or c < 0.9:
            m, st = self.declare(sc, "memo", "HashMap<int, int>", Call("map_new"))
            return [st, Println(Call("gx_fibm", I(r.randint(0, 15)), V(m))), Println(Call("map_size", V(m)))]
        return [Println(Call("gx_collatz", I(r.randint(1, 12)), I(0)))]

    def ix_recursion_composites(self, sc, depth, inloop, ret):
        r = self.r
        if not self.impure_ok: return None
        c = r.random()
        if c < 0.5:
            with self.pure():
                p, st = self.declare(sc, "rp", "Point", Call("gx_walk", self.lit("Point", sc, 1), I(r.randint(0, 5))))
            return [st, Println(Field(V(p), "x")), Println(Field(V(p), "y"))]
        return [Println(Call("gx_shrink", ULit("Shape.Rect", [("w", I(r.randint(0, 6))), ("h", I(r.randint(0, 6)))]), I(0)))]

    # ================================================================== enums2
    def ix_enums2_arith(self, sc, depth, inloop, ret):
        r = self.r
        e = lambda: Enum(r.choice(["Color.Red", "Color.Green", "Color.Blue", "Lvl.Low", "Lvl.Mid", "Lvl.High"]))

        def pair():          # two operands of a comparison: of one enum type when comparisons across enum types are avoided
            if "compare_two_enums" not in self.gx_avoid:
                return e(), e()
            ty = r.choice(["Color", "Lvl"])
            vs = {"Color": ["Red", "Green", "Blue"], "Lvl": ["Low", "Mid", "High"]}[ty]
            return Enum("%s.%s" % (ty, r.choice(vs))), Enum("%s.%s" % (ty, r.choice(vs)))
        out = []
        for _ in range(r.randint(2, 5)):
            c = r.random()
            if c < 0.3: out.append(Println(Bin(r.choice(["+", "-", "*", "/", "%"]), e(), I(r.randint(1, 9)))))
            elif c < 0.5: out.append(Println(Bin(r.choice(["+", "-", "*"]), e(), e())))
            elif c < 0.7: out.append(Println(Bin(r.choice(["<", "<=", ">", ">=", "==", "!="]), *pair())))
            elif c < 0.8: out.append(Println(Bin("-", I(0), e())))
            elif c < 0.9: out.append(Println(Call("abs" if "enum_to_string" in self.gx_avoid else r.choice(["abs", "int_to_string"]), e())))
            else: out.append(Println(Call(r.choice(["min", "max"]), e(), I(r.randint(0, 30)))))
        return out

    def ix_enums2_vars(self, sc, depth, inloop, ret):
        r = self.r
        ty = r.choice(["Color", "Lvl"])
        vs = {"Color": ["Red", "Green", "Blue"], "Lvl": ["Low", "Mid", "High"]}[ty]
        n, st = self.declare(sc, "en", ty, Enum("%s.%s" % (ty, r.choice(vs))), True)
        out = [st, Println(V(n)), Println(Bin("==", V(n), Enum("%s.%s" % (ty, r.choice(vs))))), Println(Bin("+", V(n), I(1)))]
        if self.impure_ok and "gx_next" in self.gx_helper_names() and ty == "Color":
            out += [Set(n, Call("gx_next", V(n))), Println(V(n)), Println(Call("gx_rank", Enum("Lvl." + r.choice(["Low", "Mid", "High"]))))]
        i, st2 = self.declare(sc, "ei", "int", V(n))
        out += [st2, Println(Bin("*", V(i), I(2)))]
        return out

    def ix_enums2_containers(self, sc, depth, inloop, ret):
        r = self.r
        c = r.random()
        cv = lambda: Enum("Color." + r.choice(["Red", "Green", "Blue"]))
        lv = lambda: Enum("Lvl." + r.choice(["Low", "Mid", "High"]))
        if c < 0.35:
            p, st = self.declare(sc, "px", "Px", SLit("Px", [("c", cv()), ("l", lv()), ("n", self.pint(sc))]))
            return [st] + self.show(V(p), "Px", sc) + [Println(Bin("==", Field(V(p), "c"), cv())), Println(Bin("+", Field(V(p), "l"), Field(V(p), "n")))]
        if c < 0.55 and "enum_array" not in self.gx_avoid:
            if "enum_array_literal" not in self.gx_avoid and r.random() < 0.6:
                a, st = self.declare(sc, "ea", ACOL, ALit("Color", [cv() for _ in range(r.randint(1, 3))]))
                return [st] + self.show(V(a), ACOL, sc)
            a = self.fresh("ea"); sc.vars.append((a, ACOL, True))
            return [Let(a, ACOL, ALit("Color", []), True)] + [Set(a, Call("array_push", V(a), cv())) for _ in range(r.randint(1, 3))] + self.show(V(a), ACOL, sc)
        m, st = self.declare(sc, "em", "HashMap<int, string>", Call("map_new"))
        out = [st, Ex(Call("map_put", V(m), cv(), S("c"))), Ex(Call("map_put", V(m), lv(), S("l"))), Ex(Call("map_put", V(m), I(1), S("one")))]
        out += [Println(Call("map_get", V(m), r.choice([cv(), lv(), I(2), I(10)]))), Println(Call("map_has", V(m), r.choice([cv(), lv()]))), Println(Call("map_size", V(m)))]
        return out

    # ================================================================== wide
    def ix_wide_call(self, sc, depth, inloop, ret):
        if not self.impure_ok: return None
        ws = getattr(self, "gx_wide_fns", [])
        if not ws: return None
        name, ptys, rty = self.r.choice(ws)
        if any(t.startswith("HashMap") and not self.vars_of(sc, t) for t in ptys): return None
        args = self.multi(*[(lambda t=t: self.expr(t, sc, 1)) for t in ptys])
        return [Println(Call(name, *args))] if rty in ("int", "bool", "string") else [Ex(Call(name, *args))]

    def ix_wide_locals(self, sc, depth, inloop, ret):
        """a run of locals of mixed types that stay alive, read back at the end"""
        r = self.r
        names, out = [], []
        for _ in range(r.randint(8, 16)):
            ty = r.choice(["int", "int", "string", "bool", "Point", "array<int>"])
            with self.pure():
                n, st = self.declare(sc, "w", ty, self.expr(ty, sc, 1))
            names.append((n, ty)); out.append(st)
        for n, ty in r.sample(names, min(5, len(names))):
            out += self.show(V(n), ty, sc)[:2] if ty != "array<int>" else [Println(Call("array_length", V(n)))]
        return out


def Scope_(parent):
    from .gen_prog import Scope
    return Scope(parent)


class GxProgram:
    """declarations a feature adds to the program: helper functions, globals, extra functions"""

    def gx_program_pre(self, fns, gl, gsc):
        """called after the base globals and t / tb exist, before the random functions are generated"""
        r, f = self.r, self.feat
        H = self.gx_helpers
        i2s = lambda e: Call("int_to_string", e)
        if f.get("globals"):
            self.gx_globals = []
            cands = [("gx_n", "int", I(r.randint(0, 9))), ("gx_s", "string", S(r.choice(["g", "", "glob"]))), ("gx_b", "bool", B(r.random() < 0.5)),
                     ("gx_a", "array<int>", ALit("int", [I(r.randint(0, 9)) for _ in range(r.randint(1, 3))])),
                     ("gx_sa", "array<string>", ALit("string", [S("a0")])),
                     ("gx_p", "Point", SLit("Point", [("x", I(1)), ("y", I(2))])), ("gx_t", "(int, string)", TLit([I(1), S("t")]))]
            for n, ty, init in cands:
                if ty == "Point" and "global_struct" in self.gx_avoid: continue
                if ty == "(int, string)" and "global_tuple" in self.gx_avoid: continue
                if r.random() < 0.6:
                    mut = r.random() < 0.8
                    gl.append((n, ty, mut, init)); gsc.vars.append((n, ty, mut)); self.gx_globals.append((n, ty, mut))
                    if mut: self.mut_globals.add(n)
            ints = [g for g in gl if g[1] == "int" and not g[2]]
            if ints and r.random() < 0.7:          # initialised from an earlier (immutable) global
                gl.append(("gx_d", "int", False, Bin("+", V(ints[0][0]), I(r.randint(1, 5))))); gsc.vars.append(("gx_d", "int", False))
                if r.random() < 0.5:
                    gl.append(("gx_ds", "string", False, Bin("+", S("d="), i2s(V("gx_d"))))); gsc.vars.append(("gx_ds", "string", False))
            if r.random() < 0.5 and "global_init_call" not in self.gx_avoid:          # initialised by a call (the function is defined further down)
                gl.append(("gx_c", "int", False, Call("gx_ginit", I(r.randint(0, 9))))); gsc.vars.append(("gx_c", "int", False))
                H.append(Func("gx_ginit", [("k", "int")], "int", [Ret(Bin("+", Bin("*", V("k"), V("k")), I(1)))]))
            mg = [g for g in self.gx_globals if g[2]]
            if mg:
                body, shw = [], []
                for n, ty, _ in mg:
                    if ty == "int": body.append(Set(n, Bin("+", V(n), V("k")))); shw.append(Println(V(n)))
                    elif ty == "string": body.append(Set(n, Bin("+", V(n), i2s(V("k"))))); shw.append(Println(V(n)))
                    elif ty == "bool": body.append(Set(n, Un("not", V(n)))); shw.append(Println(V(n)))
                    elif ty == "array<int>": body.append(Set(n, Call("array_push", V(n), V("k")))); shw.append(Println(Call("array_length", V(n))))
                    elif ty == "array<string>": body.append(Set(n, Call("array_push", V(n), i2s(V("k"))))); shw.append(Println(Call("at", V(n), Bin("-", Call("array_length", V(n)), I(1)))))
                    elif ty == "Point": body.append(Set(n, SLit("Point", [("x", Bin("+", Field(V(n), "x"), V("k"))), ("y", Field(V(n), "y"))]))); shw.append(Println(Field(V(n), "x")))
                    elif ty == "(int, string)": body.append(Set(n, TLit([V("k"), i2s(V("k"))]))); shw += [Println(TIdx(V(n), 0)), Println(TIdx(V(n), 1))]
                H.append(Func("gx_gbump", [("k", "int")], "int", body + [Ret(Bin("*", V("k"), I(2)))]))
                H.append(Func("gx_gshow", [], "int", shw + [Ret(I(len(shw)))]))
        if f.get("recursion"):
            # mutual recursion: the first of each pair is defined before the function it calls
            H.append(Func("gx_is_even", [("n", "int")], "bool", [If(Bin("<=", V("n"), I(0)), [Ret(B(True))], []), Ret(Call("gx_is_odd", Bin("-", V("n"), I(1))))]))
            H.append(Func("gx_is_odd", [("n", "int")], "bool", [If(Bin("<=", V("n"), I(0)), [Ret(B(False))], []), Ret(Call("gx_is_even", Bin("-", V("n"), I(1))))]))
            H.append(Func("gx_ping", [("n", "int")], "int", [Println(Bin("+", S("ping "), i2s(V("n")))), If(Bin("<=", V("n"), I(0)), [Ret(I(0))], []), Ret(Bin("+", I(1), Call("gx_pong", Bin("-", V("n"), I(1)))))]))
            H.append(Func("gx_pong", [("n", "int")], "int", [Println(Bin("+", S("pong "), i2s(V("n")))), If(Bin("<=", V("n"), I(0)), [Ret(I(0))], []), Ret(Bin("+", I(10), Call("gx_ping", Bin("-", V("n"), I(2)))))]))
            H.append(Func("gx_sumfrom", [("a", "array<int>"), ("i", "int")], "int", [If(Bin(">=", V("i"), Call("array_length", V("a"))), [Ret(I(0))], []),
                                                                                    Ret(Bin("+", Call("at", V("a"), V("i")), Call("gx_sumfrom", V("a"), Bin("+", V("i"), I(1)))))]))
            H.append(Func("gx_build", [("a", "array<int>"), ("n", "int")], "array<int>", [If(Bin("<=", V("n"), I(0)), [Ret(V("a"))], []),
                                                                                           Ret(Call("gx_build", Call("array_push", V("a"), Bin("*", V("n"), V("n"))), Bin("-", V("n"), I(1))))]))
            H.append(Func("gx_rev", [("s", "string")], "string", [Let("n", "int", Call("str_length", V("s"))), If(Bin("<=", V("n"), I(1)), [Ret(V("s"))], []),
                                                                   Ret(Bin("+", Call("gx_rev", Call("str_substring", V("s"), I(1), Bin("-", V("n"), I(1)))), Call("str_substring", V("s"), I(0), I(1))))]))
            H.append(Func("gx_fibm", [("n", "int"), ("memo", "HashMap<int, int>")], "int", [If(Bin("<", V("n"), I(2)), [Ret(V("n"))], []), If(Call("map_has", V("memo"), V("n")), [Ret(Call("map_get", V("memo"), V("n")))], []),
                                                                                           Let("a", "int", Call("gx_fibm", Bin("-", V("n"), I(1)), V("memo"))), Let("b", "int", Call("gx_fibm", Bin("-", V("n"), I(2)), V("memo"))),
                                                                                           Ex(Call("map_put", V("memo"), V("n"), Bin("+", V("a"), V("b")))), Ret(Bin("+", V("a"), V("b")))]))
            H.append(Func("gx_walk", [("p", "Point"), ("n", "int")], "Point", [If(Bin("<=", V("n"), I(0)), [Ret(V("p"))], []),
                                                                              Ret(Call("gx_walk", SLit("Point", [("x", Bin("+", Field(V("p"), "x"), V("n"))), ("y", Bin("-", Field(V("p"), "y"), I(1)))]), Bin("-", V("n"), I(1))))]))
            H.append(Func("gx_shrink", [("s", "Shape"), ("steps", "int")], "int", [
                Match(V("s"), [("Shape.Circle", "c", [Ret(Bin("+", Bin("*", V("steps"), I(100)), Field(V("c"), "r")))]),
                               ("Shape.Rect", "q", [If(Bin("<=", Field(V("q"), "w"), I(0)), [Ret(Call("gx_shrink", ULit("Shape.Circle", [("r", Field(V("q"), "h"))]), Bin("+", V("steps"), I(1))))], []),
                                                    Ret(Call("gx_shrink", ULit("Shape.Rect", [("w", Bin("-", Field(V("q"), "w"), I(1))), ("h", Field(V("q"), "h"))]), Bin("+", V("steps"), I(1))))]),
                               ("Shape.Empty", "e", [Ret(V("steps"))])]),
                Ret(I(-1))]))
            H.append(Func("gx_collatz", [("n", "int"), ("steps", "int")], "int", [If(Bin("<=", V("n"), I(1)), [Ret(V("steps"))], []),
                                                                                 If(Bin("==", Bin("%", V("n"), I(2)), I(0)), [Ret(Call("gx_collatz", Bin("/", V("n"), I(2)), Bin("+", V("steps"), I(1))))], []),
                                                                                 Ret(Call("gx_collatz", Bin("+", Bin("*", V("n"), I(3)), I(1)), Bin("+", V("steps"), I(1))))]))
        if f.get("lib"):
            H.append(Func("gx_even", [("x", "int")], "bool", [Ret(Bin("==", Bin("%", V("x"), I(2)), I(0)))]))
            H.append(Func("gx_pos", [("x", "int")], "bool", [Println(V("x")), Ret(Bin(">", V("x"), I(0)))]))
            H.append(Func("gx_sq", [("x", "int")], "int", [Ret(Bin("*", V("x"), V("x")))]))
            H.append(Func("gx_neg", [("x", "int")], "int", [Println(V("x")), Ret(Un("-", V("x")))]))
            H.append(Func("gx_add", [("a", "int"), ("b", "int")], "int", [Ret(Bin("+", V("a"), V("b")))]))
            H.append(Func("gx_maxf", [("a", "int"), ("b", "int")], "int", [If(Bin(">", V("a"), V("b")), [Ret(V("a"))], []), Ret(V("b"))]))
            H.append(Func("gx_tos", [("x", "int")], "string", [Ret(Bin("+", S("#"), i2s(V("x"))))]))
            H.append(Func("gx_long", [("s", "string")], "bool", [Ret(Bin(">", Call("str_length", V("s")), I(1)))]))
            H.append(Func("gx_len", [("s", "string")], "int", [Ret(Call("str_length", V("s")))]))
            H.append(Func("gx_bang", [("s", "string")], "string", [Ret(Bin("+", V("s"), S("!")))]))
            H.append(Func("gx_cat", [("a", "string"), ("b", "string")], "string", [Ret(Bin("+", Bin("+", V("a"), V("b")), S(",")))]))
            H.append(Func("gx_acclen", [("acc", "int"), ("s", "string")], "int", [Ret(Bin("+", V("acc"), Call("str_length", V("s"))))]))
        if f.get("lists"):
            H.append(Func("gx_listsum", [("l", LI)], "int", [Let("s", "int", I(0), True), For("i", I(0), Call("list_int_length", V("l")), [Set("s", Bin("+", V("s"), Call("list_int_get", V("l"), V("i"))))]), Ret(V("s"))]))
            H.append(Func("gx_listfill", [("l", LI), ("n", "int")], "int", [For("i", I(0), V("n"), [Ex(Call("list_int_push", V("l"), Bin("+", V("i"), I(1000))))]), Ret(Call("list_int_length", V("l")))]))
        if f.get("enums2"):
            H.append(Func("gx_next", [("c", "Color")], "Color", [If(Bin("==", V("c"), Enum("Color.Red")), [Ret(Enum("Color.Green"))], []), If(Bin("==", V("c"), Enum("Color.Green")), [Ret(Enum("Color.Blue"))], []), Ret(Enum("Color.Red"))]))
            H.append(Func("gx_rank", [("l", "Lvl")], "int", [If(Bin(">=", V("l"), Enum("Lvl.High")), [Ret(I(3))], []), Ret(Bin("/", V("l"), I(10)))]))
        if f.get("ctrl"):
            # early returns from every nesting level of while / for / if / match
            arms = [("Shape.Circle", "c", [If(Bin(">", Field(V("c"), "r"), V("a")), [Println(S("r3")), Ret(I(3))], [])]),
                    ("Shape.Rect", "q", [Println(S("r4")), Ret(Bin("+", I(40), Field(V("q"), "w")))]), ("Shape.Empty", "e", [Println(S("e"))])]
            H.append(Func("gx_early", [("a", "int"), ("b", "int")], "int", [
                If(Bin("<", V("a"), I(0)), [Println(S("r1")), Ret(I(1))], []),
                Let("k", "int", I(0), True),
                While(Bin("<", V("k"), I(4)), [Set("k", Bin("+", V("k"), I(1))),
                    For("i", I(0), V("b"), [If(Bin("==", Bin("+", V("i"), V("k")), V("a")), [Println(S("r2")), Ret(Bin("+", Bin("*", V("k"), I(10)), V("i")))], []),
                                            Let("sh", "Shape", ULit("Shape.Circle", [("r", V("i"))])), Match(V("sh"), arms)]),
                    If(Bin("==", V("k"), V("b")), [Let("s2", "Shape", ULit("Shape.Rect", [("w", V("k")), ("h", I(1))])), Match(V("s2"), [(v, b_, list(body)) for v, b_, body in arms])], [])]),
                Println(S("r5")), Ret(I(5))]))
        if f.get("unions2"):
            mk = [If(Bin("==", V("k"), I(0)), [Ret(ULit("Msg.Quit", []))], []), If(Bin("==", V("k"), I(1)), [Ret(ULit("Msg.Move", [("x", V("k")), ("y", Bin("+", V("k"), I(10)))]))], []),
                  If(Bin("==", V("k"), I(2)), [Ret(ULit("Msg.Write", [("tag", Bin("+", S("w"), i2s(V("k"))))]))], []),
                  Ret(ULit("Msg.Rgb", [("r", V("k")), ("g", Bin("*", V("k"), I(2))), ("b", Bin("*", V("k"), I(3)))]))]
            H.append(Func("gx_mkmsg", [("k", "int")], "Msg", mk))
            H.append(Func("gx_showmsg", [("m", "Msg")], "int", [self.match_show(V("m"), "Msg", None), Ret(I(0))]))
            code = [("Msg.Quit", "q", [Ret(I(0))]), ("Msg.Move", "mv", [Ret(Bin("+", Field(V("mv"), "x"), Field(V("mv"), "y")))]),
                    ("Msg.Write", "w", [Ret(Call("str_length", Field(V("w"), "tag")))]), ("Msg.Rgb", "c", [Ret(Bin("+", Bin("*", Field(V("c"), "r"), I(100)), Field(V("c"), "b")))])]
            H.append(Func("gx_msgcode", [("m", "Msg")], "int", [Match(V("m"), code), Ret(I(-1))]))
            H.append(Func("gx_mkres", [("k", "int"), ("s", "string")], "Res", [If(Bin("==", Bin("%", V("k"), I(3)), I(0)), [Ret(ULit("Res.Ok", [("v", V("k")), ("tag", V("s"))]))], []),
                                                                                 If(Bin("==", Bin("%", V("k"), I(3)), I(1)), [Ret(ULit("Res.Bad", [("tag", V("s")), ("code", V("k")), ("ok", Bin(">", V("k"), I(2)))]))], []),
                                                                                 Ret(ULit("Res.Pt", [("p", SLit("Point", [("x", V("k")), ("y", Call("str_length", V("s")))]))]))]))
        if f.get("nested"):
            H.append(Func("gx_pts", [("n", "int")], AP, [Let("ps", AP, ALit("Point", []), True), For("i", I(0), V("n"), [Set("ps", Call("array_push", V("ps"), SLit("Point", [("x", V("i")), ("y", Bin("*", V("i"), I(7)))])))]), Ret(V("ps"))]))
            H.append(Func("gx_sumpts", [("ps", AP)], "int", [Let("s", "int", I(0), True), For("i", I(0), Call("array_length", V("ps")), [Let("p", "Point", Call("at", V("ps"), V("i"))), Set("s", Bin("+", V("s"), Bin("+", Field(V("p"), "x"), Field(V("p"), "y"))))]), Ret(V("s"))]))
            H.append(Func("gx_matrix", [("rows", "int"), ("cols", "int")], AAI, [Let("g", AAI, ALit("array<int>", []), True),
                For("i", I(0), V("rows"), [Let("row", "array<int>", ALit("int", []), True), For("j", I(0), V("cols"), [Set("row", Call("array_push", V("row"), Bin("+", Bin("*", V("i"), V("cols")), V("j"))))]), Set("g", Call("array_push", V("g"), V("row")))]), Ret(V("g"))]))
            H.append(Func("gx_msum", [("g", AAI)], "int", [Let("s", "int", I(0), True), For("i", I(0), Call("array_length", V("g")), [Let("row", "array<int>", Call("at", V("g"), V("i"))),
                For("j", I(0), Call("array_length", V("row")), [Set("s", Bin("+", V("s"), Call("at", V("row"), V("j"))))])]), Ret(V("s"))]))
            H.append(Func("gx_deep", [("n", "int")], "Deeper", [Let("pts", "array<int>", ALit("int", []), True), For("i", I(0), V("n"), [Set("pts", Call("array_push", V("pts"), Bin("*", V("i"), I(3))))]),
                Let("d", "Deep", SLit("Deep", [("pts", V("pts")), ("inner", SLit("Rec", [("tag", Bin("+", S("in"), i2s(V("n")))), ("p", SLit("Point", [("x", V("n")), ("y", Bin("+", V("n"), I(1)))])), ("ok", Bin(">", V("n"), I(1)))])), ("n", V("n"))])),
                Ret(SLit("Deeper", [("d", V("d")), ("name", Bin("+", S("deeper"), i2s(V("n")))), ("ps", Call("gx_pts", V("n")))]))]))
        fns.extend(H)

    def gx_param_types(self):
        """additional parameter types of the random functions"""
        f = self.feat
        out = []
        if f.get("unions2"): out += ["Msg", "Res", "Holder"]
        if f.get("nested"): out += [AP, AAI, "Deep", "Deeper"]
        if f.get("enums2"): out += ["Color", "Lvl", "Px"]
        if f.get("lists"): out += [LI]
        if f.get("strings"): out += ["string", "array<string>"]
        if f.get("wide"): out += ["bool", "string", "Rec", "Color"] + ([] if "tuple_param" in self.gx_avoid else ["(int, string)"])
        return out

    def gx_ret_types(self):
        f = self.feat
        out = []
        if f.get("unions2"): out += ["Msg", "Shape"]
        if f.get("nested"): out += [AP, "Deep", "array<int>"]
        if f.get("enums2"): out += ["Color", "Lvl"]
        if f.get("wide"): out += ["Rec", "(int, string)", "array<int>"]
        return out
