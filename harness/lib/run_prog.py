"""Running .nano programs on the real engines built from /repo's working tree."""
import os, shutil, signal, subprocess
from .common import sh, log, InfraError

RUN_TIMEOUT = 20        # seconds; corpus programs finish in milliseconds


OUT_CAP = 4 << 20      # a runaway program must not fill memory: stop reading after 4 MiB and kill it


def _run(cmd, cwd, env, timeout):
    import threading, time
    p = subprocess.Popen(cmd, cwd=cwd, env=env, stdout=subprocess.PIPE, stderr=subprocess.PIPE, start_new_session=True)
    bufs = {"out": bytearray(), "err": bytearray()}
    over = threading.Event()

    def pump(f, key):
        while True:
            b = f.read(65536)
            if not b:
                break
            if len(bufs[key]) < OUT_CAP:
                bufs[key] += b
            else:
                over.set()
    ts = [threading.Thread(target=pump, args=(p.stdout, "out")), threading.Thread(target=pump, args=(p.stderr, "err"))]
    for t in ts:
        t.daemon = True; t.start()
    t0 = time.time(); timed_out = False
    while p.poll() is None:
        if time.time() - t0 > timeout or over.is_set():
            timed_out = True
            try:
                os.killpg(p.pid, signal.SIGKILL)
            except OSError:
                pass
            break
        time.sleep(0.005)
    p.wait()
    for t in ts:
        t.join(2)
    rc = p.returncode
    if timed_out:
        return dict(rc=None, sig=None, out=bytes(bufs["out"]), err=bytes(bufs["err"]), timeout=True)
    return dict(rc=rc if rc >= 0 else None, sig=-rc if rc < 0 else None, out=bytes(bufs["out"]), err=bytes(bufs["err"]), timeout=False)


class Engines:
    def __init__(self, ctx, variant="plain", cc=None):
        self.ctx = ctx
        self.tree = ctx.build(variant, nanoc=True)
        self.bin = os.path.join(self.tree, "bin")
        self.cc = cc
        self.n = 0

    def env(self, extra=None):
        e = dict(os.environ)
        e.update(self.ctx.env(extra))
        if self.cc:
            e["NANO_CC"] = self.cc
        return e

    def workdir(self, name):
        d = os.path.join(self.ctx.scratch, "w", name)
        os.makedirs(d, exist_ok=True)
        return d

    def write(self, name, text, fname="p.nano"):
        d = self.workdir(name)
        with open(os.path.join(d, fname), "w") as f:
            f.write(text)
        return d

    def native(self, d, fname="p.nano", args=(), timeout=RUN_TIMEOUT, extra_env=None):
        """nanoc p.nano -o p.exe ; ./p.exe   ->  dict(compile=..., run=...)"""
        exe = os.path.join(d, "p.exe")
        if os.path.exists(exe):
            os.remove(exe)
        c = _run([os.path.join(self.bin, "nanoc_c"), fname, "-o", "p.exe"], d, self.env(extra_env), 300)
        res = dict(compile=c, exe=os.path.exists(exe), run=None)
        if res["exe"]:
            res["run"] = _run([exe] + list(args), d, self.env(extra_env), timeout)
        return res

    def shadow_only(self, d, fname="p.nano", verbose=True):
        """front end + shadow tests only (NANO_CC=/bin/true): the compile-time evaluator's transcript"""
        e = self.env({"NANO_CC": "/bin/true"})
        return _run([os.path.join(self.bin, "nanoc_c"), fname, "-o", "p.shadow"] + (["--verbose"] if verbose else []), d, e, 120)

    def vm(self, d, fname="p.nano", timeout=RUN_TIMEOUT, extra_env=None):
        return _run([os.path.join(self.bin, "nano_virt"), fname, "--run"], d, self.env(extra_env), timeout)

    def emit(self, d, fname="p.nano", out="p.nvm"):
        return _run([os.path.join(self.bin, "nano_virt"), fname, "--emit-nvm", "-o", out], d, self.env(), 120)

    def nano_vm(self, d, nvm="p.nvm", args=(), timeout=RUN_TIMEOUT, extra_env=None):
        return _run([os.path.join(self.bin, "nano_vm")] + list(args) + [nvm], d, self.env(extra_env), timeout)
