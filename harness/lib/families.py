"""Targeted program families (AST form).  Each family exercises one semantic rule of
SPECIFICATION sections 4-8 in every position the rule can appear in; what each
program must print is decided by NanoSem, not here."""
from .nano_ast import *

T = Func("t", [("x", "int")], "int", [Println(V("x")), Ret(V("x"))])
TB = Func("tb", [("x", "bool")], "bool", [Println(V("x")), Ret(V("x"))])
STRUCTS = [("Point", [("x", "int"), ("y", "int")])]
ENUMS = [("Color", [("Red", 0), ("Green", 1), ("Blue", 2)])]
UNIONS = [("Shape", [("Circle", [("r", "int")]), ("Rect", [("w", "int"), ("h", "int")]), ("Empty", [])])]


def prog(main_body, extra_funcs=(), globals_=(), ret=0, shadows=()):
    body = list(main_body)
    if not body or body[-1]["k"] != "ret":
        body.append(Ret(I(ret)))
    return Program([T, TB] + list(extra_funcs) + [Func("main", [], "int", body)],
                   structs=STRUCTS, enums=ENUMS, unions=UNIONS, globals_=globals_, shadows=shadows)


def short_circuit():
    out = {}
    for op in ("and", "or"):
        for l in (True, False):
            for r in (True, False):
                out["sc_%s_%d%d" % (op, l, r)] = prog([Println(Bin(op, Call("tb", B(l)), Call("tb", B(r))))])
                out["sc_if_%s_%d%d" % (op, l, r)] = prog([If(Bin(op, B(l), Call("tb", B(r))), [Println(S("T"))], [Println(S("F"))])])
                out["sc_nest_%s_%d%d" % (op, l, r)] = prog([Println(Bin(op, Bin("and" if op == "or" else "or", B(l), Call("tb", B(r))),
                                                                       Call("tb", B(not r))))])
        out["sc_while_" + op] = prog([Let("k", "int", I(0), True),
                                      While(Bin(op, Bin("<", V("k"), I(3)), Bin("==", Call("t", V("k")), I(99))),
                                            [Set("k", Bin("+", V("k"), I(1)))])])
    return out


def eval_order():
    out = {}
    f3 = Func("add3", [("a", "int"), ("b", "int"), ("c", "int")], "int", [Ret(Bin("+", V("a"), Bin("+", V("b"), V("c"))))])
    out["ord_args3"] = prog([Println(Call("add3", Call("t", I(3)), Call("t", I(4)), Call("t", I(5))))], [f3])
    for op in ("+", "-", "*", "<", "=="):
        out["ord_bin_" + {"+": "add", "-": "sub", "*": "mul", "<": "lt", "==": "eq"}[op]] = \
            prog([Println(Bin(op, Call("t", I(1)), Call("t", I(2))))])
        out["ord_nest_" + {"+": "add", "-": "sub", "*": "mul", "<": "lt", "==": "eq"}[op]] = \
            prog([Println(Bin(op, Bin("+", Call("t", I(1)), Call("t", I(2))), Bin("+", Call("t", I(3)), Call("t", I(4)))))])
    out["ord_let_then_use"] = prog([Let("a", "int", Call("t", I(1))), Let("b", "int", Call("t", I(2))), Println(Bin("-", V("a"), V("b")))])
    out["ord_struct_fields"] = prog([Let("p", "Point", SLit("Point", [("x", Call("t", I(1))), ("y", Call("t", I(2)))])), Println(Field(V("p"), "y"))])
    out["ord_array_lit"] = prog([Let("a", "array<int>", ALit("int", [Call("t", I(1)), Call("t", I(2)), Call("t", I(3))])), Println(Call("array_length", V("a")))])
    out["ord_tuple_lit"] = prog([Let("a", "(int, int)", TLit([Call("t", I(1)), Call("t", I(2))])), Println(TIdx(V("a"), 1))])
    out["ord_call_in_call"] = prog([Println(Call("add3", Call("add3", Call("t", I(1)), Call("t", I(2)), Call("t", I(3))), Call("t", I(4)), Call("t", I(5))))], [f3])
    return out


def scopes():
    out = {}
    for kind in ("if", "else", "while", "for", "block_in_fn"):
        inner = [Let("x", "int", I(2)), Println(V("x"))]
        if kind == "if": st = [If(B(True), inner, [])]
        elif kind == "else": st = [If(B(False), [Println(S("no"))], inner)]
        elif kind == "while": st = [Let("k", "int", I(0), True), While(Bin("<", V("k"), I(1)), [Set("k", Bin("+", V("k"), I(1)))] + inner)]
        elif kind == "for": st = [For("i", I(0), I(1), inner)]
        else: st = [If(Bin("==", I(1), I(1)), [If(B(True), inner, [])], [])]
        out["scope_shadow_" + kind] = prog([Let("x", "int", I(1))] + st + [Println(V("x"))])
        out["scope_shadow_mut_" + kind] = prog([Let("x", "int", I(1), True)] + st + [Set("x", Bin("+", V("x"), I(10))), Println(V("x"))])
    # the initialiser of a shadowing let sees the *outer* variable (8.2; Coq E_Let): block, loop body, parameter rebinding
    out["scope_shadow_init_from_outer_block"] = prog([Let("x", "int", I(100)), If(B(True), [Let("x", "int", Bin("+", V("x"), I(5))), Println(V("x"))], []), Println(V("x"))])
    out["scope_shadow_init_from_outer_loop"] = prog([Let("x", "int", I(7)), For("i", I(0), I(2), [Let("x", "int", Bin("*", V("x"), I(2))), Println(V("x"))]), Println(V("x"))])
    out["scope_shadow_init_from_outer_param"] = prog([Println(Call("norm", I(-30)))],
        [Func("norm", [("n", "int")], "int", [If(B(True), [Let("n", "int", Bin("%", Bin("+", V("n"), I(360)), I(360))), Ret(V("n"))], []), Ret(I(0))])])
    # a block that is never executed must not capture the name either
    out["scope_dead_block"] = prog([Let("x", "int", I(1)), If(B(False), [Let("x", "int", I(2)), Println(V("x"))], []), Println(V("x"))])
    out["scope_param_vs_global"] = prog([Println(Call("f", I(5))), Println(V("g"))],
                                        [Func("f", [("g", "int")], "int", [Ret(Bin("+", V("g"), I(1)))])], globals_=[("g", "int", False, I(100))])
    # static scoping: a callee sees globals, never the caller's locals (8.1)
    out["scope_static"] = prog([Let("x", "int", I(7)), Println(Call("f")), Println(V("x"))],
                               [Func("f", [], "int", [Ret(V("x"))])], globals_=[("x", "int", False, I(1))])
    out["scope_global_mut"] = prog([Println(Call("bump")), Println(Call("bump")), Println(V("c"))],
                                   [Func("bump", [], "int", [Set("c", Bin("+", V("c"), I(1))), Ret(V("c"))])], globals_=[("c", "int", True, I(0))])
    out["scope_loop_fresh"] = prog([For("i", I(0), I(3), [Let("y", "int", Bin("*", V("i"), I(2))), Println(V("y"))])])
    return out


def loops():
    out = {}
    out["for_continue"] = prog([For("j", I(0), I(4), [If(Bin("==", V("j"), I(1)), [Continue()], []), Println(V("j"))])])
    out["for_continue_last_iteration"] = prog([If(B(True), [For("j", I(0), I(3), [If(Bin(">=", V("j"), I(1)), [Continue()], []), Println(V("j"))]), Println(S("after-for"))], []), Println(S("end"))])
    out["for_continue_last_in_while"] = prog([Let("k", "int", I(0), True), While(Bin("<", V("k"), I(2)), [Set("k", Bin("+", V("k"), I(1))),
                                              For("j", I(0), I(2), [If(Bin("==", V("j"), I(1)), [Continue()], []), Println(V("j"))]), Println(Bin("+", V("k"), I(100)))]), Println(S("end"))])
    out["while_continue_last_iteration"] = prog([Let("k", "int", I(0), True), If(B(True), [While(Bin("<", V("k"), I(3)), [Set("k", Bin("+", V("k"), I(1))), If(Bin(">=", V("k"), I(2)), [Continue()], []), Println(V("k"))]),
                                                 Println(S("after-while"))], []), Println(S("end"))])
    out["for_break"] = prog([For("j", I(0), I(9), [If(Bin("==", V("j"), I(2)), [Break()], []), Println(V("j"))]), Println(S("end"))])
    out["while_continue"] = prog([Let("k", "int", I(0), True), While(Bin("<", V("k"), I(5)), [Set("k", Bin("+", V("k"), I(1))),
                                  If(Bin("==", Bin("%", V("k"), I(2)), I(0)), [Continue()], []), Println(V("k"))])])
    out["nested_break_inner"] = prog([For("a", I(0), I(3), [For("b", I(0), I(3), [If(Bin("==", V("b"), I(1)), [Break()], []),
                                      Println(Bin("+", Bin("*", V("a"), I(10)), V("b")))]), Println(S("o"))])])
    out["nested_continue_outer"] = prog([For("a", I(0), I(3), [If(Bin("==", V("a"), I(1)), [Continue()], []),
                                         For("b", I(0), I(2), [Println(Bin("+", Bin("*", V("a"), I(10)), V("b")))])])])
    out["while_in_for_break"] = prog([For("a", I(0), I(2), [Let("k", "int", I(0), True), While(B(True), [Set("k", Bin("+", V("k"), I(1))),
                                      If(Bin(">", V("k"), I(2)), [Break()], []), Println(V("k"))]), Println(S("x"))])])
    out["for_empty_range"] = prog([For("a", I(3), I(3), [Println(V("a"))]), For("b", I(5), I(2), [Println(V("b"))]), Println(S("done"))])
    out["for_neg_range"] = prog([For("a", I(-2), I(1), [Println(V("a"))])])
    out["for_in_array_var"] = prog([Let("arr", "array<int>", ALit("int", [I(4), I(5), I(6)])), ForIn("x", V("arr"), [Println(V("x"))])])
    out["return_in_loop"] = prog([Println(Call("f", I(3)))], [Func("f", [("n", "int")], "int",
                                 [For("i", I(0), I(10), [If(Bin("==", V("i"), V("n")), [Ret(Bin("*", V("i"), I(7)))], [])]), Ret(I(-1))])])
    out["return_in_while_nested"] = prog([Println(Call("f", I(2)))], [Func("f", [("n", "int")], "int",
                                 [Let("k", "int", I(0), True), While(B(True), [If(Bin("==", V("k"), V("n")), [If(B(True), [Ret(V("k"))], [])], []),
                                  Set("k", Bin("+", V("k"), I(1)))]), Ret(I(-1))])])
    return out


def data():
    out = {}
    out["enum_print"] = prog([Let("c", "Color", Enum("Color.Green")), Println(V("c"))])
    out["enum_eq"] = prog([Let("c", "Color", Enum("Color.Blue")), Println(Bin("==", V("c"), Enum("Color.Blue"))), Println(Bin("==", V("c"), Enum("Color.Red")))])
    out["min_max_abs"] = prog([Println(Call("min", I(3), I(9))), Println(Call("min", I(9), I(3))), Println(Call("max", I(3), I(9))),
                               Println(Call("max", I(-3), I(-9))), Println(Call("abs", I(-4))), Println(Call("min", I(-1), I(1)))])
    out["array_alias"] = prog([Let("a", "array<int>", ALit("int", [I(1), I(2)]), True), Let("b", "array<int>", V("a")),
                               Ex(Call("array_set", V("a"), I(0), I(9))), Println(Call("at", V("b"), I(0))),
                               Set("a", Call("array_push", V("a"), I(3))), Println(Call("array_length", V("b"))),
                               Println(Call("array_pop", V("a"))), Println(Call("array_length", V("b")))])
    out["array_through_call"] = prog([Let("a", "array<int>", ALit("int", [I(1), I(2), I(3)])), Ex(Call("poke", V("a"))), Println(Call("at", V("a"), I(1)))],
                                     [Func("poke", [("z", "array<int>")], "int", [Ex(Call("array_set", V("z"), I(1), I(42))), Ret(I(0))])])
    out["struct_nested"] = prog([Let("p", "Point", SLit("Point", [("x", I(3)), ("y", I(4))])), Let("q", "Point", V("p")),
                                 Println(Bin("+", Field(V("p"), "x"), Field(V("q"), "y")))])
    arms = [("Shape.Circle", "c", [Println(Field(V("c"), "r"))]), ("Shape.Rect", "q", [Println(Bin("*", Field(V("q"), "w"), Field(V("q"), "h")))]),
            ("Shape.Empty", "e", [Println(S("empty"))])]
    for nm, lit in (("circle", ULit("Shape.Circle", [("r", I(3))])), ("rect", ULit("Shape.Rect", [("w", I(2)), ("h", I(5))])), ("empty", ULit("Shape.Empty", []))):
        out["match_" + nm] = prog([Let("s", "Shape", lit), Match(V("s"), arms), Println(S("after"))])
    out["match_return_in_arm"] = prog([Println(Call("area", ULit("Shape.Circle", [("r", I(3))]))), Println(Call("area", ULit("Shape.Empty", [])))],
                                      [Func("area", [("s", "Shape")], "int", [Match(V("s"), [("Shape.Circle", "c", [Ret(Bin("*", Field(V("c"), "r"), Field(V("c"), "r")))]),
                                                                                          ("Shape.Rect", "q", [Ret(I(1))]), ("Shape.Empty", "e", [Ret(I(0))])]), Ret(I(-1))])])
    out["tuple_basic"] = prog([Let("tp", "(int, string)", TLit([I(7), S("seven")])), Println(TIdx(V("tp"), 0)), Println(TIdx(V("tp"), 1))])
    out["fn_first_class"] = prog([Println(Call("twice", V("inc"), I(5))), Let("g", "fn(int) -> int", V("inc")), Println(Call("g", I(1)))],
                                 [Func("inc", [("x", "int")], "int", [Ret(Bin("+", V("x"), I(1)))]),
                                  Func("twice", [("f", "fn(int) -> int"), ("x", "int")], "int", [Ret(Call("f", Call("f", V("x"))))])])
    out["recursion_fact"] = prog([Println(Call("fact", I(10))), Println(Call("fib", I(12)))],
                                 [Func("fact", [("n", "int")], "int", [If(Bin("<=", V("n"), I(1)), [Ret(I(1))], []), Ret(Bin("*", V("n"), Call("fact", Bin("-", V("n"), I(1)))))]),
                                  Func("fib", [("n", "int")], "int", [If(Bin("<", V("n"), I(2)), [Ret(V("n"))], []),
                                       Ret(Bin("+", Call("fib", Bin("-", V("n"), I(1))), Call("fib", Bin("-", V("n"), I(2)))))])])
    out["mutual_recursion"] = prog([Println(Call("ev", I(6))), Println(Call("od", I(6)))],
                                   [Func("ev", [("n", "int")], "bool", [If(Bin("==", V("n"), I(0)), [Ret(B(True))], []), Ret(Call("od", Bin("-", V("n"), I(1))))]),
                                    Func("od", [("n", "int")], "bool", [If(Bin("==", V("n"), I(0)), [Ret(B(False))], []), Ret(Call("ev", Bin("-", V("n"), I(1))))])])
    out["string_ops"] = prog([Let("s", "string", Bin("+", S("ab"), S("cd"))), Println(V("s")), Println(Call("str_length", V("s"))),
                              Println(Bin("==", V("s"), S("abcd"))), Println(Bin("!=", V("s"), S("abcd"))), Println(Call("int_to_string", I(-42))), Print(S("x")), Print(I(1)), Println(S(""))])
    out["float_compare"] = prog([Let("a", "float", F(160)), Let("b", "float", F(128)), Println(Bin(">", V("a"), V("b"))), Println(Bin("<=", V("a"), F(160))),
                                 Println(Bin("==", V("b"), F(128))), Println(Bin("!=", V("a"), V("b"))), Println(Bin("<", V("a"), F(161))),
                                 Println(Call("fmaxi", V("a"), V("b")))],
                                [Func("fmaxi", [("x", "float"), ("y", "float")], "int", [If(Bin(">=", V("x"), V("y")), [Ret(I(1))], []), Ret(I(2))])])
    out["float_in_struct_and_array"] = prog([Let("fs", "array<float>", ALit("float", [F(32), F(96), F(64)])), Let("k", "int", I(0), True),
                                             ForIn("x", V("fs"), [If(Bin(">", V("x"), F(48)), [Set("k", Bin("+", V("k"), I(1)))], [])]), Println(V("k")),
                                             Println(Bin("<", Call("at", V("fs"), I(0)), Call("at", V("fs"), I(2))))])
    # distinct equal-length strings whose 32-bit FNV-1a hashes collide (the VM interns strings by hash + length + bytes)
    for k, (a, b) in enumerate([("elfgssw", "hpksnps"), ("cadyrbv", "garycva"), ("bnmicrz", "bnstbxl"), ("nakmvxxv", "tbdxatiq")]):
        out["string_hash_collision_%d" % k] = prog([Let("a", "string", S(a)), Let("b", "string", S(b)), Println(V("a")), Println(V("b")), Println(Bin("==", V("a"), V("b"))),
                                                    Let("c", "string", Bin("+", S(b[:3]), S(b[3:]))), Println(V("c")), Println(Bin("==", V("a"), V("c"))),
                                                    Let("arr", "array<string>", ALit("string", [V("a"), V("b"), V("c")])), Println(Call("at", V("arr"), I(1))),
                                                    If(Bin("==", V("a"), V("b")), [Ret(I(1))], [])])
    # int_to_string / string concatenation at the 64-bit boundaries (20-character results)
    bvals = [0, -1, 9, -9, 10, 2**31, -2**31, 2**32, 10**18, -10**18, -10**18 - 1, 9223372036854775807, -9223372036854775807, -9223372036854775808]
    body = []
    for k, v in enumerate(bvals):
        body += [Let("v%d" % k, "int", I(v)), Let("s%d" % k, "string", Call("int_to_string", V("v%d" % k))), Println(V("s%d" % k)),
                 Println(Call("str_length", V("s%d" % k))), Println(Bin("+", S("<"), Bin("+", V("s%d" % k), S(">"))))]
    out["int_to_string_boundaries"] = prog(body)
    # struct literal with fields listed out of definition order (pure values: order of evaluation does not matter)
    out["struct_fields_out_of_order"] = prog([Let("p", "Point", SLit("Point", [("y", I(2)), ("x", I(1))])), Println(Field(V("p"), "x")), Println(Field(V("p"), "y")),
                                             Let("q", "Point", SLit("Point", [("y", Field(V("p"), "x")), ("x", Field(V("p"), "y"))])), Println(Field(V("q"), "x")), Println(Field(V("q"), "y"))])
    out["struct_through_calls"] = prog([Let("p", "Point", Call("mk", I(3), I(4))), Println(Call("sumxy", V("p"))), Println(Call("sumxy", Call("swap", V("p")))), Println(Field(Call("swap", V("p")), "x"))],
        [Func("mk", [("a", "int"), ("b", "int")], "Point", [Ret(SLit("Point", [("x", V("a")), ("y", V("b"))]))]),
         Func("swap", [("p", "Point")], "Point", [Ret(SLit("Point", [("x", Field(V("p"), "y")), ("y", Field(V("p"), "x"))]))]),
         Func("sumxy", [("p", "Point")], "int", [Ret(Bin("+", Bin("*", Field(V("p"), "x"), I(10)), Field(V("p"), "y")))])])
    out["string_compare_built"] = prog([Let("a", "string", Bin("+", S("ab"), S("cd"))), Let("b", "string", Bin("+", S("a"), S("bcd"))), Println(Bin("==", V("a"), V("b"))),
                                        Println(Bin("!=", V("a"), V("b"))), Println(Bin("==", V("a"), S("abce"))), Println(Bin("==", Bin("+", V("a"), S("")), V("b"))),
                                        Println(Bin("==", Call("int_to_string", I(12)), S("12")))])
    out["array_of_strings"] = prog([Let("a", "array<string>", ALit("string", [S("x"), S("yy")]), True), Ex(Call("array_push", V("a"), Bin("+", S("z"), S("z")))),
                                    ForIn("w", V("a"), [Println(V("w"))]), Println(Call("array_length", V("a"))), Ex(Call("array_set", V("a"), I(1), S("changed"))),
                                    Println(Call("at", V("a"), I(1))), Println(Call("array_pop", V("a"))), Println(Call("array_length", V("a")))])
    out["global_array_and_counter"] = prog([Ex(Call("note", I(5))), Ex(Call("note", I(7))), Println(Call("array_length", V("entries"))), Println(Call("at", V("entries"), I(1))), Println(V("total"))],
        [Func("note", [("v", "int")], "int", [Ex(Call("array_push", V("entries"), V("v"))), Set("total", Bin("+", V("total"), V("v"))), Ret(V("total"))])],
        globals_=[("entries", "array<int>", True, ALit("int", [I(0)])), ("total", "int", True, I(0))])
    out["nested_if_else_chain"] = prog([For("i", I(0), I(6), [If(Bin("<", V("i"), I(2)), [Println(S("low"))], [If(Bin("<", V("i"), I(4)), [Println(S("mid"))], [If(Bin("==", V("i"), I(4)), [Println(S("four"))], [Println(S("high"))])])])])])
    out["while_complex_condition"] = prog([Let("i", "int", I(0), True), Let("j", "int", I(10), True),
                                           While(Bin("and", Bin("<", V("i"), V("j")), Bin("or", Bin("!=", Bin("%", V("i"), I(7)), I(6)), Bin(">", V("j"), I(20)))),
                                                 [Set("i", Bin("+", V("i"), I(1))), Set("j", Bin("-", V("j"), I(1)))]), Println(V("i")), Println(V("j"))])
    out["recursion_accumulator"] = prog([Println(Call("sumto", I(50), I(0))), Println(Call("gcd", I(1071), I(462))), Println(Call("pw", I(3), I(13)))],
        [Func("sumto", [("n", "int"), ("acc", "int")], "int", [If(Bin("==", V("n"), I(0)), [Ret(V("acc"))], []), Ret(Call("sumto", Bin("-", V("n"), I(1)), Bin("+", V("acc"), V("n"))))]),
         Func("gcd", [("a", "int"), ("b", "int")], "int", [If(Bin("==", V("b"), I(0)), [Ret(V("a"))], []), Ret(Call("gcd", V("b"), Bin("%", V("a"), V("b"))))]),
         Func("pw", [("b", "int"), ("e", "int")], "int", [If(Bin("==", V("e"), I(0)), [Ret(I(1))], []), Ret(Bin("*", V("b"), Call("pw", V("b"), Bin("-", V("e"), I(1)))))])])
    out["match_in_loop_accumulate"] = prog([Let("shapes", "int", I(0), True), For("i", I(0), I(4), [Let("s", "Shape", Call("pick", V("i"))),
                                            Match(V("s"), [("Shape.Circle", "c", [Set("shapes", Bin("+", V("shapes"), Field(V("c"), "r")))]),
                                                           ("Shape.Rect", "q", [Set("shapes", Bin("+", V("shapes"), Bin("*", Field(V("q"), "w"), Field(V("q"), "h"))))]),
                                                           ("Shape.Empty", "e", [Set("shapes", Bin("-", V("shapes"), I(1)))])])]), Println(V("shapes"))],
        [Func("pick", [("i", "int")], "Shape", [If(Bin("==", Bin("%", V("i"), I(3)), I(0)), [Ret(ULit("Shape.Circle", [("r", V("i"))]))], []),
                                                 If(Bin("==", Bin("%", V("i"), I(3)), I(1)), [Ret(ULit("Shape.Rect", [("w", V("i")), ("h", I(5))]))], []), Ret(ULit("Shape.Empty", []))])])
    out["wrapping_arithmetic_runtime"] = prog([Let("big", "int", I(9223372036854775807)), Let("one", "int", Call("t", I(1))), Println(Bin("+", V("big"), V("one"))),
                                               Println(Bin("*", V("big"), Bin("+", V("one"), V("one")))), Println(Bin("-", Un("-", V("big")), Bin("+", V("one"), V("one")))),
                                               Println(Un("-", Bin("-", Un("-", V("big")), V("one"))))])
    out["division_signs"] = prog([Let("a", "int", Call("t", I(-7))), Let("b", "int", Call("t", I(2))), Println(Bin("/", V("a"), V("b"))), Println(Bin("%", V("a"), V("b"))),
                                  Println(Bin("/", V("b"), V("a"))), Println(Bin("%", V("b"), V("a"))), Println(Bin("/", Un("-", V("a")), Un("-", V("b")))), Println(Bin("%", V("a"), Un("-", V("b"))))])
    out["string_builtins"] = prog([Let("s", "string", Bin("+", S("hello "), S("world"))), Println(Call("str_substring", V("s"), I(0), I(5))), Println(Call("str_substring", V("s"), I(6), I(50))),
                                   Println(Call("str_substring", V("s"), I(11), I(0))), Println(Call("str_contains", V("s"), S("lo w"))), Println(Call("str_contains", V("s"), S(""))),
                                   Println(Call("str_contains", V("s"), S("xyz"))), Println(Call("str_equals", V("s"), S("hello world"))), Println(Call("char_at", V("s"), I(1))),
                                   Println(Call("string_from_char", I(65))), Println(Bin("+", Call("string_to_int", S("123")), I(1))), Println(Call("string_to_int", S("-45"))),
                                   Println(Call("string_to_int", Call("int_to_string", I(987654321012)))),
                                   Let("n", "int", I(0), True), For("i", I(0), Call("str_length", V("s")), [If(Bin("==", Call("char_at", V("s"), V("i")), I(111)), [Set("n", Bin("+", V("n"), I(1)))], [])]), Println(V("n"))])
    out["if_expr_block"] = prog([Let("k", "int", I(5)), Println(IfX(Bin(">", V("k"), I(3)), I(1), I(2)))])
    out["exit_codes"] = prog([Println(S("bye"))], ret=300)
    out["assert_fail_runtime"] = prog([Println(S("before")), Assert(Bin("==", Call("t", I(1)), I(2))), Println(S("after"))])
    return out


def _module_text(p, names, imports, pub=True, aliases=None):
    """source text of one module holding the functions `names` of program p"""
    q = {k: (v if k not in ("funcs", "shadows", "globals") else []) for k, v in p.items()}
    q["funcs"] = [f for f in p["funcs"] if f["n"] in names]
    q["shadows"] = [sh for sh in p["shadows"] if sh["fn"] in names]
    q["structs"] = []; q["enums"] = []; q["unions"] = []
    text = pretty(q)
    if pub:
        text = text.replace("\nfn ", "\npub fn ")
        if text.startswith("fn "):
            text = "pub " + text
    return "".join(imports) + "\n" + text


def imports():
    """multi-file programs (C01 lists multi-file imports): chain, diamond, selective import with alias.
    Each entry is the *flattened* program (what NanoSem evaluates: imports make the public functions visible) carrying
    the real file layout under "__files__"."""
    out = {}
    base = Func("base", [("x", "int")], "int", [Ret(Bin("+", V("x"), I(100)))])
    mid = Func("mid", [("x", "int")], "int", [Println(V("x")), Ret(Bin("*", Call("base", V("x")), I(2)))])
    left = Func("left", [("x", "int")], "int", [Ret(Bin("-", Call("base", V("x")), I(1)))])
    right = Func("right", [("x", "int")], "int", [Ret(Bin("+", Call("base", V("x")), I(1)))])
    greet = Func("greet", [("s", "string")], "string", [Ret(Bin("+", S("hello, "), V("s")))])
    # chain: main -> b -> c
    m = Func("main", [], "int", [Println(Call("mid", I(5))), Println(Call("mid", I(-100))), Ret(I(3))])
    p = Program([base, mid, m])
    p["__files__"] = {"p.nano": _module_text(p, ["main"], ['import "b.nano"\n'], pub=False), "b.nano": _module_text(p, ["mid"], ['import "c.nano"\n']),
                      "c.nano": _module_text(p, ["base"], [])}
    out["import_chain"] = p
    # diamond: main -> l, r ; l -> c ; r -> c
    m = Func("main", [], "int", [Println(Bin("+", Call("left", I(1)), Call("right", I(2)))), Ret(I(0))])
    p = Program([base, left, right, m])
    p["__files__"] = {"p.nano": _module_text(p, ["main"], ['import "l.nano"\n', 'import "r.nano"\n'], pub=False), "l.nano": _module_text(p, ["left"], ['import "c.nano"\n']),
                      "r.nano": _module_text(p, ["right"], ['import "c.nano"\n']), "c.nano": _module_text(p, ["base"], [])}
    out["import_diamond"] = p
    # selective import with alias: the flattened program calls the alias names
    times3 = Func("times3", [("x", "int")], "int", [Ret(Bin("*", V("x"), I(3)))])
    m = Func("main", [], "int", [Println(Call("times3", I(14))), Println(Call("greet", S("world"))), Ret(I(0))])
    p = Program([times3, greet, m])
    lib = Program([Func("triple", [("x", "int")], "int", [Ret(Bin("*", V("x"), I(3)))]), greet])
    p["__files__"] = {"p.nano": _module_text(p, ["main"], ['from "lib.nano" import triple as times3, greet\n'], pub=False), "lib.nano": _module_text(lib, ["triple", "greet"], [])}
    out["import_selective_alias"] = p
    # a module-level constant used through an imported function
    k = Func("scaled", [("x", "int")], "int", [Ret(Bin("*", V("x"), V("FACTOR")))])
    m = Func("main", [], "int", [Println(Call("scaled", I(6))), Ret(I(0))])
    p = Program([k, m], globals_=[("FACTOR", "int", False, I(7))])
    p["__files__"] = {"p.nano": _module_text(p, ["main"], ['import "k.nano"\n'], pub=False), "k.nano": "let FACTOR: int = 7\n" + _module_text(p, ["scaled"], [])}
    out["import_module_constant"] = p
    return out


LABS = Extern("labs", [("x", "int")], "int")
TOUPPER = Extern("toupper", [("c", "int")], "int")


def externs():
    """external (libc) functions called inside unsafe blocks, in every statement position"""
    out = {}
    mag = Func("mag", [("x", "int")], "int", [Unsafe([Ret(Call("labs", V("x")))])])
    up = Func("up", [("c", "int")], "int", [Let("r", "int", I(0), True), Unsafe([Set("r", Call("toupper", V("c")))]), Ret(V("r"))])
    def mk(body, fns):
        p = prog(body, fns); p["externs"] = [LABS, TOUPPER]; return p
    out["extern_unsafe_return"] = mk([Println(Call("mag", I(-42))), Println(Call("mag", I(7)))], [mag])
    out["extern_unsafe_set"] = mk([Println(Call("up", I(98))), Println(Call("up", I(66)))], [up])
    out["extern_unsafe_in_loop"] = mk([Let("acc", "int", I(0), True), For("i", I(-2), I(3), [Unsafe([Set("acc", Bin("+", V("acc"), Call("labs", V("i"))))])]), Println(V("acc"))], [])
    out["extern_unsafe_then_plain"] = mk([Println(Call("mag", I(-5))), Unsafe([Println(Call("toupper", I(97)))]), Println(Call("up", I(122)))], [mag, up])
    return out


def name_reuse():
    """one name, several binders: the binder nearest in scope decides, whatever other functions of the file call their
    variables and however often the shadowing construct runs (8.1, 8.2)"""
    out = {}
    others = {
        "strparam": Func("label", [("n", "string")], "string", [Ret(Bin("+", V("n"), S("!")))]),
        "strlocal": Func("label", [("q", "int")], "string", [Let("n", "string", S("loc")), Ret(Bin("+", V("n"), Call("int_to_string", V("q"))))]),
        "boollocal": Func("label", [("q", "int")], "string", [Let("n", "bool", Bin(">", V("q"), I(0))), If(V("n"), [Ret(S("pos"))], []), Ret(S("neg"))]),
        "arrlocal": Func("label", [("q", "int")], "string", [Let("n", "array<int>", ALit("int", [V("q"), I(2)])), Ret(Call("int_to_string", Call("array_length", V("n"))))]),
    }
    for ok, other in others.items():
        call = Call("label", S("a")) if ok == "strparam" else Call("label", I(4))
        # the later function binds the same name as an int in each binder position and uses it type-directed
        out["reuse_%s_forvar" % ok] = prog([Println(call), Println(Call("count", I(3)))], [other,
            Func("count", [("m", "int")], "int", [Let("acc", "int", I(0), True), For("n", I(0), V("m"), [Println(V("n")), Set("acc", Bin("+", V("acc"), V("n")))]), Ret(V("acc"))])])
        # the same, the name used only where any type is allowed (println): nothing but the right binder gives it its type
        out["reuse_%s_forvar_printonly" % ok] = prog([Println(call), Println(Call("count", I(3)))], [other,
            Func("count", [("m", "int")], "int", [Let("steps", "int", I(0), True), For("n", I(0), V("m"), [Println(V("n")), Set("steps", Bin("+", V("steps"), I(1)))]), Ret(V("steps"))])])
        out["reuse_%s_let_printonly" % ok] = prog([Println(call), Println(Call("twice", I(21)))], [other,
            Func("twice", [("m", "int")], "int", [Let("n", "int", Bin("*", V("m"), I(2))), Println(V("n")), Ret(V("m"))])])
        out["reuse_%s_param_printonly" % ok] = prog([Println(call), Println(Call("show", I(41)))], [other,
            Func("show", [("n", "int")], "int", [Println(V("n")), Ret(I(1))])])
        out["reuse_%s_let" % ok] = prog([Println(call), Println(Call("twice", I(21)))], [other,
            Func("twice", [("m", "int")], "int", [Let("n", "int", Bin("*", V("m"), I(2))), Println(V("n")), Ret(V("n"))])])
        out["reuse_%s_param" % ok] = prog([Println(call), Println(Call("inc", I(41)))], [other,
            Func("inc", [("n", "int")], "int", [Println(V("n")), Ret(Bin("+", V("n"), I(1)))])])
        out["reuse_%s_blocklet" % ok] = prog([Println(call), Println(Call("pick", I(5)))], [other,
            Func("pick", [("m", "int")], "int", [If(Bin(">", V("m"), I(0)), [Let("n", "int", Bin("-", V("m"), I(1))), Println(V("n")), Ret(V("n"))], []), Ret(I(0))])])
        out["reuse_%s_forin" % ok] = prog([Println(call), Println(Call("total", I(5)))], [other,
            Func("total", [("m", "int")], "int", [Let("xs", "array<int>", ALit("int", [V("m"), I(7)])), Let("acc", "int", I(0), True),
                                                   ForIn("n", V("xs"), [Println(V("n")), Set("acc", Bin("+", V("acc"), V("n")))]), Ret(V("acc"))])])
        # and the other way round: the string-typed name comes later than the int one
        out["reuse_%s_after_int" % ok] = prog([Println(Call("inc", I(41))), Println(call)], [
            Func("inc", [("n", "int")], "int", [Println(V("n")), Ret(Bin("+", V("n"), I(1)))]), other])
    # the name of a mutable local of an earlier function, bound again by a for loop / an immutable let / a parameter later on
    cnt = Func("count_down", [("k", "int")], "int", [Let("n", "int", V("k"), True), While(Bin(">", V("n"), I(0)), [Set("n", Bin("-", V("n"), I(1)))]), Ret(V("n"))])
    out["reuse_mutlocal_forvar"] = prog([Println(Call("count_down", I(3))), Println(Call("total", I(4)))], [cnt,
        Func("total", [("m", "int")], "int", [Let("acc", "int", I(0), True), For("n", I(0), V("m"), [Set("acc", Bin("+", V("acc"), V("n")))]), Ret(V("acc"))])])
    out["reuse_mutlocal_let"] = prog([Println(Call("count_down", I(3))), Println(Call("twice", I(4)))], [cnt,
        Func("twice", [("m", "int")], "int", [Let("n", "int", Bin("*", V("m"), I(2))), Ret(V("n"))])])
    out["reuse_mutlocal_param"] = prog([Println(Call("count_down", I(3))), Println(Call("inc", I(4)))], [cnt,
        Func("inc", [("n", "int")], "int", [Ret(Bin("+", V("n"), I(1)))])])
    # a loop variable that shadows a local / parameter: after the loop the outer one is back, for 0, 1, n iterations
    for iters in (0, 1, 3):
        out["reuse_forvar_shadows_local_%d" % iters] = prog([Let("i", "int", I(10)), For("i", I(0), I(iters), [Println(V("i"))]), Println(Bin("+", V("i"), I(1)))])
        out["reuse_forvar_shadows_param_%d" % iters] = prog([Println(Call("f", I(10), I(iters)))],
            [Func("f", [("i", "int"), ("k", "int")], "int", [For("i", I(0), V("k"), [Println(V("i"))]), Ret(Bin("+", V("i"), I(1)))])])
        out["reuse_forvar_shadows_mut_local_%d" % iters] = prog([Let("i", "int", I(10), True), For("i", I(0), I(iters), [Println(V("i"))]),
                                                              Set("i", Bin("*", V("i"), I(2))), Println(V("i"))])
        out["reuse_forin_shadows_local_%d" % iters] = prog([Let("x", "int", I(10)), Let("xs", "array<int>", ALit("int", [I(4), I(5), I(6)][:max(iters, 1)])),
                                                            ForIn("x", V("xs"), [Println(V("x"))]), Println(Bin("+", V("x"), I(1)))])
        out["reuse_whilelet_shadows_local_%d" % iters] = prog([Let("x", "int", I(10)), Let("k", "int", I(0), True),
                                                               While(Bin("<", V("k"), I(iters)), [Let("x", "int", Bin("*", V("k"), I(3))), Println(V("x")), Set("k", Bin("+", V("k"), I(1)))]),
                                                               Println(Bin("+", V("x"), I(1)))])
        out["reuse_nested_forvar_same_name_%d" % iters] = prog([For("i", I(0), I(2), [For("i", I(5), I(5 + iters), [Println(V("i"))]), Println(V("i"))])])
    # sibling loops and functions reuse the variable: each starts from its own binder
    out["reuse_sibling_loops"] = prog([For("i", I(0), I(2), [Println(V("i"))]), For("i", I(7), I(9), [Println(V("i"))]), Let("i", "int", I(50)), Println(V("i"))])
    out["reuse_local_like_global"] = prog([Println(V("g")), Println(Call("f", I(2))), Println(V("g"))],
        [Func("f", [("k", "int")], "int", [Let("g", "int", Bin("*", V("k"), I(7))), Ret(V("g"))])], globals_=[("g", "int", False, I(5))])
    out["reuse_forvar_like_global"] = prog([For("g", I(0), I(2), [Println(V("g"))]), Println(V("g")), Println(Call("f"))],
        [Func("f", [], "int", [Ret(V("g"))])], globals_=[("g", "int", False, I(5))])
    return out


def fn_values():
    """first-class functions (3.4.5): calls through a function value behave like direct calls wherever the callee is
    defined (before / after its caller), whatever it does before it returns (prints, asserts, loops, calls on), and
    however the value travels (parameter, let, return value, array of callers)"""
    out = {}
    FII = "fn(int) -> int"
    noisy = Func("noisy", [("x", "int")], "int", [Println(S("in noisy")), Println(V("x")), Assert(Bin(">", V("x"), I(-100))), Println(S("leaving")), Ret(Bin("*", V("x"), I(2)))])
    quiet = Func("quiet", [("x", "int")], "int", [Ret(Bin("+", V("x"), I(3)))])
    looping = Func("looping", [("x", "int")], "int", [Let("s", "int", I(0), True), For("i", I(0), V("x"), [Println(V("i")), Set("s", Bin("+", V("s"), V("i")))]), Ret(V("s"))])
    apply1 = Func("apply1", [("f", FII), ("x", "int")], "int", [Println(S("apply")), Let("r", "int", Call("f", V("x"))), Println(S("applied")), Ret(Bin("+", V("r"), I(1)))])
    twice = Func("twice", [("f", FII), ("x", "int")], "int", [Ret(Call("f", Call("f", V("x"))))])
    pick = Func("pick", [("k", "int")], FII, [If(Bin("==", V("k"), I(0)), [Ret(V("noisy"))], []), If(Bin("==", V("k"), I(1)), [Ret(V("looping"))], []), Ret(V("quiet"))])
    main_body = [Println(Call("apply1", V("noisy"), I(10))), Println(Call("apply1", V("quiet"), I(10))), Println(Call("twice", V("noisy"), I(2))),
                 Let("g", FII, V("looping")), Println(Call("g", I(3))), Let("h", FII, Call("pick", I(0))), Println(Call("h", I(4))), Println(Call("apply1", Call("pick", I(1)), I(2))),
                 Println(S("end"))]
    T_, TB_ = T, TB
    mainf = Func("main", [], "int", main_body + [Ret(I(0))])
    orders = {"callees_first": [noisy, quiet, looping, apply1, twice, pick, mainf],
              "callees_last": [mainf, apply1, twice, pick, noisy, quiet, looping],
              "callers_between": [noisy, apply1, mainf, twice, quiet, pick, looping]}
    for nm, fs in orders.items():
        out["fnval_order_" + nm] = Program([T_, TB_] + fs, structs=STRUCTS, enums=ENUMS, unions=UNIONS)
    # a callee reached through a function value calls on through another function value
    out["fnval_chain_after_main"] = Program([T_, TB_, Func("main", [], "int", [Println(Call("outer", V("mid"), I(3))), Println(S("end")), Ret(I(0))]),
                                             Func("outer", [("f", "fn(fn(int) -> int, int) -> int"), ("x", "int")], "int", [Println(S("outer")), Ret(Call("f", V("leaf"), V("x")))]),
                                             Func("mid", [("g", FII), ("x", "int")], "int", [Println(S("mid")), Let("r", "int", Call("g", V("x"))), Println(S("mid done")), Ret(Bin("+", V("r"), I(100)))]),
                                             Func("leaf", [("x", "int")], "int", [Println(S("leaf")), Println(V("x")), Ret(Bin("*", V("x"), V("x")))])],
                                            structs=STRUCTS, enums=ENUMS, unions=UNIONS)
    out["fnval_param_named_like_function"] = Program([T_, TB_, Func("f", [("x", "int")], "int", [Ret(Bin("+", V("x"), I(100)))]), Func("g", [("x", "int")], "int", [Ret(Bin("*", V("x"), I(2)))]),
                                                      Func("ap", [("f", FII), ("x", "int")], "int", [Ret(Call("f", V("x")))]),
                                                      Func("main", [], "int", [Println(Call("ap", V("g"), I(5))), Println(Call("ap", V("f"), I(5))), Ret(I(0))])],
                                                     structs=STRUCTS, enums=ENUMS, unions=UNIONS)
    # recursion through a function value, callee after caller, printing on the way down and up
    out["fnval_recursive_after_main"] = Program([T_, TB_, Func("main", [], "int", [Println(Call("drive", V("down"), I(3))), Ret(I(0))]),
                                                 Func("drive", [("f", FII), ("n", "int")], "int", [Ret(Call("f", V("n")))]),
                                                 Func("down", [("n", "int")], "int", [Println(V("n")), If(Bin("<=", V("n"), I(0)), [Ret(I(0))], []),
                                                                                      Let("r", "int", Call("drive", V("down"), Bin("-", V("n"), I(1)))), Println(Bin("+", V("r"), V("n"))), Ret(Bin("+", V("r"), V("n")))])],
                                                structs=STRUCTS, enums=ENUMS, unions=UNIONS)
    return out


def strings_and_comparisons():
    out = {}
    out["str_escape_tab_quote_backslash"] = prog([Println(S("a\tb")), Println(S('say "hi"')), Println(S("back\\slash")), Println(Call("str_length", S("a\tb"))),
                                                   Println(Call("str_length", S('q"q'))), Println(Call("str_length", S("x\\y")))])
    out["str_escape_newline"] = prog([Print(S("one\ntwo\n")), Println(Call("str_length", S("x\ny"))), Println(Bin("==", S("a\nb"), Bin("+", S("a\n"), S("b"))))])
    out["str_escape_in_concat_and_compare"] = prog([Let("s", "string", Bin("+", S("k\t"), Call("int_to_string", I(5)))), Println(Call("str_length", V("s"))), Println(Call("str_contains", V("s"), S("\t"))),
                                                    Println(Call("char_at", V("s"), I(1)))])
    AAI = "array<array<int>>"
    out["nested_array_via_let"] = prog([Let("g", AAI, ALit("array<int>", [ALit("int", [I(1), I(2)]), ALit("int", [I(3), I(4)])])), Let("r", "array<int>", Call("at", V("g"), I(1))),
                                        Println(Call("at", V("r"), I(0))), Println(Call("array_length", V("g"))), Println(Call("array_length", Call("at", V("g"), I(0)))),
                                        Let("r0", "array<int>", Call("at", V("g"), I(0)), True), Ex(Call("array_set", V("r0"), I(0), I(99))), Let("again", "array<int>", Call("at", V("g"), I(0))),
                                        Println(Call("at", V("again"), I(0)))])
    out["nested_array_println_direct"] = prog([Let("g", AAI, ALit("array<int>", [ALit("int", [I(1), I(2)]), ALit("int", [I(3), I(4)])])), Println(Call("at", Call("at", V("g"), I(1)), I(0)))])
    ua = [("A", [("P", [("v", "int"), ("w", "int")]), ("Q", [("w", "int")])]), ("B", [("R", [("w", "int"), ("v", "int")]), ("S", [("v", "int")])])]
    out["union_shared_field_names"] = Program([T, TB,
        Func("fa", [("a", "A")], "int", [Match(V("a"), [("A.P", "p", [Ret(Bin("+", Bin("*", Field(V("p"), "v"), I(10)), Field(V("p"), "w")))]), ("A.Q", "q", [Ret(Field(V("q"), "w"))])]), Ret(I(-1))]),
        Func("fb", [("b", "B")], "int", [Match(V("b"), [("B.R", "r", [Ret(Bin("+", Bin("*", Field(V("r"), "v"), I(10)), Field(V("r"), "w")))]), ("B.S", "s", [Ret(Field(V("s"), "v"))])]), Ret(I(-1))]),
        Func("main", [], "int", [Println(Call("fa", ULit("A.P", [("v", I(1)), ("w", I(2))]))), Println(Call("fa", ULit("A.Q", [("w", I(3))]))),
                                 Println(Call("fb", ULit("B.R", [("w", I(4)), ("v", I(5))]))), Println(Call("fb", ULit("B.S", [("v", I(6))]))), Ret(I(0))])],
        structs=STRUCTS + [("Pair", [("w", "int"), ("v", "int")])], enums=ENUMS, unions=UNIONS + ua)
    out["struct_alias_then_set"] = prog([Println(Call("fa", I(1))), Println(Call("fs", I(4)))],
        [Func("fa", [("k", "int")], "int", [Let("p", "Point", SLit("Point", [("x", V("k")), ("y", I(2))]), True), Let("q", "Point", V("p")),
                                            Set("p", SLit("Point", [("x", I(50)), ("y", I(60))])), Let("r", "Point", SLit("Point", [("x", I(7)), ("y", I(8))])),
                                            Ret(Bin("+", Field(V("q"), "x"), Bin("+", Field(V("r"), "y"), Field(V("p"), "x"))))]),
         Func("fs", [("k", "int")], "int", [Let("p", "Point", SLit("Point", [("x", V("k")), ("y", I(2))]), True), Set("p", V("p")), Set("p", V("p")), Ret(Field(V("p"), "x"))])])
    out["break_in_match_in_while"] = prog([Let("k", "int", I(0), True), While(Bin("<", V("k"), I(3)), [Set("k", Bin("+", V("k"), I(1))), Let("s", "Shape", ULit("Shape.Circle", [("r", V("k"))])),
                                           Match(V("s"), [("Shape.Circle", "c", [Println(Field(V("c"), "r")), If(Bin("==", V("k"), I(1)), [Break()], [])]), ("Shape.Rect", "q", [Println(I(0))]), ("Shape.Empty", "e", [Println(I(0))])])]),
                                           Println(S("after"))])
    out["cmp_of_cmp"] = prog([Let("a", "int", Call("t", I(3))), Let("b", "int", Call("t", I(4))), Let("c", "int", Call("t", I(9))),
                              Println(Bin("==", Bin("==", V("a"), V("b")), Bin("==", V("c"), I(9)))), Println(Bin("==", Bin("<", V("a"), V("b")), Bin(">", V("c"), I(2)))),
                              Println(Bin("!=", Bin("==", V("a"), V("b")), B(True))), Println(Bin("and", Bin("==", Bin("<", V("a"), V("b")), B(True)), Bin("!=", Bin(">=", V("a"), V("b")), B(True))))])
    return out


def maps():
    """HashMap<K,V> (SPECIFICATION 3.4.6, STDLIB): a finite map with reference semantics; a missing key reads as the
    default of the value type"""
    out = {}
    MII, MSI, MSS, MIS = "HashMap<int, int>", "HashMap<string, int>", "HashMap<string, string>", "HashMap<int, string>"
    new = Call("map_new")
    put = lambda m, k, v: Ex(Call("map_put", V(m), k, v))
    get = lambda m, k: Call("map_get", V(m), k)
    has = lambda m, k: Call("map_has", V(m), k)
    size = lambda m: Call("map_size", V(m))
    rem = lambda m, k: Ex(Call("map_remove", V(m), k))
    out["map_basic_int_int"] = prog([Let("m", MII, new), Println(size("m")), put("m", I(1), I(10)), put("m", I(2), I(20)), put("m", I(1), I(11)),
                                     Println(size("m")), Println(get("m", I(1))), Println(get("m", I(2))), Println(has("m", I(2))), Println(has("m", I(3))),
                                     Println(Call("map_length", V("m")))])
    out["map_basic_string_keys"] = prog([Let("m", MSI, new), put("m", S("alice"), I(10)), put("m", S(""), I(7)), put("m", S("a b"), I(3)), put("m", S("alice"), I(12)),
                                         Println(size("m")), Println(get("m", S("alice"))), Println(get("m", S(""))), Println(get("m", S("a b"))),
                                         Println(has("m", S("Alice"))), Println(has("m", S("")))])
    out["map_get_missing_int"] = prog([Let("m", MII, new), put("m", I(1), I(10)), Let("v", "int", get("m", I(3))), Println(Bin("+", V("v"), I(1))),
                                       Println(get("m", I(3))), Println(size("m")), Println(has("m", I(3)))])
    out["map_get_missing_string"] = prog([Let("m", MSS, new), put("m", S("a"), S("x")), Let("v", "string", get("m", S("zz"))), Println(Call("str_length", V("v"))),
                                          Println(Bin("+", V("v"), S("!"))), Println(get("m", S("a"))), Println(size("m"))])
    out["map_get_missing_int_string"] = prog([Let("m", MIS, new), put("m", I(5), S("five")), Println(Bin("+", get("m", I(6)), S("|"))), Println(get("m", I(5)))])
    out["map_get_missing_empty_map"] = prog([Let("m", MSI, new), Println(get("m", S("k"))), Println(has("m", S("k"))), Println(size("m"))])
    out["map_alias"] = prog([Let("m", MII, new), Let("n", MII, V("m")), put("n", I(4), I(40)), Println(size("m")), Println(get("m", I(4))),
                             rem("m", I(4)), Println(has("n", I(4)))])
    fill = Func("fill", [("m", MII), ("n", "int")], "int", [Let("i", "int", I(0), True), While(Bin("<", V("i"), V("n")),
                [put("m", V("i"), Bin("*", V("i"), V("i"))), Set("i", Bin("+", V("i"), I(1)))]), Ret(size("m"))])
    out["map_through_call"] = prog([Let("m", MII, new), Println(Call("fill", V("m"), I(5))), Println(get("m", I(4))), Println(Call("fill", V("m"), I(3))), Println(size("m"))], [fill])
    out["map_returned_from_fn"] = prog([Let("h", MSI, Call("mk", I(3))), Println(get("h", S("n"))), Println(get("h", S("twice"))), Println(has("h", S("none"))), Println(get("h", S("none")))],
        [Func("mk", [("n", "int")], MSI, [Let("c", MSI, new), put("c", S("n"), V("n")), put("c", S("twice"), Bin("*", V("n"), I(2))), Ret(V("c"))])])
    out["map_remove"] = prog([Let("m", MII, new), put("m", I(1), I(10)), put("m", I(2), I(20)), put("m", I(3), I(30)), rem("m", I(2)), rem("m", I(77)),
                              Println(size("m")), Println(has("m", I(2))), Println(get("m", I(2))), Println(get("m", I(3))), put("m", I(2), I(21)), Println(get("m", I(2))), Println(size("m"))])
    out["map_remove_all_then_reuse"] = prog([Let("m", MII, new), Println(Call("fill", V("m"), I(20))),
                                             For("i", I(0), I(20), [rem("m", V("i"))]), Println(size("m")), Println(has("m", I(7))),
                                             Println(Call("fill", V("m"), I(4))), Println(get("m", I(3)))], [fill])
    out["map_growth_200"] = prog([Let("m", MII, new), Println(Call("fill", V("m"), I(200))), Println(get("m", I(199))), Println(get("m", I(0))), Println(get("m", I(100))),
                                  Println(has("m", I(200))), put("m", I(5), I(-1)), Println(get("m", I(5))), Println(size("m"))], [fill])
    out["map_growth_string_keys"] = prog([Let("m", MSI, new), For("i", I(0), I(120), [put("m", Bin("+", S("k"), Call("int_to_string", Bin("*", V("i"), I(37)))), V("i"))]),
                                          Println(size("m")), Println(get("m", S("k0"))), Println(get("m", S("k4403"))), Println(has("m", S("k1"))), Println(get("m", S("k37")))])
    out["map_extreme_int_keys"] = prog([Let("m", MII, new), put("m", I(0), I(1)), put("m", I(-1), I(2)), put("m", I(9223372036854775807), I(3)),
                                        put("m", Bin("-", I(-9223372036854775807), I(1)), I(4)), put("m", I(4294967296), I(5)), put("m", I(-4294967296), I(6)),
                                        Println(size("m")), Println(get("m", I(0))), Println(get("m", I(-1))), Println(get("m", I(9223372036854775807))),
                                        Println(get("m", Bin("-", I(-9223372036854775807), I(1)))), Println(get("m", I(4294967296))), Println(get("m", I(-4294967296))), Println(has("m", I(1)))])
    out["map_overwrite_in_loop"] = prog([Let("m", MSI, new), For("i", I(0), I(50), [put("m", S("k"), V("i"))]), Println(size("m")), Println(get("m", S("k")))])
    out["map_counting"] = prog([Let("m", MII, new), Let("xs", "array<int>", ALit("int", [I(3), I(1), I(3), I(2), I(3), I(1)])), Let("i", "int", I(0), True),
                                While(Bin("<", V("i"), Call("array_length", V("xs"))), [Let("x", "int", Call("at", V("xs"), V("i"))),
                                      put("m", V("x"), Bin("+", get("m", V("x")), I(1))), Set("i", Bin("+", V("i"), I(1)))]),
                                Println(get("m", I(3))), Println(get("m", I(1))), Println(get("m", I(2))), Println(get("m", I(9))), Println(size("m"))])
    out["map_two_maps"] = prog([Let("a", MII, new), Let("b", MSS, new), put("a", I(1), I(2)), put("b", S("1"), S("two")), put("a", I(2), I(3)),
                                Println(size("a")), Println(size("b")), Println(get("b", S("1"))), Println(get("a", I(2))), Println(has("b", S("2")))])
    out["map_local_in_match_arm"] = prog([Println(Call("pick", ULit("Shape.Circle", [("r", I(3))]))), Println(Call("pick", ULit("Shape.Circle", [("r", I(9))]))), Println(Call("pick", ULit("Shape.Empty", [])))],
        [Func("pick", [("s", "Shape")], "int", [Match(V("s"), [
            ("Shape.Circle", "c", [Let("hm", MII, new), put("hm", I(1), Field(V("c"), "r")), If(Bin(">", Field(V("c"), "r"), I(5)), [Ret(get("hm", I(1)))], []), Println(size("hm"))]),
            ("Shape.Rect", "q", [Println(Field(V("q"), "w"))]), ("Shape.Empty", "e", [Println(I(0))])]), Ret(I(0))])])
    out["map_local_in_nested_blocks"] = prog([For("i", I(0), I(3), [Let("hm", MII, new), put("hm", V("i"), I(1)), If(Bin("==", V("i"), I(1)), [Let("h2", MSI, new), put("h2", S("k"), V("i")), Println(get("h2", S("k")))], []),
                                              Println(size("hm"))]), Println(S("end"))])
    out["map_put_evaluation_order"] = prog([Let("m", MII, new), put("m", Call("t", I(1)), Call("t", I(2))), Println(get("m", Call("t", I(1))))])
    out["map_keys_colliding_strings"] = prog([Let("m", MSI, new), put("m", S("Aa"), I(1)), put("m", S("BB"), I(2)), put("m", S("AaAa"), I(3)), put("m", S("BBBB"), I(4)),
                                              put("m", S("AaBB"), I(5)), Println(get("m", S("Aa"))), Println(get("m", S("BB"))), Println(get("m", S("AaBB"))), Println(get("m", S("BBAa"))),
                                              rem("m", S("Aa")), Println(get("m", S("BB"))), Println(has("m", S("Aa"))), Println(size("m"))])
    return out


def all_families():
    out = {}
    for f in (short_circuit, eval_order, scopes, loops, data, imports, externs, name_reuse, maps, fn_values, strings_and_comparisons):
        out.update(f())
    from .families_lib import lib_families       # programs over the standard library (NanoLib.tla)
    out.update(lib_families())
    import os, re
    if os.environ.get("VERIF_ONLY"):          # developer aid: restrict the corpus to the families whose name matches
        out = {k: v for k, v in out.items() if re.search(os.environ["VERIF_ONLY"], "fam_" + k)}
    return out
