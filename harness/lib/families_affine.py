"""Well-formed seed programs that use `resource struct` values (affine types; AST form, see nano_ast.py).

The vocabulary is the one on which docs/AFFINE_TYPES_GUIDE.md, docs/AFFINE_TYPES_DESIGN.md and src/typechecker.c agree:
  produce   let f: FileHandle = (open_file k)          a function returns a fresh resource
  borrow    f.fd                                        reading a field does not consume
  consume   (close_file f)                              passed by value to a function: consumed
  move      let g: FileHandle = f / return f / S { h: f }
Whether a seed is well formed (Violates = {}) is decided by spec/NanoAffine.tla, whether the real tools accept it by
running them (props/c05_affine.py checks both on every run); nothing here decides anything."""
from .nano_ast import *

R = "FileHandle"
OPEN = Func("open_file", [("k", "int")], R, [Ret(SLit(R, [("fd", V("k"))]))])
CLOSE = Func("close_file", [("f", R)], "void", [Println(Field(V("f"), "fd"))])
STRUCTS = [(R, [("fd", "int")]), ("Conn", [("h", R), ("tag", "int")])]


def use(v): return Println(Field(V(v), "fd"))
def close(v): return Ex(Call("close_file", V(v)))
def closep(e): return Ex(Call("close_file", e))
def opn(v, k, mut=False): return Let(v, R, Call("open_file", I(k)), mut)


def prog(main_body, extra_funcs=(), ret=0):
    body = list(main_body)
    if not body or body[-1]["k"] != "ret":
        body.append(Ret(I(ret)))
    return Program([OPEN, CLOSE] + list(extra_funcs) + [Func("main", [], "int", body)], structs=STRUCTS, resources=[R])


def all_seeds():
    out = {}
    out["straight"] = prog([opn("f", 1), use("f"), close("f")])
    out["both_branches"] = prog([Println(Call("work", B(True))), Println(Call("work", B(False)))],
        [Func("work", [("c", "bool")], "int", [opn("f", 2), If(V("c"), [use("f"), close("f")], [close("f")]), Ret(I(0))])])
    out["early_return"] = prog([Println(Call("work", B(True))), Println(Call("work", B(False)))],
        [Func("work", [("c", "bool")], "int", [opn("f", 3), If(V("c"), [close("f"), Ret(I(1))]), use("f"), close("f"), Ret(I(0))])])
    out["helper_passthrough"] = prog([opn("f", 4), Let("g", R, Call("pass", V("f"))), use("g"), close("g")],
        [Func("pass", [("f", R)], R, [use("f"), Ret(V("f"))])])
    out["two_resources"] = prog([opn("f1", 5), opn("f2", 6), use("f1"), use("f2"), close("f2"), use("f1"), close("f1")])
    out["loop_borrow"] = prog([opn("f", 7), Let("i", "int", I(0), True),
                               While(Bin("<", V("i"), I(3)), [Println(Bin("+", Field(V("f"), "fd"), V("i"))), Set("i", Bin("+", V("i"), I(1)))]),
                               close("f")])
    out["loop_local"] = prog([For("i", I(0), I(3), [opn("f", 20), use("f"), close("f")])])
    out["move_let"] = prog([opn("f", 8), Let("g", R, V("f")), use("g"), close("g")])
    out["shadow_block"] = prog([opn("f", 9), If(B(True), [opn("f", 10), use("f"), close("f")]), use("f"), close("f")])
    out["struct_holder"] = prog([opn("f", 11), Let("c", "Conn", SLit("Conn", [("h", V("f")), ("tag", I(1))])),
                                 Println(Field(Field(V("c"), "h"), "fd")), closep(Field(V("c"), "h")), Println(Field(V("c"), "tag"))])
    out["return_resource"] = prog([Let("g", R, Call("mk", I(12))), close("g")],
        [Func("mk", [("k", "int")], R, [Let("f", R, Call("open_file", V("k"))), use("f"), Ret(V("f"))])])
    out["param_consumer"] = prog([opn("f", 13), Println(Call("fin", V("f")))],
        [Func("fin", [("f", R)], "int", [Let("k", "int", Field(V("f"), "fd")), close("f"), Ret(V("k"))])])
    out["loop_consume_return"] = prog([Println(Call("work", I(5))), Println(Call("work", I(1)))],
        [Func("work", [("n", "int")], "int", [opn("f", 14), Let("i", "int", I(0), True),
              While(Bin("<", V("i"), V("n")), [If(Bin("==", V("i"), I(2)), [close("f"), Ret(V("i"))]), Set("i", Bin("+", V("i"), I(1)))]),
              close("f"), Ret(I(0))])])
    out["loop_local_break"] = prog([For("i", I(0), I(3), [opn("f", 30), If(Bin("==", V("i"), I(1)), [close("f"), Break()]), use("f"), close("f")])])
    out["loop_local_continue"] = prog([For("i", I(0), I(3), [opn("f", 40), If(Bin("==", V("i"), I(1)), [close("f"), Continue()]), use("f"), close("f")])])
    out["mutable_renew"] = prog([opn("f", 15, True), close("f"), Set("f", Call("open_file", I(16))), use("f"), close("f")])
    out["nested_branches"] = prog([Println(Call("work", B(True), B(False))), Println(Call("work", B(False), B(True)))],
        [Func("work", [("a", "bool"), ("b", "bool")], "int",
              [opn("f", 17), If(V("a"), [If(V("b"), [close("f")], [use("f"), close("f")])], [close("f")]), Ret(I(0))])])
    out["param_in_branches"] = prog([opn("f", 18), Println(Call("fin2", V("f"), B(True))), opn("g", 19), Println(Call("fin2", V("g"), B(False)))],
        [Func("fin2", [("f", R), ("c", "bool")], "int", [If(V("c"), [close("f"), Ret(I(1))], [use("f"), close("f"), Ret(I(0))])])])
    out["two_params"] = prog([opn("a", 21), opn("b", 22), Println(Call("both", V("a"), V("b")))],
        [Func("both", [("a", R), ("b", R)], "int", [use("b"), close("a"), close("b"), Ret(I(0))])])
    out["use_in_condition"] = prog([opn("f", 23), If(Bin("and", Bin(">", Field(V("f"), "fd"), I(0)), Bin("<", Field(V("f"), "fd"), I(100))),
                                                     [Println(S("small"))], [Println(S("other"))]), close("f")])
    return out
