"""Single-point mutations of well-formed resource programs (lib/families_affine.py), each *meant* to break one rule of
the affine discipline.  Whether a mutant really breaks its rule is decided by spec/NanoAffine.tla (TLC), never here:
a mutant counts only when its intended rule is in Violates(mutant) and some execution of the mutant really goes wrong.

A mutant is dict(prog, rule, op, what, ctx):
  rule  use_after_consume | double_consume | use_after_move | consume_in_loop | leak
  op    name of the operator
  ctx   syntactic context of the mutation, "place=<local|param|holder> pos=<top|branch|loop|branch-in-loop> [shadow]"
        (the known-findings file matches on rule + op + ctx)
"""
import copy
from .nano_ast import *


def _res_types(p):
    return {st["n"] for st in p["structs"] if st.get("res")}


def _holders(p):
    rt = _res_types(p)
    return {st["n"]: [f for f, t in zip(st["fields"], st["ftys"]) if t in rt] for st in p["structs"]
            if not st.get("res") and any(t in rt for t in st["ftys"])}


def _walk_lists(lst, path, pos):
    """yield (path to the list, list, pos) for every statement list; pos in top / branch / loop / branch-in-loop"""
    yield path, lst, pos
    for j, s in enumerate(lst):
        inner_b = {"if": "branch", "while": "loop", "for": "loop", "forin": "loop", "block": pos, "unsafe": pos}.get(s["k"], pos)
        if pos in ("loop", "branch-in-loop") and inner_b == "branch":
            inner_b = "branch-in-loop"
        if pos == "branch-in-loop" and inner_b == "loop":
            inner_b = "loop"
        if s["b"]:
            yield from _walk_lists(s["b"], path + (j, "b"), inner_b)
        if s["c"]:
            yield from _walk_lists(s["c"], path + (j, "c"), inner_b)
        for ai, arm in enumerate(s["arms"]):
            yield from _walk_lists(arm["b"], path + (j, "arms", ai, "b"), "branch" if pos == "top" else pos)


def _get(root, path):
    for k in path:
        root = root[k]
    return root


def _vars(p, fn):
    """name -> kind for the resource / holder variables of a function (params and lets anywhere in the body)"""
    rt, hs = _res_types(p), _holders(p)
    kinds, decls = {}, {}
    for n, t in zip(fn["params"], fn["ptys"]):
        if t in rt: kinds[n] = "param"
        if t in hs: kinds[n] = "holder:" + t
    for _, lst, _ in _walk_lists(fn["body"], (), "top"):
        for s in lst:
            if s["k"] == "let":
                decls[s["s"]] = decls.get(s["s"], 0) + 1
                if s["t"] in rt: kinds[s["s"]] = "local"
                if s["t"] in hs: kinds[s["s"]] = "holder:" + s["t"]
    return kinds, decls


def _place(p, kinds, e):
    """(text, kind) if the expression is a place (resource variable, or resource field of a holder variable)"""
    if e["k"] == "var" and kinds.get(e["s"]) in ("local", "param"):
        return e["s"], kinds[e["s"]]
    if e["k"] == "field" and e["a"][0]["k"] == "var" and kinds.get(e["a"][0]["s"], "").startswith("holder:"):
        if e["s"] in _holders(p)[kinds[e["a"][0]["s"]][7:]]:
            return e["a"][0]["s"] + "." + e["s"], "holder"
    return None


def _type_of_place(p, fn, kinds, name):
    """declared type of a place: of the variable, or of the holder's field"""
    var = name.split(".")[0]
    ty = None
    for n, t in zip(fn["params"], fn["ptys"]):
        if n == var: ty = t
    for _, lst, _ in _walk_lists(fn["body"], (), "top"):
        for s in lst:
            if s["k"] == "let" and s["s"] == var: ty = s["t"]
    if "." in name:
        st = [x for x in p["structs"] if x["n"] == ty][0]
        ty = dict(zip(st["fields"], st["ftys"]))[name.split(".")[1]]
    return ty


def _consumes(p, kinds, e, user):
    """places consumed by calls inside an expression (not inside nested statements), as expressions"""
    out = []
    if e["k"] == "call" and e["s"] in user:
        for a in e["a"]:
            if _place(p, kinds, a):
                out.append(a)
    for a in e["a"]:
        out += _consumes(p, kinds, a, user)
    return out


def _mentions(e_or_s, name):
    if isinstance(e_or_s, dict):
        if e_or_s.get("k") == "var" and e_or_s.get("s") == name and "f" in e_or_s:
            return True
        return any(_mentions(v, name) for v in e_or_s.values())
    if isinstance(e_or_s, list):
        return any(_mentions(v, name) for v in e_or_s)
    return False


def mutants(p, pid=""):
    """-> list of dict(prog, rule, op, what, ctx)"""
    out = []
    user = {f["n"] for f in p["funcs"]}
    rt = sorted(_res_types(p))
    hs = _holders(p)

    def use_stmt(e):
        return Println(Field(copy.deepcopy(e), "fd"))

    for fi, fn in enumerate(p["funcs"]):
        kinds, decls = _vars(p, fn)
        if not kinds:
            continue
        base = ("funcs", fi, "body")

        def emit(q, rule, op, what, kind, pos, extra=""):
            out.append({"prog": q, "rule": rule, "op": op, "what": "%s in %s" % (what, fn["n"]),
                        "ctx": "place=%s pos=%s%s" % (kind, pos, extra)})
        for lp, lst, pos in _walk_lists(fn["body"], (), "top"):
            for j, s in enumerate(lst):
                if s["k"] not in ("expr", "let", "set", "ret", "assert"):
                    continue
                cons = _consumes(p, kinds, s["a"][0], user) if s["a"] else []
                for e in cons:
                    name, kind = _place(p, kinds, e)
                    var = name.split(".")[0]
                    sh = " shadow" if decls.get(var, 0) > 1 else ""
                    stmt_consume = s["k"] == "expr" and s["a"][0]["k"] == "call" and any(a is e for a in s["a"][0]["a"])
                    if s["k"] != "ret":
                        # a borrow right after the consume
                        q = copy.deepcopy(p); _get(q, base + lp).insert(j + 1, use_stmt(e))
                        emit(q, "use_after_consume", "use_after", "field of %s read after it was passed to %s" % (name, s["a"][0]["s"] if stmt_consume else "a function"), kind, pos, sh)
                        # ... in a condition
                        q = copy.deepcopy(p)
                        _get(q, base + lp).insert(j + 1, If(Bin(">", Field(copy.deepcopy(e), "fd"), I(0)), [Println(S("pos"))], []))
                        emit(q, "use_after_consume", "use_in_condition_after", "condition reads %s after its consume" % name, kind, pos, sh)
                    if stmt_consume:
                        # the consume twice
                        q = copy.deepcopy(p); _get(q, base + lp).insert(j + 1, copy.deepcopy(s))
                        emit(q, "double_consume", "dup_consume", "consume of %s duplicated" % name, kind, pos, sh)
                        # the consume dropped
                        q = copy.deepcopy(p); del _get(q, base + lp)[j]
                        emit(q, "leak", "drop_consume", "consume of %s removed" % name, kind, pos, sh)
                        # an extra consume on one branch only, before the consume
                        q = copy.deepcopy(p)
                        _get(q, base + lp).insert(j, If(Bin(">", Field(copy.deepcopy(e), "fd"), I(0)), [copy.deepcopy(s)], []))
                        emit(q, "double_consume", "consume_one_branch_then_consume", "%s consumed in a then-branch and again after the join" % name, kind, pos, sh)
                        # the consume on one branch only, a borrow after the join
                        q = copy.deepcopy(p); l2 = _get(q, base + lp)
                        l2[j] = If(Bin(">", Field(copy.deepcopy(e), "fd"), I(0)), [copy.deepcopy(s)], [])
                        l2.insert(j + 1, use_stmt(e))
                        emit(q, "use_after_consume", "consume_one_branch_then_use", "%s consumed in a then-branch only, read after the join" % name, kind, pos, sh)
                        # the consume inside a loop body
                        q = copy.deepcopy(p); _get(q, base + lp)[j] = For("zq_i", I(0), I(2), [copy.deepcopy(s)])
                        emit(q, "consume_in_loop", "consume_in_new_loop", "consume of %s wrapped into a for loop" % name, kind, pos, sh)
                        q = copy.deepcopy(p)
                        _get(q, base + lp)[j:j + 1] = [Let("zq_w", "int", I(0), True),
                                                       While(Bin("and", Bin("<", V("zq_w"), I(2)), Bin(">", Field(copy.deepcopy(e), "fd"), I(-1))),
                                                             [copy.deepcopy(s), Set("zq_w", Bin("+", V("zq_w"), I(1)))])]
                        emit(q, "consume_in_loop", "consume_in_new_while", "consume of %s wrapped into a while loop whose condition reads it" % name, kind, pos, sh)
                        # move, then the source is used / consumed
                        ty = _type_of_place(p, fn, kinds, name)
                        q = copy.deepcopy(p); l2 = _get(q, base + lp)
                        l2[j:j + 1] = [Let("zq_m", ty, copy.deepcopy(e)), Ex(Call(s["a"][0]["s"], *[V("zq_m") if a is e else copy.deepcopy(a) for a in s["a"][0]["a"]])), use_stmt(e)]
                        emit(q, "use_after_move", "move_then_use", "%s moved into a new variable, which is consumed; then a field of %s is read" % (name, name), kind, pos, sh)
                        q = copy.deepcopy(p); l2 = _get(q, base + lp)
                        l2[j:j + 1] = [Let("zq_m", ty, copy.deepcopy(e)), copy.deepcopy(s), Ex(Call(s["a"][0]["s"], *[V("zq_m") if a is e else copy.deepcopy(a) for a in s["a"][0]["a"]]))]
                        emit(q, "use_after_move", "move_then_consume_both", "%s moved into a new variable and both are consumed" % name, kind, pos, sh)
                        for hn, hf in sorted(hs.items()):
                            if kind == "holder":
                                continue
                            st = [x for x in p["structs"] if x["n"] == hn][0]
                            lit = SLit(hn, [(f, copy.deepcopy(e) if f == hf[0] else {"int": I(0), "bool": B(False), "string": S("")}.get(t, I(0))) for f, t in zip(st["fields"], st["ftys"])])
                            if len(hf) != 1 or any(t not in ("int", "bool", "string") for f, t in zip(st["fields"], st["ftys"]) if f != hf[0]):
                                continue
                            q = copy.deepcopy(p); l2 = _get(q, base + lp)
                            l2[j:j + 1] = [Let("zq_c", hn, lit), Ex(Call(s["a"][0]["s"], *[Field(V("zq_c"), hf[0]) if a is e else copy.deepcopy(a) for a in s["a"][0]["a"]])), use_stmt(e)]
                            emit(q, "use_after_move", "move_into_struct_then_use", "%s moved into a %s literal, then read" % (name, hn), kind, pos, sh)
                        # the consume hoisted above the previous statement that mentions the place
                        for i in range(j - 1, -1, -1):
                            if _mentions(lst[i], var) and not (lst[i]["k"] in ("let", "set") and lst[i]["s"] == var):
                                q = copy.deepcopy(p); l2 = _get(q, base + lp); l2.insert(i, l2.pop(j))
                                emit(q, "use_after_consume", "hoist_consume", "consume of %s moved above a statement that uses it" % name, kind, pos,
                                     sh + (" over=" + lst[i]["k"]))
                                break
                        # the same place twice in one call
                        call = s["a"][0]
                        others = [k for k, a in enumerate(call["a"]) if a is not e and _place(p, kinds, a)]
                        if others:
                            q = copy.deepcopy(p); _get(q, base + lp)[j]["a"][0]["a"][others[0]] = copy.deepcopy(e)
                            emit(q, "double_consume", "same_place_twice_in_call", "%s passed twice in one call" % name, kind, pos, sh)
                if s["k"] == "ret" and s["a"] and _place(p, kinds, s["a"][0]) and "close_file" in user:
                    name, kind = _place(p, kinds, s["a"][0])
                    q = copy.deepcopy(p); _get(q, base + lp).insert(j, Ex(Call("close_file", copy.deepcopy(s["a"][0]))))
                    emit(q, "use_after_consume", "consume_then_return", "%s consumed right before it is returned" % name, kind, pos)
            # shadowing: the outer variable's consume moved into the block that re-declares the name
            for j, s in enumerate(lst):
                if s["k"] == "if" and any(x["k"] == "let" and kinds.get(x["s"]) == "local" and decls.get(x["s"], 0) > 1 for x in s["b"]):
                    inner = [x for x in s["b"] if x["k"] == "let" and decls.get(x["s"], 0) > 1][0]["s"]
                    later = [k for k in range(j + 1, len(lst)) if lst[k]["k"] == "expr" and lst[k]["a"][0]["k"] == "call" and lst[k]["a"][0]["s"] in user
                             and any(a["k"] == "var" and a["s"] == inner for a in lst[k]["a"][0]["a"])]
                    if later:
                        q = copy.deepcopy(p); l2 = _get(q, base + lp); st_ = l2.pop(later[0]); l2[j]["b"].append(st_)
                        emit(q, "double_consume", "outer_consume_into_shadowing_block", "consume of the outer %s moved into the block that re-declares %s" % (inner, inner), "local", pos, " shadow")
                        emit(copy.deepcopy(q), "leak", "outer_consume_into_shadowing_block", "consume of the outer %s moved into the block that re-declares %s" % (inner, inner), "local", pos, " shadow")
    for k, m in enumerate(out):
        m["id"] = "%s.a%d" % (pid, k)
    return out
