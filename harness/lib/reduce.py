"""AST-level test-case reduction (statement deletion, block flattening) used for triage and replay artifacts."""
import copy


def _lists(p):
    """yield every statement list of the program as (container, key)"""
    def walk(lst):
        yield lst
        for s in lst:
            for key in ("b", "c"):
                if s.get(key):
                    yield from walk(s[key])
            for arm in s.get("arms", []):
                yield from walk(arm["b"])
    for fn in p["funcs"]:
        yield from walk(fn["body"])


def reduce_prog(p, pred, max_rounds=6):
    """greedy: delete single statements / whole functions while pred(p) stays true"""
    p = copy.deepcopy(p)
    for _ in range(max_rounds):
        changed = False
        # delete functions (never main)
        i = 0
        while i < len(p["funcs"]):
            if p["funcs"][i]["n"] == "main":
                i += 1; continue
            q = copy.deepcopy(p); del q["funcs"][i]
            if pred(q):
                p = q; changed = True
            else:
                i += 1
        for gi in range(len(p["globals"]) - 1, -1, -1):
            q = copy.deepcopy(p); del q["globals"][gi]
            if pred(q):
                p = q; changed = True
        n_lists = len(list(_lists(p)))
        li = 0
        while li < n_lists:
            lst = list(_lists(p))[li] if li < len(list(_lists(p))) else None
            if lst is None:
                break
            i = len(lst) - 1
            while i >= 0:
                q = copy.deepcopy(p)
                ql = list(_lists(q))[li]
                s = ql[i]
                del ql[i]
                if pred(q):
                    p = q; changed = True
                else:
                    # try replacing a compound statement by its body
                    for key in ("b", "c"):
                        if s.get(key):
                            q2 = copy.deepcopy(p)
                            ql2 = list(_lists(q2))[li]
                            ql2[i:i + 1] = copy.deepcopy(s[key])
                            if pred(q2):
                                p = q2; changed = True
                                break
                i -= 1
                lst = list(_lists(p))[li] if li < len(list(_lists(p))) else []
                i = min(i, len(lst) - 1)
            li += 1
            n_lists = len(list(_lists(p)))
        if not changed:
            break
    return p
