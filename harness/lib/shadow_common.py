"""Shadow-test programs for C03 / C06: every function gets a shadow block that calls it, prints the result and
asserts it against a constant.  The constants come from NanoSem (first TLC pass), never from Python."""
import copy, random, re, json
from .nano_ast import *
from .common import limbs_to_int

PRINTABLE = ("int", "bool", "string")


def arg_for(ty, r):
    if ty == "int": return I(r.choice([0, 1, 2, 3, 5, -1, -4, 7, 12]))
    if ty == "bool": return B(r.random() < 0.5)
    if ty == "string": return S(r.choice(["", "a", "hi", "nano"]))
    if ty == "Point": return SLit("Point", [("x", I(r.randint(-3, 9))), ("y", I(r.randint(-3, 9)))])
    if ty == "array<int>": return ALit("int", [I(r.randint(0, 9)) for _ in range(r.randint(1, 4))])
    if ty == "Shape":
        return r.choice([ULit("Shape.Circle", [("r", I(r.randint(0, 5)))]), ULit("Shape.Rect", [("w", I(2)), ("h", I(r.randint(1, 4)))]),
                         ULit("Shape.Empty", [])])
    if ty == "Color": return Enum("Color." + r.choice(["Red", "Green", "Blue"]))
    return None


def shadow_calls(p, seed, ncalls=2, skip=("main",)):
    """-> {fn: [ (let-name, type, call-expr) ]} for functions whose arguments we can build and whose result is printable"""
    r = random.Random(seed)
    out = {}
    for fn in p["funcs"]:
        if fn["n"] in skip:
            continue
        calls = []
        for c in range(ncalls):
            args = [arg_for(t, r) for t in fn["ptys"]]
            if any(a is None for a in args):
                break
            calls.append(("r%d" % c, fn["ret"], Call(fn["n"], *args)))
        if calls:
            out[fn["n"]] = calls
    return out


def show(name, ty):
    if ty in PRINTABLE: return [Println(V(name))]
    if ty == "Point": return [Println(Field(V(name), "x")), Println(Field(V(name), "y"))]
    return []


def with_print_shadows(p, calls):
    """phase A: shadow blocks that only bind and print the results"""
    q = copy.deepcopy(p)
    q["shadows"] = []
    for fn, cs in calls.items():
        body = []
        for nm, ty, call in cs:
            body.append(Let(nm, ty, call))
            body.append(Println(S(MARK)))          # marks the events that follow as the harness's own
            body += show(nm, ty)
        q["shadows"].append({"fn": fn, "b": body})
    q["shadows"].append({"fn": "main", "b": [Assert(B(True))]})
    return q


MARK = "@@R"


def own_events(evs, cs):
    """events of a phase-A block -> per call, the events printed by the harness's own println (after each marker)"""
    out, i = [], 0
    for nm, ty, call in cs:
        n = 1 if ty in PRINTABLE else 2 if ty == "Point" else 0
        while i < len(evs) and not (evs[i]["t"] == "str" and evs[i]["s"] == MARK):
            i += 1
        out.append(evs[i + 1:i + 1 + n] if i < len(evs) else [])
        i += 1 + n
    return out


def lit_from_event(ev):
    if ev["t"] == "int": return E("int", i=ev["i"])
    if ev["t"] == "bool": return B(ev["i"][3] == 1)
    return S(ev["s"])


def with_assert_shadows(p, calls, shadow_rec, wrong=()):
    """phase B: add `assert (== r c)` with c prescribed by NanoSem; `wrong` = set of (fn, call index) whose constant is falsified.
    Returns (program, truth matrix in shadow order)."""
    q = copy.deepcopy(p)
    q["shadows"] = []
    truth = []
    recs = {s["fn"]: s for s in shadow_rec["shadows"]}
    for fn, cs in calls.items():
        segs = own_events(list(recs[fn]["out"]), cs)
        body, row = [], []
        for ci, (nm, ty, call) in enumerate(cs):
            body.append(Let(nm, ty, call))
            body += show(nm, ty)
            ours = segs[ci]
            if ty in PRINTABLE and ours:
                c = lit_from_event(ours[-1])
                ok = (fn, ci) not in wrong
                if not ok:
                    c = falsify(c)
                body.append(Assert(Bin("==", V(nm), c)))
                row.append(ok)
            elif ty == "Point" and len(ours) >= 2:
                ok = (fn, ci) not in wrong
                cx = lit_from_event(ours[-2])
                body.append(Assert(Bin("==", Field(V(nm), "x"), cx if ok else falsify(cx))))
                row.append(ok)
        q["shadows"].append({"fn": fn, "b": body})
        truth.append(row)
    q["shadows"].append({"fn": "main", "b": [Assert(B(True))]})
    truth.append([True])
    return q, truth


def falsify(c):
    if c["k"] == "int": return Bin("+", c, I(1))
    if c["k"] == "bool": return B(c["s"] != "true")
    return S(c["s"] + "~")


# ---------------------------------------------------------------- transcript
TEST_RE = re.compile(r"Testing (\w+)\.\.\. ")


def parse_transcript(text):
    """`nanoc --verbose` output -> (events for DriverTrace, per-test records [name, output, verdict, nfail])"""
    events, tests = [], []
    text = re.sub(r"(?m)^\[FFI\] [^\n]*\n", "", text)        # --verbose chatter of the evaluator's FFI loader, not program output
    text = re.sub(r"\[FFI\] Calling \w+ from [^\n]*\n", "", text)
    pos = 0
    lines_seen = set()
    def has(s): return s in text
    if has("✓ Lexing complete"): events.append({"e": "lex_ok"})
    if has("✓ Parsing complete"): events.append({"e": "parse_ok"})
    if has("✓ Type checking complete"): events.append({"e": "tc_ok"})
    elif has("Type checking failed") or has("ype check"): events.append({"e": "tc_failed"})
    i = text.find("Running shadow tests...")
    if i >= 0:
        body = text[i:]
        ms = list(TEST_RE.finditer(body))
        for j, m in enumerate(ms):
            end = ms[j + 1].start() if j + 1 < len(ms) else len(body)
            seg = body[m.end():end]
            if seg.startswith("SKIPPED"):          # "Testing f... SKIPPED (uses extern functions)": not run, does not gate
                continue
            mp = re.search(r"(PASSED|FAILED)\n", seg)
            verdict = None; out = seg; nfail = 0
            # the verdict is the last PASSED/FAILED line of the segment before the (optional) indented report lines
            vs = list(re.finditer(r"(PASSED|FAILED)\n", seg))
            if vs:
                v = vs[0] if len(vs) == 1 else [x for x in vs if seg[x.end():].lstrip().startswith(("Shadow test", "First failure", "All shadow", "✓", "Testing")) or x is vs[-1]][0]
                # simplest robust rule: take the LAST occurrence that is followed only by report lines
                v = vs[-1]
                verdict = v.group(1); out = seg[:v.start()]
            mf = re.search(r"Shadow test '(\w+)' FAILED: (\d+) assertion", seg)
            if mf:
                nfail = int(mf.group(2))
            tests.append({"name": m.group(1), "out": out, "verdict": verdict, "nfail": nfail})
            events.append({"e": "test_failed", "n": nfail} if verdict == "FAILED" else {"e": "test_passed"})
        if has("✓ Shadow tests passed"): events.append({"e": "shadow_ok"})
        elif has("Shadow tests failed"): events.append({"e": "shadow_failed"})
    if has("✓ Transpilation complete"): events.append({"e": "transpile_ok"})
    if has("✓ Compilation successful"):
        events.append({"e": "cc_ok"}); events.append({"e": "exe_written"})
    return events, tests
