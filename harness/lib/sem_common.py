"""Shared pipeline for the source-level properties (C01 C02 C03 C08 ...):
programs (AST) -> NanoSem/TLC prescribes Obs(p) -> engines built from /repo run
the printed source -> comparison -> attribution of a mismatch to a *listed*
deviation switch (second TLC pass) or VIOLATION."""
import json, os, collections
from .common import tlc, InfraError, log, parallel_map, findings_for, load_findings, sha
from .nano_ast import pretty, render_out
from .run_prog import Engines

# deviation switches that may excuse an engine, by engine; only switches listed in
# known_findings.json with status "known" are ever used.
ENGINE_SWITCHES = {
    "vm": ["VM_EAGER_ANDOR", "VM_NO_BLOCK_SCOPE", "VM_FOR_CONTINUE", "VM_MIN_WRONG", "DIV_MIN_NEG1_TRAPS", "VM_ENUM_PRINT", "RAW_STRING_ESCAPES",
           "CALL_PREFERS_TOPLEVEL_FUNCTION"],
    "native": ["NATIVE_ARGS_RTL", "NATIVE_FOR_IN_ARRAY_SKIPPED", "DIV_MIN_NEG1_TRAPS", "NATIVE_VAR_OPERAND_READ_LATE",
               "NATIVE_BREAK_IN_MATCH", "CALL_PREFERS_TOPLEVEL_FUNCTION"],
    "interp": ["INTERP_DYNAMIC_SCOPE", "INTERP_RETURN_IN_MATCH_ARM", "NATIVE_FOR_IN_ARRAY_SKIPPED", "INTERP_NO_BLOCK_SCOPE",
               "INTERP_ARRAY_LIT_FIRST_TWICE", "INTERP_STATIC_ARRAYS", "RAW_STRING_ESCAPES", "CALL_PREFERS_TOPLEVEL_FUNCTION",
               "INTERP_NO_NESTED_ARRAYS", "NATIVE_BREAK_IN_MATCH"],
}


def known_switches(prop):
    """switch name -> finding id, for known (unfixed) findings that list this property"""
    out = {}
    for f in findings_for(prop):
        for sw in f.get("switches", []):
            out[sw] = f["id"]
    return out


def prescribe(ctx, jobs, fuel=20000, timeout=1500, workers=None):
    """jobs: list of dict(id, prog, dev, mode, what) -> {id: record} from NanoSem"""
    if not jobs:
        return {}, None
    if len(jobs) > 900:                  # keep single TLC runs bounded: evaluate in chunks and merge
        recs, last = {}, None
        for i in range(0, len(jobs), 900):
            r1, last1 = prescribe(ctx, jobs[i:i + 900], fuel=fuel, timeout=timeout, workers=workers)
            recs.update(r1)
            if last is None:
                last = last1
            else:
                last.generated += last1.generated; last.distinct += last1.distinct
        return recs, last
    jf = os.path.join(ctx.scratch, "jobs.%d.ndjson" % len(ctx.tlc_runs))
    with open(jf, "w") as f:
        for j in jobs:
            line = json.dumps(j)
            if "null" in line and ": null" in line or "[null" in line or ", null" in line:
                raise InfraError("job %s contains a null (malformed abstract syntax)" % j["id"])
            f.write(line + "\n")
    r = tlc(ctx, "NanoSemRun", env={"NANOSEM_JOBS": jf}, xss="900m", timeout=timeout, workers=workers,
            constants={"Fuel": str(fuel)})
    if r.violated:
        raise InfraError("NanoSemRun reported %s" % r.violated)
    recs = {rec["id"]: rec for rec in r.records}
    for rec in recs.values():          # the printed form of composite values is not specified: such runs are not compared
        outs = [rec.get("out", [])] + [sh.get("out", []) for sh in rec.get("shadows", [])]
        if any(ev["t"] not in ("int", "bool", "str") for o in outs for ev in o) and rec.get("status") == "ok":
            rec["status"] = "unspecified:print-composite"
    missing = [j["id"] for j in jobs if j["id"] not in recs]
    if missing:
        raise InfraError("NanoSem produced no result for %d jobs (e.g. %s)\n%s" % (len(missing), missing[:3], r.out[-1500:]))
    return recs, r


def job(pid, prog, dev=(), mode="spec", what="main"):
    if "__files__" in prog:            # the file layout of a multi-file program is not part of its abstract syntax
        prog = {k: v for k, v in prog.items() if k != "__files__"}
    if "externs" not in prog:
        prog = dict(prog, externs=[])
    return {"id": pid, "prog": prog, "dev": list(dev), "mode": mode, "what": what}


def observe(x):
    """engine run dict -> comparable observation"""
    if x is None:
        return None
    if x["timeout"]:
        return ("timeout", None, x["out"])
    if x["sig"]:
        return ("signal", x["sig"], x["out"])
    return ("exit", x["rc"], x["out"])


def expected(o):
    """NanoSem record -> comparable observation (what the run must look like)"""
    want = render_out(o["out"]).encode()
    st = o["status"]
    if st == "ok":
        return ("exit", o["exit"], want)
    if st == "fuel":
        return ("timeout", None, want)
    if st == "fault:sigfpe":
        return ("signal", 8, want)
    return ("fault", st, want)       # documented run-time fault: non-zero exit, output is exactly the prefix


def matches(obs, exp):
    if obs is None:
        return False
    if exp[0] == "fault":
        return obs[0] == "exit" and obs[1] not in (0, None) and obs[2] == exp[2]
    if exp[0] == "timeout":
        return obs[0] == "timeout" and obs[2].startswith(exp[2][:len(obs[2])]) if False else obs[0] == "timeout"
    return obs[0] == exp[0] and obs[1] == exp[1] and obs[2] == exp[2]


def compile_class(n):
    t = (n["compile"]["out"] + n["compile"]["err"]).decode(errors="replace")
    if "C compilation failed" in t: return "cc-failed"
    if "Transpilation failed" in t: return "transpile-failed"
    if "Shadow test" in t and "FAILED" in t: return "shadow-failed"
    if n["compile"]["sig"]: return "compiler-signal-%d" % n["compile"]["sig"]
    if n["compile"]["timeout"]: return "compiler-timeout"
    return "rejected"


def vm_class(v):
    t = v["err"].decode(errors="replace")
    if "codegen failed" in t.lower() or "codegen error" in t.lower(): return "codegen-failed"
    if "erification failed" in t: return "verify-failed"
    if "Type checking failed" in t or "ype check" in t or "Parse error" in t or "Error at line" in t: return "rejected"
    return None


def run_engines(ctx, progs, engines=("native", "vm"), style="prefix", variant="plain"):
    """progs: {id: ast} -> {id: {"native": res, "vm": res, "src": text}}"""
    eng = Engines(ctx, variant)

    def one(pid):
        files = progs[pid].get("__files__")
        src = files["p.nano"] if files else pretty(progs[pid], style)
        d = eng.write(pid, src)
        for fn_, text in (files or {}).items():
            eng.write(pid, text, fn_)
        if files:
            src = "".join("### %s\n%s\n" % kv for kv in sorted(files.items()))
        r = {"src": src, "dir": d}
        if "native" in engines:
            r["native"] = eng.native(d)
        if "vm" in engines:
            r["vm"] = eng.vm(d)
        return pid, r
    return dict(parallel_map(one, list(progs))), eng


def attribute(ctx, prop, progs, base, failing, fuel=20000):
    """failing: list of (pid, engine, observed).  Second TLC pass with the engine's *known* switches
    (those listed in the known-findings file for this property).  A case is explained when the run
    equals NanoSem's prescription under that switch set; the findings reported are the switches that
    individually change the prescription for this very program.
    Returns {(pid, engine): [finding ids]}; unexplained cases are absent."""
    ks = known_switches(prop)
    jobs, index = [], {}
    for pid, engine, obs in failing:
        sws = [s for s in ENGINE_SWITCHES.get(engine, []) if s in ks]
        if not sws:
            continue
        jid = "%s|%s|all" % (pid, engine)
        jobs.append(job(jid, progs[pid], dev=sws)); index[jid] = (pid, engine, sws)
        for s in sws:
            jobs.append(job("%s|%s|%s" % (pid, engine, s), progs[pid], dev=[s]))
    recs = prescribe(ctx, jobs, fuel=fuel)[0] if jobs else {}
    byobs = {(pid, engine): obs for pid, engine, obs in failing}
    out = {}
    for jid, (pid, engine, sws) in index.items():
        if matches(byobs[(pid, engine)], expected(recs[jid])):
            rel = [s for s in sws if expected(recs["%s|%s|%s" % (pid, engine, s)]) != expected(base[pid])]
            out[(pid, engine)] = sorted({ks[s] for s in (rel or sws)})
    # findings identified by a syntactic feature of the failing program instead of a switch
    for pid, engine, obs in failing:
        if (pid, engine) in out:
            continue
        for f in findings_for(prop):
            m = f.get("match", {})
            if m.get("feature") and engine in m.get("engines", []) and has_kind(progs[pid], m["feature"]):
                out[(pid, engine)] = [f["id"]]
            if engine in m.get("engines", []) and m.get("program_regex") and __import__("re").search(m["program_regex"], pid):
                out[(pid, engine)] = [f["id"]]
            if engine in m.get("engines", []) and m.get("source_regex") and "__files__" in progs[pid] and \
                    any(__import__("re").search(m["source_regex"], t) for t in progs[pid]["__files__"].values()):
                out[(pid, engine)] = [f["id"]]
    return out


def has_kind(node, kind):
    if isinstance(node, dict):
        if node.get("k") == kind:
            return True
        return any(has_kind(v, kind) for v in node.values())
    if isinstance(node, list):
        return any(has_kind(v, kind) for v in node)
    return False
