"""Seeded generator of well-typed core-language programs (AST form of nano_ast).

The generator only proposes programs; NanoSem (TLC) decides what each one must
print and whether its run is inside defined behaviour (status ok).  Programs
are built so that most of them are: counted loops, guarded divisors, indices
taken modulo the length; TLC's verdict, not this file, is what counts.
"""
import random
from .nano_ast import *
from .gen_gx import GxCore, GxIdioms, GxProgram, GX_FEATURES

BOUNDARY = [0, 1, -1, 2, -2, 7, -7, 255, 256, 2**31 - 1, 2**31, 2**32 - 1, 2**32 + 1, -2**31, 2**62, -2**62,
            2**63 - 1, -2**63, -2**63 + 1, 65535, 65536]


def mentions(node, name):
    if isinstance(node, dict):
        if node.get("k") in ("var", "call") and node.get("s") == name:
            return True
        return any(mentions(v, name) for v in node.values())
    if isinstance(node, list):
        return any(mentions(v, name) for v in node)
    return False


class Scope:
    def __init__(self, parent=None):
        self.vars = []          # (name, type, mutable)
        self.parent = parent

    def all(self):
        s, out, seen = self, [], set()
        while s:
            for v in reversed(s.vars):
                if v[0] not in seen:
                    seen.add(v[0]); out.append(v)
            s = s.parent
        return out


class Gen(GxCore, GxIdioms, GxProgram):
    def __init__(self, seed, features=None):
        self.r = random.Random(seed)
        self.n = 0
        self.feat = features or {}
        self.structs = [("Point", [("x", "int"), ("y", "int")]), ("Rec", [("tag", "string"), ("p", "Point"), ("ok", "bool")])]
        self.enums = [("Color", [("Red", 0), ("Green", 1), ("Blue", 2)])]
        self.unions = [("Shape", [("Circle", [("r", "int")]), ("Rect", [("w", "int"), ("h", "int")]), ("Empty", [])])]
        self.funcs = []          # (name, [ptypes], ret)
        self.globals = []
        self.fuel = 0
        self.impure_ok = True      # may the expression being generated call effectful functions / read mutable globals?
        self.mut_globals = set()
        self.gx_init()              # feature flags of lib/gen_gx.py: no random draw unless one of them is on

    def fresh(self, p="v"):
        self.n += 1
        return "%s%d" % (p, self.n)

    def small(self, big=False):
        r = self.r
        c = r.random()
        if big and c < 0.5: return r.choice(BOUNDARY)
        if c < 0.8: return r.randint(0, 20)
        return r.randint(-9, 1000)

    # ------------------------------------------------------------ expressions
    def multi(self, *gens):
        """children of one operator / call / literal: at most one of them may have effects or read a mutable global,
        so that the (unspecified) C evaluation order of siblings cannot show (finding F17 is exercised by families.py)"""
        k = self.r.randrange(len(gens)) if self.impure_ok else -1
        out = []
        for i, g in enumerate(gens):
            saved = self.impure_ok
            self.impure_ok = saved and i == k
            out.append(g())
            self.impure_ok = saved
        return out

    def expr(self, ty, sc, d):
        r = self.r
        vs = [v for v in sc.all() if v[1] == ty and (self.impure_ok or v[0] not in self.mut_globals)]
        if self.gx and ty in self.gx_types:
            return self.gx_expr(ty, sc, d)
        if ty.startswith("HashMap"):
            return V(r.choice(vs)[0])           # callers make sure a map of this type is in scope
        if d <= 0 or r.random() < 0.25:
            if vs and r.random() < 0.6:
                return V(r.choice(vs)[0])
            return self.lit(ty, sc, d)
        if self.gx and ty in ("int", "bool", "string") and r.random() < 0.2:
            e = self.gx_scalar(ty, sc, d)
            if e is not None:
                return e
        if self.feat.get("maps") and ty in ("int", "bool", "string"):
            ms = [v for v in sc.all() if v[1] in (self.MII, self.MSI, self.MIS)]
            if ms and self.impure_ok and r.random() < 0.18:      # a map is mutable state: read it only where effects are allowed
                m = r.choice(ms)
                key = (lambda: self.expr("int", sc, 1) if r.random() < 0.3 else I(r.randint(-1, 4))) if m[1] != self.MSI else (lambda: S(r.choice(["", "a", "hi", "k"])))
                vty = "string" if m[1] == self.MIS else "int"
                if ty == "bool": return Call("map_has", V(m[0]), key())
                if ty == "int" and (vty != "int" or r.random() < 0.3): return Call("map_size", V(m[0]))
                if ty == vty: return Call("map_get", V(m[0]), key())
        if self.feat.get("fnvals") and ty == "int" and self.impure_ok and r.random() < 0.12:
            cands = [f[0] for f in self.funcs if f[1] == ["int"] and f[2] == "int"]
            fvs = [v[0] for v in sc.all() if v[1] == self.FII]
            if cands or fvs:
                c2 = r.random()
                if fvs and c2 < 0.4: return Call(r.choice(fvs), self.expr("int", sc, d - 1))          # call through a local / parameter
                if cands and c2 < 0.8: return Call("ap", V(r.choice(cands)), self.expr("int", sc, d - 1))     # ap is defined before its callees
                if cands: return Call("ap_last", V(r.choice(cands)), self.expr("int", sc, d - 1))             # ap_last after them
        if ty == "int":
            c = r.random()
            if c < 0.30:
                op = r.choice(["+", "-", "*"])
                return Bin(op, *self.multi(lambda: self.expr("int", sc, d - 1), lambda: self.expr("int", sc, d - 1)))
            if c < 0.40:
                op = r.choice(["/", "%"])
                dv = r.choice([1, 2, 3, -2, 7, -1, 10])
                return Bin(op, self.expr("int", sc, d - 1), I(dv))
            if c < 0.50 and self.impure_ok: return Call("t", self.expr("int", sc, d - 1))
            if c < 0.55:
                ivs = [v for v in sc.all() if v[1] == "int" and (self.impure_ok or v[0] not in self.mut_globals)]
                if ivs: return Un("-", V(r.choice(ivs)[0]))
            if c < 0.62:
                fs = [f for f in self.funcs if f[2] == "int" and all(not t.startswith("HashMap") or any(v[1] == t for v in sc.all()) for t in f[1])]
                if fs and self.impure_ok:
                    f = r.choice(fs)
                    return Call(f[0], *self.multi(*[(lambda t=t: self.expr(t, sc, d - 1)) for t in f[1]])) if f[1] else Call(f[0])
            if c < 0.68: return self.mathcall(sc, d)
            if c < 0.74:
                ps = [v for v in sc.all() if v[1] == "Point"]
                if ps: return Field(V(r.choice(ps)[0]), r.choice(["x", "y"]))
                rs = [v for v in sc.all() if v[1] == "Rec"]
                if rs: return Field(Field(V(r.choice(rs)[0]), "p"), r.choice(["x", "y"]))
            if c < 0.84:
                arrs = [v for v in sc.all() if v[1] == "array<int>"]
                if arrs:
                    a = r.choice(arrs)[0]
                    return Call("at", V(a), I(0)) if r.random() < 0.3 else Call("array_length", V(a))
            if c < 0.88:
                ts = [v for v in sc.all() if v[1] == "(int, string)"]
                if ts: return TIdx(V(r.choice(ts)[0]), 0)
            return self.lit(ty, sc, d)
        if ty == "bool":
            c = r.random()
            if c < 0.35:
                a, b = self.multi(lambda: self.expr("int", sc, d - 1), lambda: self.expr("int", sc, d - 1))
                if a == b: b = Bin("+", b, I(1))
                return Bin(r.choice(["<", "<=", ">", ">=", "==", "!="]), a, b)
            if c < 0.6:
                return Bin(r.choice(["and", "or"]), self.expr("bool", sc, d - 1), self.expr("bool", sc, d - 1))
            if c < 0.7: return Un("not", self.expr("bool", sc, d - 1))
            if c < 0.8 and self.impure_ok: return Call("tb", self.expr("bool", sc, d - 1))
            if c < 0.88:
                a, b = self.multi(lambda: self.expr("string", sc, d - 1), lambda: self.expr("string", sc, d - 1))
                if a == b: b = Bin("+", b, S("q"))
                return Bin(r.choice(["==", "!="]), a, b)
            if c < 0.91:
                rs = [v for v in sc.all() if v[1] == "Rec"]
                if rs: return Field(V(r.choice(rs)[0]), "ok")
            if c < 0.95:
                return Call("str_contains", self.expr("string", sc, d - 1), S(r.choice(["a", "n", "", "x y", "9"])))
            return self.lit(ty, sc, d)
        if ty == "string":
            c = r.random()
            if c < 0.3: return Bin("+", *self.multi(lambda: self.expr("string", sc, d - 1), lambda: self.expr("string", sc, d - 1)))
            if c < 0.45: return Call("int_to_string", self.expr("int", sc, d - 1))
            if c < 0.5: return Call("str_substring", self.expr("string", sc, d - 1) if self.impure_ok else S("nanolang"), I(r.randint(0, 3)), I(r.randint(0, 4)))
            if c < 0.6:
                rs = [v for v in sc.all() if v[1] == "Rec"]
                if rs: return Field(V(r.choice(rs)[0]), "tag")
            if c < 0.7:
                ts = [v for v in sc.all() if v[1] == "(int, string)"]
                if ts: return TIdx(V(r.choice(ts)[0]), 1)
            return self.lit(ty, sc, d)
        return self.lit(ty, sc, d)

    def mathcall(self, sc, d):
        f = self.r.choice(["max", "abs", "max", "min"])
        if f == "abs": return Call("abs", self.expr("int", sc, d - 1))
        return Call(f, *self.multi(lambda: self.expr("int", sc, d - 1), lambda: self.expr("int", sc, d - 1)))

    def lit(self, ty, sc, d):
        r = self.r
        if ty == "int": return I(self.small())
        if ty == "bool": return B(r.random() < 0.5)
        if ty == "string": return S(r.choice(["", "a", "hi", "x y", "nano", "Z9"]))
        if ty == "Color": return Enum("Color." + r.choice(["Red", "Green", "Blue"]))
        if ty == "Point":
            x, y = self.multi(lambda: self.expr("int", sc, d - 1), lambda: self.expr("int", sc, d - 1))
            return SLit("Point", [("x", x), ("y", y)])
        if ty == "Rec":
            a, b, c = self.multi(lambda: self.expr("string", sc, d - 1), lambda: self.expr("Point", sc, d - 1), lambda: self.expr("bool", sc, d - 1))
            return SLit("Rec", [("tag", a), ("p", b), ("ok", c)])
        if ty == "Shape":
            c = r.random()
            if c < 0.4: return ULit("Shape.Circle", [("r", self.expr("int", sc, d - 1))])
            if c < 0.8:
                w, h = self.multi(lambda: self.expr("int", sc, d - 1), lambda: self.expr("int", sc, d - 1))
                return ULit("Shape.Rect", [("w", w), ("h", h)])
            return ULit("Shape.Empty", [])
        if ty == "array<int>": return ALit("int", self.multi(*[(lambda: self.expr("int", sc, d - 1)) for _ in range(r.randint(1, 4))]))
        if ty == "array<string>": return ALit("string", self.multi(*[(lambda: self.expr("string", sc, d - 1)) for _ in range(r.randint(1, 3))]))
        if ty == "(int, string)": return TLit(self.multi(lambda: self.expr("int", sc, d - 1), lambda: self.expr("string", sc, d - 1)))
        if self.gx: return self.gx_lit(ty, sc, d)
        raise ValueError(ty)

    # ------------------------------------------------------------- statements
    TYPES = ["int", "int", "int", "bool", "string", "Point", "Rec", "Shape", "array<int>", "array<string>", "(int, string)", "Color"]

    def stmts(self, sc, n, depth, inloop, ret):
        out = []
        for _ in range(n):
            out += self.stmt(sc, depth, inloop, ret)
        return out

    MII, MSI, MIS = "HashMap<int, int>", "HashMap<string, int>", "HashMap<int, string>"
    FII = "fn(int) -> int"

    def map_stmt(self, sc):
        """a statement on a HashMap in scope (or the declaration of a new one)"""
        r = self.r
        ms = [v for v in sc.all() if v[1] in (self.MII, self.MSI, self.MIS)]
        if not ms or r.random() < 0.15:
            name = self.fresh("hm"); ty = r.choice([self.MII, self.MII, self.MSI, self.MIS])
            sc.vars.append((name, ty, False))
            return [Let(name, ty, Call("map_new"))]
        m = r.choice(ms)
        key = (lambda: self.expr("int", sc, 1) if r.random() < 0.3 else I(r.randint(-1, 4))) if m[1] != self.MSI else (lambda: S(r.choice(["", "a", "hi", "k"])))
        vty = "string" if m[1] == self.MIS else "int"
        c = r.random()
        if c < 0.5:
            k, v = self.multi(key, lambda: self.expr(vty, sc, 2))
            return [Ex(Call("map_put", V(m[0]), k, v))]
        if c < 0.65: return [Ex(Call("map_remove", V(m[0]), key()))]
        if c < 0.8: return [Println(Call("map_get", V(m[0]), key()))]
        if c < 0.9: return [Println(Call("map_size", V(m[0])))]
        return [Println(Call("map_has", V(m[0]), key()))]

    def stmt(self, sc, depth, inloop, ret):
        r = self.r
        if self.feat.get("maps") and r.random() < 0.22:
            return self.map_stmt(sc)
        if self.gx and r.random() < self.gx_rate:
            s = self.gx_stmt(sc, depth, inloop, ret)
            if s:
                return s
        c = r.random()
        if c < 0.22:
            ty = r.choice(self.TYPES if not self.gx else self.TYPES + sorted(t for t in self.gx_types if not t.startswith("List<")))
            shadow = [v for v in sc.all() if v[1] == ty]
            name = r.choice(shadow)[0] if shadow and r.random() < 0.25 and sc.parent is not None and \
                all(v[0] != shadow[0][0] for v in sc.vars) else self.fresh()
            if any(v[0] == name for v in sc.vars):
                name = self.fresh()
            mut = r.random() < 0.6
            old = [v for v in sc.all() if v[0] == name]
            if old:
                mut = old[0][2]
            if ty == "int" and r.random() < 0.15:
                init = I(self.small(big=True))
            elif ty == "int" and r.random() < 0.1:
                init = Call("str_length", self.expr("string", sc, 1))
            else:
                init = self.expr(ty, sc, 2)
            if old and mentions(init, name):
                name = self.fresh()
            s = Let(name, ty, init, mut)
            sc.vars.append((name, ty, mut))
            return [s]
        if c < 0.36:
            ms = [v for v in sc.all() if v[2] and v[1] in ("int", "bool", "string", "Point", "array<int>")]
            if ms:
                v = r.choice(ms)
                return [Set(v[0], self.expr(v[1], sc, 2))]
        if c < 0.52:
            ty = r.choice(["int", "int", "bool", "string"])
            if ty == "int" and r.random() < 0.12:
                return [Println(Call("str_length", self.expr("string", sc, 2)))]
            cs = [v for v in sc.all() if v[1] == "Color"]
            if cs and r.random() < 0.15:
                c1 = r.choice(cs)[0]
                return [Println(V(c1))] if r.random() < 0.5 else [Println(Bin("==", V(c1), Enum("Color." + r.choice(["Red", "Green", "Blue"]))))]
            return [Println(self.expr(ty, sc, 3))] if r.random() < 0.85 else [Print(self.expr(ty, sc, 2))]
        if c < 0.64 and depth > 0:
            th = self.stmts(Scope(sc), r.randint(1, 3), depth - 1, inloop, ret)
            el = self.stmts(Scope(sc), r.randint(0, 2), depth - 1, inloop, ret) if r.random() < 0.6 else []
            return [If(self.expr("bool", sc, 2), th, el)]
        if c < 0.72 and depth > 0:
            i = self.fresh("i")
            body_sc = Scope(sc); body_sc.vars.append((i, "int", False))
            body = self.stmts(body_sc, r.randint(1, 3), depth - 1, True, ret)
            lo = r.randint(-1, 2)
            return [For(i, I(lo), I(lo + r.randint(0, 4)), body)]
        if c < 0.80 and depth > 0:
            k = self.fresh("k")
            sc.vars.append((k, "int", False))        # counter: not offered for `set` by the generator
            body_sc = Scope(sc)
            pre = [Set(k, Bin("+", V(k), I(1)))]      # increment first so that `continue` cannot loop forever
            body = pre + self.stmts(body_sc, r.randint(1, 3), depth - 1, True, ret)
            cond = Bin("<", V(k), I(r.randint(1, 4)))
            if r.random() < 0.3:
                cond = Bin("and", cond, self.expr("bool", sc, 1))
            return [Let(k, "int", I(0), True), While(cond, body)]
        if c < 0.84 and inloop:
            return [If(self.expr("bool", sc, 2), [Break() if r.random() < 0.5 else Continue()], [])]
        if c < 0.88:
            arrs = [v for v in sc.all() if v[1] == "array<int>"]
            if arrs:
                a = r.choice(arrs)[0]
                c2 = r.random()
                if c2 < 0.4: return [Ex(Call("array_push", V(a), self.expr("int", sc, 2)))]
                if c2 < 0.7: return [Ex(Call("array_set", V(a), I(0), self.expr("int", sc, 2)))]
                x = self.fresh("e")
                bsc = Scope(sc); bsc.vars.append((x, "int", False))
                return [ForIn(x, V(a), [Println(V(x))] + self.stmts(bsc, r.randint(0, 1), 0, True, ret))]
        if c < 0.93 and depth > 0:
            shp = [v for v in sc.all() if v[1] == "Shape"]
            pre = []
            if shp and r.random() < 0.7:
                e = V(r.choice(shp)[0])
            else:
                nm = self.fresh("sh"); pre = [Let(nm, "Shape", self.lit("Shape", sc, 2))]; sc.vars.append((nm, "Shape", False)); e = V(nm)
            arms = []
            for vn, fs in self.unions[0][1]:
                b = self.fresh("m")
                asc = Scope(sc)
                body = [Println(Field(V(b), fs[0][0]))] if fs and r.random() < 0.7 else []
                body += self.stmts(asc, r.randint(0, 2), depth - 1, inloop, ret)
                arms.append(("Shape." + vn, b, body or [Println(S(vn))]))
            return pre + [Match(e, arms)]
        if c < 0.96 and ret is not None and depth < 2:
            return [If(self.expr("bool", sc, 2), [Ret(self.expr(ret, sc, 2))], [])]
        return [Ex(Call("t", self.expr("int", sc, 2)))]

    # --------------------------------------------------------------- programs
    def program(self):
        r = self.r
        fns = [Func("t", [("x", "int")], "int", [Println(V("x")), Ret(V("x"))]),
               Func("tb", [("x", "bool")], "bool", [Println(V("x")), Ret(V("x"))])]
        self.funcs = []
        gl = []
        gsc = Scope()
        if r.random() < 0.7:
            gl.append(("G1", "int", False, I(self.small()))); gsc.vars.append(("G1", "int", False))
        if r.random() < 0.6:
            gl.append(("gm", "int", True, I(r.randint(0, 5)))); gsc.vars.append(("gm", "int", True)); self.mut_globals.add("gm")
        if self.gx:
            self.gx_program_pre(fns, gl, gsc)
        if self.feat.get("fnvals"):
            fns.append(Func("ap", [("f", self.FII), ("x", "int")], "int", [Println(V("x")), Let("r", "int", Call("f", V("x"))), Println(V("r")), Ret(V("r"))]))
        wide = bool(self.feat.get("wide"))
        self.gx_wide_fns = []
        for k in range(r.randint(1, 3) + (1 if self.feat.get("fnvals") else 0) + (r.randint(16, 20) if wide else 0)):
            name = "f%d" % k
            ptys = [r.choice(["int", "int", "bool", "string", "Point", "array<int>", "Shape"] + ([self.MII, self.MSI] if self.feat.get("maps") else [])
                         + (self.gx_param_types() if self.gx else []))
                    for _ in range(r.randint(6, 10) if wide and k % 3 == 0 else r.randint(0, 3))]
            if self.feat.get("fnvals") and k == 0:
                ptys = ["int"]                       # at least one function of the shape fn(int) -> int
            ret = r.choice(["int", "int", "bool", "string", "Point"] + (self.gx_ret_types() if self.gx else []))
            if self.feat.get("fnvals") and k == 0:
                ret = "int"
            sc = Scope(gsc)
            params = []
            for t in ptys:
                p = self.fresh("p"); params.append((p, t)); sc.vars.append((p, t, False))
            body = self.stmts(sc, r.randint(1, 4) if not (wide and k > 3) else r.randint(1, 2), 2 if not (wide and k > 3) else 1, False, ret)
            if r.random() < 0.25 and ret == "int" and "int" in ptys:        # bounded recursion on the first int parameter
                pn = [p for p, t in params if t == "int"][0]
                args = [Bin("-", V(p), I(1)) if p == pn else V(p) for p, t in params]
                body = [If(Bin("<=", V(pn), I(0)), [Ret(I(r.randint(0, 3)))], []),
                        If(Bin(">", V(pn), I(6)), [Ret(I(1))], [])] + body + \
                       [Ret(Bin("+", V(pn), Call(name, *args)))]
            else:
                body.append(Ret(self.expr(ret, sc, 2)))
            fns.append(Func(name, params, ret, body))
            self.funcs.append((name, ptys, ret))
            if wide and len(ptys) >= 6:
                self.gx_wide_fns.append((name, ptys, ret))
        sc = Scope(gsc)
        if self.feat.get("fnvals"):
            fns.append(Func("ap_last", [("f", self.FII), ("x", "int")], "int", [Let("r", "int", Call("f", V("x"))), Println(V("r")), Ret(Bin("+", V("r"), I(1)))]))
            sc.vars.append(("fv0", self.FII, False))
        pre = []
        if wide:          # 40+ locals alive in main
            pre = self.ix_wide_locals(sc, 3, False, "int") + self.ix_wide_locals(sc, 3, False, "int") + self.ix_wide_locals(sc, 3, False, "int")
        body = pre + self.stmts(sc, r.randint(4, 9), 3, False, "int")
        if self.feat.get("fnvals"):
            body = [Let("fv0", self.FII, V("f0"))] + body
        body.append(Ret(I(r.choice([0, 0, 1, 7, 42, 255, 256, 300]))))
        fns.append(Func("main", [], "int", body))
        prog = Program(fns, structs=self.structs, enums=self.enums, unions=self.unions, globals_=gl)
        if self.gx and self.feat.get("unions2"):
            prog["late_structs"] = ["Holder"]
        if self.gx and self.feat.get("enums2"):
            prog["late_structs"] = prog.get("late_structs", []) + ["Px"]
        return prog
