"""Family programs that pin the constructs behind the findings of the generator exploration (props/gx.py, notes/GX.md,
known_findings.d/GX.json).  One small program per construct; what each must print is decided by NanoSem."""
from .nano_ast import *
from . import families

T = families.T
STRUCTS = [("Point", [("x", "int"), ("y", "int")]), ("Rec", [("tag", "string"), ("n", "int")])]
ENUMS = [("Color", [("Red", 0), ("Green", 1), ("Blue", 2)]), ("Lvl", [("Low", 10), ("Mid", 20), ("High", 35)])]
UNIONS = [("Shape", [("Circle", [("r", "int")]), ("Rect", [("w", "int"), ("h", "int")]), ("Empty", [])]),
          ("Res", [("Ok", [("v", "int"), ("tag", "string")]), ("Bad", [("tag", "string"), ("code", "int"), ("ok", "bool")])])]


def P(main_body, extra_funcs=(), globals_=(), structs=(), ret=0):
    body = list(main_body)
    if not body or body[-1]["k"] != "ret":
        body.append(Ret(I(ret)))
    return Program([T] + list(extra_funcs) + [Func("main", [], "int", body)], structs=STRUCTS + list(structs), enums=ENUMS, unions=UNIONS, globals_=globals_)


def pt(x, y): return SLit("Point", [("x", I(x)), ("y", I(y))])
def its(e): return Call("int_to_string", e)


def gx_families():
    out = {}
    AP, ACOL, TP = "array<Point>", "array<Color>", "(int, string)"
    # ---- F-gx-native-array-literal-non-scalar: non-empty array literals of enum / struct / array / union elements
    out["native_array_literal_enum"] = P([Let("cs", ACOL, ALit("Color", [Enum("Color.Red"), Enum("Color.Blue")])), Println(Call("array_length", V("cs"))), Println(Call("at", V("cs"), I(1)))])
    out["native_array_literal_struct"] = P([Let("ps", AP, ALit("Point", [pt(1, 2), pt(3, 4)])), Let("p", "Point", Call("at", V("ps"), I(1))), Println(Field(V("p"), "y")), Println(Call("array_length", V("ps")))])
    out["native_array_literal_nested_ragged"] = P([Let("g", "array<array<int>>", ALit("array<int>", [ALit("int", [I(1), I(2)]), ALit("int", [I(3), I(4), I(5)])])), Let("r", "array<int>", Call("at", V("g"), I(1))),
                                                   Println(Call("at", V("r"), I(2))), Println(Call("array_length", V("g")))])
    out["native_array_literal_union"] = P([Let("a", "Shape", ULit("Shape.Circle", [("r", I(3))])), Let("us", "array<Shape>", ALit("Shape", [V("a"), ULit("Shape.Empty", [])])), Println(Call("array_length", V("us")))])
    # the same arrays built with array_push (these build and agree: the control)
    out["array_push_struct_control"] = P([Let("ps", AP, ALit("Point", []), True), For("i", I(0), I(3), [Set("ps", Call("array_push", V("ps"), SLit("Point", [("x", V("i")), ("y", Bin("*", V("i"), V("i")))])))]),
                                          Let("p", "Point", Call("at", V("ps"), I(2))), Println(Field(V("p"), "y")), Ex(Call("array_set", V("ps"), I(0), pt(7, 8))), Let("q", "Point", Call("at", V("ps"), I(0))), Println(Field(V("q"), "x"))])
    # ---- F-gx-native-tuple-type-positions
    out["native_tuple_param"] = P([Println(Call("second", TLit([I(1), S("abc")])))], [Func("second", [("p", TP)], "int", [Println(TIdx(V("p"), 1)), Ret(Bin("+", TIdx(V("p"), 0), Call("str_length", TIdx(V("p"), 1))))])])
    out["native_tuple_field"] = P([Let("h", "TupHolder", SLit("TupHolder", [("k", I(1)), ("pr", TLit([I(5), S("five")]))])), Println(TIdx(Field(V("h"), "pr"), 1)), Println(Field(V("h"), "k"))],
                                  structs=[("TupHolder", [("k", "int"), ("pr", TP)])])
    out["native_tuple_global"] = P([Println(TIdx(V("gt"), 0)), Set("gt", TLit([I(2), S("u")])), Println(TIdx(V("gt"), 1))], globals_=[("gt", TP, True, TLit([I(1), S("t")]))])
    out["native_tuple_array"] = P([Let("ts", "array<(int, string)>", ALit(TP, []), True), Set("ts", Call("array_push", V("ts"), TLit([I(1), S("a")]))), Println(Call("array_length", V("ts")))])
    # ---- F-gx-native-global-struct
    out["native_global_struct"] = P([Println(Field(V("gp"), "x")), Set("gp", SLit("Point", [("x", Bin("+", Field(V("gp"), "x"), I(1))), ("y", Field(V("gp"), "y"))])), Println(Field(V("gp"), "x")), Println(Field(V("gq"), "y"))],
                                    globals_=[("gp", "Point", True, pt(1, 2)), ("gq", "Point", False, pt(5, 6))])
    # ---- F-gx-map-changes-element-type
    ln = Func("len_of", [("s", "string")], "int", [Ret(Call("str_length", V("s")))])
    tos = Func("tag_of", [("x", "int")], "string", [Ret(Bin("+", S("#"), its(V("x"))))])
    out["map_string_to_int"] = P([Let("ss", "array<string>", ALit("string", [S("a"), S("bb"), S("ccc")])), Let("ls", "array<int>", Call("map", V("ss"), V("len_of"))), Println(Call("at", V("ls"), I(2))), Println(Call("array_length", V("ls")))], [ln])
    out["map_int_to_string"] = P([Let("xs", "array<int>", ALit("int", [I(1), I(2)])), Let("ts", "array<string>", Call("map", V("xs"), V("tag_of"))), Println(Call("at", V("ts"), I(1)))], [tos])
    # ---- F-gx-vm-enum-to-string-empty
    out["vm_enum_to_string"] = P([Println(its(Enum("Color.Blue"))), Let("c", "Color", Enum("Color.Green")), Println(its(V("c"))), Println(Call("cast_string", Enum("Lvl.Mid"))), Println(Bin("+", S("lvl="), Call("to_string", Enum("Lvl.High"))))])
    # ---- F-gx-native-compare-two-enum-types
    out["native_compare_two_enums"] = P([Println(Bin(">=", Enum("Color.Blue"), Enum("Lvl.Mid"))), Println(Bin("==", Enum("Lvl.Low"), Enum("Color.Red"))), Println(Bin("<", Enum("Color.Red"), Enum("Color.Blue")))])
    # ---- F-gx-native-array-of-enums
    out["native_array_of_enums_push"] = P([Let("cs", ACOL, ALit("Color", []), True), Set("cs", Call("array_push", V("cs"), Enum("Color.Blue"))), Set("cs", Call("array_push", V("cs"), Enum("Color.Red"))),
                                           Println(Call("array_length", V("cs"))), Println(Call("at", V("cs"), I(0)))])
    # ---- F-gx-native-fn-typed-let-in-match-arm
    sq = Func("sq", [("x", "int")], "int", [Ret(Bin("*", V("x"), V("x")))])
    out["native_fn_let_in_match_arm"] = P([Let("s", "Shape", ULit("Shape.Circle", [("r", I(3))])),
                                           Match(V("s"), [("Shape.Circle", "c", [Let("f", "fn(int) -> int", V("sq")), Println(Call("f", Field(V("c"), "r")))]), ("Shape.Rect", "q", [Println(Field(V("q"), "w"))]), ("Shape.Empty", "e", [Println(I(0))])])], [sq])
    out["fn_let_outside_match_control"] = P([Let("f", "fn(int) -> int", V("sq")), Println(Call("f", I(4)))], [sq])
    # ---- evaluator: string ownership (main's body is run by the evaluator in C03 / GX)
    tagof = Func("tagof", [("r", "Rec")], "int", [Let("s", "string", Field(V("r"), "tag")), Ret(Call("str_length", V("s")))])
    out["interp_string_from_field_twice"] = P([Let("r", "Rec", SLit("Rec", [("tag", Bin("+", S("ab"), S("c"))), ("n", I(1))])), Println(Call("tagof", V("r"))), Println(Call("tagof", V("r"))), Println(Field(V("r"), "tag"))], [tagof])
    second = Func("second_len", [("p", TP)], "int", [Let("s", "string", TIdx(V("p"), 1)), Ret(Call("str_length", V("s")))])
    out["interp_string_from_tuple_twice"] = P([Let("p", TP, TLit([I(1), Bin("+", S("ab"), S("cd"))])), Println(Call("second_len", V("p"))), Println(Call("second_len", V("p"))), Println(TIdx(V("p"), 1))], [second])
    mk = Func("mk", [("s", "string")], "Res", [Ret(ULit("Res.Ok", [("v", I(1)), ("tag", V("s"))]))])
    out["interp_union_result_with_string"] = P([Let("r", "Res", Call("mk", Bin("+", S("ab"), S("cd")))),
                                                Match(V("r"), [("Res.Ok", "o", [Println(Field(V("o"), "tag")), Println(Field(V("o"), "v"))]), ("Res.Bad", "b", [Println(Field(V("b"), "code"))])])], [mk])
    out["interp_string_self_assignment"] = P([Let("s", "string", Bin("+", S("na"), S("no")), True), Set("s", V("s")), Println(V("s")), Set("gs", V("gs")), Println(V("gs"))], globals_=[("gs", "string", True, S("g"))])
    # ---- F-gx-interp-arrays-of-non-scalars / INTERP_STATIC_ARRAYS (array_set on a dynamic array)
    out["interp_struct_array_literal_at"] = P([Let("ps", AP, ALit("Point", [pt(1, 2), pt(3, 4)])), Println(Call("array_length", V("ps"))), Let("p", "Point", Call("at", V("ps"), I(1))), Println(Field(V("p"), "y"))])
    out["interp_array_set_dynamic"] = P([Let("a", "array<int>", ALit("int", []), True), Set("a", Call("array_push", V("a"), I(5))), Set("a", Call("array_push", V("a"), I(6))), Ex(Call("array_set", V("a"), I(0), I(50))), Println(Call("at", V("a"), I(0))),
                                         Let("sa", "array<string>", ALit("string", []), True), Set("sa", Call("array_push", V("sa"), S("x"))), Ex(Call("array_set", V("sa"), I(0), S("y"))), Println(Call("at", V("sa"), I(0)))])
    # ---- F-gx-native-tuple-composite-elements
    out["native_tuple_of_struct"] = P([Let("tp", "(Point, int)", TLit([pt(18, 20), I(3)])), Let("q", "Point", TIdx(V("tp"), 0)), Println(Field(V("q"), "y")), Println(TIdx(V("tp"), 1))])
    out["native_tuple_in_tuple"] = P([Let("tt", "((int, string), int)", TLit([TLit([I(1), S("a")]), I(2)])), Let("ti", "(int, string)", TIdx(V("tt"), 0)), Println(TIdx(V("ti"), 1)), Println(TIdx(V("tt"), 1)),
                                      Let("t3", "(int, string, bool)", TLit([I(1), S("b"), B(True)])), Println(TIdx(V("t3"), 2))])
    # ---- F-gx-native-global-initialised-by-call
    out["native_global_initialised_by_call"] = P([Println(V("gc"))], [Func("ginit", [("k", "int")], "int", [Ret(Bin("+", Bin("*", V("k"), V("k")), I(1)))])], globals_=[("gc", "int", False, Call("ginit", I(5)))])
    # ---- F-gx-interp-for-in-array-not-implemented
    out["interp_for_in_array"] = P([Let("a", "array<int>", ALit("int", [I(4), I(5)])), ForIn("e", V("a"), [Println(V("e"))]), Let("ss", "array<string>", ALit("string", [S("x"), S("yz")])), ForIn("s", V("ss"), [Println(Call("str_length", V("s")))]), Println(S("end"))])
    # ---- F-gx-native-str-length-unsigned
    out["native_str_length_unsigned"] = P([Let("s", "string", S("abc")), Println(Bin("-", Call("str_length", V("s")), I(19))), Println(Bin(">", I(128), Bin("-", Call("str_length", V("s")), I(19)))),
                                           Let("k", "int", Call("t", I(1))), Println(Bin(">", V("k"), Bin("+", Bin("*", V("k"), I(2)), Call("str_length", S("Z9")))))])
    # ---- F-gx-interp-substring-start-out-of-bounds (STDLIB: the empty string)
    out["interp_substring_past_end_in_array"] = P([Let("a", "array<string>", ALit("string", [S("nano"), Call("str_substring", S(""), I(1), I(2))])), Println(Call("array_length", V("a"))), Println(Call("str_length", Call("at", V("a"), I(1))))])
    return out
