"""Family programs that pin the constructs behind the findings of the generator exploration (props/gx.py, notes/GX.md)."""
from .nano_ast import *
from . import families

P = families.prog


def gx_families():
    out = {}
    return out
