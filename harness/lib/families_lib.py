"""Program families for the standard library (spec/NanoLib.tla + the higher-order block of spec/NanoSem.tla):
small realistic programs that combine the library functions with the language.  What each program prints is decided
by NanoSem; every family is well-typed (NanoType) and runs to status ok.  `lib_families()` -> {name: program AST}."""
from .nano_ast import *


def prog(main_body, funcs=(), globals_=(), ret=0):
    body = list(main_body)
    if not body or body[-1]["k"] != "ret":
        body.append(Ret(I(ret)))
    return Program(list(funcs) + [Func("main", [], "int", body)], globals_=globals_)


def C(f, *a): return Call(f, *a)
def inc(v, by=1): return Set(v, Bin("+", V(v), I(by)))


def _tokenizer():
    """a lexer over a string using the character classes: counts, number values, upper-cased identifiers"""
    classify = Func("classify", [("c", "int")], "string", [
        If(C("is_whitespace", V("c")), [Ret(S("WS"))]), If(C("is_digit", V("c")), [Ret(S("DIGIT"))]),
        If(C("is_alpha", V("c")), [Ret(S("LETTER"))]), Ret(S("SYMBOL"))])
    lex = Func("lex", [("src", "string")], "int", [
        Let("pos", "int", I(0), True), Let("n", "int", C("str_length", V("src"))), Let("tokens", "int", I(0), True),
        While(Bin("<", V("pos"), V("n")), [
            Let("c", "int", C("char_at", V("src"), V("pos"))),
            If(C("is_whitespace", V("c")), [inc("pos")], [
                If(C("is_digit", V("c")), [
                    Let("val", "int", I(0), True),
                    While(Bin("and", Bin("<", V("pos"), V("n")), C("is_digit", C("char_at", V("src"), V("pos")))),
                          [Set("val", Bin("+", Bin("*", V("val"), I(10)), C("digit_value", C("char_at", V("src"), V("pos"))))), inc("pos")]),
                    Println(Bin("+", S("NUM "), C("int_to_string", V("val")))), inc("tokens")], [
                    If(C("is_alpha", V("c")), [
                        Let("word", "string", S(""), True),
                        While(Bin("and", Bin("<", V("pos"), V("n")), C("is_alnum", C("char_at", V("src"), V("pos")))),
                              [Set("word", Bin("+", V("word"), C("string_from_char", C("char_to_upper", C("char_at", V("src"), V("pos")))))), inc("pos")]),
                        Println(Bin("+", S("ID "), V("word"))), inc("tokens")], [
                        Println(Bin("+", S("SYM "), C("string_from_char", V("c")))), inc("pos"), inc("tokens")])])])]),
        Ret(V("tokens"))])
    return prog([Println(C("classify", I(32))), Println(C("classify", I(55))), Println(C("classify", I(113))), Println(C("classify", I(43))),
                 Println(C("lex", S("let x1 = 42 + foo*(7)")))], [classify, lex])


def _parse_number():
    """STDLIB "Practical Example: Simple Lexer": parse_number with is_digit + digit_value"""
    pn = Func("parse_number", [("source", "string"), ("start", "int")], "int", [
        Let("result", "int", I(0), True), Let("pos", "int", V("start"), True), Let("len", "int", C("str_length", V("source"))),
        While(Bin("<", V("pos"), V("len")), [
            Let("c", "int", C("char_at", V("source"), V("pos"))),
            If(C("is_digit", V("c")), [Let("digit", "int", C("digit_value", V("c"))), Set("result", Bin("+", Bin("*", V("result"), I(10)), V("digit"))), inc("pos")],
               [Ret(V("result"))])]),
        Ret(V("result"))])
    return prog([Println(C("parse_number", S("123abc"), I(0))), Println(C("parse_number", S("x98765"), I(1))), Println(C("parse_number", S("abc"), I(0))),
                 Println(C("parse_number", S("007"), I(0))), Println(Bin("==", C("parse_number", S("4096"), I(0)), C("string_to_int", S("4096"))))], [pn])


def _caesar():
    """case mapping over a string with is_upper / is_lower / char_to_lower / char_to_upper and string_from_char"""
    swap = Func("swapcase", [("s", "string")], "string", [
        Let("out", "string", S(""), True), Let("n", "int", C("str_length", V("s"))),
        For("i", I(0), V("n"), [
            Let("c", "int", C("char_at", V("s"), V("i"))),
            If(C("is_upper", V("c")), [Set("out", Bin("+", V("out"), C("string_from_char", C("char_to_lower", V("c")))))], [
                If(C("is_lower", V("c")), [Set("out", Bin("+", V("out"), C("string_from_char", C("char_to_upper", V("c")))))],
                   [Set("out", Bin("+", V("out"), C("string_from_char", V("c"))))])])]),
        Ret(V("out"))])
    rot = Func("rot13", [("s", "string")], "string", [
        Let("out", "string", S(""), True), Let("n", "int", C("str_length", V("s"))),
        For("i", I(0), V("n"), [
            Let("c", "int", C("char_at", V("s"), V("i"))), Let("base", "int", I(0), True),
            If(C("is_upper", V("c")), [Set("base", I(65))]), If(C("is_lower", V("c")), [Set("base", I(97))]),
            If(Bin("==", V("base"), I(0)), [Set("out", Bin("+", V("out"), C("string_from_char", V("c"))))],
               [Set("out", Bin("+", V("out"), C("string_from_char", Bin("+", V("base"), Bin("%", Bin("+", Bin("-", V("c"), V("base")), I(13)), I(26))))))])]),
        Ret(V("out"))])
    return prog([Println(C("swapcase", S("Hello, World 42!"))), Println(C("rot13", S("Nano Lang"))), Println(C("rot13", C("rot13", S("Nano Lang")))),
                 Println(C("swapcase", C("swapcase", S("aZ09"))))], [swap, rot])


def _word_count():
    """word frequencies: manual splitting on white space (no split builtin exists) + HashMap<string,int>"""
    count = Func("count_words", [("text", "string"), ("probe", "string")], "int", [
        Let("m", "HashMap<string, int>", C("map_new")), Let("i", "int", I(0), True), Let("n", "int", C("str_length", V("text"))),
        Let("start", "int", I(0), True), Let("words", "int", I(0), True),
        While(Bin("<=", V("i"), V("n")), [
            Let("sep", "bool", B(True), True),
            If(Bin("<", V("i"), V("n")), [Set("sep", C("is_whitespace", C("char_at", V("text"), V("i"))))]),
            If(V("sep"), [
                If(Bin(">", V("i"), V("start")), [
                    Let("w", "string", C("str_substring", V("text"), V("start"), Bin("-", V("i"), V("start")))),
                    Ex(C("map_put", V("m"), V("w"), Bin("+", C("map_get", V("m"), V("w")), I(1)))), inc("words")]),
                Set("start", Bin("+", V("i"), I(1)))]),
            inc("i")]),
        Println(V("words")), Println(C("map_size", V("m"))), Ret(C("map_get", V("m"), V("probe")))])
    return prog([Println(C("count_words", S("the cat and the hat and the bat"), S("the"))), Println(C("count_words", S("  one  two one "), S("two"))),
                 Println(C("count_words", S(""), S("x")))], [count])


def _list_stack():
    """List<int> as a stack: push in a loop, pop until empty"""
    return prog([Let("st", "List<int>", C("list_int_new")),
                 For("i", I(0), I(5), [Ex(C("list_int_push", V("st"), Bin("*", V("i"), V("i"))))]),
                 Println(C("list_int_length", V("st"))), Let("sum", "int", I(0), True),
                 While(Un("not", C("list_int_is_empty", V("st"))), [Let("t", "int", C("list_int_pop", V("st"))), Println(V("t")), Set("sum", Bin("+", V("sum"), V("t")))]),
                 Println(V("sum")), Println(C("list_int_length", V("st")))])


def _list_index_queue():
    """List<int> used with the operations every engine has (new push get set length): a queue with a head index"""
    return prog([Let("q", "List<int>", C("list_int_new")), Let("head", "int", I(0), True),
                 Ex(C("list_int_push", V("q"), I(1))),
                 While(Bin("and", Bin("<", V("head"), C("list_int_length", V("q"))), Bin("<", C("list_int_length", V("q")), I(12))), [
                     Let("x", "int", C("list_int_get", V("q"), V("head"))), inc("head"), Println(V("x")),
                     Ex(C("list_int_push", V("q"), Bin("*", V("x"), I(2)))), If(Bin("==", Bin("%", V("x"), I(3)), I(1)), [Ex(C("list_int_push", V("q"), Bin("+", V("x"), I(1))))])]),
                 Ex(C("list_int_set", V("q"), I(0), I(-7))), Println(C("list_int_get", V("q"), I(0))), Println(C("list_int_length", V("q")))])


def _list_queue_remove_insert():
    """List<int> as a queue / sorted list: remove at the front, insert in order"""
    ins = Func("insert_sorted", [("l", "List<int>"), ("x", "int")], "void", [
        Let("i", "int", I(0), True),
        While(Bin("and", Bin("<", V("i"), C("list_int_length", V("l"))), Bin("<", C("list_int_get", V("l"), V("i")), V("x"))), [inc("i")]),
        Ex(C("list_int_insert", V("l"), V("i"), V("x"))), Ret()])
    return prog([Let("l", "List<int>", C("list_int_with_capacity", I(4))),
                 Ex(C("insert_sorted", V("l"), I(5))), Ex(C("insert_sorted", V("l"), I(1))), Ex(C("insert_sorted", V("l"), I(9))), Ex(C("insert_sorted", V("l"), I(4))),
                 Ex(C("insert_sorted", V("l"), I(5))),
                 For("i", I(0), C("list_int_length", V("l")), [Println(C("list_int_get", V("l"), V("i")))]),
                 While(Bin(">", C("list_int_length", V("l")), I(2)), [Println(C("list_int_get", V("l"), I(0))), Ex(C("list_int_remove", V("l"), I(0)))]),
                 Println(C("list_int_length", V("l"))), Ex(C("list_int_clear", V("l"))), Println(C("list_int_is_empty", V("l")))], [ins])


def _list_string_join():
    """List<string>: collect words, join them with a separator, edit with set / insert / remove"""
    join = Func("join", [("l", "List<string>"), ("sep", "string")], "string", [
        Let("out", "string", S(""), True),
        For("i", I(0), C("list_string_length", V("l")), [If(Bin(">", V("i"), I(0)), [Set("out", Bin("+", V("out"), V("sep")))]),
                                                          Set("out", Bin("+", V("out"), C("list_string_get", V("l"), V("i"))))]),
        Ret(V("out"))])
    return prog([Let("names", "List<string>", C("list_string_new")),
                 Ex(C("list_string_push", V("names"), S("Alice"))), Ex(C("list_string_push", V("names"), S("Bob"))), Ex(C("list_string_push", V("names"), S("Charlie"))),
                 Println(C("join", V("names"), S(", "))), Ex(C("list_string_set", V("names"), I(1), S("Robert"))), Ex(C("list_string_insert", V("names"), I(0), S("Zed"))),
                 Println(C("join", V("names"), S("+"))), Ex(C("list_string_remove", V("names"), I(2))), Println(C("join", V("names"), S("/"))),
                 Println(C("list_string_pop", V("names"))), Println(C("list_string_length", V("names"))), Println(C("join", V("names"), S("")))], [join])


def _list_alias():
    """reference semantics of lists: a list handed to a function, and a second name for the same list"""
    fill = Func("fill", [("l", "List<int>"), ("n", "int")], "int", [For("i", I(0), V("n"), [Ex(C("list_int_push", V("l"), Bin("+", V("i"), I(100))))]), Ret(C("list_int_length", V("l")))])
    return prog([Let("a", "List<int>", C("list_int_new")), Let("b", "List<int>", V("a")), Println(C("fill", V("a"), I(3))), Println(C("list_int_length", V("b"))),
                 Ex(C("list_int_set", V("b"), I(0), I(-1))), Println(C("list_int_get", V("a"), I(0))), Println(C("fill", V("b"), I(2))), Println(C("list_int_get", V("a"), I(4)))], [fill])


def _slice_windows():
    """array_slice in nested loops: sums of all windows of a width, prefix / suffix"""
    total = Func("total", [("a", "array<int>")], "int", [Let("s", "int", I(0), True), For("i", I(0), C("array_length", V("a")), [Set("s", Bin("+", V("s"), C("at", V("a"), V("i"))))]), Ret(V("s"))])
    return prog([Let("data", "array<int>", ALit("int", [I(3), I(1), I(4), I(1), I(5), I(9), I(2), I(6)])),
                 For("w", I(1), I(4), [For("i", I(0), Bin("-", Bin("+", C("array_length", V("data")), I(1)), V("w")), [
                     Let("win", "array<int>", C("array_slice", V("data"), V("i"), V("w"))), Println(C("total", V("win")))])]),
                 Let("head", "array<int>", C("array_slice", V("data"), I(0), I(3))), Let("tail", "array<int>", C("array_slice", V("data"), I(5), I(100))),
                 Println(C("array_length", V("head"))), Println(C("array_length", V("tail"))), Println(C("total", V("tail"))),
                 Println(C("array_length", C("array_slice", V("data"), I(8), I(2))))], [total])


def _slice_independent():
    """a slice is a new array: later changes of the source (or of the slice) do not show in the other"""
    return prog([Let("src", "array<int>", ALit("int", [I(1), I(2), I(3), I(4)]), True), Let("part", "array<int>", C("array_slice", V("src"), I(1), I(2)), True),
                 Ex(C("array_set", V("src"), I(1), I(99))), Println(C("at", V("part"), I(0))), Ex(C("array_set", V("part"), I(1), I(-5))), Println(C("at", V("src"), I(2))),
                 Set("part", C("array_push", V("part"), I(7))), Println(C("array_length", V("part"))), Println(C("array_length", V("src")))])


def _remove_at_loops():
    """array_remove_at in (nested) loops: drop the even numbers, then de-duplicate"""
    return prog([Let("a", "array<int>", ALit("int", []), True),
                 For("i", I(0), I(10), [Set("a", C("array_push", V("a"), Bin("%", Bin("*", V("i"), I(7)), I(6))))]),
                 Let("i", "int", I(0), True),
                 While(Bin("<", V("i"), C("array_length", V("a"))), [
                     Let("j", "int", Bin("+", V("i"), I(1)), True),
                     While(Bin("<", V("j"), C("array_length", V("a"))), [
                         If(Bin("==", C("at", V("a"), V("i")), C("at", V("a"), V("j"))), [Set("a", C("array_remove_at", V("a"), V("j")))], [inc("j")])]),
                     inc("i")]),
                 Println(C("array_length", V("a"))), For("k", I(0), C("array_length", V("a")), [Println(C("at", V("a"), V("k")))]),
                 Let("k2", "int", I(0), True),
                 While(Bin("<", V("k2"), C("array_length", V("a"))), [If(Bin("==", Bin("%", C("at", V("a"), V("k2")), I(2)), I(0)), [Ex(C("array_remove_at", V("a"), V("k2")))], [inc("k2")])]),
                 Println(C("array_length", V("a"))), For("k", I(0), C("array_length", V("a")), [Println(C("at", V("a"), V("k")))])])


def _remove_at_alias():
    """array_remove_at works in place: a second name and a callee see the change"""
    drop = Func("drop_first", [("z", "array<int>")], "int", [Ex(C("array_remove_at", V("z"), I(0))), Ret(C("array_length", V("z")))])
    return prog([Let("a", "array<int>", ALit("int", []), True), Set("a", C("array_push", V("a"), I(10))), Set("a", C("array_push", V("a"), I(20))), Set("a", C("array_push", V("a"), I(30))),
                 Let("b", "array<int>", V("a")), Println(C("drop_first", V("a"))), Println(C("at", V("b"), I(0))), Println(C("array_length", V("b")))], [drop])


def _array_new_grid():
    """array_new: a zeroed table filled with array_set, a table of strings"""
    return prog([Let("n", "int", I(4)), Let("grid", "array<int>", C("array_new", Bin("*", V("n"), V("n")), I(0)), True),
                 For("r", I(0), V("n"), [For("c", I(0), V("n"), [If(Bin("<=", V("c"), V("r")), [Ex(C("array_set", V("grid"), Bin("+", Bin("*", V("r"), V("n")), V("c")), Bin("+", V("r"), V("c"))))])])]),
                 Let("s", "int", I(0), True), For("i", I(0), C("array_length", V("grid")), [Set("s", Bin("+", V("s"), C("at", V("grid"), V("i"))))]), Println(V("s")),
                 Println(C("array_length", V("grid"))), Println(C("at", V("grid"), I(15))),
                 Let("names", "array<string>", C("array_new", I(3), S("-")), True), Ex(C("array_set", V("names"), I(1), S("mid"))),
                 For("i", I(0), I(3), [Println(C("at", V("names"), V("i")))]), Println(C("array_length", C("array_new", I(0), I(1))))])


def _conversions():
    """cast_string / cast_int / cast_bool / to_string with the language's operators"""
    return prog([Let("n", "int", I(-42)), Let("s", "string", C("cast_string", V("n"))), Println(Bin("+", S("n="), V("s"))), Println(C("str_length", V("s"))),
                 Println(C("cast_int", B(True))), Println(Bin("+", C("cast_int", B(True)), C("cast_int", B(False)))), Println(C("cast_bool", I(7))), Println(C("cast_bool", I(0))),
                 Println(C("cast_string", Bin("<", I(1), I(2)))), Println(C("to_string", I(12))), Println(Bin("+", C("to_string", B(False)), C("cast_string", S("!")))),
                 Let("t", "int", I(0), True), For("i", I(0), I(5), [If(C("cast_bool", Bin("%", V("i"), I(2))), [Set("t", Bin("+", V("t"), C("cast_int", V("i"))))])]), Println(V("t")),
                 Println(C("string_to_int", C("cast_string", I(9007199254740993)))), Println(C("cast_int", I(9007199254740993)))])


HOF_FUNCS = [Func("is_even", [("n", "int")], "bool", [Ret(Bin("==", Bin("%", V("n"), I(2)), I(0)))]),
             Func("square", [("x", "int")], "int", [Ret(Bin("*", V("x"), V("x")))]),
             Func("add", [("acc", "int"), ("x", "int")], "int", [Ret(Bin("+", V("acc"), V("x")))]),
             Func("noisy", [("x", "int")], "int", [Println(V("x")), Ret(Bin("+", V("x"), I(1)))]),
             Func("big", [("x", "int")], "bool", [Println(Bin("+", S("p"), C("int_to_string", V("x")))), Ret(Bin(">", V("x"), I(2)))]),
             Func("sub", [("acc", "int"), ("x", "int")], "int", [Println(V("acc")), Ret(Bin("-", V("acc"), V("x")))])]


def _hof_pipeline():
    """filter -> map -> reduce pipeline (the examples of STDLIB) and the order in which the callbacks run"""
    show = Func("show", [("a", "array<int>")], "int", [For("i", I(0), C("array_length", V("a")), [Println(C("at", V("a"), V("i")))]), Ret(C("array_length", V("a")))])
    return prog([Let("numbers", "array<int>", ALit("int", [I(1), I(2), I(3), I(4), I(5), I(6)])),
                 Let("evens", "array<int>", C("filter", V("numbers"), V("is_even"))), Println(C("show", V("evens"))),
                 Let("squares", "array<int>", C("map", V("evens"), V("square"))), Println(C("show", V("squares"))),
                 Println(C("reduce", V("squares"), I(0), V("add"))), Println(C("reduce", C("map", C("filter", V("numbers"), V("is_even")), V("square")), I(100), V("add"))),
                 Println(C("array_length", V("numbers"))), Println(C("show", C("map", ALit("int", [I(7), I(8), I(9)]), V("noisy")))),
                 Println(C("array_length", C("filter", ALit("int", [I(1), I(5), I(2), I(3)]), V("big")))), Println(C("reduce", ALit("int", [I(1), I(2), I(3)]), I(10), V("sub"))),
                 Let("none", "array<int>", ALit("int", [])), Println(C("array_length", C("filter", V("none"), V("is_even")))), Println(C("array_length", C("map", V("none"), V("square")))),
                 Println(C("reduce", V("none"), I(-3), V("add")))], HOF_FUNCS + [show])


def _hof_function_values():
    """the callback given through a variable and through a parameter of function type"""
    apply_all = Func("apply_all", [("a", "array<int>"), ("f", "fn(int) -> int")], "int", [Let("r", "array<int>", C("map", V("a"), V("f"))), Ret(C("reduce", V("r"), I(0), V("add")))])
    return prog([Let("g", "fn(int) -> int", V("square")), Let("a", "array<int>", ALit("int", [I(1), I(2), I(3)])), Println(C("apply_all", V("a"), V("g"))),
                 Println(C("apply_all", V("a"), V("noisy"))), Let("p", "fn(int) -> bool", V("is_even")), Println(C("array_length", C("filter", V("a"), V("p")))),
                 Println(C("at", V("a"), I(2)))], HOF_FUNCS + [apply_all])


def _hof_result_independent():
    """the result of map / filter is a new array"""
    return prog([Let("a", "array<int>", ALit("int", [I(2), I(4), I(5)]), True), Let("m", "array<int>", C("map", V("a"), V("square")), True), Let("f", "array<int>", C("filter", V("a"), V("is_even")), True),
                 Ex(C("array_set", V("a"), I(0), I(100))), Println(C("at", V("m"), I(0))), Println(C("at", V("f"), I(0))), Ex(C("array_set", V("m"), I(1), I(-1))), Println(C("at", V("a"), I(1))),
                 Println(C("array_length", V("f")))], HOF_FUNCS)


def lib_families():
    out = {"lib_tokenizer": _tokenizer(), "lib_parse_number": _parse_number(), "lib_caesar": _caesar(), "lib_word_count": _word_count(),
           "lib_list_stack": _list_stack(), "lib_list_index_queue": _list_index_queue(), "lib_list_queue_remove_insert": _list_queue_remove_insert(),
           "lib_list_string_join": _list_string_join(), "lib_list_alias": _list_alias(), "lib_slice_windows": _slice_windows(),
           "lib_slice_independent": _slice_independent(), "lib_remove_at_loops": _remove_at_loops(), "lib_remove_at_alias": _remove_at_alias(),
           "lib_array_new_grid": _array_new_grid(), "lib_conversions": _conversions(), "lib_hof_pipeline": _hof_pipeline(),
           "lib_hof_function_values": _hof_function_values(), "lib_hof_result_independent": _hof_result_independent()}
    return out
