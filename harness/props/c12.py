"""C12 - a damaged bytecode file is refused, not executed.

Oracle: spec/NvmLoad.tla (the loader as a staged machine over a real-format image, with the fault
catalogue FlipBit / Burst / Truncate / Extend / BadMagic / BadVersion / CrcBit) and
spec/NvmLoadTrace.tla (the same actions driven by the stage events hook H3 records in the real
nvm_deserialize).  This file builds, runs, converts and compares:

  1. TLC checks every fault of the catalogue against the model image (Refused, RefusedEarly,
     AllOrNothing, Staged, ...) and prints the image, the catalogue and a sample of faults with the
     checksum and the reject stage it predicts.
  2. probes/nvmfault_probe.c loads the model image and the sampled faults with the real loader
     (same module, same checksums, all refused), then concretises the catalogue on every
     compiler-produced file of corpus/c12: every body bit, every truncation, tails, bursts at every
     bit offset, magic/version bytes, checksum-bit bursts - on the plain and on the asan build.
  3. a sample of every class goes through the real `nano_vm` (exit 1, "invalid .nvm format", no output)
  4. and through NvmLoadTrace (H3 events of the same loads, with the bytes).
"""
import glob
import json
import os
import threading

from lib.common import NCPU, VERIF, InfraError, log, parallel_map, sh, sha, tlc
from props.nvmload_common import PROBE, constants, hook_present, ndjson, run_trace, split_trace, workers

CORPUS = os.path.join(VERIF, "corpus", "c12")
MODEL_INVARIANTS = ("TypeOK", "Refused", "RefusedEarly", "GoodLoads", "AllOrNothing", "Staged",
                    "ReadsInBounds", "Terminates", "NeverUndefined", "SizeAssumption")


_SEEN = {}
MAX_PER_KIND = 6


def _viol(ctx, kind, what, save):
    """Report at most MAX_PER_KIND violations of one kind (each with its own replay artifact); count the rest."""
    n = _SEEN.get(kind, 0)
    _SEEN[kind] = n + 1
    if n < MAX_PER_KIND:
        ctx.violation(what, save())
    elif n == MAX_PER_KIND:
        log("further violations of kind '%s' are counted in the evidence, not listed" % kind)


def _probe(ctx, cmd, what, timeout=7200):
    """Run nvmfault_probe.  The loader runs inside it: if the loader crashes on a damaged file the probe exits
    with status 3 after printing a crash record (and saving the file) - that is a violation of the property
    (loading must fail with an error), not an infrastructure failure."""
    p = sh(cmd, env=ctx.env(), timeout=timeout, check=False)
    if p.returncode == 0:
        return p, False
    recs = [x for x in ndjson(p.stdout) if x.get("k") == "crash"]
    if p.returncode == 3 and recs:
        x = recs[-1]
        san = [l for l in p.stderr.splitlines() if "ERROR:" in l or "runtime error" in l]
        _viol(ctx, "crash",
              "the loader crashed (signal %s) instead of refusing a damaged file: %s, fault %s %s, %d bytes %s"
              % (x["signal"], what, x["cls"], json.dumps(x["desc"])[:200], x["len"], (san or [""])[0][:200]),
              lambda: ctx.save_replay("crash-%s-%s.nvm" % (x["cls"], sha(json.dumps(x["desc"]))), src=x["path"]))
        return p, True
    raise InfraError("nvmfault_probe failed (%s) on %s:\n%s\n%s" % (p.returncode, what, p.stdout[-600:], p.stderr[-1500:]))


def _fault_key(f):
    return (f["cls"], f["a"], f["b"], f["c"])


def _model(ctx, consts, quick):
    """Model-check the catalogue on the model image; return (TlcResult, image record, fault records)."""
    r = tlc(ctx, "NvmLoad", "NvmLoad", workers=workers(ctx), constants=consts, timeout=1800)
    image, faults = None, {}
    for rec in r.records:
        if rec.get("k") == "image":
            image = rec
        elif rec.get("k") == "fault":
            k = _fault_key(rec["f"])
            if k in faults and (faults[k]["crc"] != rec["crc"] or faults[k]["stage"] != rec["stage"]) \
                    and rec["f"]["cls"] != "Truncate":
                raise InfraError("model printed two different predictions for fault %s" % (k,))
            faults.setdefault(k, rec)
    return r, image, list(faults.values())


def _fn_fields(b):
    u16 = lambda p: b[p] | (b[p + 1] << 8)
    u32 = lambda p: b[p] | (b[p + 1] << 8) | (b[p + 2] << 16) | (b[p + 3] << 24)
    return dict(name_idx=u32(0), arity=u16(4), code_offset=u32(6), code_length=u32(10), local_count=u16(14),
                upvalue_count=u16(16))


def _check_model_image(ctx, probe, image, faults, work, trace):
    """Step 2a: the real loader on the model image and on the sampled faults of the model."""
    img = os.path.join(work, "model-image.nvm")
    with open(img, "wb") as f:
        f.write(bytes(image["bytes"]))
    fl = os.path.join(work, "model-faults.ndjson")
    with open(fl, "w") as f:
        for rec in faults:
            f.write(json.dumps(rec["f"]) + "\n")
    p, crashed = _probe(ctx, [probe, "model", img, fl] + ([trace] if trace else []), "model image", timeout=600)
    out = ndjson(p.stdout)
    if crashed:
        return len([x for x in out if x.get("k") == "fault"]), img, False
    head = out[0]
    if not head["loaded"]:
        # The image is well-formed by the rules NvmLoad.tla transcribes (checksum = CRC-32 of every byte after the
        # header).  A loader that refuses it does not break C12 by that alone; the model image is left out and the
        # catalogue is still enumerated on the compiler-produced files (if those do not load either: InfraError).
        log("WARNING: the real loader refuses the model image of NvmLoad.tla; the loader's notion of a well-formed "
            "file differs from the specification's - continuing with compiler-produced files only")
        return 0, img, False
    m, mm = head["mod"], image["mod"]
    real = dict(strings=m["strings"], code=m["code"], fns=m["fns"], nsec=m["nsec"], dbg=m["dbg"], imps=m["imps"])
    spec = dict(strings=mm["strings"], code=mm["code"], fns=[_fn_fields(x) for x in mm["fns"]], nsec=mm["nsec"],
                dbg=len(mm["dbg"]), imps=len(mm["imps"]))
    n = 0
    if real != spec:
        rp = ctx.save_replay("model-image.nvm", src=img)
        ctx.violation("all-or-nothing: the module nvm_deserialize returns for the model image is not the module the "
                      "specification derives: real %s / spec %s" % (json.dumps(real)[:400], json.dumps(spec)[:400]), rp)
    res = [x for x in out if x.get("k") == "fault"]
    if len(res) != len(faults):
        raise InfraError("probe answered %d of %d model faults" % (len(res), len(faults)))
    for rec, x in zip(faults, res):
        n += 1
        if x["len"] == rec["len"] and (x["last4"] == rec["last4"] or rec["len"] < 4) and rec["len"] > 32 and x["crc"] != rec["crc"]:
            # the code's checksum function is not the CRC-32 of the specification: that is drift between code and
            # specification, not by itself a C12 violation -- whether damaged files are still refused is decided below
            # and on the compiler-produced files
            ctx.assumptions.append("DRIFT: nvm_crc32 of the code differs from CRC-32 (NvmLoad.tla) on a damaged model image") \
                if not any(a.startswith("DRIFT: nvm_crc32") for a in ctx.assumptions) else None
        elif x["len"] != rec["len"] or (x["last4"] != rec["last4"] and rec["len"] >= 4):
            raise InfraError("probe and model disagree on fault %s: damaged length/tail/checksum %s/%s/%s vs %s/%s/%s "
                             "(fault application or CRC-32 of the code differs from NvmLoad.tla)"
                             % (rec["f"], x["len"], x["last4"], x["crc"], rec["len"], rec["last4"], rec["crc"]))
        if x["loaded"]:
            _viol(ctx, "accepted:" + rec["f"]["cls"],
                  "damaged model image accepted by nvm_deserialize: fault %s (the model refuses it at stage %s)"
                  % (json.dumps(rec["f"]), rec["stage"]),
                  lambda x=x, rec=rec: ctx.save_replay("model-%s-%s-%s.nvm" % (rec["f"]["cls"], rec["f"]["a"], rec["f"]["b"]), src=x["path"]))
    return n, img, True


def _compile_corpus(ctx, tree, work):
    srcs = sorted(glob.glob(os.path.join(CORPUS, "*.nano")))
    if len(srcs) < 5:
        raise InfraError("corpus/c12 has only %d programs" % len(srcs))
    outdir = os.path.join(work, "nvm")
    os.makedirs(outdir, exist_ok=True)

    def one(src):
        base = os.path.splitext(os.path.basename(src))[0]
        cwd = os.path.join(work, "cc." + base)
        os.makedirs(cwd, exist_ok=True)
        out = os.path.join(outdir, base + ".nvm")
        p = sh([os.path.join(tree, "bin", "nano_virt"), src, "--emit-nvm", "-o", out], cwd=cwd, env=ctx.env(),
               timeout=120, check=False)
        if p.returncode != 0 or not os.path.exists(out):
            raise InfraError("corpus program %s does not compile: %s" % (src, (p.stdout + p.stderr)[-800:]))
        return out
    return parallel_map(one, srcs)


def _run_vm(ctx, tree, path, timeout=60):
    p = sh([os.path.join(tree, "bin", "nano_vm"), path], env=ctx.env(), timeout=timeout, check=False)
    return p.returncode, p.stdout, p.stderr


def run(ctx):
    quick = ctx.tier == "quick"
    work = ctx.dir("c12")
    tree = ctx.build("plain", targets=("nano_virt", "nano_vm"))
    probe = ctx.probe(PROBE, "plain")
    consts, raw = constants(ctx, probe)
    hooked = hook_present(tree)
    assumptions = [
        "faults are the classes of spec/NvmLoad.tla (single fault per file); tails and burst patterns are sampled "
        "(seeded), flips, truncations, magic/version bytes and checksum-bit bursts are exhaustive",
        "a 32-bit checksum cannot refuse every altered tail: for every file there are 2^(8n-32) appended tails of n >= 4 "
        "bytes (and truncations) with an equal CRC; they are constructed inputs and belong to property C13",
        "header fields other than magic, version and checksum (flags, entry point, section count, string-pool "
        "offset/length) are not covered by the checksum and are outside the statement of C12",
        "TLC, the C compiler and the sanitizers are trusted",
    ]

    # ---- the model, the asan build and the corpus are independent: overlap them ------------------------
    box = {}

    def bg(name, fn):
        def w():
            try:
                box[name] = fn()
            except BaseException as e:      # re-raised in the main thread
                box[name] = e
        t = threading.Thread(target=w)
        t.start()
        return t
    consts_m = dict(consts, SampleMod="23" if quick else "5")
    t1 = bg("model", lambda: _model(ctx, consts_m, quick))
    t2 = bg("asan", lambda: ctx.probe(PROBE, "asan"))
    files = _compile_corpus(ctx, tree, work)
    for t in (t1, t2):
        t.join()
    for k in ("model", "asan"):
        if isinstance(box[k], BaseException):
            raise box[k]
    r, image, faults = box["model"]
    probe_asan = box["asan"]
    if r.violated:
        rp = ctx.save_replay("NvmLoad.tlc.txt", content=r.out[-200000:])
        ctx.violation("NvmLoad.tla with the constants of this tree: invariant %s is violated (a fault of the catalogue "
                      "is not refused by the loader as specified)" % r.violated, rp)
    if image is None or len(faults) < 100:
        raise InfraError("NvmLoad printed no image / only %d faults" % len(faults))
    cat = image["catalogue"]
    maxburst, maxtail = cat["Burst"]["maxlen"], cat["Extend"]["maxlen"]

    trace = os.path.join(work, "c12.trace") if hooked else None
    n_model_replayed, imgpath, image_ok = _check_model_image(ctx, probe, image, faults, work, trace)
    targets = files + ([imgpath] if image_ok else [])

    # ---- good files run; the model image too ------------------------------------------------------------
    good_runs = {}
    for path in targets:
        rc, out, err = _run_vm(ctx, tree, path)
        if rc != 0 or not out:
            raise InfraError("undamaged file %s does not run under nano_vm (exit %s, %d bytes of output, %s): "
                             "C12 needs loadable files to damage" % (path, rc, len(out), err[-300:]))
        good_runs[path] = out

    # ---- the catalogue on every real file, plain and asan -------------------------------------------------
    accdir = os.path.join(work, "accepted")
    os.makedirs(accdir, exist_ok=True)
    tier = "quick" if quick else "thorough"
    jobs = [(pb, v, f) for (pb, v) in ((probe, "plain"), (probe_asan, "asan")) for f in targets]

    def exhaust(job):
        pb, variant, f = job
        t = tier
        return job, _probe(ctx, [pb, "exhaust", f, str(ctx.seed), t, str(maxburst), str(maxtail), accdir],
                           "%s (%s build)" % (os.path.basename(f), variant))
    classes = {}
    evaluations = distinct = 0
    per_file = {}
    crashed_files = set()
    for (pb, variant, f), (p, crashed) in parallel_map(exhaust, sorted(jobs, key=lambda j: -os.path.getsize(j[2]))):
        if crashed:
            crashed_files.add(f)
            continue
        recs = ndjson(p.stdout)
        summ = [x for x in recs if x.get("k") == "summary"][0]
        if not summ["good_loads"]:
            raise InfraError("nvm_deserialize refuses the undamaged file %s" % f)
        crc_drift = False
        if summ["internal_errors"]:
            # the CrcBit generator relies on the linearity of CRC-32; if its self-check fails the code's checksum is not the
            # CRC-32 of the specification (drift).  Its cases are then not meaningful, every other class still is.
            crc_drift = True
            if not any(a.startswith("DRIFT: CrcBit") for a in ctx.assumptions):
                ctx.assumptions.append("DRIFT: CrcBit fault generator self-check failed (%d) - the code's checksum is not linear like CRC-32; class skipped" % summ["internal_errors"])
        for x in recs:
            if x.get("k") == "accepted" and not (crc_drift and x["cls"] == "CrcBit"):
                _viol(ctx, "accepted:" + x["cls"],
                      "damaged file accepted by nvm_deserialize (%s build): %s of %s: %s"
                      % (variant, x["cls"], os.path.basename(f), json.dumps(x["desc"])),
                      lambda x=x: ctx.save_replay(os.path.basename(x["path"]), src=x["path"]))
        for cname, c in summ["classes"].items():
            a = classes.setdefault(cname, dict(evaluations=0, distinct=0, accepted=0))
            a["evaluations"] += c["evaluations"]
            a["accepted"] += c["accepted"]
            evaluations += c["evaluations"]
            if variant == "plain":
                a["distinct"] += c["distinct"]
                distinct += c["distinct"]
                per_file[os.path.basename(f)] = dict(size=summ["size"], body_bits=summ["body_bits"],
                                                     faults=sum(k["distinct"] for k in summ["classes"].values()))

    # ---- a sample of every class through the real nano_vm, and recorded by hook H3 ------------------------
    smpdir = os.path.join(work, "samples")
    os.makedirs(smpdir, exist_ok=True)
    per = 2 if quick else 6
    cases = []
    traced_files = [f for f in targets if os.path.getsize(f) <= (1600 if quick else 1 << 20)]
    for f in targets:
        tr = trace if (trace and f in traced_files) else "-"
        p, crashed = _probe(ctx, [probe, "sample", f, str(ctx.seed), str(per), str(maxburst), str(maxtail), smpdir, tr],
                            "sample of " + os.path.basename(f), timeout=600)
        for x in [y for y in ndjson(p.stdout) if y.get("k") == "case"]:
            x["orig"] = f
            cases.append(x)
    for x in cases:
        if x["damaged"] and x["loaded"]:
            _viol(ctx, "accepted:" + x["cls"], "damaged file accepted by nvm_deserialize: %s %s" % (x["id"], json.dumps(x.get("desc"))),
                  lambda x=x: ctx.save_replay(os.path.basename(x["path"]), src=x["path"]))

    def vm(x):
        return x, _run_vm(ctx, tree, x["path"])
    vm_runs = 0
    vm_samples = []
    for x, (rc, out, err) in parallel_map(vm, [c for c in cases if c["damaged"]]):
        vm_runs += 1
        size = os.path.getsize(x["path"])
        refused_msg = "invalid .nvm format" in err or (size == 0 and "Invalid file size" in err)
        if rc != 1 or out or not refused_msg:
            _viol(ctx, "nano_vm:" + x["cls"],
                  "nano_vm on a damaged file (%s, %s): exit status %s, %d bytes of program output, stderr %r "
                  "(expected: exit 1, 'invalid .nvm format', no output)"
                  % (x["id"], json.dumps(x.get("desc")), rc, len(out), err[:160]),
                  lambda x=x: ctx.save_replay(os.path.basename(x["path"]), src=x["path"]))
        if len(vm_samples) < 6 and x["id"].endswith(":0"):
            vm_samples.append(dict(id=x["id"], fault=x.get("desc"), exit=rc, stdout_bytes=len(out), stderr=err.strip()[:80]))

    # ---- trace validation ------------------------------------------------------------------------------
    traces_ok = 0
    trace_info = dict(hook_present=hooked)
    if hooked:
        loads, order = split_trace(trace)
        end, rej, und, tr = run_trace(ctx, "NvmLoadTrace", trace, consts)
        if tr.violated:
            rp = ctx.save_replay("c12.trace.ndjson", src=trace)
            ctx.violation("replaying the recorded loads through NvmLoad violates %s" % tr.violated, rp)
        elif end is None:
            raise InfraError("NvmLoadTrace did not reach the end of the trace:\n" + tr.out[-1500:])
        else:
            if rej:      # README rule 3: a rejection is re-run once before it is reported
                sub = os.path.join(work, "c12.rejected.trace")
                with open(sub, "w") as f:
                    for x in rej:
                        f.writelines(loads.get(x["id"], []))
                end2, rej2, _, _ = run_trace(ctx, "NvmLoadTrace", sub, consts)
                for x in rej2:
                    _viol(ctx, "trace",
                          "loader stage events of load %s are not a behaviour of NvmLoad: at line %s the code logged %s "
                          "while the specification (stage %s, events %s) could only do %s"
                          % (x["id"], x["l"], x["logged"][:200], x["spec_stage"], x["spec_events"], x["spec_could"]),
                          lambda x=x: ctx.save_replay("trace-%s.ndjson" % x["id"].replace("/", "_").replace(":", "_"),
                                                      content="".join(loads.get(x["id"], []))))
            traces_ok = end["accepted"]
            trace_info.update(loads=len(order), accepted=end["accepted"], rejected=end["rejected"], events=end["lines"],
                              tlc_states=tr.distinct)
    else:
        assumptions.append("hook H3 (hooks/h3-loader-trace.patch) is not applied to the tree under test: "
                           "loader stage traces were not validated in this run")

    sample_faults = [dict(model_fault=rec["f"], predicted_stage=rec["stage"], predicted_crc=rec["crc"]) for rec in faults[:3]]
    cov = dict(
        evaluations=evaluations + n_model_replayed + vm_runs + len(cases),
        # damaged files of the in-process enumeration; if it was cut short by a crash of the loader, at least the
        # sampled damaged files and the model faults that were loaded before are counted
        distinct_nontrivial=max(distinct, len([c for c in cases if c["damaged"]]) + n_model_replayed),
        rule="one evaluation = one damaged file handed to the real nvm_deserialize (plain and asan builds) or to nano_vm; "
             "distinct = distinct damaged files per original on the plain build (each flips at least one bit, drops or "
             "adds at least one byte, so none equals the original); classes and parameters are the catalogue printed by "
             "spec/NvmLoad.tla",
        exhaustive=True,
        exhaustive_note="every body bit, every truncation length, every 1-byte tail, every value of each magic/version byte, "
                        "every checksum bit; bursts at every bit offset (%s); tails of 2..%d bytes sampled"
                        % ("3 seeded length/pattern choices per offset" if quick else "every length 2..%d x 4 model patterns + 1 seeded" % maxburst, maxtail),
        states=r.distinct, transitions=r.generated, traces_validated_against_impl=traces_ok,
        model=dict(image_bytes=len(image["bytes"]), body_bits=image["bodybits"], invariants=list(MODEL_INVARIANTS),
                   violated=r.violated, faults_replayed_on_real_loader=n_model_replayed, image_loads_on_real_loader=image_ok, catalogue=cat),
        classes=classes, files=per_file, corpus_files=len(files), nano_vm_runs=vm_runs, trace=trace_info,
        constants=raw, violations_by_kind=dict(_SEEN),
        samples=sample_faults + vm_samples[:4],
    )
    return "fault_enumeration", cov, assumptions


def replay(ctx, path):
    """./check C12 --replay <artifact>: a damaged .nvm file (must be refused) or a recorded trace (.ndjson)."""
    tree = ctx.build("plain", targets=("nano_virt", "nano_vm"))
    probe = ctx.probe(PROBE, "plain")
    consts, _ = constants(ctx, probe)
    if path.endswith(".ndjson"):
        end, rej, und, tr = run_trace(ctx, "NvmLoadTrace", path, consts)
        if tr.violated or rej or end is None:
            ctx.violation("trace %s is not a behaviour of NvmLoad (%s)" % (path, tr.violated or rej[:1]), path)
    else:
        rc, out, err = _run_vm(ctx, tree, path)
        log("nano_vm %s: exit %s, stdout %r, stderr %r" % (path, rc, out[:80], err[:120]))
        if rc != 1 or out:
            ctx.violation("nano_vm accepts or runs the damaged file %s (exit %s, %d bytes of output)" % (path, rc, len(out)), path)
    return 1 if ctx.violations else 0
