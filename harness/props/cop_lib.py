"""Shared glue for C15 / C16 (FFI co-process): constants extraction, stand-in builds, runs, TLC record handling.

No oracle lives here: expected encodings, allowed outcome sets, fault scripts come from TLC
(spec/CopCodec.tla, spec/CopProtocol.tla, spec/CopTrace.tla).
"""
import json
import os
import re
import subprocess

from lib.common import (InfraError, STANDINS, VARIANTS, log, sh, tlc, limbs_to_int, sha)

SWITCHES_ALL = ["VM_SIGPIPE_DEFAULT", "DE_LEN_WRAP", "DE_COUNT_UNBOUNDED", "COP_REQBUF_FIXED"]
STEPS = ["beforeready", "afterready", "reqread1", "reqread2", "reply1", "reply2", "midreply1", "midreply2"]
KINDS = ["exit0", "exit1", "kill", "closein", "closeout", "shorthdr", "badversion", "badtype", "toolong",
         "shortpayload", "undecodable", "undecodable_wrap", "undecodable_count"]


def tla_set(xs):
    return "{" + ", ".join('"%s"' % x if isinstance(x, str) else str(x) for x in xs) + "}"


def extract_consts(ctx, tree, probe):
    """Wire constants from the built code (cop_probe --consts) + the request buffer size from vm_ffi.c."""
    c = json.loads(sh([probe, "--consts"], env=ctx.env()).stdout)
    if c["sizeof_header"] != c["COP_HEADER_SIZE"]:
        raise InfraError("CopMsgHeader is not COP_HEADER_SIZE bytes: %r" % c)
    src = open(os.path.join(tree, "src", "nanovm", "vm_ffi.c")).read()
    m = re.search(r"bool\s+vm_ffi_call_cop\s*\(.*?\n\}", src, re.S)
    body = m.group(0) if m else src
    mm = re.search(r"uint8_t\s+payload\s*\[\s*(\d+)\s*\]", body)
    c["REQBUF"] = int(mm.group(1)) if mm else 0          # 0: no fixed request buffer (heap buffer sized from the arguments)
    c["hooks"] = "NANOLANG_VERIF" in src
    return c


def codec_constants(c, mode, big=False, longlens=(), dev=()):
    return {"TagVoid": c["TAG_VOID"], "TagInt": c["TAG_INT"], "TagFloat": c["TAG_FLOAT"], "TagBool": c["TAG_BOOL"],
            "TagString": c["TAG_STRING"], "TagArray": c["TAG_ARRAY"], "TagOpaque": c["TAG_OPAQUE"],
            "Mode": '"%s"' % mode, "Big": "TRUE" if big else "FALSE",
            "LongLens": tla_set(sorted(longlens)), "Dev": tla_set(dev)}


def protocol_constants(c, dev=(), steps=STEPS, kinds=KINDS, argsizes=(9,), k=2, reslo=7):
    d = codec_constants(c, "protocol", dev=dev)
    d.update({"K": k, "Steps": tla_set(steps), "Kinds": tla_set(kinds), "ArgSizes": tla_set(sorted(argsizes)),
              "ReqCap": max(c["REQBUF"] - 6, 0), "ResLo": reslo,
              "Ver": c["COP_PROTO_VERSION"], "MsgInit": c["COP_MSG_INIT"], "MsgReq": c["COP_MSG_FFI_REQ"],
              "MsgShutdown": c["COP_MSG_SHUTDOWN"], "MsgResult": c["COP_MSG_FFI_RESULT"], "MsgError": c["COP_MSG_FFI_ERROR"],
              "MsgReady": c["COP_MSG_READY"], "MaxPayload": c["COP_MAX_PAYLOAD"]})
    return d


def build_standins(ctx, tree, variant="plain"):
    """fake_cop (as <tree>/bin/fake/nano_cop, linked against the repo objects incl. the real cop_main.c) and cop_runner."""
    fake_dir = os.path.join(tree, "bin", "fake")
    os.makedirs(fake_dir, exist_ok=True)
    fake = os.path.join(fake_dir, "nano_cop")
    runner = os.path.join(tree, "bin", "cop_runner")
    v = VARIANTS[variant]
    if not os.path.exists(fake):
        cmd = ["cc"] + v["cflags"].replace("-std=c99", "-std=gnu99").split() + ["-Wno-unused-parameter",
               "-I" + os.path.join(tree, "src"), "-o", fake, os.path.join(STANDINS, "fake_cop.c")] + \
              ctx.objects(tree) + ["-lm", "-rdynamic", "-lpthread"] + v["ldflags"].split()
        sh(cmd, cwd=tree, timeout=300)
    if not os.path.exists(runner):
        sh(["cc", "-O1", "-Wall", "-o", runner, os.path.join(STANDINS, "cop_runner.c")], timeout=120)
    return fake_dir, runner


def compile_nano(ctx, tree, text, name, workdir):
    src = os.path.join(workdir, name + ".nano")
    out = os.path.join(workdir, name + ".nvm")
    with open(src, "w") as f:
        f.write(text)
    p = sh([os.path.join(tree, "bin", "nano_virt"), src, "--emit-nvm", "-o", out], cwd=workdir, env=ctx.env(), check=False, timeout=120)
    if p.returncode != 0 or not os.path.exists(out):
        return None, (p.stdout + p.stderr)[-1500:]
    return out, ""


def run_vm(ctx, tree, runner, nvm, workdir, tag, isolate, cop_dir=None, extra_env=None, timeout_ms=30000, linger_ms=3000):
    """Run nano_vm [--isolate-ffi] under cop_runner; cop_dir is put first on PATH (real bin dir or the stand-in's)."""
    o = os.path.join(workdir, tag + ".out")
    e = os.path.join(workdir, tag + ".err")
    full = {k: v for k, v in os.environ.items() if not k.startswith(("NANOLANG_VERIF", "FAKE_COP_"))}
    full.update(ctx.env(extra_env or {}))
    full["PATH"] = (cop_dir + ":" if cop_dir else "") + os.path.join(tree, "bin") + ":" + os.environ.get("PATH", "/usr/bin:/bin")
    cmd = [runner, o, e, str(timeout_ms), str(linger_ms), "--", os.path.join(tree, "bin", "nano_vm")] + \
          (["--isolate-ffi"] if isolate else []) + [nvm]
    p = subprocess.run(cmd, cwd=workdir, env=full, stdout=subprocess.PIPE, stderr=subprocess.PIPE, timeout=timeout_ms / 1000.0 + linger_ms / 1000.0 + 30)
    try:
        r = json.loads(p.stdout.decode())
    except ValueError:
        raise InfraError("cop_runner failed: %s %s" % (p.stdout[-300:], p.stderr[-300:]))
    r["stdout"] = open(o, "rb").read()
    r["stderr"] = open(e, "rb").read().decode(errors="replace")
    r["cmd"] = " ".join(cmd[5:])
    return r


# ------------------------------------------------------------------ outcomes
def show_line(x):
    """a printed line of the spec's program -> the text nano_vm prints for it"""
    if x["s"] != "val":
        return x["s"]
    if x["t"] in ("int", "opaque"):
        return str(limbs_to_int(x["l"]))
    if x["t"] == "void":
        return "void"
    raise InfraError("printed value of type %s not supported by the replay" % x["t"])


def spec_outcome(rec):
    """TLC 'outcome' record -> comparable tuple (res, code, stdout lines, error reported, every co-process reaped)"""
    return (rec["res"], rec["code"], tuple(show_line(x) for x in rec["out"]), bool(rec["err"]),
            rec["reaped"] == rec["launched"])


def outcome_sets(records):
    acc = {}
    for r in records:
        if r.get("k") == "outcome":
            acc.setdefault((r["step"], r["kind"], r.get("argsize", 0)), set()).add(spec_outcome(r))
    return acc


def observed_outcome(r, cop_pids):
    lines = tuple(r["stdout"].decode(errors="replace").splitlines())
    err = "Runtime error" in r["stderr"]
    unreaped = [o for o in r["orphans"] if o["pid"] in cop_pids]
    return (r["res"], r["code"], lines, err, not unreaped)


def fmt_outcome(o):
    return "%s %s stdout=%s error_reported=%s all_reaped=%s" % (o[0], o[1], "|".join(o[2]), o[3], o[4])


def read_fake_log(path):
    evs = []
    if os.path.exists(path):
        for line in open(path):
            try:
                evs.append(json.loads(line))
            except ValueError:
                pass
    return evs


def run_tlc_protocol(ctx, c, dev, cfg="CopProtocolAsIs", **kw):
    r = tlc(ctx, "CopProtocol", cfg, constants=protocol_constants(c, dev=dev, **kw), workers=min(4, os.cpu_count() or 4),
            deadlock=True, timeout=900)
    return r
