"""C03 — compile-time shadow-test evaluation agrees with the compiled program.
(The same pipeline serves C06, see c06.py.)"""
import json, os, collections, random
from lib.common import *
from lib.nano_ast import *
from lib.gen_prog import Gen
from lib import families
from lib.sem_common import *
from lib.shadow_common import *
from lib.run_prog import Engines

PROP = "C03"


def base_corpus(ctx, n_gen):
    progs = {}
    for k, v in families.all_families().items():
        if "__files__" in v:
            continue
        # the body of main becomes a function of its own, so that the evaluator runs it in a shadow block
        q = json.loads(json.dumps(v))
        for f in q["funcs"]:
            if f["n"] == "main":
                f["n"] = "body_of_main"
        q["funcs"].append(Func("main", [], "int", [Ret(Call("body_of_main"))]))
        progs["fam_" + k] = q
    for k, v in float_arith_family().items():
        progs["fam_" + k] = v
    for k in range(n_gen):
        progs["gen_%d_%d" % (ctx.seed, k)] = Gen(ctx.seed * 9000011 + k).program()
    for k in range(n_gen // 3):
        progs["genmap_%d_%d" % (ctx.seed, k)] = Gen(ctx.seed * 9000011 + 500000 + k, features={"maps": True, "fnvals": k % 2 == 1}).program()
    # the specification's own example of static scoping (8.1) and a return inside a match arm
    progs["spec_8_1_static_scope"] = Program([
        Func("g", [], "int", [Ret(V("x"))]),
        Func("f", [], "int", [Let("x", "int", I(2)), Ret(Call("g"))]),
        Func("main", [], "int", [Println(Call("f")), Ret(I(0))])], globals_=[("x", "int", False, I(1))])
    if os.environ.get("VERIF_ONLY"):          # developer aid: restrict the corpus to the programs whose id matches
        progs = {k: v for k, v in progs.items() if re.search(os.environ["VERIF_ONLY"], k)}
    return progs


def float_arith_family():
    """float arithmetic is outside NanoSem (no IEEE arithmetic in TLA+): these programs are compared evaluator vs compiled
    twin only (the equality C03 itself states), NanoSem reports them as unspecified"""
    def FL(txt): return E("float", txt)
    out = {}
    acc = lambda n, step: [Let("s", "float", FL("0.0"), True), For("i", I(0), I(n), [Set("s", Bin("+", V("s"), FL(step)))])]
    out["float_sum_compare"] = Program([
        Func("balanced", [("n", "int")], "bool", acc(3, "0.1") + [Ret(Bin("==", V("s"), FL("0.3")))]),
        Func("balanced10", [("n", "int")], "bool", acc(10, "0.1") + [Ret(Bin("==", V("s"), FL("1.0")))]),
        Func("exact", [("n", "int")], "bool", acc(4, "0.5") + [Ret(Bin("==", V("s"), FL("2.0")))]),
        Func("drift", [("n", "int")], "bool", acc(10, "0.1") + [Ret(Bin("!=", V("s"), FL("1.0")))]),
        Func("below", [("n", "int")], "bool", acc(3, "0.1") + [Ret(Bin("<=", V("s"), FL("0.3")))]),
        Func("main", [], "int", [Println(Call("balanced", I(0))), Ret(I(0))])])
    return out


def build(ctx, n_gen, prop):
    """-> dict pid -> {prog_true, truth_true, prog_mixed, truth_mixed, native_prog}, plus TLC results"""
    base = base_corpus(ctx, n_gen)
    calls = {pid: shadow_calls(p, __import__('zlib').crc32(pid.encode()) % 100000 + ctx.seed) for pid, p in base.items()}
    base = {pid: p for pid, p in base.items() if calls[pid]}
    # pass A: what do the calls return?  (NanoSem decides)
    phase_a = {pid: with_print_shadows(p, calls[pid]) for pid, p in base.items()}
    ra, tlc_a = prescribe(ctx, [job(pid, q, what="shadow") for pid, q in phase_a.items()])
    out = {}
    rnd = random.Random(ctx.seed)
    for pid, p in base.items():
        rec = ra[pid]
        if any(s["status"].startswith("unspecified:float") for s in rec["shadows"]):
            # no prescription: shadow blocks only print, the evaluator's text is compared with the compiled twin's
            out[pid] = dict(true=phase_a[pid], truth_true=[], mixed=phase_a[pid], truth_mixed=[], calls=calls[pid], twin_only=True)
            continue
        if any(s["status"] != "ok" for s in rec["shadows"]):
            continue                                  # a call faults / exceeds fuel: not a shadow-test subject
        pt, tt = with_assert_shadows(p, calls[pid], rec)
        cands = [(fn, ci) for fn, cs in calls[pid].items() for ci in range(len(cs))]
        wrong = set(c for c in cands if rnd.random() < 0.4) or {cands[0]}
        pm, tm = with_assert_shadows(p, calls[pid], rec, wrong)
        out[pid] = dict(true=pt, truth_true=tt, mixed=pm, truth_mixed=tm, calls=calls[pid])
    return out, tlc_a


def native_twin(p):
    """a program whose main runs the shadow bodies in order (what the shipped binary would compute for the same calls)"""
    q = json.loads(json.dumps(p))
    funcs = [f for f in q["funcs"] if f["n"] != "main"]
    body = []
    for k, sh in enumerate(q["shadows"]):
        if sh["fn"] == "main":
            continue
        funcs.append(Func("shadowrun_%d" % k, [], "int", sh["b"] + [Ret(I(0))]))
        body.append(Ex(Call("shadowrun_%d" % k)))
    funcs.append(Func("main", [], "int", body + [Ret(I(0))]))
    q["funcs"] = funcs
    q["shadows"] = []
    return q


def evaluate(ctx, built, prop, full_compile=False):
    """run nanoc on every P_true / P_mixed; returns per-program observations"""
    eng = Engines(ctx)
    items = [(pid, kind) for pid in built for kind in ("true", "mixed")]

    def one(it):
        pid, kind = it
        src = pretty(built[pid][kind], default_shadows=False)
        d = eng.write("%s.%s" % (pid, kind), src)
        if full_compile:
            exe = os.path.join(d, "p.exe")
            r = lib_run([os.path.join(eng.bin, "nanoc_c"), "p.nano", "-o", "p.exe", "--verbose"], d, eng.env())
            r["exe"] = os.path.exists(exe)
        else:
            r = eng.shadow_only(d)
            r["exe"] = None
        r["src"] = src; r["dir"] = d
        return it, r
    return dict(parallel_map(one, items)), eng


def has_call(node, name):
    if isinstance(node, dict):
        if node.get("k") == "call" and node.get("s") == name:
            return True
        return any(has_call(v, name) for v in node.values())
    if isinstance(node, list):
        return any(has_call(v, name) for v in node)
    return False


def lib_run(cmd, cwd, env):
    from lib.run_prog import _run
    return _run(cmd, cwd, env, 300)


def run(ctx):
    n_gen = 40 if ctx.tier == "quick" else 400
    built, tlc_a = build(ctx, n_gen, PROP)
    # pass B: NanoSem prescribes the transcript of every shadow block of P_true and P_mixed
    jobs = []
    for pid, b in built.items():
        jobs.append(job(pid + "|true", b["true"], what="shadow"))
        jobs.append(job(pid + "|mixed", b["mixed"], what="shadow"))
        b["twin"] = native_twin(b["true"])
        jobs.append(job(pid + "|twin", b["twin"]))
    rb, tlc_b = prescribe(ctx, jobs)
    obs, eng = evaluate(ctx, built, PROP)
    twins, _ = run_engines(ctx, {pid: b["twin"] for pid, b in built.items()}, engines=("native",))
    stats = collections.Counter()
    samples, failing, trace_lines, seen = [], [], [], set()
    ks = known_switches(PROP)
    for (pid, kind), r in obs.items():
        text = (r["out"] + r["err"]).decode(errors="replace")
        events, tests = parse_transcript(text)
        want = rb["%s|%s" % (pid, kind)]["shadows"]
        seen.add(sha(r["src"]))
        if not any(e["e"] == "tc_ok" for e in events):
            stats["front-end-rejects"] += 1          # not an accepted program
            continue
        stats["programs"] += 1
        bad = None
        if built[pid].get("twin_only"):
            stats["twin-only(no prescription)"] += 1
            continue
        if [t["name"] for t in tests] != [w["fn"] for w in want]:
            bad = "tests run: %s, prescribed: %s" % ([t["name"] for t in tests], [w["fn"] for w in want])
        else:
            for t, w in zip(tests, want):
                if w["status"] != "ok":
                    continue
                if t["out"] != render_out(w["out"]):
                    bad = "test %s printed %r, prescribed %r" % (t["name"], t["out"][:120], render_out(w["out"])[:120]); break
                if (t["verdict"] == "FAILED") != (w["fails"] > 0) or (w["fails"] > 0 and t["nfail"] != w["fails"]):
                    bad = "test %s: verdict %s with %d failed assertion(s), prescribed %d" % (t["name"], t["verdict"], t["nfail"], w["fails"]); break
        if bad is None:
            stats["interp-as-prescribed"] += 1
            if len(samples) < 3:
                samples.append({"program": pid, "variant": kind, "tests": [{"name": t["name"], "verdict": t["verdict"], "out": t["out"][:60]} for t in tests[:4]]})
        else:
            failing.append((pid, kind, bad, r))
    # the compiled side: the native twin must print exactly what the evaluator printed for the same calls
    for pid, b in built.items():
        tw = twins[pid]["native"]
        o = rb[pid + "|twin"]
        if not tw["exe"]:
            stats["twin-no-exe:" + compile_class(tw)] += 1
            continue
        stats["twins"] += 1
        interp = obs[(pid, "true")]
        _, tests = parse_transcript((interp["out"] + interp["err"]).decode(errors="replace"))
        interp_out = "".join(t["out"] for t in tests if t["name"] != "main")
        nat_out = tw["run"]["out"].decode(errors="replace")
        if built[pid].get("twin_only"):
            interp_out = interp_out.replace(MARK + "\n", ""); nat_out = nat_out.replace(MARK + "\n", "")
        if nat_out == interp_out and tw["run"]["rc"] == 0:
            stats["native-twin-agrees"] += 1
        elif o["status"].startswith("fault:") and not built[pid].get("twin_only") and tw["run"]["rc"] not in (0, None) and \
                render_out(o["out"]).startswith(nat_out) and not any(f[0] == pid for f in failing):
            # the compiled twin stops at a run-time fault (a failed assertion inside a function body) exactly as its own
            # prescription says; in a shadow block the same failure is counted and the test goes on (7.4): the evaluator's
            # transcript was compared with the shadow-mode prescription above, there is nothing to compare across here
            stats["twin-stops-at-fault-as-prescribed"] += 1
        else:
            # who left the prescription?  (native deviations are C01/C02 findings; the evaluator's are C03's)
            if o["status"] == "ok" and not built[pid].get("twin_only") and nat_out != render_out(o["out"]) and interp_out == render_out(o["out"]):
                stats["native-side-deviates(C02)"] += 1
            elif not any(f[0] == pid and f[1] == "true" for f in failing):
                failing.append((pid, "true", "evaluator printed %r, the compiled program %r for the same calls" % (interp_out[:120], nat_out[:120]), interp))
    # attribution with the evaluator's known deviation switches
    if failing:
        singles = [s for s in ENGINE_SWITCHES["interp"] if s in ks]
        sws = singles + (["+".join(singles)] if len(singles) > 1 else [])
        jobs2 = []
        for pid, kind, bad, r in failing:
            for s in sws:
                jobs2.append(job("%s|%s|%s" % (pid, kind, s), built[pid][kind], dev=s.split("+"), what="shadow"))
        rc = prescribe(ctx, jobs2)[0] if jobs2 else {}
        for pid, kind, bad, r in failing:
            text = (r["out"] + r["err"]).decode(errors="replace")
            _, tests = parse_transcript(text)
            hit = None
            for s in sws:
                w = rc["%s|%s|%s" % (pid, kind, s)]["shadows"]
                stop = [j for j, x in enumerate(w) if x["status"] not in ("ok", "skipped")]
                if stop and w[stop[0]]["status"].startswith("fault:") and not built[pid].get("twin_only"):
                    # under this deviation a block ends in a run-time fault: the evaluator prints that block's output up to
                    # the fault, gives no verdict and runs nothing after it
                    j = stop[0]
                    if len(tests) == j + 1 and tests[j]["verdict"] is None and tests[j]["out"].startswith(render_out(w[j]["out"])) and \
                            "rror" in tests[j]["out"][len(render_out(w[j]["out"])):] and \
                            all(t["out"] == render_out(x["out"]) and (t["verdict"] == "FAILED") == (x["fails"] > 0) for t, x in zip(tests[:j], w[:j])):
                        hit = s; break
                    continue
                if stop and w[stop[0]]["status"].split(":")[0] in ("stuck", "unspecified", "fuel") and not built[pid].get("twin_only"):
                    # under this deviation the evaluator goes on with a value the specification has no meaning for (void from a
                    # refused array operation): the model can follow the run only up to that point, and must agree up to there
                    j = stop[0]
                    if len(tests) > j and tests[j]["out"].startswith(render_out(w[j]["out"])) and \
                            all(t["out"] == render_out(x["out"]) and (t["verdict"] == "FAILED") == (x["fails"] > 0) for t, x in zip(tests[:j], w[:j])) and \
                            rb["%s|%s" % (pid, kind)]["shadows"][j]["status"] == "ok":
                        hit = s; break
                    continue
                if len(w) == len(tests) and any(x["status"] == "ok" for x in w) and not built[pid].get("twin_only") \
                        and all(t["out"] == render_out(x["out"]) and (t["verdict"] == "FAILED") == (x["fails"] > 0)
                                                for t, x in zip(tests, w) if x["status"] == "ok"):
                    hit = s; break
            if not hit:          # findings identified by the builtins the program calls (evaluator's static array model)
                for f in findings_for(PROP):
                    calls_ = f.get("match", {}).get("calls")
                    if calls_ and any(has_call(built[pid][kind], c) for c in calls_):
                        ctx.known(f["id"], "the compile-time evaluator deviates, e.g. program %s (%s)" % (pid, bad[:100])); stats["known:" + f["id"]] += 1
                        hit = "pattern"
                        break
                if hit == "pattern":
                    continue
            if hit:
                base_w = rb["%s|%s" % (pid, kind)]["shadows"]
                rel = [s1 for s1 in hit.split("+") if len(hit.split("+")) == 1 or
                       [(x["out"], x["fails"]) for x in rc["%s|%s|%s" % (pid, kind, s1)]["shadows"]] != [(x["out"], x["fails"]) for x in base_w]]
                for s1 in rel or hit.split("+"):
                    ctx.known(ks[s1], "the compile-time evaluator deviates, e.g. program %s (%s)" % (pid, bad[:100]))
                stats["known:" + "+".join(ks[s1] for s1 in (rel or hit.split("+")))] += 1
            else:
                rep = {"program": pid, "variant": kind, "what": bad, "source": r["src"], "transcript": text[-3000:]}
                ctx.save_replay("%s_%s.nano" % (pid, kind), r["src"])
                ctx.violation("shadow evaluation of %s (%s): %s" % (pid, kind, bad), ctx.save_replay("%s_%s.json" % (pid, kind), json.dumps(rep, indent=1)))
    from props import gx_part
    gx_cov = gx_part.run_part(ctx, "C03")       # widened program universe: the evaluator against the shadow-mode prescription
    cov = dict(generator_exploration=gx_cov, programs=stats["programs"], disagreements_checked=len(failing), samples=samples or [{"note": "none"}],
               evaluations=len(obs) + len(twins), distinct_nontrivial=len(seen), classes=dict(stats),
               rule="every generated/family program gets shadow blocks calling each function; constants prescribed by NanoSem; P_true (all assertions hold) and P_mixed (a TLC-chosen subset falsified); distinct by source hash",
               states=tlc_a.distinct + tlc_b.distinct, transitions=tlc_a.generated + tlc_b.generated)
    return "translation_validation", cov, [
        "NanoSem.tla evaluates shadow blocks in order with shared global state (as run_shadow_tests does) and counts false assertions",
        "native side: a twin program whose main performs the same calls; native deviations already listed under C01/C02 are not C03 violations"]


def replay(ctx, path):
    rep = json.load(open(path))
    print(rep["what"]); print(rep["transcript"][-1500:])
    return 0
