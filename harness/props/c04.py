"""C04 — accepted programs never get stuck on any backend.

Model level: NanoType.tla + NanoSem.tla, job kind "sound": for every program of the corpus TLC evaluates
WT(p) => the run's status is ok or a documented fault (INVARIANT Sound of NanoSemRun) — type soundness of the specified
language on the bounded space, the analogue of the Coq progress/preservation pair for the whole core language.
Code level: every program the *real* type checker accepts (seeds, generator programs, the C05 mutants it lets through,
a zoo of constructs known to be fragile, programs at the documented limits) is pushed through both pipelines:
nanoc must produce an executable (no `Transpilation failed`, no `C compilation failed`), nano_virt must generate
bytecode that passes the verifier, and both runs must end normally or with a documented fault (assert, bounds,
division by zero natively, call depth): never a VM type / undefined / decode / stack error, never a fatal signal."""
import json, os, collections, random, re
from lib.common import *
from lib.nano_ast import *
from lib.gen_prog import Gen
from lib import families
from lib.sem_common import *
from lib.run_prog import Engines, _run
import props.c05 as c05

PROP = "C04"
P = families.prog


def zoo():
    """constructs the type checker accepts and a backend is known (or suspected) to choke on; one program each"""
    z = {}
    z["neg_of_negative_literal"] = P([Println(Un("-", I(-371)))])
    z["constant_overflow"] = P([Println(Bin("*", I(9223372036854775807), I(2)))])
    z["self_comparison"] = P([Let("x", "int", Call("t", I(3))), Println(Bin(">", V("x"), V("x")))])
    z["strlen_in_comparison"] = P([Let("s", "string", S("abc")), Let("i", "int", Call("t", I(1))), Println(Bin("<", V("i"), Call("str_length", V("s"))))])
    z["enum_in_tuple"] = P([Let("tp", "(int, string)", TLit([Enum("Color.Green"), S("x")])), Println(TIdx(V("tp"), 1))])
    z["enum_in_int_array"] = P([Let("a", "array<int>", ALit("int", [I(1), Enum("Color.Green")])), Println(Call("array_length", V("a")))])
    z["shadow_initialised_from_shadowed"] = P([Println(Call("f", S("abc")))],
        [Func("f", [("p", "string")], "int", [If(B(True), [Let("p", "string", Call("int_to_string", Call("str_length", V("p")))), Println(V("p"))], []), Ret(I(0))])])
    z["field_of_struct_literal_in_abs"] = P([Println(Call("abs", Field(SLit("Point", [("x", I(3)), ("y", I(-350))]), "x")))])
    z["mod_of_enum"] = P([Println(Bin("%", Enum("Color.Blue"), I(3)))])
    z["neg_of_enum"] = P([Println(Un("-", Enum("Color.Blue")))])
    z["local_of_other_function"] = Program([families.T, Func("f", [], "int", [Let("secret", "int", I(5)), Ret(V("secret"))]),
                                            Func("main", [], "int", [Println(V("secret")), Ret(I(0))])])
    z["global_named_like_libc_function"] = Program([families.T, Func("main", [], "int", [Println(V("log")), Ret(I(0))])], globals_=[("log", "int", False, I(3))])
    z["map_clear"] = P([Let("m", "HashMap<int, int>", Call("map_new")), Ex(Call("map_put", V("m"), I(1), I(2))), Ex(Call("map_clear", V("m"))), Println(Call("map_size", V("m")))])
    z["string_less_than"] = P([Println(Bin("<", S("a"), S("b")))])
    z["deep_recursion_1000"] = P([Println(Call("down", I(1000)))], [Func("down", [("n", "int")], "int", [If(Bin("<=", V("n"), I(0)), [Ret(I(0))], []), Ret(Bin("+", I(1), Call("down", Bin("-", V("n"), I(1)))))])])
    z["deep_recursion_5000"] = P([Println(Call("down", I(5000)))], [Func("down", [("n", "int")], "int", [If(Bin("<=", V("n"), I(0)), [Ret(I(0))], []), Ret(Bin("+", I(1), Call("down", Bin("-", V("n"), I(1)))))])])
    z["many_locals_260"] = P([Let("v%d" % k, "int", I(k)) for k in range(260)] + [Println(V("v259"))])
    z["nested_loops_12"] = P([_nest(12)])
    z["division_by_zero_variable"] = P([Let("z", "int", Call("t", I(0))), Println(Bin("/", I(7), V("z"))), Println(S("after"))])
    z["min_int_div_minus_one"] = P([Let("m", "int", Bin("-", I(-9223372036854775807), I(1))), Let("d", "int", Call("t", I(-1))), Println(Bin("/", V("m"), V("d")))])
    return z


def _nest(n):
    body = [Println(S("x"))]
    for k in range(n):
        body = [For("i%d" % k, I(0), I(1), body)]
    return body[0]


def _exprs(node):
    """every expression node of a program / function / statement list"""
    if isinstance(node, dict):
        if "k" in node and "i" in node and "f" in node and "arms" not in node:
            yield node
        for v in node.values():
            yield from _exprs(v)
    elif isinstance(node, list):
        for v in node:
            yield from _exprs(v)


def _stmts(node):
    if isinstance(node, dict):
        if "k" in node and "arms" in node:
            yield node
        for v in node.values():
            yield from _stmts(v)
    elif isinstance(node, list):
        for v in node:
            yield from _stmts(v)


def _lets(node):
    if isinstance(node, dict):
        if node.get("k") == "let" and "arms" in node:
            yield node
        for v in node.values():
            yield from _lets(v)
    elif isinstance(node, list):
        for v in node:
            yield from _lets(v)


LIBC_NAMES = {"log", "exp", "sin", "cos", "tan", "pow", "sqrt", "floor", "ceil", "round", "abs", "time", "index", "remove", "rename", "exit", "read", "write", "open", "close", "link", "signal", "y0", "y1", "j0", "j1"}
CMP = ("<", "<=", ">", ">=", "==", "!=")
# the syntactic shape a known C-compilation finding is tied to: the finding explains a failure only in a program of that shape
PROGRAM_HAS = {
    "neg_of_negative_literal": lambda p: any(e["k"] == "un" and e["s"] == "-" and e["a"][0]["k"] == "int" and e["a"][0]["i"][0] >= 32768 for e in _exprs(p)),
    "literal_arithmetic": lambda p: any(e["k"] == "bin" and e["s"] in ("+", "-", "*") and all(a["k"] == "int" for a in e["a"]) for e in _exprs(p)),
    "self_comparison": lambda p: any(e["k"] == "bin" and e["s"] in CMP and e["a"][0] == e["a"][1] for e in _exprs(p)),
    "strlen_in_comparison": lambda p: any(e["k"] == "bin" and e["s"] in CMP and any(a["k"] == "call" and a["s"] == "str_length" for a in e["a"]) for e in _exprs(p))
                                      or any(st["k"] == "for" and any(a["k"] == "call" and a["s"] == "str_length" for a in st["a"]) for st in _stmts(p)),     # the loop test i < strlen(s)
    "enum_in_composite": lambda p: any(e["k"] in ("tlit", "alit") and any(a["k"] == "enum" for a in e["a"]) for e in _exprs(p))
                                   or any(l["t"].startswith("(") and "Color" in l["t"] for l in _lets(p)),
    "let_mentions_own_name": lambda p: any(any(e["k"] == "var" and e["s"] == l["s"] for e in _exprs(l["a"])) for l in _lets(p)),
    "struct_literal_in_math_call": lambda p: any(e["k"] == "call" and e["s"] in ("abs", "min", "max") and any(x["k"] == "slit" for x in _exprs(e["a"])) for e in _exprs(p)),
    "string_ordering": lambda p: any(e["k"] == "bin" and e["s"] in ("<", "<=", ">", ">=") and any(a["k"] == "str" for a in e["a"]) for e in _exprs(p)),
    "global_named_like_libc": lambda p: any(g["n"] in LIBC_NAMES for g in p.get("globals", [])),
}


VM_STUCK = re.compile(r"type error|incompatible types|not a[n]? \w+|[Uu]ndefined|not found|Bad instruction|Unknown opcode|[Ss]tack (over|under)flow|out of range|not implemented", re.I)
VM_DOCUMENTED = re.compile(r"Assertion failed|out of bounds|Call depth exceeded|array is empty", re.I)


def classify_vm(v):
    if v["timeout"]: return "timeout"
    if v["sig"]: return "signal-%d" % v["sig"]
    err = v["err"].decode(errors="replace")
    if re.search(r"codegen failed|codegen error", err, re.I): return "codegen-failed"
    if "erification failed" in err: return "verify-failed"
    m = re.search(r"runtime error: (.*)", err)
    if m:
        # only messages that positively name an internal failure count as stuck; a documented fault or a message this
        # check does not know (wording may change) is not a violation
        if VM_DOCUMENTED.search(m.group(1)): return "fault"
        return "stuck:" + m.group(1)[:60] if VM_STUCK.search(m.group(1)) else "fault"
    return "normal"


def classify_native(n):
    if not n["exe"]:
        t = (n["compile"]["out"] + n["compile"]["err"]).decode(errors="replace")
        if "C compilation failed" in t:
            es = re.findall(r"error: (.*?)(?: \[-W|\n)", t)
            return "cc-failed: " + (re.sub(r"[‘’'`][^‘’'`]*[‘’'`]|\d+", "_", es[0])[:70] if es else "?")
        if "Transpilation failed" in t: return "transpile-failed"
        if n["compile"]["sig"]: return "compiler-signal-%d" % n["compile"]["sig"]
        return "no-exe:" + compile_class(n)
    r = n["run"]
    if r["timeout"]: return "timeout"
    if r["sig"] == 6: return "fault"          # abort(): runtime assertion (bounds) / contract violation
    if r["sig"] == 8: return "fault-div0"     # documented: division by zero in native code
    if r["sig"]: return "signal-%d" % r["sig"]
    return "normal" if r["rc"] == 0 or not r["err"] else ("fault" if re.search(rb"Assertion|Contract violation|out of bounds|Runtime Error", r["err"]) else "normal")


def run(ctx):
    rnd = random.Random(ctx.seed)
    progs = {}
    for k, v in zoo().items():
        progs["zoo_" + k] = v
    fams = families.all_families()
    for k in sorted(fams)[:: (2 if ctx.tier == "quick" else 1)]:
        progs["fam_" + k] = fams[k]
    for k in sorted(fams):
        if k.startswith("reuse_"):               # name-reuse programs: typing of a name depends on finding the right binder
            progs["fam_" + k] = fams[k]
    for k in range(20 if ctx.tier == "quick" else 150):
        progs["gen_%d_%d" % (ctx.seed, k)] = Gen(ctx.seed * 4000037 + k).program()
    for k in range(8 if ctx.tier == "quick" else 80):
        progs["genmap_%d_%d" % (ctx.seed, k)] = Gen(ctx.seed * 4000037 + 500000 + k, features={"maps": True, "fnvals": k % 2 == 1}).program()
    # the C05 mutants: those the real checker accepts although NanoType rejects them are C04 subjects as well
    _, allm = c05.build_mutants(ctx, 2 if ctx.tier == "quick" else 4)
    for mid, m in allm.items():
        progs["mut_" + mid] = m["prog"]
    what = {("mut_" + mid): m for mid, m in allm.items()}
    # model level: soundness jobs
    presc, r1 = prescribe(ctx, [job(pid, annotate_types(json.loads(json.dumps(p))), what="sound") for pid, p in progs.items()], fuel=200000, timeout=3000)
    unsound = [pid for pid, x in presc.items() if x["wt"] and x["status"].startswith("stuck")]
    if unsound:
        raise InfraError("NanoType/NanoSem: a well-typed program gets stuck in the specification itself: %s %s" % (unsound[0], presc[unsound[0]]["status"]))
    runs, eng = run_engines(ctx, progs)
    stats = collections.Counter(); samples = []; seen = set()
    kf = findings_for(PROP)
    for pid, rr in runs.items():
        n, v = rr["native"], rr["vm"]
        fe_text = v["err"].decode(errors="replace")
        accepted = not re.search(r"type check failed|Type checking failed|[Pp]arse error|Parsing failed|Error at line \d+, column \d+: (Expected|Unexpected)", fe_text) \
            and not (v["rc"] == 1 and not v["out"] and re.search(r"^-- [A-Z ]+ -+", fe_text, re.M) and "runtime error" not in fe_text and "codegen" not in fe_text)
        if not accepted:
            stats["rejected-by-type-checker"] += 1
            continue
        stats["accepted"] += 1
        seen.add(sha(rr["src"]))
        cv, cn = classify_vm(v), classify_native(n)
        spec = presc[pid]
        bad = []
        if cv not in ("normal", "fault"): bad.append("VM: " + cv)
        if cn not in ("normal", "fault", "fault-div0"): bad.append("native: " + cn)
        if not bad:
            stats["both-backends-fine"] += 1
            if len(samples) < 3:
                samples.append({"program": pid, "vm": cv, "native": cn, "spec_status": spec["status"], "well_typed_by_spec": spec["wt"]})
            continue
        # known finding?  by program family / mutated rule / backend failure class
        hit = None
        for f in kf:
            mt = f.get("match", {})
            if "zoo" in mt and pid == "zoo_" + mt["zoo"] and all(re.search(mt.get("class_regex", "."), b) for b in bad): hit = f["id"]
            if "class_regex" in mt and "zoo" not in mt and "rules" not in mt and all(re.search(mt["class_regex"], b) for b in bad) \
                    and ("program_has" not in mt or PROGRAM_HAS[mt["program_has"]](progs[pid])): hit = f["id"]
            if "program_regex" in mt and re.search(mt["program_regex"], pid) and \
                    all(b.startswith("VM:") and any(e in ("vm", "nano_vm") for e in mt.get("engines", [])) or
                        b.startswith("native:") and "native" in mt.get("engines", []) for b in bad): hit = f["id"]
            if "rules" in mt and pid in what and what[pid]["rule"] in mt["rules"] and re.search(mt.get("what_regex", "."), what[pid]["what"]): hit = f["id"]
        if hit:
            ctx.known(hit, "%s: %s" % (pid, "; ".join(bad)[:150])); stats["known:" + hit] += 1
            continue
        rep = {"program": pid, "problems": bad, "spec": {"wt": spec["wt"], "violates": spec["violates"], "status": spec["status"]}, "source": rr["src"],
               "vm_stderr": v["err"].decode(errors="replace")[-600:], "native_log": (n["compile"]["out"] + n["compile"]["err"]).decode(errors="replace")[-900:],
               "mutation": what.get(pid, {}).get("what")}
        ctx.save_replay(pid + ".nano", rr["src"])
        ctx.violation("%s is accepted by the type checker but %s" % (pid, "; ".join(bad)), ctx.save_replay(pid + ".json", json.dumps(rep, indent=1)))
    from props import gx_part
    gx_cov = gx_part.run_part(ctx, "C04")       # widened program universe: every accepted program must build and run on every engine
    cov = dict(generator_exploration=gx_cov, states=r1.distinct, transitions=r1.generated, traces_validated_against_impl=0, samples=samples or [{"note": "none"}],
               evaluations=2 * stats["accepted"], distinct_nontrivial=len(seen), classes=dict(stats),
               rule="zoo of fragile constructs + limits, families, seeded generator programs, C05 mutants; a program counts when the real type checker accepts it; model: Sound invariant (WT => not stuck) evaluated by TLC on every job")
    return "model_checking", cov, ["acceptance is read from the front end's diagnostics of nano_virt; the documented faults are recognised by message class",
                                   "VM instruction traces are validated against NanoVM.tla under C14, not repeated here"]


def replay(ctx, path):
    rep = json.load(open(path)); print(json.dumps({k: v for k, v in rep.items() if k != "source"}, indent=1)); return 0
