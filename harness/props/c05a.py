"""C05A — developer entry for the affine (resource struct) part of C05: `./check C05A` runs only props/c05_affine.py."""
from props import c05_affine

PROP = "C05A"


def run(ctx):
    stats, samples = c05_affine.run_affine(ctx)
    cov = dict(states=stats.pop("tlc_states"), transitions=stats.pop("tlc_transitions"), evaluations=stats.pop("evaluations"),
               distinct_nontrivial=stats.pop("distinct_sources"), samples=samples, mc_runs=stats.pop("mc_runs"), classes=dict(stats),
               rule="well-formed resource seeds (lib/families_affine.py; judged by NanoAffine.tla and NanoType.tla, accepted by the three tools) x single-point "
                    "mutations of lib/mutate_affine.py (use after consume, duplicated / dropped consume, consume on one branch, consume inside a new loop, move then "
                    "use, consume hoisted above a use, consume before return, shadowing); a mutant counts when TLC (NanoAffineRun) finds the intended rule in Violates "
                    "and an execution that really goes wrong; distinct by source hash; states = NanoAffineMC bodies checked for soundness/exactness + judged programs")
    return "model_checking", cov, c05_affine.ASSUMPTIONS


def replay(ctx, path):
    return c05_affine.replay(ctx, path)
