; nasm
.entry 0
.function main 0 1 0
  PUSH_I64 4
  HM_LEN
  PUSH_I64 1
  PRINTLN
  RET
.end
