; nasm
.entry 0
.function main 0 1 0
  PUSH_VOID
  PUSH_I64 1
  SUB
  PUSH_I64 1
  PRINTLN
  RET
.end
