; nasm
.entry 0
.function main 0 1 0
  PUSH_I64 4
  UNION_TAG
  PUSH_I64 1
  PRINTLN
  RET
.end
