; nasm
.entry 0
.function main 0 0 0
  PUSH_U8 7
  PUSH_U8 200
  LT
  PRINTLN
  PUSH_U8 200
  PUSH_U8 7
  GT
  PRINTLN
  PUSH_U8 200
  PUSH_U8 7
  LE
  PRINTLN
  PUSH_I64 0
  RET
.end
