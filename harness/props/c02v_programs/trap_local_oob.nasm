; nasm
.entry 0
.function main 0 1 0
  LOAD_LOCAL 9
  PUSH_I64 1
  PRINTLN
  RET
.end
