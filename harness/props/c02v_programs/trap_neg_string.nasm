; nasm
.entry 0
.function main 0 1 0
  PUSH_BOOL 1
  NEG
  PUSH_I64 1
  PRINTLN
  RET
.end
