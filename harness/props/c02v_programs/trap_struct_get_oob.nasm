; nasm
.entry 0
.function main 0 1 0
  PUSH_I64 4
  STRUCT_LITERAL 0 1
  STRUCT_GET 3
  PUSH_I64 1
  PRINTLN
  RET
.end
