; nasm
.entry 0
.function main 0 1 0
  LOAD_GLOBAL 5000
  PUSH_I64 1
  PRINTLN
  RET
.end
