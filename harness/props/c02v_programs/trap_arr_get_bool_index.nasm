; nasm
.entry 0
.function main 0 1 0
  PUSH_I64 4
  ARR_LITERAL 1 1
  PUSH_BOOL 0
  ARR_GET
  PUSH_I64 1
  PRINTLN
  RET
.end
