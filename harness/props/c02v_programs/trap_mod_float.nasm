; nasm
.entry 0
.function main 0 1 0
  PUSH_F64 5.5
  PUSH_F64 2.0
  MOD
  PUSH_I64 1
  PRINTLN
  RET
.end
