; nasm
.entry 0
.function main 0 1 0
  ARR_NEW 1
  ARR_POP
  PUSH_I64 1
  PRINTLN
  RET
.end
