; nasm
.entry 0
.function main 0 1 0
  PUSH_I64 4
  TUPLE_GET 0
  PUSH_I64 1
  PRINTLN
  RET
.end
